#!/bin/bash
# Offline build of the framework from files on disk (run once after restore).
set -e
cd "$(dirname "$0")"
(cd lean && lake build 2>&1 | tail -5)
if [ -x harness/rust/build.sh ]; then harness/rust/build.sh; fi
echo setup-ok
