#!/bin/bash
# Offline build of the framework from files on disk (run once after restore).
set -e
cd "$(dirname "$0")"
export PYTHONPATH="$PWD/harness:/repo" PYTHONDONTWRITEBYTECODE=1
(cd lean && lake build 2>&1 | tail -3)
harness/rust/build.sh
/venv/bin/python -m bridge.warm
echo setup-ok
