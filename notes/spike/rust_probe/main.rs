#[path = "/repo/edb/edgeql-parser/src/keywords.rs"] pub mod keywords;
#[path = "/repo/edb/edgeql-parser/src/position.rs"] pub mod position;
#[path = "/repo/edb/edgeql-parser/src/tokenizer.rs"] pub mod tokenizer;
#[path = "/repo/edb/edgeql-parser/src/validation.rs"] pub mod validation;
#[path = "/repo/edb/edgeql-parser/src/helpers/mod.rs"] pub mod helpers;
use std::io::{self, BufRead};
fn main() {
    let stdin = io::stdin();
    for line in stdin.lock().lines() {
        let line = line.unwrap();
        let t = tokenizer::Tokenizer::new(&line).validated_values().with_eof();
        for tok in t {
            match tok {
                Ok(t) => println!("  {:?} {:?} {:?}", t.kind, t.text, t.value),
                Err(e) => println!("  ERR {:?}", e),
            }
        }
        println!("--");
    }
}
