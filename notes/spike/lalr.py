import json, sys, time, collections
G = json.load(open('/tmp/spike/grammar.json'))
toks, precs, nonterms = G['toks'], G['precs'], G['nonterms']
# precedence order: build levels via relations (declared sequentially: each '>' or '=' last)
level = {}
cur = 0
for name,(assoc,rels) in precs.items():
    if not rels: level[name]=cur
    else:
        rel, other = rels[0]
        if rel == '>': cur = level[other]+1; level[name]=cur
        elif rel == '=': level[name]=level[other]
        else: raise Exception(rel)
assoc = {n:a for n,(a,_) in precs.items()}
start = [n for n,v in nonterms.items() if v['start']][0]
# symbols
T = set(toks) | {'<$>'}
N = set(nonterms)
prods = [("S'", [start, '<$>'], None, None)]
for n,v in nonterms.items():
    for rhs, prec, mn in v['prods']:
        for s in rhs:
            if s not in T and s not in N: print('UNDEF', s, 'in', n, mn)
        prods.append((n, rhs, prec, mn))
print(len(prods), 'productions')
by_lhs = collections.defaultdict(list)
for i,p in enumerate(prods): by_lhs[p[0]].append(i)
# nullable, first
nullable=set()
changed=True
while changed:
    changed=False
    for lhs,rhs,_,_ in prods:
        if lhs not in nullable and all(s in nullable for s in rhs):
            nullable.add(lhs); changed=True
first = {s:{s} for s in T}
for n in list(N)+["S'"]: first[n]=set()
changed=True
while changed:
    changed=False
    for lhs,rhs,_,_ in prods:
        for s in rhs:
            add = first[s]-first[lhs]
            if add: first[lhs]|=add; changed=True
            if s not in nullable: break
# LR(0) automaton
t0=time.time()
def closure(kernel):
    items=set(kernel); stack=list(kernel)
    while stack:
        p,d=stack.pop()
        rhs=prods[p][1]
        if d<len(rhs) and rhs[d] in by_lhs:
            for q in by_lhs[rhs[d]]:
                it=(q,0)
                if it not in items: items.add(it); stack.append(it)
    return items
states=[]; index={}
def get_state(kernel):
    k=frozenset(kernel)
    if k in index: return index[k], False
    index[k]=len(states); states.append(k); return index[k], True
get_state([(0,0)])
trans={}
i=0
while i<len(states):
    items=closure(states[i])
    nxt=collections.defaultdict(list)
    for p,d in items:
        rhs=prods[p][1]
        if d<len(rhs): nxt[rhs[d]].append((p,d+1))
    for s,k in nxt.items():
        j,_=get_state(k); trans[(i,s)]=j
    i+=1
print(len(states),'LR0 states', time.time()-t0,'s')
json.dump({'n':len(states)}, open('/tmp/spike/lr0.json','w'))
# ---- LALR(1) lookaheads via DeRemer-Pennello-ish simple propagation (dragon book alg 4.63) ----
t0=time.time()
# For each state kernel item, compute spontaneous lookaheads and propagation links.
# Use LR(1) closure with dummy lookahead '#'.
def first_of_seq(seq, la):
    out=set()
    for s in seq:
        out |= first[s]
        if s not in nullable: return out
    out.add(la); return out
def closure1(items):
    # items: set of (p,d,la)
    res=set(items); stack=list(items)
    while stack:
        p,d,la=stack.pop()
        rhs=prods[p][1]
        if d<len(rhs) and rhs[d] in by_lhs:
            fs=first_of_seq(rhs[d+1:], la)
            for q in by_lhs[rhs[d]]:
                for b in fs:
                    it=(q,0,b)
                    if it not in res: res.add(it); stack.append(it)
    return res
LA = collections.defaultdict(set)   # (state, p, d) -> set of terminals
prop = collections.defaultdict(set)
LA[(0,0,0)].add('<$>') if False else None
for i,kernel in enumerate(states):
    for (p,d) in kernel:
        J = closure1({(p,d,'#')})
        for (q,e,la) in J:
            rhs=prods[q][1]
            if e<len(rhs):
                j = trans[(i,rhs[e])]
                tgt=(j,q,e+1)
                if la=='#': prop[(i,p,d)].add(tgt)
                else: LA[tgt].add(la)
print('links done', time.time()-t0)
changed=True
while changed:
    changed=False
    for src,tgts in prop.items():
        s=LA[src]
        if not s: continue
        for t in tgts:
            if not s<=LA[t]:
                LA[t]|=s; changed=True
print('propagated', time.time()-t0)
# build actions
def tok_prec(t): return toks.get(t)
def prod_prec(p, mode):
    lhs,rhs,prec,mn=prods[p]
    if prec: return prec
    if mode=='last':
        for s in reversed(rhs):
            if s in T and tok_prec(s): return tok_prec(s)
    elif mode=='first':
        for s in rhs:
            if s in T and tok_prec(s): return tok_prec(s)
    return None
for mode in ('none','last','first'):
    conflicts=collections.Counter(); unresolved=[]
    nact=0
    for i,kernel in enumerate(states):
        items=closure(kernel)
        # reductions with lookaheads: need LA for non-kernel complete items (empty prods): compute via closure1 on kernel with real LAs
        red=collections.defaultdict(list)  # tok -> [p]
        full=set()
        for (p,d) in kernel:
            for la in LA[(i,p,d)]: full.add((p,d,la))
        if i==0: full.add((0,0,'<$>'))
        J=closure1(full)
        for (p,d,la) in J:
            if d==len(prods[p][1]) and p!=0: 
                if p not in red[la]: red[la].append(p)
        shifts={s for (st,s) in trans if st==i and s in T} if False else None
        for la,ps in red.items():
            sh = (i,la) in trans
            if len(ps)>1:
                unresolved.append(('RR',i,la,[prods[p][0]+':'+str(prods[p][3]) for p in ps])); continue
            if sh:
                p=ps[0]; pp=prod_prec(p,mode); tp=tok_prec(la)
                if pp is None or tp is None:
                    unresolved.append(('SR-noprec',i,la,prods[p][0]+':'+str(prods[p][3]),pp,tp)); continue
                if level[pp]==level[tp]:
                    conflicts['assoc-'+assoc[tp]]+=1
                else: conflicts['level']+=1
    print(mode, 'resolved:',dict(conflicts),'unresolved:',len(unresolved))
    c=collections.Counter((u[0],u[3] if u[0]!='RR' else tuple(u[3])) for u in unresolved)
    for k,v in c.most_common(12): print('   ',v,k)
print('total', time.time()-t0)
