import sys, types, re, json
sys.path.insert(0,'/tmp/shimtest')
import shim
import parsing as plib
from edb.common import parsing as ep
from edb.edgeql.parser.grammar import start, tokens as gtokens, precedence as gprec
mod = start
# collect
toks = {}   # name -> prec name or None
precs = {}  # name -> (assoc, [(rel, other)])
nonterms = {}  # name -> {'start':bool, 'prods': [(rhs list, prec or None, methodname)]}
import inspect
def all_items(mod):
    for name, v in mod.__dict__.items():
        if isinstance(v, type):
            yield name, v
for name, v in all_items(mod):
    doc = v.__doc__ or ''
    if issubclass(v, plib.Precedence) and v is not plib.Precedence and v is not ep.Precedence:
        m = re.match(r'\s*%(\w+)(.*)', doc)
        if not m: print('noprec', name, doc); continue
        rels = re.findall(r'([<>=])(\w+)', m.group(2))
        precs[name] = (m.group(1), rels)
    elif issubclass(v, plib.Token) and v not in (plib.Token, ep.Token):
        m = re.match(r'\s*%token\s*(\S+)?\s*(?:\[(\w+)\])?', doc)
        if not m: print('notok', name, doc); continue
        toks[m.group(1) or name] = m.group(2)
    elif issubclass(v, plib.Nonterm) and v not in (plib.Nonterm, ep.Nonterm, ep.ListNonterm):
        m = re.match(r'\s*%(start|nonterm)\s*(\S+)?\s*(?:\[(\w+)\])?', doc)
        if not m: print('nont', name, repr(doc)); continue
        prods=[]
        for mn, meth in v.__dict__.items():
            d = getattr(meth,'__doc__',None)
            if callable(meth) and d and d.strip().startswith('%reduce'):
                mm = re.match(r'\s*%reduce\s*(.*?)\s*(?:\[(\w+)\])?\s*$', d.strip(), re.S)
                rhs = [x for x in mm.group(1).split() if x != '\\']
                if rhs==['<e>']: rhs=[]
                prods.append((rhs, mm.group(2), mn))
        nonterms[m.group(2) or name] = {'start': m.group(1)=='start', 'prec': m.group(3), 'prods': prods}
print(len(toks), 'tokens', len(precs), 'precs', len(nonterms), 'nonterms', sum(len(n['prods']) for n in nonterms.values()), 'prods')
print([n for n,v in nonterms.items() if v['start']])
json.dump({'toks':toks,'precs':precs,'nonterms':nonterms}, open('/tmp/spike/grammar.json','w'))
