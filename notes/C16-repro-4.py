"""C16 reproduction 4 (plain asyncio): transfer-disconnect-failure.  max=1.
acquire('d1') served; acquire('d2') waits (waitlist); the tick enters Mode D;
release('d1') -> _schedule_transfer(d1 -> d2): d2.pending_conns = 1; the disconnect
callback raises -> `_transfer` dies after `_cur_capacity -= 1`; d2.pending_conns stays 1
forever, so d2 never counts as starving and its request is never served (capacity 0/1).

run:  /venv/bin/python notes/C16-repro-4.py
"""
import asyncio
import sys
from _repro_common import pool_impl, connect, expect_hang


async def failing_disconnect(conn):
    await asyncio.sleep(0.001)
    raise ConnectionError('backend went away while closing ' + repr(conn))


async def main():
    pool = pool_impl.Pool(connect=connect, disconnect=failing_disconnect, max_capacity=1)
    c = await pool.acquire('d1')
    t = asyncio.create_task(pool.acquire('d2'))
    await asyncio.sleep(0.05)          # a few ticks: Mode D
    pool.release('d1', c)              # -> transfer to d2, whose disconnect fails
    return await expect_hang(pool, t, "acquire('d2')")

if __name__ == '__main__':
    loop = asyncio.new_event_loop()
    loop.set_exception_handler(lambda l, c: None)   # the dead _transfer task is reported at exit
    sys.exit(loop.run_until_complete(main()))
