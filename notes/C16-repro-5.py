"""C16 reproduction 5 (plain asyncio): prune_inactive_connections() on a database that has
a queued request and no connection.  The block is marked `suppressed`; the next `_tick`
puts it into `_to_drop` and `_drop_block` raises AssertionError
(`assert not block.count_waiters()`) — on EVERY tick from then on, so no rebalancing
happens any more and the request is never served.

run:  /venv/bin/python notes/C16-repro-5.py
"""
import asyncio
import sys
from _repro_common import pool_impl, connect, disconnect, expect_hang

errors = []


async def main():
    loop = asyncio.get_running_loop()
    loop.set_exception_handler(lambda l, ctx: errors.append(ctx))
    pool = pool_impl.Pool(connect=connect, disconnect=disconnect, max_capacity=1)
    c = await pool.acquire('d0')
    t = asyncio.create_task(pool.acquire('d1'))    # waits: pool full
    await asyncio.sleep(0)
    await pool.prune_inactive_connections('d1')    # e.g. DROP DATABASE / branch maintenance
    pool.release('d0', c)                          # before the first tick: stays idle in d0
    rc = await expect_hang(pool, t, "acquire('d1')")
    kinds = {}
    for ctx in errors:
        k = f"{ctx.get('message')} / {type(ctx.get('exception')).__name__}"
        kinds[k] = kinds.get(k, 0) + 1
    print('loop exception handler saw:', kinds)
    return rc

if __name__ == '__main__':
    sys.exit(asyncio.run(main()))
