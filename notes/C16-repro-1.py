"""C16 reproduction 1 (plain asyncio, real clock, real ticks; no harness loop):
a waiter that was woken by release() loses its connection to the rebalancing tick
and is never served although the pool is EMPTY afterwards (3 free slots).

Mechanism (pool.py): release() puts the connection on the stack and wakes the
waiter (it will run in the NEXT loop iteration).  A `_tick` that runs in the same
iteration sees  total_nwaiters (1) < max (3) and cur (3) >= max  ->  _maybe_rebalance
-> _try_shrink_block(a): quota(a)=1, conns 2 -> steal + _schedule_discard.  Because a
scheduled discard leaves the connection in `block.conns` until the task starts,
count_conns_over_quota() does not decrease and the loop discards the WHOLE idle stack.
The woken waiter finds the stack empty, re-queues, and nothing ever opens a
connection for it: later ticks are in "Mode B" (cur < max: no active rebalance).

The only timing requirement: the two release() calls happen in the same event-loop
iteration as a tick, before it.  We get that by scheduling them with loop.call_at
one microsecond before the tick's deadline (both timers are then due together and
asyncio runs them in deadline order).

run:  cd notes && /venv/bin/python C16-repro-1.py
"""
import asyncio
import sys

sys.path[:0] = ['/verif/harness', '/repo']
import shim  # noqa: F401,E402
from edb.server.connpool import pool as pool_impl  # noqa: E402


class Conn:
    n = 0

    def __init__(self, db):
        Conn.n += 1
        self.name = f'{db}#{Conn.n}'

    def __repr__(self):
        return self.name


async def connect(db):
    await asyncio.sleep(0.001)
    return Conn(db)


async def disconnect(conn):
    await asyncio.sleep(0.001)


async def main():
    loop = asyncio.get_running_loop()
    pool = pool_impl.Pool(connect=connect, disconnect=disconnect, max_capacity=3)
    cb = await pool.acquire('b')
    pool.release('b', cb)                       # b keeps one idle connection
    c1 = await pool.acquire('a')
    c2 = await pool.acquire('a')                # capacity 3/3
    t3 = asyncio.create_task(pool.acquire('a'))  # must wait: no room
    await asyncio.sleep(0)
    assert not t3.done() and pool._htick is not None
    when = pool._htick.when()

    def holders_finish():
        pool.release('a', c1)                   # wakes t3 (runs next iteration)
        pool.release('a', c2)
    loop.call_at(when - 1e-6, holders_finish)    # same iteration as the tick, before it

    try:
        c3 = await asyncio.wait_for(asyncio.shield(t3), 3.0)
        print('served:', c3)
        return 0
    except asyncio.TimeoutError:
        blocks = {n: dict(conns=len(b.conns), pending=b.pending_conns, idle=len(b.conn_stack),
                          waiters=b.count_waiters(), quota=b.quota) for n, b in pool._blocks.items()}
        print(f'HANG: acquire("a") not served after 3 s of real time (~300 ticks). '
              f'capacity {pool.current_capacity}/{pool.max_capacity}, blocks: {blocks}')
        t3.cancel()
        return 1

if __name__ == '__main__':
    sys.exit(asyncio.run(main()))
