"""shared by the C16-repro-*.py scripts: plain asyncio, real clock, the real Pool"""
import asyncio
import sys

sys.path[:0] = ['/verif/harness', '/repo']
import shim  # noqa: F401,E402
from edb.server.connpool import pool as pool_impl  # noqa: E402
from edb.server.connpool import config as pool_config  # noqa: E402

pool_config.logger.disabled = True


class Conn:
    n = 0

    def __init__(self, db):
        Conn.n += 1
        self.name = f'{db}#{Conn.n}'

    def __repr__(self):
        return self.name


async def connect(db):
    await asyncio.sleep(0.001)
    return Conn(db)


async def disconnect(conn):
    await asyncio.sleep(0.001)


def describe(pool):
    blocks = {n: dict(conns=len(b.conns), pending=b.pending_conns, idle=len(b.conn_stack),
                      waiters=b.count_waiters(), quota=b.quota, suppressed=b.suppressed)
              for n, b in pool._blocks.items()}
    return (f'capacity {pool.current_capacity}/{pool.max_capacity}, starving={pool._is_starving}, '
            f'blocks: {blocks}')


async def expect_hang(pool, task, what, seconds=3.0):
    try:
        c = await asyncio.wait_for(asyncio.shield(task), seconds)
        print('served:', c)
        return 0
    except asyncio.TimeoutError:
        print(f'HANG: {what} not served after {seconds} s of real time (ticks every ~10 ms). '
              + describe(pool))
        task.cancel()
        return 1
