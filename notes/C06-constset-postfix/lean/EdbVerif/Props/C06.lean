/-
C06 — Reported cardinality and duplicate-freedom bound the actual result.

Part A: the cardinality algebra.  Every statement is about the definitions of
`EdbVerif/Gen/Card.lean`, which `harness/gen/card.py` regenerates from
`edb/edgeql/compiler/inference/cardinality.py`, `multiplicity.py`, `context.py`
and `edb/edgeql/qltypes.py` on every run: the theorems are re-checked against
what the code says now.  `γ c n` = "a result of `n` elements is allowed by the
reported cardinality `c`" (`Model/CardSpec.lean`).

Part B: MiniQL (`Model/MiniQL.lean`), a core calculus with the bag semantics of
`edb/tools/toy_eval_model.py` (`eval`) and the `__infer_*` rules of the compiler
transcribed from the generated combinators (`inferCard`, `inferMult`).
The full-strength statements

    C06_card : accepts q → Conforms db → γ (inferCard q) (eval db q).length
    C06_mult : accepts q → Conforms db → γm (inferMult q).own (eval db q)

are FALSE of the rules that exist: the `…_counterexample` theorems below prove
the negation on concrete witnesses (each replayed on the real compiler and the
real toy evaluator by `harness/props/c06.py`, see `corpus/C06/witnesses.json`).
What is proved instead are the `…_partial` variants, which exclude exactly the
rule instances that are unsound:

* `C06_card_partial`  — for queries in which `_analyse_filter_clause`
  (equality filter on exclusive pointers ⇒ AT_MOST_ONE) does not fire
  (`noExclRule`);  missing for the full statement: a proof of that rule under
  the side conditions "the compared expression does not depend on the FILTER
  subject" and "the pointer chain is taken as written" — and these conditions
  are not checked by the code (counterexamples 1, 2).
* `C06_mult_partial`  — additionally no UNIQUE claim taken from the
  `disjoint_union` bookkeeping (FOR / UNION / FILTER), from an exclusive
  property over a possibly-duplicate source, or from the injective-operator
  rule, or from `types_disjoint` against a union type (`multSafe`);  counterexamples 3–8 show the
  excluded claims are wrong.  UNION of two plain object types whose lineages (type + all descendants)
  are disjoint IS covered.
-/
import EdbVerif.Lemmas.MiniQLMult
import EdbVerif.Lemmas.MiniQLCheck

namespace EdbVerif.C06
open EdbVerif.Gen.Card EdbVerif.Card EdbVerif.MiniQL

/-! ## A. the cardinality algebra (generated definitions) -/

/-- `_bounds_to_card ∘ _card_to_bounds = id` -/
theorem bounds_roundtrip (c : Card) :
    boundsToCard (cardToBounds c).lower (cardToBounds c).upper = c :=
  Card.bounds_roundtrip c

/-- exact reading of `_bounds_to_card` -/
theorem boundsToCard_iff (l u : Bound) (n : Nat) :
    γ (boundsToCard l u) n ↔ (l ≠ .ZERO → 1 ≤ n) ∧ (u ≠ .MANY → n ≤ 1) :=
  Card.γ_boundsToCard_iff l u n

/-- `cartesian_cardinality` (tuples, arrays, paths, regular calls, DISTINCT, IF, FOR):
    the size of a product is allowed by the Cartesian cardinality. -/
theorem cartesian_sound {cs : List Card} {ns : List Nat} (h : Γ cs ns) :
    γ (cartesianCardinality cs) (natProd ns) := Card.cartesian_sound h

/-- `_union_cardinality`: sizes add up. -/
theorem union_sound {cs : List Card} {ns : List Nat} (h : Γ cs ns) :
    γ (unionCardinality cs) ns.sum := Card.union_sound h

/-- `max_cardinality` (`??`, UNLESS CONFLICT … ELSE, pointer overloading): sound for any
    result no larger than some operand and non-empty as soon as some operand is. -/
theorem max_sound {cs : List Card} {ns : List Nat} {c : Card} (h : Γ cs ns)
    (hc : maxCardinality cs = .ok c) {n : Nat}
    (hlow : ∀ m ∈ ns, 1 ≤ m → 1 ≤ n) (hup : ∃ m ∈ ns, n ≤ m) : γ c n := Card.max_sound h hc hlow hup

/-- `a ?? b ?? …` evaluates to its first non-empty operand. -/
theorem coalesce_sound {cs : List Card} {ns : List Nat} {c : Card} (h : Γ cs ns)
    (hc : maxCardinality cs = .ok c) : γ c (firstNonzero ns) := Card.coalesce_sound h hc

/-- `min_cardinality`: sound for any result no larger than every operand and non-empty when all are. -/
theorem min_sound {cs : List Card} {ns : List Nat} {c : Card} (h : Γ cs ns)
    (hc : minCardinality cs = .ok c) {n : Nat}
    (hlow : (∀ m ∈ ns, 1 ≤ m) → 1 ≤ n) (hup : ∀ m ∈ ns, n ≤ m) : γ c n := Card.min_sound h hc hlow hup

/-- the INTERSECT rule -/
theorem intersect_sound {cs : List Card} {ns : List Nat} {c : Card} (h : Γ cs ns)
    (hc : minCardinality cs = .ok c) {n : Nat} (hup : ∀ m ∈ ns, n ≤ m) :
    γ (boundsToCard .ZERO (cardToBounds c).upper) n := Card.intersect_sound h hc hup

/-- `max_cardinality` / `min_cardinality` raise exactly on the empty sequence. -/
theorem max_min_error_iff (cs : List Card) :
    ((∃ e, maxCardinality cs = .error e) ↔ cs = []) ∧ ((∃ e, minCardinality cs = .error e) ↔ cs = []) :=
  ⟨Card.maxCardinality_error_iff cs, Card.minCardinality_error_iff cs⟩

/-- `_typemod_to_card` -/
theorem typemod_sound (tm : TypeModifier) (n : Nat) :
    γ (typemodToCard tm) n ↔
      match tm with
      | .SetOfType => True
      | .OptionalType => n ≤ 1
      | .SingletonType => n = 1 := Card.γ_typemod tm n

/-- OPTIONAL parameter: an empty argument is passed on as one absent value. -/
theorem optional_arg_sound {c : Card} {n : Nat} (h : γ c n) :
    γ (boundsToCard .ONE (cardToBounds c).upper) (if n = 0 then 1 else n) := Card.optional_arg_sound h

/-- `_standard_call_cardinality` for the iteration semantics of calls. -/
theorem stdCall_sound (d : FnDecl) (cards : List Card) (vals : List (List Val))
    (h : All2 γ cards (vals.map List.length))
    (hret : ∀ args, γ (typemodToCard d.ret) (d.impl args).length) :
    γ (stdCallCard d.params d.ret cards) ((callArgs (d.params.zip vals)).flatMap d.impl).length :=
  MiniQL.stdCall_sound d cards vals h hret

/-- FILTER: crossing with AT_MOST_ONE is sound for any sub-bag. -/
theorem filter_sound {c : Card} {n m : Nat} (h : γ c n) (hm : m ≤ n) :
    γ (cartesianCardinality [c, .AT_MOST_ONE]) m := Card.filter_sound h hm

/-- `LIMIT 1` -/
theorem limit_one_sound {c : Card} {n : Nat} (h : γ c n) :
    γ (boundsToCard (cardToBounds c).lower .ONE) (min n 1) := Card.limit_one_sound h

/-- a literal `LIMIT k`, `k ≥ 1`: unchanged cardinality -/
theorem limit_const_sound {c : Card} {n k : Nat} (h : γ c n) (hk : 1 ≤ k) : γ c (min n k) :=
  Card.limit_const_sound h hk

/-- lower bound set to ZERO (`LIMIT 0`, computed LIMIT, OFFSET, EXCEPT, json casts): any sub-bag -/
theorem zero_lower_sound {c : Card} {n m : Nat} (h : γ c n) (hm : m ≤ n) :
    γ (boundsToCard .ZERO (cardToBounds c).upper) m := Card.zero_lower_sound h hm

/-- LIMIT and OFFSET in ONE SELECT: `__infer_select_stmt` applies the LIMIT rule, then the OFFSET
    rule; the calculus nests `offset` inside `limit`; both orders agree. -/
theorem limit_offset_commute (c : Card) (n : Nat) :
    limitConstCard (offsetCard c) n = offsetCard (limitConstCard c n) ∧
      limitCard (offsetCard c) = offsetCard (limitCard c) := MiniQL.limit_offset_commute c n

/-- whenever an OFFSET is present (with no or any static LIMIT) the reported cardinality allows
    the size `min (n - k) l` and its lower bound is zero -/
theorem offset_limit_sound {c : Card} {n : Nat} (k : Nat) (lim : Option Nat) (h : γ c n) :
    γ (match lim with
        | none => offsetCard c
        | some l => limitConstCard (offsetCard c) l)
      (match lim with
        | none => n - k
        | some l => min (n - k) l) ∧
    (match lim with
        | none => offsetCard c
        | some l => limitConstCard (offsetCard c) l).canBeZero = true :=
  MiniQL.offset_limit_sound k lim h

/-- DISTINCT -/
theorem distinct_sound {c : Card} {n m : Nat} (h : γ c n) (hm : m ≤ n) (hne : 1 ≤ n → 1 ≤ m) :
    γ (cartesianCardinality [c]) m := Card.distinct_sound h hm hne

/-- FOR: the sum over the iterations -/
theorem for_sound {ci cb : Card} {ms : List Nat} (hi : γ ci ms.length)
    (hb : ∀ m ∈ ms, γ cb m) : γ (cartesianCardinality [cb, ci]) ms.sum := Card.for_sound hi hb

/-- IF/ELSE: one branch per element of the condition -/
theorem ifElse_sound {ca cc cb : Card} {na nb : Nat} {ms : List Nat}
    (ha : γ ca na) (hb : γ cb nb) (hc : γ cc ms.length) (hms : ∀ m ∈ ms, m = na ∨ m = nb) :
    γ (cartesianCardinality [ca, cc, cb]) ms.sum := MiniQL.ifElse_sound ha hb hc hms

/-- `is_subset_cardinality` decides inclusion of concretisations. -/
theorem subset_iff (c0 c1 : Card) :
    isSubsetCardinality c0 c1 = true ↔ ∀ n, γ c0 n → γ c1 n := Card.isSubset_iff c0 c1

/-- `_max_multiplicity` never raises and returns the largest `own`. -/
theorem maxMultiplicity_ok (ms : List MultiplicityInfo) :
    ∃ r, maxMultiplicity ms = .ok r ∧ (∀ m ∈ ms, m.own.toNat ≤ r.own.toNat) ∧
      (ms = [] → r.own = .UNIQUE) := by
  obtain ⟨r, h1, _, _, h2, h3, _⟩ := Card.maxMultiplicity_ok ms
  exact ⟨r, h1, h2, h3⟩

/-! ## B. the calculus -/

/-- Cardinality soundness for every accepted query in which the exclusive-filter rule
    does not fire, on every conforming database, for every interpretation of the
    functions that respects their declared return modifier. -/
theorem C06_card_partial (sch : Schema) (db : DB) (hc : Conforms sch db) (hs : SigOK sch)
    (q : Q) (Γ : VCtx) (env : List Val) (ha : accepts sch Γ q = true)
    (hn : noExclRule sch Γ q = true) (he : EnvOK sch db Γ env) :
    γ (inferCard sch Γ q) (eval sch db env q).length :=
  (card_ok sch db hc hs q Γ env ha hn he).1

/-- Multiplicity soundness (EMPTY ⇒ empty, UNIQUE ⇒ duplicate-free) on the fragment
    `multSafe`, for every `distinct_iterator` context. -/
theorem C06_mult_partial (sch : Schema) (db : DB) (hc : Conforms sch db) (hs : SigOK sch)
    (q : Q) (Γ : VCtx) (env : List Val) (dist : Option Nat) (ha : accepts sch Γ q = true)
    (hn : noExclRule sch Γ q = true) (hm : multSafe sch Γ dist q = true) (he : EnvOK sch db Γ env) :
    γm (inferMult sch Γ dist q).info.own (eval sch db env q) :=
  mult_ok sch db hc hs q Γ env dist ha hn hm he

/-! ### witnesses -/

def eqFn : FnDecl :=
  { params := [.SingletonType, .SingletonType], ret := .SingletonType, isOp := true, kind := .eq,
    impl := fun a => match a with
      | [[x], [y]] => [Val.ofBool (x == y)]
      | _ => [Val.ofBool false] }

/-- `type T1; type T0 { required p0: int64 {constraint exclusive}; required p1: int64;
     multi p2: T1; p3: T0 }` -/
def wsch : Schema :=
  { ptrs := [ ⟨0, true, false, none, true⟩, ⟨0, true, false, none, false⟩,
              ⟨0, false, true, some 1, false⟩, ⟨0, false, false, some 0, false⟩ ],
    fns := [eqFn] }

theorem wsch_sig : SigOK wsch := by
  constructor
  intro f d hf args
  match f, hf with
  | 0, hf =>
    simp only [Schema.fn?, wsch, List.getElem?_cons_zero, Option.some.injEq] at hf
    subst hf
    show γ .ONE _
    simp only [eqFn, γ]
    split <;> rfl
  | _ + 1, hf => simp [Schema.fn?, wsch] at hf

def eqQ (a b : Q) : Q := .call 0 [a, b]

/-- two T0 objects `o1, o2` and one T1 object `o3` -/
def wdb (data : List ((Nat × Nat) × List Val)) : DB := { objs := [(1, 0), (2, 0), (3, 1)], ptrs := data }

/-- 1. `SELECT T0 FILTER .p0 = .p1` (p0 exclusive): reported AT_MOST_ONE, two objects qualify.
    `extract_filters` does not require the other side of `=` to be independent of the subject. -/
theorem C06_card_counterexample_dependent_rhs :
    ∃ (db : DB) (q : Q), Conforms wsch db ∧ SigOK wsch ∧ accepts wsch [] q = true ∧
      inferCard wsch [] q = .AT_MOST_ONE ∧ (eval wsch db [] q).length = 2 :=
  ⟨wdb [((0, 1), [.int 5]), ((0, 2), [.int 6]), ((1, 1), [.int 5]), ((1, 2), [.int 6])],
   .filter (.root 0) (eqQ (.path (.var 0) 0) (.path (.var 0) 1)),
   checkDB_sound _ _ (by decide), wsch_sig, by decide, by decide, by decide⟩

/-- 2. `SELECT T0 FILTER .p3 = (SELECT T0 LIMIT 1)` (p3 a plain single link to T0): reported
    AT_MOST_ONE, two objects qualify.  `extract_filters` takes `id` as the filtered pointer
    whenever the static type of the matched side equals the type of the subject. -/
theorem C06_card_counterexample_link_taken_as_id :
    ∃ (db : DB) (q : Q), Conforms wsch db ∧ SigOK wsch ∧ accepts wsch [] q = true ∧
      inferCard wsch [] q = .AT_MOST_ONE ∧ (eval wsch db [] q).length = 2 :=
  ⟨{ objs := [(1, 0), (2, 0), (3, 0)],
     ptrs := [((0, 1), [.int 5]), ((0, 2), [.int 6]), ((0, 3), [.int 7]),
              ((1, 1), [.int 1]), ((1, 2), [.int 1]), ((1, 3), [.int 1]),
              ((3, 2), [.obj 1]), ((3, 3), [.obj 1])] },
   .filter (.root 0) (eqQ (.path (.var 0) 3) (.limitC (.root 0) 1)),
   checkDB_sound _ _ (by decide), wsch_sig, by decide, by decide, by decide⟩

def wdbBase : DB :=
  wdb [((0, 1), [.int 5]), ((0, 2), [.int 6]), ((1, 1), [.int 7]), ((1, 2), [.int 7]),
       ((2, 1), [.obj 3]), ((2, 2), [.obj 3])]

/-- 3. `(T0 UNION T0).p0` (p0 exclusive): classified UNIQUE, every value occurs twice.
    The multiplicity of a path ending in an exclusive property ignores its source. -/
theorem C06_mult_counterexample_exclusive_property_over_duplicates :
    ∃ (q : Q), Conforms wsch wdbBase ∧ accepts wsch [] q = true ∧
      (inferMult wsch [] none q).info.own = .UNIQUE ∧ ¬ (eval wsch wdbBase [] q).Nodup :=
  ⟨.path (.union (.root 0) (.root 0)) 0, checkDB_sound _ _ (by decide), by decide, by decide, by decide⟩

/-- 4. `FOR x IN T0 UNION x.p2` (p2 a multi link, both objects link to `o3`): classified UNIQUE.
    Any non-DUPLICATE path rooted at the iterator is marked `disjoint_union`. -/
theorem C06_mult_counterexample_for_path_rooted_at_iterator :
    ∃ (q : Q), Conforms wsch wdbBase ∧ accepts wsch [] q = true ∧
      (inferMult wsch [] none q).info.own = .UNIQUE ∧ ¬ (eval wsch wdbBase [] q).Nodup :=
  ⟨.for_ (.root 0) (.path (.var 0) 2), checkDB_sound _ _ (by decide), by decide, by decide, by decide⟩

/-- 5. `FOR x IN {7, 8} UNION (SELECT (T0 UNION T0) FILTER .p1 = x)`: classified UNIQUE.
    `_infer_stmt_multiplicity` returns DISTINCT_UNION whatever the multiplicity of the subject. -/
theorem C06_mult_counterexample_for_filter_distinct_union :
    ∃ (q : Q), Conforms wsch wdbBase ∧ accepts wsch [] q = true ∧
      (inferMult wsch [] none q).info.own = .UNIQUE ∧ ¬ (eval wsch wdbBase [] q).Nodup :=
  ⟨.for_ (.constSet [7, 8]) (.filter (.union (.root 0) (.root 0)) (eqQ (.path (.var 0) 1) (.var 1))),
   checkDB_sound _ _ (by decide), by decide, by decide, by decide⟩

/-- 6. `FOR x IN {1, 2} UNION (x UNION x)`: classified UNIQUE, the result is `{1, 1, 2, 2}`.
    UNION keeps UNIQUE when both operands carry `disjoint_union`; no schema is involved. -/
theorem C06_mult_counterexample_union_of_disjoint_flagged :
    ∃ (q : Q), accepts wsch [] q = true ∧
      (inferMult wsch [] none q).info.own = .UNIQUE ∧ ¬ (eval wsch wdbBase [] q).Nodup :=
  ⟨.for_ (.constSet [1, 2]) (.union (.var 0) (.var 0)), by decide, by decide, by decide⟩

/-- 7. `FOR x IN {1, 2, 0} UNION (FOR y IN x UNION (FOR z IN {0} UNION z))`: classified UNIQUE, the
    result is `{0, 0, 0}`.  The middle FOR resets `distinct_iterator` to None, the innermost FOR marks its
    body disjoint with respect to `z`, and both enclosing FORs accept that flag. -/
theorem C06_mult_counterexample_nested_for_flag_leak :
    ∃ (q : Q), accepts wsch [] q = true ∧
      (inferMult wsch [] none q).info.own = .UNIQUE ∧ ¬ (eval wsch wdbBase [] q).Nodup :=
  ⟨.for_ (.constSet [1, 2, 0]) (.for_ (.var 0) (.for_ (.constSet [0]) (.var 0))), by decide, by decide, by decide⟩

/-- 8. `(T0 UNION T1) UNION T0` (T0, T1 unrelated): classified UNIQUE, every T0 object occurs twice.
    The left operand has the union type `T0 | T1`; nothing descends from a union type, so
    `types_disjoint` holds against any plain type, including its own components and their subtypes
    (`{Person, Note, Robot}` with a common subtype of Person and Robot is the same defect). -/
theorem C06_mult_counterexample_union_type_operand :
    ∃ (q : Q), Conforms wsch wdbBase ∧ accepts wsch [] q = true ∧
      (inferMult wsch [] none q).info.own = .UNIQUE ∧ ¬ (eval wsch wdbBase [] q).Nodup :=
  ⟨.union (.union (.root 0) (.root 1)) (.root 0), checkDB_sound _ _ (by decide), by decide, by decide,
   by decide⟩

/-- two optional query parameters `$0`, `$1`, both passed as `{}` -/
def psch : Schema := { ptrs := [], fns := [], params := [false, false] }
def pdb : DB := { objs := [], ptrs := [], params := [none, none] }

/-- `SELECT {<optional int64>$0, <optional int64>$1}` (a ConstantSet of two optional parameters, both passed
    as `{}`): reported MANY since the repair of `__infer_const_set`; `… LIMIT 1` is AT_MOST_ONE. -/
example : Conforms psch pdb ∧ accepts psch [] (.constSet [.p 0, .p 1]) = true ∧
    noExclRule psch [] (.constSet [.p 0, .p 1]) = true ∧
    inferCard psch [] (.constSet [.p 0, .p 1]) = .MANY ∧ eval psch pdb [] (.constSet [.p 0, .p 1]) = [] ∧
    inferCard psch [] (.limitC (.constSet [.p 0, .p 1]) 1) = .AT_MOST_ONE :=
  ⟨checkDB_sound _ _ (by decide), by decide, by decide, by decide, by decide, by decide⟩

/-! ### inheritance: UNION of object types -/

/-- `T0 Named ← T1 Person ← T2 Employee; T3 Robot extending Named; T4 Cyborg extending Employee, Robot;
    T5 Note`, with `p0` a multi link Named → Note -/
def hsch : Schema :=
  { ptrs := [⟨0, false, true, some 5, false⟩], fns := [],
    descs := [[1, 2, 3, 4], [2, 4], [4], [4]] }

/-- one object of every type -/
def hdb : DB :=
  { objs := [(1, 0), (2, 1), (3, 2), (4, 3), (5, 4), (6, 5)],
    ptrs := [((0, 1), [.obj 6]), ((0, 5), [.obj 6])] }

/-- the disjointness test looks at ALL descendants: a type and its grandchild, and two siblings sharing a
    deep subtype (diamond), are not disjoint; unrelated types are, and then the union is duplicate-free
    (an instance of `C06_mult_partial`) -/
example : Conforms hsch hdb ∧
    typesDisjoint hsch (.obj [0]) (.obj [2]) = false ∧ typesDisjoint hsch (.obj [1]) (.obj [3]) = false ∧
    typesDisjoint hsch (.obj [1]) (.obj [5]) = true ∧
    (inferMult hsch [] none (.union (.root 0) (.root 2))).info.own = .DUPLICATE ∧
    (inferMult hsch [] none (.union (.root 1) (.root 3))).info.own = .DUPLICATE ∧
    eval hsch hdb [] (.union (.root 1) (.root 3)) = [.obj 2, .obj 3, .obj 5, .obj 4, .obj 5] ∧
    accepts hsch [] (.path (.union (.root 1) (.root 5)) 0) = false ∧
    multSafe hsch [] none (.union (.root 1) (.root 5)) = true ∧
    (inferMult hsch [] none (.union (.root 1) (.root 5))).info.own = .UNIQUE ∧
    eval hsch hdb [] (.path (.union (.root 0) (.root 2)) 0) = [.obj 6] :=
  ⟨checkDB_sound _ _ (by decide), by decide, by decide, by decide, by decide, by decide, by decide, by decide,
   by decide, by decide, by decide⟩

/-! ### non-vacuity: the hypotheses of the partial theorems are met by non-trivial queries -/

/-- `SELECT (FOR x IN T0 UNION (x.p0, count(x.p2))) …`-like query through paths, FOR, a tuple and
    DISTINCT on a database with data: accepted, no exclusive rule, in the safe fragment. -/
def exQ : Q :=
  .distinct (.union (.path (.root 0) 2) (.path (.filter (.root 0) (eqQ (.path (.var 0) 1) (.lit 7))) 2))

example : Conforms wsch wdbBase ∧ SigOK wsch ∧ accepts wsch [] exQ = true ∧
    noExclRule wsch [] exQ = true ∧ multSafe wsch [] none exQ = true ∧ EnvOK wsch wdbBase [] [] ∧
    inferCard wsch [] exQ = .MANY ∧ (inferMult wsch [] none exQ).info.own = .UNIQUE ∧
    eval wsch wdbBase [] exQ = [.obj 3] :=
  ⟨checkDB_sound _ _ (by decide), wsch_sig, by decide, by decide, by decide, .nil, by decide, by decide,
   by decide⟩

example : Γ [.ONE, .AT_LEAST_ONE, .AT_MOST_ONE] [1, 3, 0] ∧
    cartesianCardinality [.ONE, .AT_LEAST_ONE, .AT_MOST_ONE] = .MANY ∧
    unionCardinality [.ONE, .AT_LEAST_ONE, .AT_MOST_ONE] = .AT_LEAST_ONE :=
  ⟨.cons rfl (.cons (by decide) (.cons (by decide) .nil)), by decide, by decide⟩

end EdbVerif.C06
