/-
MiniQL — a small core calculus of EdgeQL with a bag semantics (`eval`) and the
cardinality / multiplicity inference of the real compiler transcribed on it
(`inferCard`, `inferMult`), built from the GENERATED combinators of
`EdbVerif/Gen/Card.lean`.

* `eval`      transcribes the set semantics of `edb/tools/toy_eval_model.py`
              (the reference the property names) for the fragment below;
* `inferCard` transcribes the `__infer_*` rules of
              `edb/edgeql/compiler/inference/cardinality.py`;
* `inferMult` transcribes `edb/edgeql/compiler/inference/multiplicity.py`
              (including its `disjoint_union` bookkeeping for FOR and the
              identity comparisons against the module-level singletons);
* `accepts`   the static conditions under which the compiler accepts the query
              (typing of paths, singleton LIMIT/OFFSET, arities).

The calculus is the *desugared* core: every correlation goes through an explicit
binder (`for_`, `filter`), there is no implicit path factoring.  De Bruijn
indices: `var 0` is the innermost binder.

Core Lean only (the driver loads this file).
-/
import EdbVerif.Gen.Card

namespace EdbVerif.MiniQL
open EdbVerif.Gen.Card

/-! ## values, schema, database -/

/-- Values.  Tuples are right-nested pairs ending in `unit`; booleans are the
    integers 0 / 1 (as in the toy model, where `True == 1`). -/
inductive Val where
  | int (n : Int)
  | obj (id : Nat)
  | unit
  | pair (a b : Val)
deriving DecidableEq, Repr

def Val.truthy : Val → Bool
  | .int n => n != 0
  | _ => false

def Val.ofBool (b : Bool) : Val := .int (if b then 1 else 0)

/-- static type, as far as the inference rules care: an object type — a plain type `[t]` or a union
    type, given by the (not yet normalised) list of its components — or anything else -/
inductive Ty where
  | obj (ts : List Nat)
  | other
deriving DecidableEq, Repr

/-- a pointer declaration (`PointerRef.out_cardinality`, `is_object(target)`, `is_exclusive`) -/
structure PtrDecl where
  srcTy : Nat
  required : Bool
  multi : Bool
  /-- `some t`: a link to objects of type `t`; `none`: a scalar property -/
  link : Option Nat
  exclusive : Bool
deriving Repr

/-- the names the inference rules single out -/
inductive FnKind where
  | eq        -- `std::=`
  | and_      -- `std::AND`
  | plus      -- `std::+` / `std::++` ("operators known to be injective")
  | other
deriving DecidableEq, Repr

/-- a function or operator with declared type modifiers and an interpretation:
    `impl` receives one list per parameter (the whole set for `SET OF`, a
    singleton or `[]` for `OPTIONAL`, a singleton otherwise). -/
structure FnDecl where
  params : List TypeModifier
  ret : TypeModifier
  /-- `OperatorCall` (true) or `FunctionCall` (false) -/
  isOp : Bool
  kind : FnKind
  impl : List (List Val) → List Val

structure Schema where
  ptrs : List PtrDecl
  fns : List FnDecl
  /-- `descs[t]`: all (transitive) strict descendants of object type `t` (`t.descendants(schema)`) -/
  descs : List (List Nat) := []
  /-- query parameters `$i`: `true` = required (`<int64>$i`), `false` = `<optional int64>$i` -/
  params : List Bool := []

/-- the type itself and its descendants: the exact types whose objects belong to `t` -/
def Schema.lineage (s : Schema) (t : Nat) : List Nat := t :: (s.descs[t]?).getD []

def Schema.ptr? (s : Schema) (p : Nat) : Option PtrDecl := s.ptrs[p]?
def Schema.fn? (s : Schema) (f : Nat) : Option FnDecl := s.fns[f]?

/-- `ptrref.dir_cardinality(Outbound)` -/
def PtrDecl.card (d : PtrDecl) : Cardinality :=
  Cardinality.fromSchemaValue d.required (if d.multi then .Many else .One)

def PtrDecl.tgtTy (d : PtrDecl) : Ty :=
  match d.link with
  | some t => .obj [t]
  | none => .other

/-- a database: typed objects and, per (pointer, source object), the stored targets -/
structure DB where
  objs : List (Nat × Nat)                   -- (id, type)
  ptrs : List ((Nat × Nat) × List Val)      -- ((pointer, source id), targets)
  /-- the arguments the query is run with: `none` = `{}` passed for an optional parameter -/
  params : List (Option Int) := []

def DB.get (db : DB) (p id : Nat) : List Val :=
  match db.ptrs.find? (fun e => e.1 == (p, id)) with
  | some e => e.2
  | none => []

/-- all objects whose exact type is one of `lin` (a type and its descendants), in database order -/
def DB.extent (db : DB) (lin : List Nat) : List Val :=
  (db.objs.filter (fun o => lin.contains o.2)).map (fun o => Val.obj o.1)

/-! ## syntax -/

/-- an element of a `ConstantSet`: a constant or a query parameter (`try_constant_set` folds both) -/
inductive CElem where
  | c (n : Int)
  | p (i : Nat)
deriving DecidableEq, Repr

instance (n : Nat) : OfNat CElem n := ⟨.c n⟩

inductive Q where
  | lit (n : Int)                      -- a constant
  | empty                              -- `{}`
  | constSet (es : List CElem)         -- `{e₁, …, eₖ}` of constants / parameters, folded into a ConstantSet
  | param (i : Nat)                    -- a query parameter `$i`
  | var (i : Nat)                      -- a bound variable (FOR iterator / FILTER subject)
  | root (t : Nat)                     -- all objects of type `t`
  | path (src : Q) (p : Nat)           -- `src.p`
  | tuple (es : List Q)                -- `(e₁, …, eₖ)`
  | union (a b : Q)                    -- `a UNION b`   (`{a, b}` is the same thing)
  | distinct (a : Q)                   -- `DISTINCT a`
  | coalesce (a b : Q)                 -- `a ?? b`
  | ifElse (a c b : Q)                 -- `a IF c ELSE b`
  | call (f : Nat) (args : List Q)     -- function / operator call
  | filter (a w : Q)                   -- `SELECT a FILTER w`   (binds the element of `a` in `w`)
  | limit (a k : Q)                    -- `SELECT a LIMIT k`    (`k` not a literal)
  | limitC (a : Q) (n : Nat)           -- `SELECT a LIMIT <literal n>`
  | offset (a k : Q)                   -- `SELECT a OFFSET k`
  | for_ (it body : Q)                 -- `FOR x IN it UNION body`  (binds `x` in `body`)
deriving Repr

/-! ## bag semantics -/

/-- keep first occurrences (`toy_eval_model.dedup`) -/
def dedup : List Val → List Val
  | [] => []
  | x :: xs => x :: (dedup xs).filter (· != x)

/-- Cartesian product of the element bags, as tuples (`itertools.product` order) -/
def tupProd : List (List Val) → List Val
  | [] => [Val.unit]
  | vs :: rest => vs.flatMap (fun v => (tupProd rest).map (fun r => Val.pair v r))

/-- the argument tuples a call is applied to: `SET OF` passes the set, `OPTIONAL`
    iterates but passes `[]` once when the argument is empty, singleton iterates -/
def callArgs : List (TypeModifier × List Val) → List (List (List Val))
  | [] => [[]]
  | (tm, vs) :: rest =>
    let alts : List (List Val) :=
      match tm with
      | .SetOfType => [vs]
      | .OptionalType => if vs.isEmpty then [[]] else vs.map (fun v => [v])
      | .SingletonType => vs.map (fun v => [v])
    alts.flatMap (fun a => (callArgs rest).map (fun r => a :: r))

def followPtr (db : DB) (p : Nat) (v : Val) : List Val :=
  match v with
  | .obj id => db.get p id
  | _ => []

/-- `LIMIT k` / `OFFSET k` with a computed `k`: `{}` means "no limit / offset" -/
def limitVal (k : List Val) : Option Nat :=
  match k with
  | [Val.int n] => some n.toNat
  | _ => none

/-- the value bound to parameter `i` -/
def DB.param (db : DB) (i : Nat) : List Val :=
  match db.params[i]? with
  | some (some n) => [Val.int n]
  | _ => []

def evalElem (db : DB) : CElem → List Val
  | .c n => [Val.int n]
  | .p i => db.param i

mutual
def eval (sch : Schema) (db : DB) : List Val → Q → List Val
  | _, .lit n => [Val.int n]
  | _, .empty => []
  | _, .constSet es => es.flatMap (evalElem db)
  | _, .param i => db.param i
  | env, .var i => match env[i]? with
    | some v => [v]
    | none => []
  | _, .root t => db.extent (sch.lineage t)
  | env, .path src p =>
    let out := (eval sch db env src).flatMap (followPtr db p)
    match sch.ptr? p with
    | some d => if d.link.isSome then dedup out else out
    | none => []
  | env, .tuple es => tupProd (evalList sch db env es)
  | env, .union a b => eval sch db env a ++ eval sch db env b
  | env, .distinct a => dedup (eval sch db env a)
  | env, .coalesce a b =>
    let x := eval sch db env a
    if x.isEmpty then eval sch db env b else x
  | env, .ifElse a c b =>
    let x := eval sch db env a
    let y := eval sch db env b
    (eval sch db env c).flatMap (fun v => if v.truthy then x else y)
  | env, .call f args =>
    match sch.fn? f with
    | some d => (callArgs (d.params.zip (evalList sch db env args))).flatMap d.impl
    | none => []
  | env, .filter a w =>
    (eval sch db env a).filter (fun v => (eval sch db (v :: env) w).any Val.truthy)
  | env, .limit a k =>
    match limitVal (eval sch db env k) with
    | some n => (eval sch db env a).take n
    | none => eval sch db env a
  | env, .limitC a n => (eval sch db env a).take n
  | env, .offset a k =>
    match limitVal (eval sch db env k) with
    | some n => (eval sch db env a).drop n
    | none => eval sch db env a
  | env, .for_ it body =>
    (eval sch db env it).flatMap (fun v => eval sch db (v :: env) body)
def evalList (sch : Schema) (db : DB) : List Val → List Q → List (List Val)
  | _, [] => []
  | env, q :: qs => eval sch db env q :: evalList sch db env qs
end

/-! ## static types (as far as the inference rules look at them) -/

/-- `MultiplicityInfo` together with "is it (identical to) one of the module
    level singletons EMPTY / UNIQUE / DUPLICATE / DISTINCT_UNION": the real code
    compares with `==` / `is` on a dataclass with `eq=False` -/
structure MI where
  info : MultiplicityInfo
  canon : Bool
deriving DecidableEq, Repr

/-- what the inference knows about a bound variable: the static type and the
    multiplicity of the expression it ranges over.  A reference to the variable
    re-infers that expression under the `distinct_iterator` current at the
    reference, hence a function of it. -/
structure VarInfo where
  ty : Ty
  mi : Option Nat → MI

abbrev VCtx := List VarInfo

/-- the union type the front-end builds for `a UNION b` (components concatenated; see `normTy`) -/
def unionTy (a b : Ty) : Ty :=
  match a, b with
  | .obj ts, .obj us => if ts == us then .obj ts else .obj (ts ++ us)
  | _, _ => a

/-- first occurrences -/
def dedupN : List Nat → List Nat
  | [] => []
  | x :: xs => x :: (dedupN xs).filter (· != x)

def insertN (x : Nat) : List Nat → List Nat
  | [] => [x]
  | y :: ys => if x ≤ y then x :: y :: ys else y :: insertN x ys

/-- insertion sort -/
def isortN : List Nat → List Nat
  | [] => []
  | x :: xs => insertN x (isortN xs)

/-- identity of an object type: components without duplicates, without any component that is a descendant
    of another one (`minimize_class_set_by_most_generic`), sorted.  `[t]` is the plain type `t`. -/
def normTy (sch : Schema) : Ty → Ty
  | .obj ts =>
    let d := dedupN ts
    let m := d.filter (fun t => !d.any (fun u => u != t && ((sch.descs[u]?).getD []).contains t))
    .obj (isortN m)
  | .other => .other

/-- `(t,) + tuple(t.descendants(schema))` as keys: a plain type contributes itself and its descendants,
    a union type only itself (nothing descends from a union type) -/
def linKeys (sch : Schema) (ty : Ty) : List (List Nat) :=
  match normTy sch ty with
  | .obj [t] => (sch.lineage t).map (fun x => [x])
  | .obj ts => [ts]
  | .other => []

/-- `types_disjoint` of `__infer_oper_call` for the two operands of a UNION -/
def typesDisjoint (sch : Schema) (a b : Ty) : Bool :=
  match a, b with
  | .obj _, .obj _ => decide ((linKeys sch a ++ linKeys sch b).Nodup)
  | _, _ => false

def tyOf (sch : Schema) : List Ty → Q → Ty
  | Γ, .var i => match Γ[i]? with
    | some t => t
    | none => .other
  | _, .root t => .obj [t]
  | _, .path _ p => match sch.ptr? p with
    | some d => d.tgtTy
    | none => .other
  | Γ, .union a b => unionTy (tyOf sch Γ a) (tyOf sch Γ b)
  | Γ, .distinct a => tyOf sch Γ a
  | Γ, .coalesce a _ => tyOf sch Γ a
  | Γ, .ifElse a _ _ => tyOf sch Γ a
  | Γ, .filter a _ => tyOf sch Γ a
  | Γ, .limit a _ => tyOf sch Γ a
  | Γ, .limitC a _ => tyOf sch Γ a
  | Γ, .offset a _ => tyOf sch Γ a
  | Γ, .for_ it body => tyOf sch (tyOf sch Γ it :: Γ) body
  | _, _ => .other

/-! ## cardinality inference (`cardinality.py`) -/

/-- `max_cardinality((a, b))`; the error branch is dead (two operands), see
    `Lemmas/MiniQL.maxCard2_eq` -/
def maxCard2 (a b : Cardinality) : Cardinality :=
  match maxCardinality [a, b] with
  | .ok c => c
  | .error _ => a

/-- `_standard_call_cardinality`: the Cartesian cardinality of the non-`SET OF`
    arguments (lower bound of `OPTIONAL` ones raised to ONE) and of the return modifier -/
def stdCallArgCards : List (TypeModifier × Cardinality) → List Cardinality
  | [] => []
  | (tm, c) :: rest =>
    match tm with
    | .SingletonType => c :: stdCallArgCards rest
    | .OptionalType => boundsToCard .ONE (cardToBounds c).upper :: stdCallArgCards rest
    | .SetOfType => stdCallArgCards rest

def stdCallCard (params : List TypeModifier) (ret : TypeModifier) (cards : List Cardinality) :
    Cardinality :=
  cartesianCardinality (stdCallArgCards (params.zip cards) ++ [typemodToCard ret])

/-! ### `extract_filters` -/

/-- `_is_ptr_or_self_ref`: the chain of pointers from the FILTER subject
    (`var 0`) to this expression; `[]` is the subject itself -/
def ptrChain (sch : Schema) : Q → Option (List Nat)
  | .var 0 => some []
  | .path src p =>
    match ptrChain sch src, sch.ptr? p with
    | some ps, some _ => some (ps ++ [p])
    | _, _ => none
  | _ => none

/-- the pointers `extract_filters` records for a matched side: when the static
    type of the matched expression equals the type of the FILTER subject the
    code takes `id` (here: the empty chain) instead of walking the path -/
def filterPtrs (sch : Schema) (resTy lTy : Ty) (ps : List Nat) : List Nat :=
  if normTy sch lTy == normTy sch resTy then [] else ps

/-- `extract_exclusive_filters` ≠ []: some equality filter goes through
    exclusive pointers only (`[]`, the subject itself, stands for `.id`).
    Object-level exclusive constraints are not modelled. -/
def hasExclusiveFilter (sch : Schema) (fs : List (List Nat × Q)) : Bool :=
  fs.any (fun f => f.1.all (fun p => match sch.ptr? p with
    | some d => d.exclusive
    | none => false))

/-! ## multiplicity inference (`multiplicity.py`) -/

def MI.EMPTY : MI := ⟨{ own := .EMPTY }, true⟩
def MI.UNIQUE : MI := ⟨{ own := .UNIQUE }, true⟩
def MI.DUPLICATE : MI := ⟨{ own := .DUPLICATE }, true⟩
def MI.DISTINCT_UNION : MI := ⟨{ own := .UNIQUE, disjoint_union := true }, true⟩

/-- `x == EMPTY` / `x is EMPTY` (identity) -/
def MI.isConst (m : MI) (c : MI) : Bool := m.canon && m.info == c.info

/-- a freshly allocated `MultiplicityInfo` -/
def MI.fresh (i : MultiplicityInfo) : MI := ⟨i, false⟩

/-- `_max_multiplicity`; never raises (see `Lemmas/Card.maxMultiplicity_ok`) -/
def maxMult (ms : List MI) : MI :=
  match maxMultiplicity (ms.map (·.info)) with
  | .ok r => .fresh r
  | .error _ => .DUPLICATE

/-- the tail of `infer_multiplicity`: a singleton cannot have duplicates -/
def overrideSingle (c : Cardinality) (m : MI) : MI :=
  if c.isSingle && m.info.own.isDuplicate then .UNIQUE else m

/-- `dataclasses.replace(path_mult, disjoint_union=True)` -/
def markDisjoint (m : MI) : MI := .fresh { m.info with disjoint_union := true }

/-- root of a pointer chain (`irutils.get_path_root`) is the variable `i` -/
def pathRootVar : Q → Option Nat
  | .var i => some i
  | .path src _ => pathRootVar src
  | _ => none

/-- `get_path_root(q).path_id == ctx.distinct_iterator`.  The distinct iterator
    is identified by its de Bruijn LEVEL (number of binders outside it), which
    does not shift; `depth` is the number of binders in scope. -/
def rootIs (depth : Nat) (q : Q) (d : Option Nat) : Bool :=
  match pathRootVar q, d with
  | some i, some l => i < depth && depth - 1 - i == l
  | _, _ => false

/-- the loop over the operands of `std::UNION` in `__infer_oper_call`: returns (result, break) -/
def unionStep (td : Bool) (result : MI) (m : MI) : MI × Bool :=
  if m.info.own.isUnique then
    if result.info.own.isEmpty || td || (result.info.disjoint_union && m.info.disjoint_union)
    then (m, false) else (.DUPLICATE, true)
  else if m.info.own.isDuplicate then (.DUPLICATE, true)
  else (result, false)

def unionMult (td : Bool) (ma mb : MI) : MI :=
  let r1 := unionStep td .EMPTY ma
  if r1.2 then r1.1 else (unionStep td r1.1 mb).1

/-- `set(el.value for el in elements)` -/
def dedupI : List Int → List Int
  | [] => []
  | x :: xs => x :: (dedupI xs).filter (· != x)

/-- `__infer_const_set`: UNIQUE iff the constants are pairwise different -/
def constVals : List CElem → Option (List Int)
  | [] => some []
  | .c n :: es => (constVals es).map (n :: ·)
  | .p _ :: _ => none

/-- `__infer_const_set` (multiplicity): DUPLICATE as soon as an element is not a constant -/
def constSetMult (es : List CElem) : MI :=
  match constVals es with
  | some ns => if (dedupI ns).length == ns.length then .UNIQUE else .DUPLICATE
  | none => .DUPLICATE

/-- a ConstantSet element that is a constant or a required parameter -/
def CElem.definite (sch : Schema) : CElem → Bool
  | .c _ => true
  | .p i => (sch.params[i]?).getD false

/-- `__infer_const_set` (cardinality): an optional parameter may be empty, so the lower bound is one only
    if some element is a constant or a required parameter -/
def constSetCard (sch : Schema) (es : List CElem) : Cardinality :=
  let required := es.any (CElem.definite sch)
  if es.length == 1 then (if required then .ONE else .AT_MOST_ONE)
  else if required then .AT_LEAST_ONE else .MANY

/-- `__infer_param`: ONE if required else AT_MOST_ONE -/
def paramCard (sch : Schema) (i : Nat) : Cardinality :=
  if (sch.params[i]?).getD false then .ONE else .AT_MOST_ONE

/-- the three LIMIT rules of `__infer_select_stmt` -/
def limitCard (c : Cardinality) : Cardinality := boundsToCard .ZERO (cardToBounds c).upper
def limitConstCard (c : Cardinality) (n : Nat) : Cardinality :=
  if n == 1 then boundsToCard (cardToBounds c).lower .ONE
  else if n == 0 then boundsToCard .ZERO (cardToBounds c).upper
  else c
/-- OFFSET -/
def offsetCard (c : Cardinality) : Cardinality := boundsToCard .ZERO (cardToBounds c).upper

/-- `_infer_stmt_cardinality` for a statement with a FILTER clause: cross with
    AT_MOST_ONE, then `_analyse_filter_clause` when the result is multi and unique -/
def filterCard (sch : Schema) (ca : Cardinality) (maNone : MI) (fs : List (List Nat × Q)) :
    Cardinality :=
  let c := cartesianCardinality [ca, .AT_MOST_ONE]
  if c.isMulti && maNone.info.own.isUnique && hasExclusiveFilter sch fs then .AT_MOST_ONE else c

def ptrCardOf (sch : Schema) (p : Nat) (csrc : Cardinality) : Cardinality :=
  match sch.ptr? p with
  | some d => cartesianCardinality [csrc, d.card]
  | none => .MANY

mutual
/-- `infer_cardinality`.  Cardinality inference runs first, with
    `ctx.distinct_iterator = None`, and is cached; that is why the multiplicity
    it consults for the exclusive-filter rule is `inferMult … none`. -/
def inferCard (sch : Schema) : VCtx → Q → Cardinality
  | _, .lit _ => .ONE
  | _, .empty => .AT_MOST_ONE
  | _, .constSet es => constSetCard sch es
  | _, .param i => paramCard sch i
  | _, .var _ => .ONE
  | _, .root _ => .MANY
  | Γ, .path src p => ptrCardOf sch p (inferCard sch Γ src)
  | Γ, .tuple es => cartesianCardinality (inferCardList sch Γ es)
  | Γ, .union a b => unionCardinality [inferCard sch Γ a, inferCard sch Γ b]
  | Γ, .distinct a => cartesianCardinality [inferCard sch Γ a]
  | Γ, .coalesce a b => maxCard2 (inferCard sch Γ a) (inferCard sch Γ b)
  | Γ, .ifElse a c b =>
    cartesianCardinality [inferCard sch Γ a, inferCard sch Γ c, inferCard sch Γ b]
  | Γ, .call f args =>
    match sch.fn? f with
    | some d => stdCallCard d.params d.ret (inferCardList sch Γ args)
    | none => .MANY
  | Γ, .filter a w =>
    let resTy := tyOf sch (Γ.map (·.ty)) a
    filterCard sch (inferCard sch Γ a) (inferMult sch Γ none a)
      (extractFilters sch (⟨resTy, fun d => inferMult sch Γ d a⟩ :: Γ) resTy w)
  | Γ, .limit a _ => limitCard (inferCard sch Γ a)
  | Γ, .limitC a n => limitConstCard (inferCard sch Γ a) n
  | Γ, .offset a _ => offsetCard (inferCard sch Γ a)
  | Γ, .for_ it body =>
    let Γ' : VCtx := ⟨tyOf sch (Γ.map (·.ty)) it, fun d => inferMult sch Γ d it⟩ :: Γ
    cartesianCardinality [inferCard sch Γ' body, inferCard sch Γ it]
def inferCardList (sch : Schema) : VCtx → List Q → List Cardinality
  | _, [] => []
  | Γ, q :: qs => inferCard sch Γ q :: inferCardList sch Γ qs
/-- the equality filters `extract_filters` finds in a FILTER clause:
    (pointers, the other side of `=`); `Γ'` is the context of the clause (the
    subject is `var 0`), `resTy` the type of the subject (must be an object type) -/
def extractFilters (sch : Schema) : VCtx → Ty → Q → List (List Nat × Q)
  | Γ', resTy, .call f args =>
    match args with
    | [l, r] =>
      match resTy, sch.fn? f with
      | .obj _, some d =>
        match d.kind with
        | .eq =>
          if !d.isOp then [] else
          if (cartesianCardinality [inferCard sch Γ' l, inferCard sch Γ' r]).isMulti then []
          else match ptrChain sch l with
            | some ps =>
              if (inferCard sch Γ' r).isSingle
              then [(filterPtrs sch resTy (tyOf sch (Γ'.map (·.ty)) l) ps, r)] else []
            | none =>
              match ptrChain sch r with
              | some ps =>
                if (inferCard sch Γ' l).isSingle
                then [(filterPtrs sch resTy (tyOf sch (Γ'.map (·.ty)) r) ps, l)] else []
              | none => []
        | .and_ =>
          if !d.isOp then [] else
          extractFilters sch Γ' resTy l ++ extractFilters sch Γ' resTy r
        | _ => []
      | _, _ => []
    | _ => []
  | _, _, _ => []
/-- `infer_multiplicity` on the Set wrapping the expression; `dist` is
    `ctx.distinct_iterator` as a de Bruijn level -/
def inferMult (sch : Schema) : VCtx → Option Nat → Q → MI
  | _, _, .lit _ => .UNIQUE
  | _, _, .empty => .EMPTY
  | _, _, .constSet es =>
    overrideSingle (constSetCard sch es) (constSetMult es)
  | _, _, .param _ => .UNIQUE
  | Γ, dist, .var i =>
    -- a reference to a bound set: its own multiplicity, seen as a singleton
    let m := match Γ[i]? with
      | some v => v.mi dist
      | none => .UNIQUE
    let m := if !m.info.own.isDuplicate && rootIs Γ.length (.var i) dist then markDisjoint m else m
    overrideSingle .ONE m
  | _, _, .root _ => .UNIQUE
  | Γ, dist, .path src p =>
    let m : MI := match sch.ptr? p with
      | some d => if d.link.isSome then .UNIQUE else if d.exclusive then .UNIQUE else .DUPLICATE
      | none => .DUPLICATE
    let m := if !m.info.own.isDuplicate && rootIs Γ.length src dist then markDisjoint m else m
    overrideSingle (ptrCardOf sch p (inferCard sch Γ src)) m
  | Γ, dist, .tuple es =>
    overrideSingle (cartesianCardinality (inferCardList sch Γ es))
      (maxMult (inferMultList sch Γ dist es))
  | Γ, dist, .union a b =>
    overrideSingle (unionCardinality [inferCard sch Γ a, inferCard sch Γ b])
      (unionMult (typesDisjoint sch (tyOf sch (Γ.map (·.ty)) a) (tyOf sch (Γ.map (·.ty)) b))
        (inferMult sch Γ dist a) (inferMult sch Γ dist b))
  | Γ, dist, .distinct a =>
    overrideSingle (cartesianCardinality [inferCard sch Γ a])
      (if (inferMult sch Γ dist a).isConst .EMPTY then .EMPTY else .UNIQUE)
  | Γ, dist, .coalesce a b =>
    overrideSingle (maxCard2 (inferCard sch Γ a) (inferCard sch Γ b))
      (maxMult [inferMult sch Γ dist a, inferMult sch Γ dist b])
  | Γ, dist, .ifElse a c b =>
    let ma := inferMult sch Γ dist a
    let mb := inferMult sch Γ dist b
    overrideSingle (cartesianCardinality [inferCard sch Γ a, inferCard sch Γ c, inferCard sch Γ b])
      (if (inferCard sch Γ c).isSingle then maxMult [ma, mb] else .DUPLICATE)
  | Γ, dist, .call f args =>
    match sch.fn? f with
    | some d =>
      let card := stdCallCard d.params d.ret (inferCardList sch Γ args)
      let ms := inferMultList sch Γ dist args
      if card.isSingle then .UNIQUE
      else if d.isOp && d.kind == .plus then
        let r := maxMult ms
        if r.info.own.isDuplicate then r
        else if ((inferCardList sch Γ args).filter (·.isMulti)).length > 1 then .DUPLICATE
        else r
      else .DUPLICATE
    | none => .DUPLICATE
  | Γ, dist, .filter a w =>
    let ma := inferMult sch Γ dist a
    let resTy := tyOf sch (Γ.map (·.ty)) a
    let Γ' : VCtx := ⟨resTy, fun d => inferMult sch Γ d a⟩ :: Γ
    -- `_infer_stmt_multiplicity`: a singleton filter expression rooted at the distinct iterator
    let hit := extractHits sch Γ' dist resTy w
    overrideSingle
      (filterCard sch (inferCard sch Γ a) (inferMult sch Γ none a) (extractFilters sch Γ' resTy w))
      (if hit then .DISTINCT_UNION else ma)
  | Γ, dist, .limit a _ => overrideSingle (limitCard (inferCard sch Γ a)) (inferMult sch Γ dist a)
  | Γ, dist, .limitC a n =>
    overrideSingle (limitConstCard (inferCard sch Γ a) n) (inferMult sch Γ dist a)
  | Γ, dist, .offset a _ => overrideSingle (offsetCard (inferCard sch Γ a)) (inferMult sch Γ dist a)
  | Γ, dist, .for_ it body =>
    let mi := inferMult sch Γ dist it
    let Γ' : VCtx := ⟨tyOf sch (Γ.map (·.ty)) it, fun d => inferMult sch Γ d it⟩ :: Γ
    -- `if itmult != DUPLICATE:` is an identity test;
    -- `new_iter = itset.path_id if not ctx.distinct_iterator else None`
    let dist' := if mi.isConst .DUPLICATE then dist
      else (if dist.isNone then some Γ.length else none)
    let mb := inferMult sch Γ' dist' body
    let r := if mi.info.own.isDuplicate then MI.DUPLICATE
      else if mb.info.disjoint_union then mb else .DUPLICATE
    overrideSingle (cartesianCardinality [inferCard sch Γ' body, inferCard sch Γ it]) r
def inferMultList (sch : Schema) : VCtx → Option Nat → List Q → List MI
  | _, _, [] => []
  | Γ, dist, q :: qs => inferMult sch Γ dist q :: inferMultList sch Γ dist qs
/-- `_infer_stmt_multiplicity`: does some filter found by `extract_filters` in
    the clause (same walk and same conditions as `extractFilters`) have an other
    side that is rooted at the distinct iterator and not DUPLICATE? -/
def extractHits (sch : Schema) : VCtx → Option Nat → Ty → Q → Bool
  | Γ', dist, resTy, .call f args =>
    match args with
    | [l, r] =>
      match resTy, sch.fn? f with
      | .obj _, some d =>
        match d.kind with
        | .eq =>
          if !d.isOp then false else
          if (cartesianCardinality [inferCard sch Γ' l, inferCard sch Γ' r]).isMulti then false
          else match ptrChain sch l with
            | some _ =>
              (inferCard sch Γ' r).isSingle
                && rootIs Γ'.length r dist && !(inferMult sch Γ' dist r).info.own.isDuplicate
            | none =>
              match ptrChain sch r with
              | some _ =>
                (inferCard sch Γ' l).isSingle
                  && rootIs Γ'.length l dist && !(inferMult sch Γ' dist l).info.own.isDuplicate
              | none => false
        | .and_ =>
          if !d.isOp then false else
          extractHits sch Γ' dist resTy l || extractHits sch Γ' dist resTy r
        | _ => false
      | _, _ => false
    | _ => false
  | _, _, _, _ => false
end

/-! ## what the compiler accepts -/

mutual
def accepts (sch : Schema) : VCtx → Q → Bool
  | _, .lit _ => true
  | _, .empty => true
  | _, .constSet es => !es.isEmpty && es.all (fun e => match e with
      | .c _ => true
      | .p i => i < sch.params.length)
  | _, .param i => i < sch.params.length
  | Γ, .var i => i < Γ.length
  | _, .root _ => true
  | Γ, .path src p =>
    accepts sch Γ src && (match sch.ptr? p with
      | some d => (match tyOf sch (Γ.map (·.ty)) src with
        | .obj ts => !ts.isEmpty && ts.all (fun t => (sch.lineage d.srcTy).contains t)
        | .other => false)
      | none => false)
  | Γ, .tuple es => acceptsList sch Γ es
  | Γ, .union a b =>
    accepts sch Γ a && accepts sch Γ b
      && (match tyOf sch (Γ.map (·.ty)) a, tyOf sch (Γ.map (·.ty)) b with
          | .obj _, .obj _ => true
          | x, y => x == y)
  | Γ, .distinct a => accepts sch Γ a
  | Γ, .coalesce a b =>
    accepts sch Γ a && accepts sch Γ b && tyOf sch (Γ.map (·.ty)) a == tyOf sch (Γ.map (·.ty)) b
  | Γ, .ifElse a c b =>
    accepts sch Γ a && accepts sch Γ c && accepts sch Γ b
      && tyOf sch (Γ.map (·.ty)) a == tyOf sch (Γ.map (·.ty)) b
  | Γ, .call f args =>
    acceptsList sch Γ args && (match sch.fn? f with
      | some d => d.params.length == args.length
      | none => false)
  | Γ, .filter a w =>
    accepts sch Γ a
      && accepts sch (⟨tyOf sch (Γ.map (·.ty)) a, fun d => inferMult sch Γ d a⟩ :: Γ) w
  | Γ, .limit a k => accepts sch Γ a && accepts sch Γ k && (inferCard sch Γ k).isSingle
  | Γ, .limitC a _ => accepts sch Γ a
  | Γ, .offset a k => accepts sch Γ a && accepts sch Γ k && (inferCard sch Γ k).isSingle
  | Γ, .for_ it body =>
    accepts sch Γ it
      && accepts sch (⟨tyOf sch (Γ.map (·.ty)) it, fun d => inferMult sch Γ d it⟩ :: Γ) body
def acceptsList (sch : Schema) : VCtx → List Q → Bool
  | _, [] => true
  | Γ, q :: qs => accepts sch Γ q && acceptsList sch Γ qs
end

end EdbVerif.MiniQL
