/-
Specification vocabulary for the MiniQL theorems of C06: conforming databases,
well-behaved function interpretations, environments, and the side conditions
under which the partial theorems are stated.
Core Lean only.
-/
import EdbVerif.Model.MiniQL
import EdbVerif.Model.CardSpec

namespace EdbVerif.MiniQL
open EdbVerif.Gen.Card EdbVerif.Card

/-- value `v` has static type `ty` in database `db`: an object whose exact type is a component of `ty`
    or a descendant of one -/
def HasTy (sch : Schema) (db : DB) : Ty → Val → Prop
  | .obj ts, v => ∃ id ty t, v = .obj id ∧ (id, ty) ∈ db.objs ∧ t ∈ ts ∧ ty ∈ sch.lineage t
  | .other, _ => True

/-- the database satisfies the schema's constraints -/
structure Conforms (sch : Schema) (db : DB) : Prop where
  /-- object ids are unique -/
  ids : (db.objs.map (·.1)).Nodup
  /-- the descendant relation is transitive -/
  trans : ∀ t d e, d ∈ sch.lineage t → e ∈ sch.lineage d → e ∈ sch.lineage t
  /-- required / single are respected for every object of the source type or of a subtype -/
  card : ∀ p d id ty, sch.ptr? p = some d → (id, ty) ∈ db.objs → ty ∈ sch.lineage d.srcTy →
    γ d.card (db.get p id).length
  /-- links point to existing objects of the target type -/
  tgt : ∀ p d t id ty, sch.ptr? p = some d → d.link = some t → (id, ty) ∈ db.objs →
    ty ∈ sch.lineage d.srcTy → ∀ v ∈ db.get p id, HasTy sch db (.obj [t]) v
  /-- a link's targets form a set -/
  linkSet : ∀ p d id, sch.ptr? p = some d → d.link.isSome = true → (db.get p id).Nodup
  /-- required parameters are given a value -/
  params : ∀ (i : Nat), sch.params[i]? = some true → ∃ n : Int, db.params[i]? = some (some n)
  /-- exclusive: no value occurs twice, neither within one object nor across objects -/
  excl : ∀ p d, sch.ptr? p = some d → d.exclusive = true →
    (∀ id, (db.get p id).Nodup) ∧
    (∀ id id' v, id ≠ id' → v ∈ db.get p id → v ∉ db.get p id')

/-- the interpretations respect the declared return modifier -/
structure SigOK (sch : Schema) : Prop where
  ret : ∀ f d, sch.fn? f = some d → ∀ args, γ (typemodToCard d.ret) (d.impl args).length

/-- the environment gives every variable a value of its static type -/
def EnvOK (sch : Schema) (db : DB) (Γ : VCtx) (env : List Val) : Prop :=
  All2 (fun (v : VarInfo) x => HasTy sch db v.ty x) Γ env

mutual
/-- the exclusive-filter rule (`_analyse_filter_clause` ⇒ AT_MOST_ONE) fires nowhere in the query -/
def noExclRule (sch : Schema) : VCtx → Q → Bool
  | _, .lit _ => true
  | _, .empty => true
  | _, .constSet _ => true
  | _, .param _ => true
  | _, .var _ => true
  | _, .root _ => true
  | Γ, .path src _ => noExclRule sch Γ src
  | Γ, .tuple es => noExclRuleList sch Γ es
  | Γ, .union a b => noExclRule sch Γ a && noExclRule sch Γ b
  | Γ, .distinct a => noExclRule sch Γ a
  | Γ, .coalesce a b => noExclRule sch Γ a && noExclRule sch Γ b
  | Γ, .ifElse a c b => noExclRule sch Γ a && noExclRule sch Γ c && noExclRule sch Γ b
  | Γ, .call _ args => noExclRuleList sch Γ args
  | Γ, .filter a w =>
    let resTy := tyOf sch (Γ.map (·.ty)) a
    let Γ' : VCtx := ⟨resTy, fun d => inferMult sch Γ d a⟩ :: Γ
    noExclRule sch Γ a && noExclRule sch Γ' w
      && !hasExclusiveFilter sch (extractFilters sch Γ' resTy w)
  | Γ, .limit a k => noExclRule sch Γ a && noExclRule sch Γ k
  | Γ, .limitC a _ => noExclRule sch Γ a
  | Γ, .offset a k => noExclRule sch Γ a && noExclRule sch Γ k
  | Γ, .for_ it body =>
    noExclRule sch Γ it
      && noExclRule sch (⟨tyOf sch (Γ.map (·.ty)) it, fun d => inferMult sch Γ d it⟩ :: Γ) body
def noExclRuleList (sch : Schema) : VCtx → List Q → Bool
  | _, [] => true
  | Γ, q :: qs => noExclRule sch Γ q && noExclRuleList sch Γ qs
end

/-- the rule at the root of `q` that can claim UNIQUE from the `disjoint_union`
    bookkeeping, from an exclusive property, or from operator injectivity is
    used only in the instances that are sound by themselves -/
def safeHere (sch : Schema) (Γ : VCtx) (dist : Option Nat) : Q → Bool
  | .var i => (inferMult sch Γ dist (.var i)).info.own != .EMPTY
  | .path src p =>
    match sch.ptr? p with
    | some d => d.link.isSome || !d.exclusive || !(inferMult sch Γ dist src).info.own.isDuplicate
    | none => true
  | .union a b =>
    let ma := inferMult sch Γ dist a
    let mb := inferMult sch Γ dist b
    let ta := tyOf sch (Γ.map (·.ty)) a
    let tb := tyOf sch (Γ.map (·.ty)) b
    -- `types_disjoint` is relied upon only between two plain types (a union type has no descendants:
    -- its lineage says nothing about its members)
    !(ma.info.own.isUnique && mb.info.own.isUnique && ma.info.disjoint_union && mb.info.disjoint_union)
      && (!typesDisjoint sch ta tb || (match ta, tb with
          | .obj [_], .obj [_] => true
          | _, _ => false))
  | .call f args =>
    match sch.fn? f with
    | some d => (stdCallCard d.params d.ret (inferCardList sch Γ args)).isSingle
        || !(d.isOp && d.kind == .plus)
    | none => true
  | .filter a w =>
    let resTy := tyOf sch (Γ.map (·.ty)) a
    !extractHits sch (⟨resTy, fun d => inferMult sch Γ d a⟩ :: Γ) dist resTy w
  | .for_ it body =>
    let mi := inferMult sch Γ dist it
    let Γ' : VCtx := ⟨tyOf sch (Γ.map (·.ty)) it, fun d => inferMult sch Γ d it⟩ :: Γ
    let dist' := if mi.isConst .DUPLICATE then dist else (if dist.isNone then some Γ.length else none)
    mi.info.own.isDuplicate || !(inferMult sch Γ' dist' body).info.disjoint_union
  | _ => true

mutual
/-- `safeHere` at every node that is not under a binder (the soundness of the
    nodes under a FOR / FILTER binder is not needed: in the safe fragment a FOR
    never takes its multiplicity from its body) -/
def multSafe (sch : Schema) : VCtx → Option Nat → Q → Bool
  | Γ, dist, .path src p => safeHere sch Γ dist (.path src p) && multSafe sch Γ dist src
  | Γ, dist, .tuple es => multSafeList sch Γ dist es
  | Γ, dist, .union a b =>
    safeHere sch Γ dist (.union a b) && multSafe sch Γ dist a && multSafe sch Γ dist b
  | Γ, dist, .distinct a => multSafe sch Γ dist a
  | Γ, dist, .coalesce a b => multSafe sch Γ dist a && multSafe sch Γ dist b
  | Γ, dist, .ifElse a _ b => multSafe sch Γ dist a && multSafe sch Γ dist b
  | Γ, dist, .call f args => safeHere sch Γ dist (.call f args)
  | Γ, dist, .filter a w => safeHere sch Γ dist (.filter a w) && multSafe sch Γ dist a
  | Γ, dist, .limit a _ => multSafe sch Γ dist a
  | Γ, dist, .limitC a _ => multSafe sch Γ dist a
  | Γ, dist, .offset a _ => multSafe sch Γ dist a
  | Γ, dist, q => safeHere sch Γ dist q
def multSafeList (sch : Schema) : VCtx → Option Nat → List Q → Bool
  | _, _, [] => true
  | Γ, dist, q :: qs => multSafe sch Γ dist q && multSafeList sch Γ dist qs
end

end EdbVerif.MiniQL
