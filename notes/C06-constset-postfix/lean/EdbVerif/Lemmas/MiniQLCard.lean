/-
Soundness of `inferCard` on MiniQL (the `__infer_*` rules of cardinality.py
built from the generated combinators) with respect to the bag semantics `eval`,
for queries in which the exclusive-filter rule does not fire.
-/
import EdbVerif.Lemmas.MiniQLAux

namespace EdbVerif.MiniQL
open EdbVerif.Gen.Card EdbVerif.Card

theorem envOK_get {sch : Schema} {db : DB} {Γ : VCtx} {env : List Val} (h : EnvOK sch db Γ env) {i : Nat}
    (hi : i < Γ.length) : ∃ vi v, Γ[i]? = some vi ∧ env[i]? = some v ∧ HasTy sch db vi.ty v := by
  induction h generalizing i with
  | nil => simp at hi
  | cons hx _ ih =>
    cases i with
    | zero => exact ⟨_, _, rfl, rfl, hx⟩
    | succ j =>
      simp only [List.length_cons] at hi
      obtain ⟨vi, v, h1, h2, h3⟩ := ih (Nat.lt_of_succ_lt_succ hi)
      exact ⟨vi, v, by simpa using h1, by simpa using h2, h3⟩

theorem mem_extent {sch : Schema} {db : DB} {t : Nat} {v : Val} (h : v ∈ db.extent (sch.lineage t)) :
    HasTy sch db (.obj [t]) v := by
  unfold DB.extent at h
  obtain ⟨o, ho, rfl⟩ := List.mem_map.1 h
  obtain ⟨hmem, hty⟩ := List.mem_filter.1 ho
  exact ⟨o.1, o.2, t, rfl, hmem, by simp, by simpa using hty⟩

theorem hasTy_unionTy {sch : Schema} {db : DB} {a b : Ty} {v : Val}
    (hacc : (match a, b with
      | .obj _, .obj _ => true
      | x, y => x == y) = true) :
    (HasTy sch db a v → HasTy sch db (unionTy a b) v) ∧
      (HasTy sch db b v → HasTy sch db (unionTy a b) v) := by
  cases a with
  | other =>
    cases b with
    | other => simp [unionTy]
    | obj us => simp at hacc
  | obj ts =>
    cases b with
    | other => simp at hacc
    | obj us =>
      simp only [unionTy]
      split
      · rename_i h
        simp only [beq_iff_eq] at h
        subst h
        exact ⟨id, id⟩
      · constructor
        · rintro ⟨i, ty, t, h1, h2, h3, h4⟩
          exact ⟨i, ty, t, h1, h2, List.mem_append_left _ h3, h4⟩
        · rintro ⟨i, ty, t, h1, h2, h3, h4⟩
          exact ⟨i, ty, t, h1, h2, List.mem_append_right _ h3, h4⟩

theorem take_sub {α : Type} (l : List α) (n : Nat) : ∀ v ∈ l.take n, v ∈ l :=
  fun _ h => List.mem_of_mem_take h

theorem drop_sub {α : Type} (l : List α) (n : Nat) : ∀ v ∈ l.drop n, v ∈ l :=
  fun _ h => List.mem_of_mem_drop h

/-- what the induction proves about one query -/
def CardOK (sch : Schema) (db : DB) (Γ : VCtx) (env : List Val) (q : Q) : Prop :=
  γ (inferCard sch Γ q) (eval sch db env q).length ∧
    ∀ v ∈ eval sch db env q, HasTy sch db (tyOf sch (Γ.map (·.ty)) q) v

theorem firstNonzero_pair (a b : Nat) :
    firstNonzero [a, b] = if a = 0 then b else a := by
  simp only [firstNonzero]
  split
  · split <;> omega
  · rfl

mutual
theorem card_ok (sch : Schema) (db : DB) (hc : Conforms sch db) (hs : SigOK sch) :
    (q : Q) → ∀ (Γ : VCtx) (env : List Val), accepts sch Γ q = true → noExclRule sch Γ q = true →
      EnvOK sch db Γ env → CardOK sch db Γ env q
  | .lit n => by
    intro Γ env _ _ _
    simp [CardOK, inferCard, eval, γ, tyOf, HasTy]
  | .empty => by
    intro Γ env _ _ _
    simp [CardOK, inferCard, eval, γ]
  | .constSet es => by
    intro Γ env ha _ _
    refine ⟨?_, by intro v _; simp [tyOf, HasTy]⟩
    have hle : ∀ (l : List CElem), (l.flatMap (evalElem db)).length ≤ l.length := by
      intro l; induction l with
      | nil => simp
      | cons e l ih =>
        have := evalElem_len_le db e
        simp only [List.flatMap_cons, List.length_append, List.length_cons]; omega
    simp only [inferCard, eval, constSetCard]
    cases hreq : es.any (CElem.definite sch) with
    | true =>
      obtain ⟨e, hmem, hdef⟩ := List.any_eq_true.1 hreq
      have h1 := evalElem_len_def (db := db) hc hdef
      have hge := flatMap_len_ge es (evalElem db) hmem
      simp only [↓reduceIte]
      split
      · rename_i h
        simp only [beq_iff_eq] at h
        have := hle es
        simp only [γ]; omega
      · simp only [γ]; omega
    | false =>
      simp only [Bool.false_eq_true, ↓reduceIte]
      split
      · rename_i h
        simp only [beq_iff_eq] at h
        have := hle es
        simp only [γ]; omega
      · simp [γ]
  | .param i => by
    intro Γ env _ _ _
    refine ⟨?_, by intro v _; simp [tyOf, HasTy]⟩
    simp only [inferCard, eval, paramCard]
    split
    · rename_i h
      simp [γ, param_len_req hc h]
    · simpa [γ] using param_len_le db i
  | .var i => by
    intro Γ env ha _ he
    simp only [accepts, decide_eq_true_eq] at ha
    obtain ⟨vi, v, h1, h2, h3⟩ := envOK_get he ha
    refine ⟨by simp [inferCard, eval, h2, γ], ?_⟩
    intro w hw
    simp only [eval, h2, List.mem_singleton] at hw
    subst hw
    simpa [tyOf, h1] using h3
  | .root t => by
    intro Γ env _ _ _
    refine ⟨by simp [inferCard, γ], ?_⟩
    intro v hv
    simp only [eval] at hv
    simpa [tyOf] using mem_extent hv
  | .path src p => by
    intro Γ env ha hn he
    simp only [accepts, Bool.and_eq_true] at ha
    simp only [noExclRule] at hn
    obtain ⟨ha1, ha2⟩ := ha
    obtain ⟨ih1, ih2⟩ := card_ok sch db hc hs src Γ env ha1 hn he
    cases hp : sch.ptr? p with
    | none => simp [hp] at ha2
    | some d =>
      simp only [hp] at ha2
      have hsrc : ∀ v ∈ eval sch db env src, ∃ id ty, v = .obj id ∧ (id, ty) ∈ db.objs ∧
          ty ∈ sch.lineage d.srcTy := by
        intro v hv
        have hv' := ih2 v hv
        cases hts : tyOf sch (Γ.map (·.ty)) src with
        | other => simp [hts] at ha2
        | obj ts =>
          rw [hts] at hv' ha2
          obtain ⟨id, ty, t, h1, h2, h3, h4⟩ := hv'
          simp only [Bool.and_eq_true, List.all_eq_true, List.contains_eq_mem, decide_eq_true_eq] at ha2
          exact ⟨id, ty, h1, h2, hc.trans _ _ _ (ha2.2 t h3) h4⟩
      have hout : γ (cartesianCardinality [inferCard sch Γ src, d.card])
          ((eval sch db env src).flatMap (followPtr db p)).length := by
        apply flatMap_sound _ _ ih1
        intro v hv
        obtain ⟨id, ty, rfl, hid, hty⟩ := hsrc v hv
        exact hc.card p d id ty hp hid hty
      refine ⟨?_, ?_⟩
      · simp only [inferCard, ptrCardOf, eval, hp]
        split
        · exact γ_subbag hout (dedup_length_le _) (dedup_length_pos _)
        · exact hout
      · intro v hv
        simp only [eval, hp] at hv
        simp only [tyOf, hp, PtrDecl.tgtTy]
        cases hl : d.link with
        | none => simp [HasTy]
        | some t =>
          simp only [hl, Option.isSome_some, ↓reduceIte, mem_dedup, List.mem_flatMap] at hv
          obtain ⟨s, hs1, hs2⟩ := hv
          obtain ⟨id, ty, rfl, hid, hty⟩ := hsrc s hs1
          exact hc.tgt p d t id ty hp hl hid hty v hs2
  | .tuple es => by
    intro Γ env ha hn he
    simp only [accepts] at ha
    simp only [noExclRule] at hn
    have ih := card_ok_list sch db hc hs es Γ env ha hn he
    refine ⟨?_, by intro v _; simp [tyOf, HasTy]⟩
    simp only [inferCard, eval, tupProd_length]
    exact cartesian_sound ih
  | .union a b => by
    intro Γ env ha hn he
    simp only [accepts, Bool.and_eq_true] at ha
    simp only [noExclRule, Bool.and_eq_true] at hn
    obtain ⟨⟨ha1, ha2⟩, hty⟩ := ha
    obtain ⟨ia1, ia2⟩ := card_ok sch db hc hs a Γ env ha1 hn.1 he
    obtain ⟨ib1, ib2⟩ := card_ok sch db hc hs b Γ env ha2 hn.2 he
    refine ⟨?_, ?_⟩
    · simp only [inferCard, eval, List.length_append]
      have := union_sound (cs := [inferCard sch Γ a, inferCard sch Γ b])
        (ns := [(eval sch db env a).length, (eval sch db env b).length]) (.cons ia1 (.cons ib1 .nil))
      simpa using this
    · intro v hv
      simp only [eval, List.mem_append] at hv
      simp only [tyOf]
      rcases hv with h | h
      · exact (hasTy_unionTy hty).1 (ia2 v h)
      · exact (hasTy_unionTy hty).2 (ib2 v h)
  | .distinct a => by
    intro Γ env ha hn he
    simp only [accepts] at ha
    simp only [noExclRule] at hn
    obtain ⟨ia1, ia2⟩ := card_ok sch db hc hs a Γ env ha hn he
    refine ⟨?_, ?_⟩
    · simp only [inferCard, eval]
      exact distinct_sound ia1 (dedup_length_le _) (dedup_length_pos _)
    · intro v hv
      simp only [eval, mem_dedup] at hv
      simpa [tyOf] using ia2 v hv
  | .coalesce a b => by
    intro Γ env ha hn he
    simp only [accepts, Bool.and_eq_true, beq_iff_eq] at ha
    simp only [noExclRule, Bool.and_eq_true] at hn
    obtain ⟨⟨ha1, ha2⟩, hty⟩ := ha
    obtain ⟨ia1, ia2⟩ := card_ok sch db hc hs a Γ env ha1 hn.1 he
    obtain ⟨ib1, ib2⟩ := card_ok sch db hc hs b Γ env ha2 hn.2 he
    refine ⟨?_, ?_⟩
    · simp only [inferCard, eval]
      have := coalesce_sound (cs := [inferCard sch Γ a, inferCard sch Γ b])
        (ns := [(eval sch db env a).length, (eval sch db env b).length]) (.cons ia1 (.cons ib1 .nil))
        (maxCard2_eq _ _)
      rw [firstNonzero_pair] at this
      cases hx : eval sch db env a with
      | nil => simpa [hx] using this
      | cons x xs => simpa [hx] using this
    · intro v hv
      simp only [eval] at hv
      simp only [tyOf]
      split at hv
      · rw [hty]; exact ib2 v hv
      · exact ia2 v hv
  | .ifElse a c b => by
    intro Γ env ha hn he
    simp only [accepts, Bool.and_eq_true, beq_iff_eq] at ha
    simp only [noExclRule, Bool.and_eq_true] at hn
    obtain ⟨⟨⟨ha1, ha2⟩, ha3⟩, hty⟩ := ha
    obtain ⟨ia1, ia2⟩ := card_ok sch db hc hs a Γ env ha1 hn.1.1 he
    obtain ⟨ic1, _⟩ := card_ok sch db hc hs c Γ env ha2 hn.1.2 he
    obtain ⟨ib1, ib2⟩ := card_ok sch db hc hs b Γ env ha3 hn.2 he
    refine ⟨?_, ?_⟩
    · simp only [inferCard, eval, length_flatMap_sum]
      apply ifElse_sound ia1 ib1
      · simpa using ic1
      · intro m hm
        obtain ⟨v, _, rfl⟩ := List.mem_map.1 hm
        split
        · exact Or.inl rfl
        · exact Or.inr rfl
    · intro v hv
      simp only [eval, List.mem_flatMap] at hv
      obtain ⟨w, _, hw⟩ := hv
      simp only [tyOf]
      split at hw
      · exact ia2 v hw
      · rw [hty]; exact ib2 v hw
  | .call f args => by
    intro Γ env ha hn he
    simp only [accepts, Bool.and_eq_true] at ha
    simp only [noExclRule] at hn
    have ih := card_ok_list sch db hc hs args Γ env ha.1 hn he
    refine ⟨?_, by intro v _; simp [tyOf, HasTy]⟩
    cases hf : sch.fn? f with
    | none => simp [hf] at ha
    | some d =>
      simp only [inferCard, eval, hf]
      exact stdCall_sound d _ _ ih (hs.ret f d hf)
  | .filter a w => by
    intro Γ env ha hn he
    simp only [accepts, Bool.and_eq_true] at ha
    simp only [noExclRule, Bool.and_eq_true, Bool.not_eq_eq_eq_not, Bool.not_true] at hn
    obtain ⟨ia1, ia2⟩ := card_ok sch db hc hs a Γ env ha.1 hn.1.1 he
    refine ⟨?_, ?_⟩
    · simp only [inferCard, filterCard, hn.2, Bool.and_false, Bool.false_eq_true, ↓reduceIte, eval]
      exact filter_sound ia1 (List.length_filter_le _ _)
    · intro v hv
      simp only [eval] at hv
      simpa [tyOf] using ia2 v (List.mem_filter.1 hv).1
  | .limit a k => by
    intro Γ env ha hn he
    simp only [accepts, Bool.and_eq_true] at ha
    simp only [noExclRule, Bool.and_eq_true] at hn
    obtain ⟨ia1, ia2⟩ := card_ok sch db hc hs a Γ env ha.1.1 hn.1 he
    refine ⟨?_, ?_⟩
    · simp only [inferCard, limitCard, eval]
      split
      · exact zero_lower_sound ia1 (by simp [List.length_take]; omega)
      · exact zero_lower_sound ia1 (Nat.le_refl _)
    · intro v hv
      simp only [eval] at hv
      simp only [tyOf]
      split at hv
      · exact ia2 v (take_sub _ _ v hv)
      · exact ia2 v hv
  | .limitC a n => by
    intro Γ env ha hn he
    simp only [accepts] at ha
    simp only [noExclRule] at hn
    obtain ⟨ia1, ia2⟩ := card_ok sch db hc hs a Γ env ha hn he
    refine ⟨?_, ?_⟩
    · simp only [inferCard, limitConstCard, eval, List.length_take]
      split
      · rename_i h; simp only [beq_iff_eq] at h; subst h
        rw [Nat.min_comm]; exact limit_one_sound ia1
      · split
        · rename_i h; simp only [beq_iff_eq] at h; subst h
          exact zero_lower_sound ia1 (by simp)
        · rename_i h1 h2
          simp only [beq_iff_eq] at h1 h2
          rw [Nat.min_comm]; exact limit_const_sound ia1 (by omega)
    · intro v hv
      simp only [eval] at hv
      simpa [tyOf] using ia2 v (take_sub _ _ v hv)
  | .offset a k => by
    intro Γ env ha hn he
    simp only [accepts, Bool.and_eq_true] at ha
    simp only [noExclRule, Bool.and_eq_true] at hn
    obtain ⟨ia1, ia2⟩ := card_ok sch db hc hs a Γ env ha.1.1 hn.1 he
    refine ⟨?_, ?_⟩
    · simp only [inferCard, offsetCard, eval]
      split
      · exact zero_lower_sound ia1 (by simp [List.length_drop])
      · exact zero_lower_sound ia1 (Nat.le_refl _)
    · intro v hv
      simp only [eval] at hv
      simp only [tyOf]
      split at hv
      · exact ia2 v (drop_sub _ _ v hv)
      · exact ia2 v hv
  | .for_ it body => by
    intro Γ env ha hn he
    simp only [accepts, Bool.and_eq_true] at ha
    simp only [noExclRule, Bool.and_eq_true] at hn
    obtain ⟨ii1, ii2⟩ := card_ok sch db hc hs it Γ env ha.1 hn.1 he
    have hbody : ∀ v ∈ eval sch db env it,
        CardOK sch db (⟨tyOf sch (Γ.map (·.ty)) it, fun d => inferMult sch Γ d it⟩ :: Γ) (v :: env) body :=
      fun v hv => card_ok sch db hc hs body _ (v :: env) ha.2 hn.2 (.cons (ii2 v hv) he)
    refine ⟨?_, ?_⟩
    · simp only [inferCard, eval]
      rw [cartesian_pair_comm]
      exact flatMap_sound _ _ ii1 (fun v hv => (hbody v hv).1)
    · intro v hv
      simp only [eval, List.mem_flatMap] at hv
      obtain ⟨x, hx, hvx⟩ := hv
      have := (hbody x hx).2 v hvx
      simpa [tyOf] using this
theorem card_ok_list (sch : Schema) (db : DB) (hc : Conforms sch db) (hs : SigOK sch) :
    (qs : List Q) → ∀ (Γ : VCtx) (env : List Val), acceptsList sch Γ qs = true →
      noExclRuleList sch Γ qs = true → EnvOK sch db Γ env →
      All2 γ (inferCardList sch Γ qs) ((evalList sch db env qs).map List.length)
  | [] => by
    intro Γ env _ _ _
    simp only [inferCardList, evalList, List.map_nil]
    exact .nil
  | q :: qs => by
    intro Γ env ha hn he
    simp only [acceptsList, Bool.and_eq_true] at ha
    simp only [noExclRuleList, Bool.and_eq_true] at hn
    simp only [inferCardList, evalList, List.map_cons]
    exact .cons (card_ok sch db hc hs q Γ env ha.1 hn.1 he).1
      (card_ok_list sch db hc hs qs Γ env ha.2 hn.2 he)
end

end EdbVerif.MiniQL
