/-
Auxiliary lemmas for the MiniQL theorems: list facts (`dedup`, `tupProd`,
`callArgs`, sums) and the cardinality rules in the form the induction needs.
-/
import EdbVerif.Model.MiniQLSpec
import EdbVerif.Lemmas.Card

namespace EdbVerif.MiniQL
open EdbVerif.Gen.Card EdbVerif.Card

/-! ### lists -/

theorem length_flatMap_sum {α β : Type} (l : List α) (f : α → List β) :
    (l.flatMap f).length = (l.map fun x => (f x).length).sum := by
  induction l with
  | nil => rfl
  | cons a as ih => simp [List.flatMap_cons, ih]

theorem mem_dedup (l : List Val) (v : Val) : v ∈ dedup l ↔ v ∈ l := by
  induction l with
  | nil => simp [dedup]
  | cons x xs ih =>
    simp only [dedup, List.mem_cons, List.mem_filter, ih]
    constructor
    · rintro (h | ⟨h, _⟩)
      · exact Or.inl h
      · exact Or.inr h
    · rintro (h | h)
      · exact Or.inl h
      · by_cases hx : v = x
        · exact Or.inl hx
        · exact Or.inr ⟨h, by simpa using hx⟩

theorem dedup_length_le (l : List Val) : (dedup l).length ≤ l.length := by
  induction l with
  | nil => simp [dedup]
  | cons x xs ih =>
    simp only [dedup, List.length_cons]
    have := List.length_filter_le (fun y => y != x) (dedup xs)
    omega

theorem dedup_length_pos (l : List Val) (h : 1 ≤ l.length) : 1 ≤ (dedup l).length := by
  cases l with
  | nil => simp at h
  | cons x xs => simp [dedup]

theorem dedup_nodup (l : List Val) : (dedup l).Nodup := by
  induction l with
  | nil => simp [dedup]
  | cons x xs ih =>
    simp only [dedup, List.nodup_cons]
    refine ⟨?_, ih.sublist List.filter_sublist⟩
    simp [List.mem_filter]

theorem tupProd_length (ls : List (List Val)) :
    (tupProd ls).length = natProd (ls.map List.length) := by
  induction ls with
  | nil => rfl
  | cons vs rest ih =>
    simp only [tupProd, List.map_cons, natProd, length_flatMap_sum, List.length_map, ih]
    generalize natProd (rest.map List.length) = k
    induction vs with
    | nil => simp
    | cons a as ih2 => simp [ih2, Nat.succ_mul, Nat.add_comm]

/-! ### `γ` is convex, non-empty, and monotone rules -/

theorem γ_convex {c : Card} {x y t : Nat} (hx : γ c x) (hy : γ c y) (h1 : x ≤ t) (h2 : t ≤ y) :
    γ c t := by
  cases c <;> simp only [γ] at * <;> omega

theorem γ_one_of_ne (c : Card) : γ c 1 := by
  cases c <;> simp [γ]

/-- a sub-bag that is non-empty when the bag is -/
theorem γ_subbag {c : Card} {n m : Nat} (h : γ c n) (hm : m ≤ n) (hne : 1 ≤ n → 1 ≤ m) : γ c m := by
  cases c <;> simp only [γ] at * <;> omega

theorem natProd_append_single (ns : List Nat) (t : Nat) : natProd (ns ++ [t]) = natProd ns * t := by
  induction ns with
  | nil => simp [natProd]
  | cons a as ih => simp [natProd, ih, Nat.mul_assoc]

theorem All2_append {α β : Type} {R : α → β → Prop} {as : List α} {bs : List β} {a : α} {b : β}
    (h : All2 R as bs) (hab : R a b) : All2 R (as ++ [a]) (bs ++ [b]) := by
  induction h with
  | nil => exact .cons hab .nil
  | cons hx _ ih => exact .cons hx ih

theorem exists_min (ms : List Nat) (h : ms ≠ []) : ∃ lo ∈ ms, ∀ m ∈ ms, lo ≤ m := by
  induction ms with
  | nil => exact absurd rfl h
  | cons a as ih =>
    cases as with
    | nil => exact ⟨a, by simp, by simp⟩
    | cons b bs =>
      obtain ⟨lo, hlo, hmin⟩ := ih (by simp)
      by_cases hab : a ≤ lo
      · refine ⟨a, by simp, ?_⟩
        intro m hm
        rcases List.mem_cons.1 hm with rfl | hm
        · exact Nat.le_refl _
        · exact Nat.le_trans hab (hmin m hm)
      · refine ⟨lo, List.mem_cons_of_mem _ hlo, ?_⟩
        intro m hm
        rcases List.mem_cons.1 hm with rfl | hm
        · omega
        · exact hmin m hm

theorem exists_max (ms : List Nat) (h : ms ≠ []) : ∃ hi ∈ ms, ∀ m ∈ ms, m ≤ hi := by
  induction ms with
  | nil => exact absurd rfl h
  | cons a as ih =>
    cases as with
    | nil => exact ⟨a, by simp, by simp⟩
    | cons b bs =>
      obtain ⟨hi, hhi, hmax⟩ := ih (by simp)
      by_cases hab : hi ≤ a
      · refine ⟨a, by simp, ?_⟩
        intro m hm
        rcases List.mem_cons.1 hm with rfl | hm
        · exact Nat.le_refl _
        · exact Nat.le_trans (hmax m hm) hab
      · refine ⟨hi, List.mem_cons_of_mem _ hhi, ?_⟩
        intro m hm
        rcases List.mem_cons.1 hm with rfl | hm
        · omega
        · exact hmax m hm

theorem sum_ge_length_mul (ms : List Nat) (lo : Nat) (h : ∀ m ∈ ms, lo ≤ m) :
    ms.length * lo ≤ ms.sum := by
  induction ms with
  | nil => simp
  | cons a as ih =>
    have h1 := h a List.mem_cons_self
    have h2 := ih (fun m hm => h m (List.mem_cons_of_mem _ hm))
    simp only [List.length_cons, List.sum_cons, Nat.succ_mul]; omega

theorem sum_le_length_mul (ms : List Nat) (hi : Nat) (h : ∀ m ∈ ms, m ≤ hi) :
    ms.sum ≤ ms.length * hi := by
  induction ms with
  | nil => simp
  | cons a as ih =>
    have h1 := h a List.mem_cons_self
    have h2 := ih (fun m hm => h m (List.mem_cons_of_mem _ hm))
    simp only [List.length_cons, List.sum_cons, Nat.succ_mul]; omega

/-- the general "sum over a product" rule: `N = ∏ ns` applications, each of a
    size allowed by `r`, are bounded by the Cartesian cardinality of `cs ++ [r]` -/
theorem sum_sound {cs : List Card} {ns : List Nat} {r : Card} {ms : List Nat}
    (h : Γ cs ns) (hlen : ms.length = natProd ns) (hm : ∀ m ∈ ms, γ r m) :
    γ (cartesianCardinality (cs ++ [r])) ms.sum := by
  by_cases he : ms = []
  · subst he
    have := cartesian_sound (All2_append h (γ_one_of_ne r))
    rw [natProd_append_single] at this
    simp at hlen
    simpa [← hlen] using this
  · obtain ⟨lo, hlo, hmin⟩ := exists_min ms he
    obtain ⟨hi, hhi, hmax⟩ := exists_max ms he
    have h1 := cartesian_sound (All2_append h (hm lo hlo))
    have h2 := cartesian_sound (All2_append h (hm hi hhi))
    rw [natProd_append_single] at h1 h2
    rw [← hlen] at h1 h2
    exact γ_convex h1 h2 (sum_ge_length_mul ms lo hmin) (sum_le_length_mul ms hi hmax)

theorem cartesian_pair_comm (a b : Card) :
    cartesianCardinality [a, b] = cartesianCardinality [b, a] := by
  cases a <;> cases b <;> decide

/-- sum over the elements of a bag, each contributing a bag allowed by `cb` -/
theorem flatMap_sound {α β : Type} {ci cb : Card} (xs : List α) (f : α → List β)
    (hi : γ ci xs.length) (hb : ∀ x ∈ xs, γ cb (f x).length) :
    γ (cartesianCardinality [ci, cb]) (xs.flatMap f).length := by
  rw [length_flatMap_sum, cartesian_pair_comm]
  apply for_sound
  · simpa using hi
  · intro m hm
    obtain ⟨x, hx, rfl⟩ := List.mem_map.1 hm
    exact hb x hx

theorem maxCard2_eq (a b : Card) : maxCardinality [a, b] = .ok (maxCard2 a b) := by
  cases a <;> cases b <;> rfl

/-- the ternary Cartesian table, read off the generated definition -/
theorem cartesian_triple_iff (a b c : Card) (n : Nat) :
    γ (cartesianCardinality [a, b, c]) n ↔
      ((a.canBeZero = false ∧ b.canBeZero = false ∧ c.canBeZero = false) → 1 ≤ n) ∧
      ((a.isSingle = true ∧ b.isSingle = true ∧ c.isSingle = true) → n ≤ 1) := by
  have key : cartesianCardinality [a, b, c] =
      boundsToCard (if a.canBeZero || b.canBeZero || c.canBeZero then .ZERO else .ONE)
        (if a.isSingle && b.isSingle && c.isSingle then .ONE else .MANY) := by
    cases a <;> cases b <;> cases c <;> decide
  rw [key, γ_boundsToCard_iff]
  cases a <;> cases b <;> cases c <;> simp [Cardinality.canBeZero, Cardinality.isSingle]

/-- IF/ELSE: one branch per element of the condition -/
theorem ifElse_sound {ca cc cb : Card} {na nb : Nat} {ms : List Nat}
    (ha : γ ca na) (hb : γ cb nb) (hc : γ cc ms.length) (hms : ∀ m ∈ ms, m = na ∨ m = nb) :
    γ (cartesianCardinality [ca, cc, cb]) ms.sum := by
  rw [cartesian_triple_iff]
  constructor
  · rintro ⟨h1, h2, h3⟩
    have := γ_required hc h2
    have := length_le_sum (ms := ms) (fun m hm => by
      rcases hms m hm with rfl | rfl
      · exact γ_required ha h1
      · exact γ_required hb h3)
    omega
  · rintro ⟨h1, h2, h3⟩
    have := γ_single hc h2
    have := sum_le_length (ms := ms) (fun m hm => by
      rcases hms m hm with rfl | rfl
      · exact γ_single ha h1
      · exact γ_single hb h3)
    omega

/-! ### parameters and ConstantSets -/

theorem param_len_le (db : DB) (i : Nat) : (db.param i).length ≤ 1 := by
  unfold DB.param
  split <;> simp

theorem param_len_req {sch : Schema} {db : DB} (hc : Conforms sch db) {i : Nat}
    (h : (sch.params[i]?).getD false = true) : (db.param i).length = 1 := by
  have hs : sch.params[i]? = some true := by
    cases hp : sch.params[i]? with
    | none => simp [hp] at h
    | some b => simp [hp] at h; rw [h]
  obtain ⟨n, hn⟩ := hc.params i hs
  simp [DB.param, hn]

theorem evalElem_len_le (db : DB) (e : CElem) : (evalElem db e).length ≤ 1 := by
  cases e with
  | c n => simp [evalElem]
  | p i => exact param_len_le db i

theorem evalElem_len_def {sch : Schema} {db : DB} (hc : Conforms sch db) {e : CElem}
    (h : e.definite sch = true) : (evalElem db e).length = 1 := by
  cases e with
  | c n => simp [evalElem]
  | p i => exact param_len_req hc h

theorem flatMap_len_ge {α β : Type} (l : List α) (f : α → List β) {x : α} (hx : x ∈ l) :
    (f x).length ≤ (l.flatMap f).length := by
  induction l with
  | nil => cases hx
  | cons a as ih =>
    simp only [List.flatMap_cons, List.length_append]
    rcases List.mem_cons.1 hx with rfl | h
    · omega
    · have := ih h; omega

theorem constVals_eval (db : DB) : ∀ (es : List CElem) (ns : List Int), constVals es = some ns →
    es.flatMap (evalElem db) = ns.map Val.int
  | [], ns, h => by simp [constVals] at h; subst h; rfl
  | .c n :: es, ns, h => by
    simp only [constVals, Option.map_eq_some_iff] at h
    obtain ⟨ms, hms, rfl⟩ := h
    simp [evalElem, constVals_eval db es ms hms]
  | .p _ :: _, ns, h => by simp [constVals] at h

/-! ### statement clauses in one SELECT -/

/-- `__infer_select_stmt` applies the LIMIT rule and then the OFFSET rule to the same statement; the
    calculus nests `offset` inside `limit`.  Both orders give the same cardinality. -/
theorem limit_offset_commute (c : Card) (n : Nat) :
    limitConstCard (offsetCard c) n = offsetCard (limitConstCard c n) ∧
      limitCard (offsetCard c) = offsetCard (limitCard c) := by
  constructor
  · unfold limitConstCard
    by_cases h1 : n = 1
    · subst h1; cases c <;> decide
    · by_cases h0 : n = 0
      · subst h0; cases c <;> decide
      · have e1 : (n == 1) = false := by simpa using h1
        have e0 : (n == 0) = false := by simpa using h0
        simp only [e1, e0, Bool.false_eq_true, ↓reduceIte]
  · cases c <;> decide

/-- a SELECT with an OFFSET (and any static LIMIT, or none): the reported cardinality allows the
    actual size and its lower bound is zero -/
theorem offset_limit_sound {c : Card} {n : Nat} (k : Nat) (lim : Option Nat) (h : γ c n) :
    γ (match lim with
        | none => offsetCard c
        | some l => limitConstCard (offsetCard c) l)
      (match lim with
        | none => n - k
        | some l => min (n - k) l) ∧
    (match lim with
        | none => offsetCard c
        | some l => limitConstCard (offsetCard c) l).canBeZero = true := by
  have ho : γ (offsetCard c) (n - k) := zero_lower_sound h (Nat.sub_le _ _)
  cases lim with
  | none => exact ⟨ho, by cases c <;> decide⟩
  | some l =>
    simp only
    unfold limitConstCard
    by_cases h1 : l = 1
    · subst h1
      exact ⟨limit_one_sound ho, by cases c <;> decide⟩
    · by_cases h0 : l = 0
      · subst h0
        refine ⟨?_, by cases c <;> decide⟩
        simpa using zero_lower_sound ho (Nat.zero_le _)
      · have e1 : (l == 1) = false := by simpa using h1
        have e0 : (l == 0) = false := by simpa using h0
        simp only [e1, e0, Bool.false_eq_true, ↓reduceIte]
        exact ⟨limit_const_sound ho (by omega), by cases c <;> decide⟩

/-! ### calls -/

/-- how many alternatives an argument contributes to the iteration of a call -/
def altCount (tm : TypeModifier) (n : Nat) : Nat :=
  match tm with
  | .SetOfType => 1
  | .OptionalType => if n = 0 then 1 else n
  | .SingletonType => n

theorem callArgs_length (l : List (TypeModifier × List Val)) :
    (callArgs l).length = natProd (l.map fun p => altCount p.1 p.2.length) := by
  induction l with
  | nil => rfl
  | cons p rest ih =>
    obtain ⟨tm, vs⟩ := p
    simp only [callArgs, List.map_cons, natProd, length_flatMap_sum, List.length_map, ih]
    generalize natProd (rest.map fun p => altCount p.1 p.2.length) = k
    have hsum : ∀ (alts : List (List Val)), (alts.map fun _ => k).sum = alts.length * k := by
      intro alts; induction alts with
      | nil => simp
      | cons a as ih2 => simp [ih2, Nat.succ_mul, Nat.add_comm]
    rw [hsum]
    congr 1
    cases tm with
    | SetOfType => simp [altCount]
    | OptionalType =>
      simp only [altCount]
      cases vs with
      | nil => simp
      | cons v vs' => simp
    | SingletonType => simp [altCount]

/-- the non-aggregate argument cardinalities of `_standard_call_cardinality`
    bound the numbers of alternatives (`SET OF` arguments contribute a factor 1
    and no cardinality) -/
theorem stdCallArgs_sound :
    ∀ (params : List TypeModifier) (cards : List Card) (vals : List (List Val)),
      All2 γ cards (vals.map List.length) →
      ∃ ns, Γ (stdCallArgCards (params.zip cards)) ns ∧
        natProd ns = natProd ((params.zip vals).map fun p => altCount p.1 p.2.length)
  | [], _, _, _ => ⟨[], .nil, by simp [natProd]⟩
  | _ :: _, [], vals, h => by
    cases vals with
    | nil => exact ⟨[], by simp [stdCallArgCards]; exact .nil, by simp [natProd]⟩
    | cons v vs => cases h
  | tm :: ps, c :: cs, vals, h => by
    cases vals with
    | nil => cases h
    | cons v vs =>
      cases h with
      | cons hc hrest =>
        obtain ⟨ns, hns, hprod⟩ := stdCallArgs_sound ps cs vs hrest
        cases tm with
        | SetOfType =>
          refine ⟨ns, by simpa [stdCallArgCards] using hns, ?_⟩
          simp [natProd, altCount, hprod]
        | OptionalType =>
          refine ⟨(if v.length = 0 then 1 else v.length) :: ns, ?_, ?_⟩
          · simp only [List.zip_cons_cons, stdCallArgCards]
            exact .cons (optional_arg_sound hc) hns
          · simp [natProd, altCount, hprod]
        | SingletonType =>
          refine ⟨v.length :: ns, ?_, ?_⟩
          · simp only [List.zip_cons_cons, stdCallArgCards]
            exact .cons hc hns
          · simp [natProd, altCount, hprod]

/-- `_standard_call_cardinality` is sound for the iteration semantics of calls -/
theorem stdCall_sound (d : FnDecl) (cards : List Card) (vals : List (List Val))
    (h : All2 γ cards (vals.map List.length))
    (hret : ∀ args, γ (typemodToCard d.ret) (d.impl args).length) :
    γ (stdCallCard d.params d.ret cards) ((callArgs (d.params.zip vals)).flatMap d.impl).length := by
  obtain ⟨ns, hns, hprod⟩ := stdCallArgs_sound d.params cards vals h
  rw [length_flatMap_sum]
  unfold stdCallCard
  apply sum_sound hns
  · rw [List.length_map, callArgs_length, hprod]
  · intro m hm
    obtain ⟨x, _, rfl⟩ := List.mem_map.1 hm
    exact hret x

end EdbVerif.MiniQL
