"""C16 reproduction 2 (plain asyncio): GC race.  max=1.  d0 holds an idle connection;
acquire('d1') arrives when the pool is full -> d1 is put on the waitlist; before the
next tick (<= 10 ms later) `_run_gc` fires and DISCARDS d0's idle connection (the pool
is not "starving" yet, so GC does not look at the waitlist).  Capacity is free now but
nothing opens a connection for d1: with one block left `_tick` returns early.

`min_idle_time_before_gc` is set to 50 ms to keep the script short; with the default
(120 s) the same happens when the request arrives in the ~10 ms window before a GC run
of a connection that has been idle for 120 s.

run:  /venv/bin/python notes/C16-repro-2.py
"""
import asyncio
import sys
from _repro_common import pool_impl, connect, disconnect, expect_hang


async def main():
    G = 0.05
    pool = pool_impl.Pool(connect=connect, disconnect=disconnect, max_capacity=1,
                          min_idle_time_before_gc=G)
    c = await pool.acquire('d0')
    pool.release('d0', c)              # schedules _run_gc at now + G; no tick (nobody is acquiring)
    await asyncio.sleep(G - 0.004)     # 4 ms before the GC run
    t = asyncio.create_task(pool.acquire('d1'))   # full -> waitlist; tick in 10 ms, GC in 4 ms
    return await expect_hang(pool, t, "acquire('d1')")

if __name__ == '__main__':
    sys.exit(asyncio.run(main()))
