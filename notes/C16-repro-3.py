"""C16 reproduction 3 (plain asyncio): Mode D hands the only connection to an idle block.
max=1, databases d1 (busy) and d0.

 r0 = acquire(d1) served.  r1 = acquire(d0) waits (waitlist); r2, r3 = acquire(d1) wait.
 The ticks put the pool in Mode D ("starving").  r0 releases -> connection transferred to
 d0 (first-conn), r1 served.  r1 releases -> d1 has demand and no connection -> transferred
 to d1 (revive-conn), r2 served.  The next Mode-D tick gives d0 (no connection, NO waiter)
 quota 1.  r2 releases 15 ms later while r3 is still queued on d1:
 _should_free_conn(d1) is true (starving, one connection, held longer than the average
 connect time), _find_most_starving_block(): waitlist empty, no block with demand and
 zero connections, third pass: d0.quota (1) > d0 size (0) -> the ONLY connection goes to
 d0, which nobody is waiting for.  From then on: `_is_starving` stays true (d1 alone
 needs >= max), `was_starving` is true so the rescue branch of `_tick` is skipped,
 `_run_gc` bails out while starving -> d0 keeps an idle connection forever, r3 waits forever.

run:  /venv/bin/python notes/C16-repro-3.py
"""
import asyncio
import sys
from _repro_common import pool_impl, connect, disconnect, expect_hang


async def main():
    pool = pool_impl.Pool(connect=connect, disconnect=disconnect, max_capacity=1)
    c0 = await pool.acquire('d1')
    r1 = asyncio.create_task(pool.acquire('d0'))
    r2 = asyncio.create_task(pool.acquire('d1'))
    r3 = asyncio.create_task(pool.acquire('d1'))
    await asyncio.sleep(0.03)            # a few ticks: Mode D
    pool.release('d1', c0)               # -> d0
    c1 = await r1
    await asyncio.sleep(0.015)
    pool.release('d0', c1)               # -> d1
    c2 = await r2
    await asyncio.sleep(0.015)           # >= one tick, > average connect time
    pool.release('d1', c2)               # r3 is queued on d1, yet the connection goes to d0
    return await expect_hang(pool, r3, "acquire('d1') (r3)")

if __name__ == '__main__':
    sys.exit(asyncio.run(main()))
