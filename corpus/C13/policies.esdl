# Policy-in-policy material for C13 (inside a policy the policies of user types are suppressed by
# the IR compiler, so dependent type-rewrite CTEs come from computed globals: global -> policied type,
# policy -> global, global -> global): access policies whose USING expression reads another type
# that has its own policy (directly, through links, through a scalar alias, a computed global, a
# function), two to three levels deep.  Every policied type compiles to a "type rewrite" CTE that
# is hoisted to the top-level WITH; a rewrite whose body reads another rewritten type must come
# AFTER it in the WITH list.

global cur: str;
global lvl: int64 { default := 0 };

type Person {
    required name: str;
    boss: Person;
    rank: int64;
    access policy self_or_anon allow all
        using (.name ?= global cur or not exists global cur);
}

type Team {
    required name: str;
    multi members: Person;
    lead: Person;
    # through links to a policied type
    access policy has_visible_member allow all using (exists .members or exists .lead);
}

type Doc {
    required title: str;
    owner: Person;
    team: Team;
    # reads another policied type directly
    access policy known_user allow all
        using (exists (select Person filter .name = global cur) or (global lvl ?? 0) > 1);
    access policy not_hidden deny select using (.title ?= 'hidden');
}

type Note {
    required text: str;
    doc: Doc;
    # three levels: Note -> Doc -> Person
    access policy via_doc allow all using (exists .doc or count(Doc) >= 0);
}

type Folder {
    required label: str;
    multi notes: Note;
    parent: Folder;
    # four levels, and a self reference
    access policy via_notes allow all using (count(.notes) >= 0 and count(Team) >= 0);
}

alias PersonNames := Person.name;
global n_people := count(Person);
global top_person := (select Person order by .rank desc limit 1);

type Audit {
    what: str;
    # through a computed global over a policied type
    access policy by_global allow all using (global n_people >= 0);
}

type Memo {
    body: str;
    # through a scalar alias over a policied type
    access policy by_alias allow all using (count(PersonNames) >= 0);
}

type Tag {
    required label: str;
    multi docs: Doc;
    access policy by_docs allow select using (count(.docs) >= 0);
    access policy writable allow insert, update, delete using (exists global cur);
}

global visible_docs := (select Doc filter exists .owner);
# a global over a global over a policied type
global n_visible := count(global visible_docs);
global my_team := (select Team filter (global cur) in .members.name limit 1);
global ranks := (select Person.rank);

type Ledger {
    entry: str;
    # through an object-valued computed global
    access policy by_top allow all using (exists global top_person);
}

type Board {
    required title: str;
    multi pinned: Doc;
    # through a global that is itself defined over a policied type
    access policy by_visible allow all using (count(global visible_docs) >= 0);
    access policy counted deny delete using (global n_visible > 100);
}

type Plain {
    val: int64;
    note: Note;
    board: Board;
}
