# Schema written for the C13 population: inheritance three levels deep with
# exclusive constraints on inherited properties (cross-table conflict checks),
# link properties, multi properties, computed pointers, backlinks, access
# policies over globals, triggers, rewrites, optional/required globals.

global cur_user: str;
global tenant: int64 { default := 1 };
required global region: str { default := 'eu' };
global cur_cust := (select Customer filter .name = global cur_user);

abstract type Named {
    required name: str {
        delegated constraint exclusive;
    }
}

abstract type Audited {
    created: datetime {
        default := datetime_current();
    }
    modified: datetime {
        rewrite insert, update using (datetime_of_statement());
    }
}

type Customer extending Named, Audited {
    email: str { constraint exclusive; }
    multi nicknames: str;
    multi friends: Customer {
        since: int64;
        trust: str;
    }
    single favorite: Item {
        note: str;
    }
    tier: int64 { default := 0 };
    multi orders := .<customer[is Order];
    order_count := count(.orders);
    spent := sum(.orders.total);
    constraint exclusive on ((.name, .tier));
}

type VipCustomer extending Customer {
    perks: array<str>;
    manager: Employee;
}

type PlatinumCustomer extending VipCustomer {
    discount: float64;
}

type Employee extending Named {
    multi manages := .<manager[is VipCustomer];
    salary: int64;
    boss: Employee;
    multi reports := .<boss[is Employee];
}

type Category extending Named {
    parent: Category;
    multi children := .<parent[is Category];
}

type Item extending Named, Audited {
    required price: int64;
    stock: int64 { default := 0 };
    multi tags: str;
    category: Category;
    multi related: Item {
        weight: int64;
    }
    dims: tuple<w: int64, h: int64>;
    label := .name ++ ' (' ++ <str>.price ++ ')';
    expensive := .price > 100;
    index on (.price);
}

type Perishable extending Item {
    required shelf_days: int64;
}

type Order extending Audited {
    required customer: Customer;
    multi lines: OrderLine {
        constraint exclusive;
        on source delete delete target;
    }
    status: str { default := 'new' };
    total := sum(.lines.amount);
    required number: int64 { constraint exclusive; }
    access policy owner_sees allow select using (.customer.name ?= global cur_user);
    access policy tenant_all allow all using (global tenant ?= 1);
    access policy no_cancelled deny update write using (.status ?= 'cancelled');
}

type OrderLine {
    required item: Item;
    required qty: int64 { default := 1 };
    amount := .qty * .item.price;
    order := .<lines[is Order];
}

type AuditLog {
    required what: str;
    who: str;
    n: int64;
}

type Tracked extending Named {
    val: int64;
    trigger log_insert after insert for each do (
        insert AuditLog { what := 'ins ' ++ __new__.name, who := global cur_user }
    );
    trigger log_update after update for each when (__old__.val != __new__.val) do (
        insert AuditLog { what := 'upd ' ++ __new__.name, n := __new__.val - __old__.val }
    );
    trigger log_delete after delete for all do (
        insert AuditLog { what := 'del', n := count(__old__) }
    );
}

function item_total(i: Item, q: int64) -> int64 using (i.price * q);
function best_items(n: int64) -> set of Item using (
    select Item order by .price desc limit n
);
alias Cheap := (select Item { name, price } filter .price < 10);
