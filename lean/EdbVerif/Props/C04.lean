/-
C04 — The schema stays referentially intact; earlier versions stay frozen.

Property theorems about `EdbVerif.Store`, the model of
`edb/schema/schema.py::FlatSchema` (six indexes, raw operations with their error
exits) and of the guarded command discipline of `edb/schema/delta.py`
(`DeleteObject._delete_finalize`).  Only statements, non-vacuity examples and
guard-necessity witnesses live here; the proofs are in `EdbVerif/Lemmas/Store*.lean`.

Reading guide.  `Inv s` = `NamesAgree s ∧ RefsToExact s ∧ TypesAgree s`: lookups by
name (three name indexes), by id and by referrer agree with the objects' own data
tuples, in both directions.  `rawOK s op` is the (decidable) guard on raw
operations: handles carry the class the schema records, `update_obj` is applied to
present objects, `delist` is not used.  `NoDangling s`: every reference held by a
present object resolves.  `Unreachable s id`: no index mentions `id`.
-/
import EdbVerif.Lemmas.StoreCmd
import EdbVerif.Lemmas.StoreErr

namespace EdbVerif.C04
open EdbVerif.Store

/-- Index consistency after EVERY history of raw operations from the empty schema
    (operations outside the guard are not issued; failing ones change nothing). -/
theorem store_inv (ops : List RawOp) : Inv (runRaw ops State.empty) :=
  runRaw_inv ops inv_empty

/-- One step: a guarded raw operation that succeeds keeps the invariant. -/
theorem store_inv_step (s s' : State) (op : RawOp) (hI : Inv s) (hg : rawOK s op = true)
    (h : step s op = .ok s') : Inv s' :=
  step_inv hI hg h

/-- From a consistent schema a guarded raw operation never trips over a missing index
    entry: the `KeyError` exits of `immutables.Map.delete` / `m[k]` and the `LookupError`
    of `get_by_id` in `_update_obj_name`, `_update_refs_to`, `_delete`, `set_obj_field`
    are unreachable (`ClassesOK`: the reference fields of every recorded class are
    distinct — `get_object_reference_fields()` is a set). -/
theorem store_no_internal_error (s : State) (op : RawOp) (e : Err) (hI : Inv s) (hC : ClassesOK s)
    (hg : rawOK s op = true) (hop : opClsOK op) (h : step s op = .error e) : e.internal = false :=
  step_no_internal hI hC hg hop h

/-- … and both hypotheses hold in every state a raw history reaches. -/
theorem store_reachable (ops : List RawOp) (hops : ∀ op ∈ ops, opClsOK op) :
    Inv (runRaw ops State.empty) ∧ ClassesOK (runRaw ops State.empty) :=
  ⟨runRaw_inv ops inv_empty, runRaw_classesOK ops hops inv_empty classesOK_empty⟩

/-- A rejected raw operation leaves the schema exactly as it was (by construction:
    the operations are functions into `Except Err State`; stated for the record, the
    real content is checked on the real object by the harness). -/
theorem store_err (s : State) (op : RawOp) (e : Err) (h : (apply s op).2 = some e) :
    (apply s op).1 = s := by
  unfold apply at h ⊢
  split
  · rename_i h'; rw [h'] at h; cases h
  · rfl

/-- … and so does a rejected or refused command. -/
theorem cmd_err (s : State) (cmd : Cmd) (e : Err) (h : (applyCmd s cmd).2 = some e) :
    (applyCmd s cmd).1 = s := by
  unfold applyCmd at h ⊢
  split
  · rename_i h'; rw [h'] at h; cases h
  · rfl

/-- After any sequence of create / alter / set / unset / drop commands (failing ones
    included) every reference resolves and all lookups agree with the object data. -/
theorem C04_nodangling (cmds : List Cmd) :
    NoDangling (runCmds cmds State.empty) ∧ Inv (runCmds cmds State.empty) :=
  (runCmds_keeps cmds inv_empty nodangling_empty).symm

/-- A dropped object is reachable through none of the indexes. -/
theorem C04_dropped (cmds : List Cmd) (id : Nat) (s' : State)
    (h : runCmd (runCmds cmds State.empty) (.drop id) = .ok s') : Unreachable s' id :=
  drop_unreachable (runCmds_keeps cmds inv_empty nodangling_empty).1 h

/-- … from any consistent schema. -/
theorem C04_dropped_step (s s' : State) (id : Nat) (hI : Inv s)
    (h : runCmd s (.drop id) = .ok s') : Unreachable s' id :=
  drop_unreachable hI h

/-- The drop is all-or-nothing with respect to dangling references: whatever set of
    objects it deletes, nothing that survives refers to a deleted one. -/
theorem C04_drop_step (s s' : State) (id : Nat) (hI : Inv s) (hN : NoDangling s)
    (h : runCmd s (.drop id) = .ok s') : Inv s' ∧ NoDangling s' :=
  runCmd_keeps hI hN h

/-- Garbage collection of implicit types (the conditional drop `DeleteObject(if_exists,
    if_unused)`): it never collects an object that another present object still refers
    to — the command is then a no-op … -/
theorem C04_gc_keeps_used (s : State) (id j : Nat) (c : Cls) (d : List Val) (f : Nat) (hI : Inv s)
    (hj : j ≠ id) (hrec : Rec s j c d) (hf : f ∈ c.refIdxs) (ht : id ∈ refsAt c f d) :
    runCmd s (.dropUnused id) = .ok s :=
  dropUnused_keeps_used hI hj hrec hf ht

/-- … and when it does collect, the object is reachable through no index and nothing
    dangles (`C04_nodangling` covers histories containing it as well). -/
theorem C04_gc_collects (s s' : State) (id : Nat) (hI : Inv s) (hN : NoDangling s)
    (h : runCmd s (.dropUnused id) = .ok s') :
    (s' = s ∨ Unreachable s' id) ∧ Inv s' ∧ NoDangling s' :=
  ⟨dropUnused_unreachable hI h, dropUnused_keeps hI hN h⟩

/-- Frozen versions: the schema values seen along a history are not changed by
    later operations (trivial for a persistent value in Lean; the harness checks the
    real `immutables.Map`-based object by re-fingerprinting every earlier version). -/
theorem C04_frozen (ops₁ ops₂ : List RawOp) (s : State) :
    (versions (ops₁ ++ ops₂) s).take (ops₁.length + 1) = versions ops₁ s := by
  induction ops₁ generalizing s with
  | nil => cases ops₂ <;> simp [versions]
  | cons op ops ih => simp [versions, ih]

/-! ### Non-vacuity and guard necessity: concrete schemas -/

/-- an object-type-like qualified class: `name` at 0, a single reference at 1, an
    owned collection at 2 -/
def exT : Cls := { tag := 2, isGlobal := false, hasSn := false, nfields := 3, nameIdx := 0,
                   refFields := [(1, false), (2, true)], ownFields := [2] }

/-- a function-like class (short-name cache) -/
def exF : Cls := { tag := 6, isGlobal := false, hasSn := true, nfields := 2, nameIdx := 0,
                   refFields := [(1, true)], ownFields := [] }

def exMod (m : Nat) : List Val := [.nil, .nil, .name (.unqual m), .nil, .nil, .nil]

/-- module 3, a parent type 1 owning child 2 (child refers back), a function 4 -/
def exCmds : List Cmd :=
  [ .create 0 moduleCls (exMod 3),
    .create 1 exT [.name (.qual 3 0), .nil, .nil],
    .create 2 exT [.name (.qual 3 1), .ref 1, .nil],
    .alter 1 [(2, .refs [2])],
    .create 4 exF [.name (.spec 3 3 0 1), .refs [1, 2]] ]

example : (runCmds exCmds State.empty).idToData.length = 4
    ∧ (runCmds exCmds State.empty).refsTo.length = 4
    ∧ (runCmds exCmds State.empty).shortNameToId = [(exF, .qual 3 0, 4)] := by decide

/-- dropping the parent is refused while the function refers to it … -/
example : (applyCmd (runCmds exCmds State.empty) (.drop 1)).2 = some .schemaError := by decide

/-- … and succeeds, taking the owned child with it, once the function is gone -/
example : ((runCmds (exCmds ++ [.drop 4, .drop 1]) State.empty).idToData.map (·.1)) = [0] := by decide

/-- the conditional drop: child 2 is still used by function 4 (skipped), function 4 is
    used by nobody (collected) -/
example : (runCmds (exCmds ++ [.dropUnused 2]) State.empty).idToData.length = 4
    ∧ (runCmds (exCmds ++ [.dropUnused 4]) State.empty).idToData.length = 3 := by decide

/-- duplicate name, unknown module, dangling create: rejected -/
example : (applyCmd (runCmds exCmds State.empty) (.create 5 exT [.name (.qual 3 0), .nil, .nil])).2
    = some .schemaError := by decide
example : (applyCmd (runCmds exCmds State.empty) (.create 5 exT [.name (.qual 9 0), .nil, .nil])).2
    = some .unknownModule := by decide
example : (applyCmd (runCmds exCmds State.empty) (.create 5 exT [.name (.qual 3 5), .ref 7, .nil])).2
    = some .invalidReference := by decide

/-- The guard of `store_inv` cannot be dropped, 1: `delist` breaks `NamesAgree`
    (that is its purpose: `objtypes._delete_to_delist`). -/
theorem store_inv_needs_no_delist :
    ∃ s s', Inv s ∧ step s (.delist (.qual 3 0)) = .ok s' ∧ ¬ Inv s' := by
  refine ⟨runCmds (exCmds.take 2) State.empty, _, (C04_nodangling _).2, rfl, ?_⟩
  intro h
  have := h.names.name_q 1 exT [.name (.qual 3 0), .nil, .nil] (.qual 3 0) (by decide) (by decide) rfl
  revert this
  decide

/-- … and outside the guard the internal errors do occur: deleting a delisted object
    trips over the missing name entry -/
example : ∃ s', step (runCmds (exCmds.take 2) State.empty) (.delist (.qual 3 0)) = .ok s'
    ∧ (apply s' (.delete 1 exT)).2 = some .keyError := ⟨_, rfl, by decide⟩

/-- … 2: `update_obj` on an object that is not in the schema creates a data tuple
    without a type entry. -/
theorem store_inv_needs_present :
    ∃ s', step State.empty (.updateObj 5 exT [(1, .ref 5)]) = .ok s' ∧ ¬ Inv s' := by
  refine ⟨_, rfl, ?_⟩
  intro h
  have := h.types 5
  revert this
  decide

/-- … 3: `delete` through a handle of another class leaves that object's reverse
    references behind. -/
theorem store_inv_needs_handle_class :
    ∃ s s', Inv s ∧ step s (.delete 2 { exT with tag := 3, refFields := [] }) = .ok s' ∧ ¬ Inv s' := by
  refine ⟨runCmds (exCmds.take 3) State.empty, _, (C04_nodangling _).2, rfl, ?_⟩
  intro h
  have := (h.refs ⟨1, exT, 1, 2⟩).1 (by decide)
  obtain ⟨d, ⟨h1, _⟩, _⟩ := this
  revert h1
  decide

end EdbVerif.C04
