/-
C08 — Declared capabilities cover what a statement does.

Model: `EdbVerif/Model/Caps.lean` (+ generated `EdbVerif/Gen/Caps.lean`), vocabulary
`EdbVerif/Model/CapsSpec.lean`, proofs `EdbVerif/Lemmas/Caps*.lean`.
`sub a b` is `a ⊆ b` on capability sets (`a &&& b = a`), so `sub MODIFICATIONS c` reads
"MODIFICATIONS ∈ c".
-/
import EdbVerif.Lemmas.CapsStmt
import EdbVerif.Lemmas.CapsHist

namespace EdbVerif.C08
open EdbVerif.Caps EdbVerif.Gen.Caps

/-- **C08_kinds.** For every statement kind the dispatch table regenerated from
`_compile_dispatch_ql` has a row, and the capability on it includes the expected one: DDL for schema
and migration commands (plus TRANSACTION when the migration command opens/closes the transaction),
TRANSACTION for transaction control, SESSION_CONFIG for session aliases / CONFIGURE SESSION /
SET GLOBAL, PERSISTENT_CONFIG for CONFIGURE INSTANCE / DATABASE, MODIFICATIONS for (ANALYZE of)
queries with DML. -/
theorem C08_kinds (k : Kind) : ∃ c, kindCaps k = some c ∧ sub (expectedCap k) c := covers k

/-- **C08_kinds_complete.** Every path through `_compile_dispatch_ql` (every row of the generated
table) is the path of a kind covered by `C08_kinds`, rows are uniquely keyed and only carry named
flags: a new branch or condition in the dispatcher is a failed obligation, not a silent gap. -/
theorem C08_kinds_complete :
    (∀ r ∈ table, ∃ k ∈ Kind.all, k.key = (r.cls, r.conds)) ∧
    (table.map fun r => (r.cls, r.conds)).Nodup ∧ (∀ r ∈ table, sub r.caps named) :=
  ⟨table_rows_known, table_keys_unique, table_named⟩

/-- **C08_classes.** Every concrete `qlast` statement class is dispatched (by `isinstance`, in chain
order) to the branch its status family (`status.get_status` registry: CREATE/ALTER/DROP…,
START TRANSACTION…, SET ALIAS…, …) belongs to, and every path of that branch carries the family's
capability (DDL / TRANSACTION / SESSION_CONFIG). -/
theorem C08_classes :
    (∀ r ∈ classes, familyClass r.2.2 = some r.2.1) ∧
    (∀ r ∈ classes, ∀ row ∈ table, row.cls = r.2.1 → sub (familyCap r.2.2) row.caps) :=
  ⟨classes_dispatch, classes_caps⟩

/-- **C08_flags.** WRITE = MODIFICATIONS | DDL | PERSISTENT_CONFIG, the named flags lie inside ALL. -/
theorem C08_flags : WRITE = MODIFICATIONS ||| DDL ||| PERSISTENT_CONFIG ∧ sub named ALL ∧ NONE = 0#64 :=
  write_mask

/-- **C08_dml.** A query that syntactically contains an INSERT / UPDATE / DELETE node or a call of a
modifying function - at any depth: sub-queries, WITH bindings, FOR iterators and bodies, shape
elements, FILTER / ORDER BY / OFFSET / LIMIT clauses, conflict clauses, IF branches, function
arguments - is either rejected by the compiler or gets MODIFICATIONS. Same under ANALYZE. -/
theorem C08_dml (fe : FnEnv) (q : Q) (c : Caps) (hd : containsDML fe q = true) :
    (stmtCaps fe (.query q) = .ok c → sub MODIFICATIONS c) ∧
    (stmtCaps fe (.analyze q) = .ok c → sub MODIFICATIONS c) :=
  ⟨fun h => query_dml h hd, fun h => analyze_dml h hd⟩

/-- the compiler-level core of `C08_dml`, in any compilation context: `dml_exprs` is non-empty -/
theorem C08_dml_recorded (fe : FnEnv) (cx : Cx) (q : Q) (l : List Rec)
    (h : record fe cx q = .ok l) (hd : containsDML fe q = true) : hasDml l = true :=
  record_nonempty h hd

/-- **C08_sound.** If the flags of a query statement lack MODIFICATIONS, executing it (in any
variable environment, on any database) leaves the stored data unchanged - provided the schema's
non-modifying functions are pure (`FnEnv.WF`, established by `C08_declare`). -/
theorem C08_sound (fe : FnEnv) (hwf : fe.WF) (q : Q) (c : Caps)
    (h : stmtCaps fe (.query q) = .ok c ∨ stmtCaps fe (.analyze q) = .ok c)
    (hm : ¬ sub MODIFICATIONS c) : ∀ ρ db, (run fe ρ db q).1 = db := by
  intro ρ db
  rcases h with h | h
  · exact query_sound hwf h hm ρ db
  · exact analyze_sound hwf h hm ρ db

/-- **C08_precise** (not required by the property, recorded): the flag is exact with respect to
the syntactic predicate. -/
theorem C08_precise (fe : FnEnv) (q : Q) (c : Caps) (h : stmtCaps fe (.query q) = .ok c) :
    sub MODIFICATIONS c ↔ containsDML fe q = true := by
  constructor
  · intro hs
    cases hd : containsDML fe q with
    | true => rfl
    | false => exact absurd hs (query_precise h hd)
  · exact query_dml h

/-- **C08_declare.** `create function` keeps the function environment well-formed (a function that is
not Modifying reaches no DML statement, and a function that reaches none is pure), and a function
whose body reaches an INSERT / UPDATE / DELETE statement - in ANY position of the body: WITH binding,
FOR iterator/body, shape computed of a free object / INSERT / UPDATE, clause, operand, argument,
conflict clause - or calls a function that does (chains f → g → … → insert) is stored as Modifying.
(A body that only calls a declared-Modifying function with a pure body is NOT inferred Modifying: the
real inference takes the volatility of the inlined body.) -/
theorem C08_declare (fe fe' : FnEnv) (decl : Option Bool) (params : List Nat) (body : Q)
    (hwf : fe.WF) (h : declare fe decl params body = .ok fe') :
    fe'.WF ∧ (containsStmt fe body = true →
      fnModifying fe' fe.length = true ∧ fnDmlStmt fe' fe.length = true) :=
  ⟨declare_wf hwf h, declare_modifying h⟩

/-- **C08_chain.** Reaching a DML statement (directly or through called functions) is a special case
of containing DML, so - with `C08_declare` and `C08_dml` - every accepted statement that calls,
at any depth and through any chain of functions, a function whose body writes gets MODIFICATIONS. -/
theorem C08_chain (fe : FnEnv) (q : Q) (c : Caps) (hs : containsStmt fe q = true)
    (h : stmtCaps fe (.query q) = .ok c) : sub MODIFICATIONS c :=
  query_dml h (containsStmt_containsDML hs)

/-- **C08_history.** Function histories.  The flags of `select f()` are decided by the STORED
volatility of `f`, so they are right exactly when the stored values equal the closure over the
CURRENT bodies (`Hist.Consistent`; this is the invariant the harness checks after every step of a
CREATE / ALTER … USING / SET volatility / RENAME / DROP history).  ALTER FUNCTION k followed by
propagation to everything that may (transitively) call k re-establishes the invariant. -/
theorem C08_history (ds : List Hist.Def) (st : List Bool) (k : Nat) (d : Hist.Def)
    (hk : k ≤ ds.length) (hst : Hist.Consistent ds st) :
    Hist.Consistent (Hist.alter ds k d) (Hist.propagateFull (Hist.alter ds k d) st k) :=
  Hist.alter_propagateFull ds st k d hk hst

/-- … whereas propagation that stops after the direct callers does not: in the chain h → f → g,
when g starts writing, h keeps the stale "does not write" flag. -/
theorem C08_history_one_level_counterexample :
    Hist.propagateOne Hist.exDs' (Hist.closure Hist.exDs) 0 = [true, true, false] ∧
    Hist.closure Hist.exDs' = [true, true, true] ∧
    ¬ Hist.Consistent Hist.exDs' (Hist.propagateOne Hist.exDs' (Hist.closure Hist.exDs) 0) :=
  Hist.propagateOne_counterexample

/-- **C08_group.** The capabilities of a unit group are the bitwise OR (= union) of the units':
bit by bit, as an upper bound, as the least one; and the `caps & ~allowed` test of
`check_capabilities` is false exactly when `caps ⊆ allowed`. -/
theorem C08_group (us : List Caps) :
    (∀ i, (groupCaps us).getLsbD i = us.any (·.getLsbD i)) ∧
    (∀ u ∈ us, sub u (groupCaps us)) ∧
    (∀ a, (∀ u ∈ us, sub u a) → sub (groupCaps us) a) ∧
    (∀ c allowed : Caps, c &&& ~~~allowed = 0#64 ↔ sub c allowed) :=
  ⟨groupCaps_bit us, fun _ h => sub_groupCaps_of_mem h, fun _ h => groupCaps_least h,
   fun c a => and_not_eq_zero_iff c a⟩

/-- **C08_script.** Scripts: a script containing a statement with DML gets MODIFICATIONS; a script
whose flags lack MODIFICATIONS leaves the stored data unchanged; script flags are named flags. -/
theorem C08_script (fe : FnEnv) (ss : List Stmt) (c : Caps) (h : scriptCaps fe ss = .ok c) :
    (∀ q, (Stmt.query q ∈ ss ∨ Stmt.analyze q ∈ ss) → containsDML fe q = true → sub MODIFICATIONS c) ∧
    (fe.WF → ¬ sub MODIFICATIONS c → ∀ db, runScript fe db ss = db) ∧
    sub c named :=
  ⟨fun _ hq hd => script_dml h hq hd, fun hwf hm db => script_sound hwf h hm db, scriptCaps_named h⟩

/-- **C08_make_error.** `Capability.make_error`: a message names a flag that is used and not
allowed, is only produced when the `& ~allowed` test fires, and for sets of named flags (all the
compiler produces, `C08_script`) is always produced when it fires (no `AssertionError`). -/
theorem C08_make_error (c a : Caps) :
    (∀ t, makeError c a = some t →
        (∃ it ∈ items, it.2.2 = t ∧ it.2.1 &&& a = 0#64 ∧ c &&& it.2.1 ≠ 0#64) ∧ exceeds c a = true) ∧
    (sub c named → exceeds c a = true → (makeError c a).isSome = true) :=
  ⟨fun _ h => ⟨makeError_some h, makeError_sound h⟩, makeError_complete⟩

/-! ### the hypotheses are satisfiable on non-trivial instances -/

instance : DecidableEq (Except Reject Caps) := fun a b =>
  match a, b with
  | .ok x, .ok y => if h : x = y then isTrue (by rw [h]) else isFalse (fun e => by cases e; exact h rfl)
  | .error x, .error y =>
    if h : x = y then isTrue (by rw [h]) else isFalse (fun e => by cases e; exact h rfl)
  | .ok _, .error _ => isFalse (fun e => by cases e)
  | .error _, .ok _ => isFalse (fun e => by cases e)

/-- schema: f0 pure reader, f1 `insert` (declared Modifying), f2 inferred Modifying -/
def exFe : FnEnv :=
  match declare [] none [] (.objs 1) with
  | .ok fe1 =>
    match declare fe1 (some true) [] (.insert 1 (.cons (.lit 7) .nil) .nil .nil) with
    | .ok fe2 =>
      match declare fe2 none [] (.call 1 .nil) with
      | .ok fe3 => fe3
      | .error _ => []
    | .error _ => []
  | .error _ => []

example : exFe.length = 3 ∧ fnModifying exFe 0 = false ∧ fnModifying exFe 1 = true ∧
    fnModifying exFe 2 = true := by decide

/-- DML in a WITH binding of a sub-query in a FOR body: flagged -/
example : stmtCaps exFe (.query (.forQ 0 (.op (.cons (.lit 1) (.cons (.lit 2) .nil)))
      (.withB 1 (.delete (.objs 1) .nil .nil .nil) (.var 0)))) = .ok MODIFICATIONS := by decide

/-- … and it really changes the DB -/
example : (run exFe [] [(1, 5), (2, 6)] (.forQ 0 (.op (.cons (.lit 1) (.cons (.lit 2) .nil)))
      (.withB 1 (.delete (.objs 1) .nil .nil .nil) (.var 0)))).1 = [(2, 6)] := by decide

/-- call of the inferred-Modifying function inside a function argument: flagged -/
example : stmtCaps exFe (.query (.call 0 (.cons (.call 2 .nil) .nil))) = .ok MODIFICATIONS := by decide

/-- a function whose only DML sits in a WITH binding of its body (`with x := mklog() select x`,
volatility omitted) is Modifying, so is a function that merely calls it, and `select g()` is flagged -/
example :
    (match declare exFe none [] (.withB 1 (.call 1 .nil) (.var 1)) with
     | .ok fe4 =>
       match declare fe4 none [] (.call 3 .nil) with
       | .ok fe5 => fnModifying fe5 3 && fnModifying fe5 4 &&
           (stmtCaps fe5 (.query (.call 4 .nil)) == .ok MODIFICATIONS)
       | .error _ => false
     | .error _ => false) = true := by decide

/-- declaring such a function with a lower volatility is rejected -/
example : (match declare exFe (some false) [] (.withB 1 (.call 1 .nil) (.var 1)) with
    | .error .volatility => true | _ => false) = true := by decide

/-- the only DML of the body sits in a computed of a free-object shape
(`select (select { a := (insert T) }).a`, volatility omitted): the function is Modifying, a function
calling it too, `select g()` is flagged; the same free object in a WITH binding is rejected -/
example :
    (match declare exFe none [] (.op (.cons (.free (.cons (.insert 1 .nil .nil .nil) .nil)) .nil)) with
     | .ok fe4 =>
       match declare fe4 none [] (.call 3 .nil) with
       | .ok fe5 => fnModifying fe5 3 && fnDmlStmt fe5 4 &&
           (stmtCaps fe5 (.query (.call 4 .nil)) == .ok MODIFICATIONS) &&
           (stmtCaps fe5 (.query (.withB 0 (.free (.cons (.insert 1 .nil .nil .nil) .nil)) (.var 0)))
              == .error .shape)
       | .error _ => false
     | .error _ => false) = true := by decide

/-- a function that only calls a declared-Modifying function with a pure body (f3 below) is not
Modifying itself (volatility of the inlined body), although a direct call of f3 is flagged -/
example :
    (match declare exFe (some true) [0] (.var 0) with
     | .ok fe4 =>
       match declare fe4 none [] (.call 3 (.cons (.lit 1) .nil)) with
       | .ok fe5 => fnModifying fe5 3 && !fnModifying fe5 4 &&
           (stmtCaps fe5 (.query (.call 3 (.cons (.lit 1) .nil))) == .ok MODIFICATIONS) &&
           (stmtCaps fe5 (.query (.call 4 .nil)) == .ok NONE)
       | .error _ => false
     | .error _ => false) = true := by decide

/-- DML in a FILTER clause is rejected, a read-only query is unflagged and pure -/
example : stmtCaps exFe (.query (.select (.objs 1) .nil (.cons (.call 1 .nil) .nil) .nil .nil))
    = .error .clause := by decide
example : stmtCaps exFe (.query (.select (.objs 1) (.cons (.call 0 .nil) .nil) .nil .nil .nil))
    = .ok NONE := by decide

/-- a script: SELECT; INSERT; START TRANSACTION -/
example : scriptCaps exFe [.query (.lit 1), .query (.insert 1 .nil .nil .nil), .command .txControl]
    = .ok (MODIFICATIONS ||| TRANSACTION) := by decide

example : makeError (MODIFICATIONS ||| DDL) (ALL &&& ~~~WRITE) = some "data modification queries" := by
  decide

end EdbVerif.C08
