/-
C20 — Dependency ordering respects every dependency and finds real cycles.

Property theorems about `EdbVerif.Topo.sortEx`, the model of
`edb/common/topological.py::sort_ex`.  Only statements, non-vacuity examples
and the definitions needed to read them live here; helper lemmas are in
`EdbVerif/Lemmas/Topo.lean`.

Reading guide.  A graph is a list of entries in iteration order; `WF g` says
the keys are distinct (a Python `Mapping`).  Edges that point outside the graph
are ignored by the real code when `allow_unresolved` is set and rejected up
front otherwise, hence every edge relation below is restricted to present keys.
-/
import EdbVerif.Lemmas.Topo
import EdbVerif.Lemmas.OrdSet

namespace EdbVerif.C20
open EdbVerif.Topo

/-- Every item exactly once. -/
theorem topo_perm (g : Graph) (allow : Bool) (o : List Nat) (hwf : WF g)
    (h : sortEx g allow = .ok o) : o.Perm g.keys :=
  Topo.sortEx_perm g allow o hwf h

/-- Each item after all of its hard dependencies. -/
theorem topo_hard (g : Graph) (allow : Bool) (o : List Nat) (hwf : WF g)
    (h : sortEx g allow = .ok o) (a b : Nat) (hab : Hard g a b) :
    pos o b < pos o a :=
  Topo.sortEx_hard g allow o hwf h a b hab

/-- A cycle is reported exactly when hard ∪ control edges are cyclic; in
    particular soft edges never cause a failure. -/
theorem topo_cycle (g : Graph) (allow : Bool) (hwf : WF g) (hr : Resolved g allow) :
    (∃ i p, sortEx g allow = .cycle i p) ↔ Cyclic (fun a b => Hard g a b ∨ Ctrl g a b) :=
  Topo.sortEx_cycle_iff g allow hwf hr

/-- The reported cycle is real: the item named by the `CycleError` lies on a
    cycle of hard ∪ control edges (never on a merely soft one). -/
theorem topo_cycle_item (g : Graph) (allow : Bool) (hr : Resolved g allow) (i : Nat)
    (p : List Nat) (h : sortEx g allow = .cycle i p) :
    Relation.TransGen (fun a b => Hard g a b ∨ Ctrl g a b) i i :=
  Topo.sortEx_cycle_item g allow hr i p h

/-- Soft edges are honoured whenever all edges together are acyclic. -/
theorem topo_soft (g : Graph) (allow : Bool) (hwf : WF g) (hr : Resolved g allow)
    (hac : ¬ Cyclic (fun a b => Hard g a b ∨ Ctrl g a b ∨ Weak g a b)) :
    ∃ o, sortEx g allow = .ok o ∧ ∀ a b, Weak g a b → pos o b < pos o a :=
  Topo.sortEx_soft g allow hwf hr hac

/-- Unresolved references are reported iff not allowed and one exists. -/
theorem topo_unres (g : Graph) (allow : Bool) :
    (∃ d i, sortEx g allow = .unresolved d i) ↔
      allow = false ∧ ∃ e ∈ g, ∃ d ∈ e.weak ++ e.merge ++ e.deps ++ e.ctrl, d ∉ g.keys :=
  Topo.sortEx_unres_iff g allow

/-- The recursion bound used by `sortEx` is never the reason for an answer:
    any larger fuel gives the same result (the depth of the DFS is bounded by
    the number of keys because `visiting` is duplicate-free). -/
theorem topo_fuel (g : Graph) (hwf : WF g) (fuel : Nat) (hf : g.length + 1 ≤ fuel) :
    topLoop g fuel g.keys {} = topLoop g (g.length + 1) g.keys {} :=
  Topo.topLoop_fuel g hwf fuel hf

/-! ### The container the determinism half rests on: `edb/common/ordered.py::OrderedSet`

`sortEx` consumes its edge lists in the given order; the real callers hand over
`OrderedSet`s.  These theorems say that, for EVERY history of operations, the
iteration order of an `OrderedSet` is a function of that history with the
insertion-order law, so "the given order" is well defined and reproducible. -/

open EdbVerif.OrdSet in
/-- every reachable state iterates each key exactly once -/
theorem oset_nodup (ops : List Op) : (run ops).Nodup := OrdSet.nodup_run ops

open EdbVerif.OrdSet in
/-- set semantics of every operation (refinement to the abstract set) -/
theorem oset_mem (s : OSet) (y : Nat) :
    (∀ x, y ∈ step s (.add x) ↔ y ∈ s ∨ y = x) ∧
    (∀ x, y ∈ step s (.discard x) ↔ y ∈ s ∧ y ≠ x) ∧
    (∀ xs, y ∈ step s (.update xs) ↔ y ∈ s ∨ y ∈ xs) ∧
    (∀ xs, y ∈ step s (.diff xs) ↔ y ∈ s ∧ y ∉ xs) ∧
    (∀ xs, y ∈ step s (.inter xs) ↔ y ∈ s ∧ y ∈ xs) ∧
    (∀ xs, y ∈ step s (.sym xs) ↔ ((y ∈ s ∧ y ∉ xs) ∨ (y ∉ s ∧ y ∈ xs))) ∧
    y ∉ step s .clear :=
  ⟨fun x => OrdSet.mem_add s x y, fun x => OrdSet.mem_discard s x y,
   fun xs => OrdSet.mem_update s xs y, fun xs => OrdSet.mem_diffUpdate s xs y,
   fun xs => OrdSet.mem_interUpdate s xs y, fun xs => OrdSet.mem_symUpdate s xs y, by simp [step]⟩

open EdbVerif.OrdSet in
/-- refinement: after ANY history the container holds exactly the keys of the
    abstract set obtained by running the same history on membership predicates -/
theorem oset_refines (ops : List Op) (y : Nat) : y ∈ run ops ↔ specRun ops y :=
  OrdSet.mem_run ops y

open EdbVerif.OrdSet in
/-- insertion-order law: after any single operation the keys that survive keep
    their relative order and every key that was not present before comes after
    all of them (so re-adding a present key never moves it). -/
theorem oset_order (s : OSet) (op : Op) :
    ∃ (keep : Nat → Bool) (new : List Nat),
      step s op = s.filter keep ++ new ∧ ∀ y ∈ new, y ∉ s :=
  OrdSet.ext_step s op

open EdbVerif.OrdSet in
/-- `OrderedSet(iterable)` keeps first occurrences in order: it is a
    duplicate-free list with the members of the iterable -/
theorem oset_ofList (xs : List Nat) : (ofList xs).Nodup ∧ ∀ y, y ∈ ofList xs ↔ y ∈ xs :=
  ⟨OrdSet.nodup_ofList xs, OrdSet.mem_ofList xs⟩

open EdbVerif.OrdSet in
example : run [.update [3, 1, 3, 2], .add 1, .discard 3, .add 3, .sym [2, 7, 7], .inter [3, 7, 9]]
    = [3, 7] := by decide

/-! ### Non-vacuity: concrete graphs meeting the hypotheses -/

/-- diamond with a weak back edge and a control edge -/
def exG : Graph :=
  [ { key := 1, deps := [2, 3] }, { key := 2, deps := [4], weak := [1] },
    { key := 3, merge := [4], ctrl := [2] }, { key := 4 } ]

example : WF exG ∧ Resolved exG false ∧ sortEx exG false = .ok [4, 2, 3, 1] := by
  refine ⟨by unfold WF; decide, Or.inr (by decide), by decide⟩

example : sortEx [ { key := 1, deps := [2] }, { key := 2, ctrl := [1] } ] true = .cycle 1 [2] := by
  decide

example : sortEx [ { key := 1, deps := [9] } ] false = .unresolved 9 1 := by decide

end EdbVerif.C20
