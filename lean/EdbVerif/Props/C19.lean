/-
C19 — Configuration commands compose and persist as specified.

Property theorems about `EdbVerif.Config` (model of `edb/server/config/ops.py`,
`types.py`, `__init__.py::lookup`), `EdbVerif.Duration` and `EdbVerif.Memory`
(models of `edb/ir/statypes.py::Duration / ConfigMemory`).  Only statements,
non-vacuity examples and counterexamples live here; proofs are in
`EdbVerif/Lemmas/{Config,ConfigJson,ConfigJsonObj,ConfigInv,Duration,DurationDigits,Memory}.lean`,
the vocabulary (`SMap.WF`, `MapOK`, `ValOK`, `ObjOK`, `SpecOK`, `OpNice`, …) in `Model/ConfigSpec.lean`,
the example spec in `Lemmas/ConfigExample.lean`.

Reading guide.  A storage map (`SMap`) is an association list name ↦
`SettingValue`; `State` holds the session, database and instance maps; `step`
applies one `Operation` to the map its scope names (as `dbview.apply_config_ops`
does) and leaves the state alone when `Operation.apply` raises.  `JV` is a JSON
tree (`json.dumps/loads` themselves are not modelled).
-/
import EdbVerif.Lemmas.ConfigInv
import EdbVerif.Lemmas.ConfigExcl
import EdbVerif.Lemmas.ConfigExample
import EdbVerif.Lemmas.Memory

namespace EdbVerif.C19
open EdbVerif.Config

/-! ### lookup -/

/-- The effective value of a known setting is the value stored in the most
    specific layer that defines it (session, then database, then instance),
    otherwise the setting's default. -/
theorem C19_lookup (sp : Spec) (st : State) (name : String) (s : Setting)
    (hs : sp.get name = some s) :
    effective sp st name = .ok (some (
      match st.sess.get name, st.db.get name, st.inst.get name with
      | some sv, _, _ => sv.value
      | none, some sv, _ => sv.value
      | none, none, some sv => sv.value
      | none, none, none => s.default)) :=
  effective_eq sp st name s hs

/-- `config.lookup` over any list of layers: the first layer defining the name wins. -/
theorem C19_lookup_first (sp : Spec) (name : String) (pre post : List SMap) (m : SMap) (s : Setting)
    (sv : SV) (au : Bool) (hs : sp.get name = some s)
    (hpre : ∀ c ∈ pre, c.get name = none) (hm : m.get name = some sv) :
    lookup sp name (pre ++ m :: post) au = .ok (some sv.value) :=
  lookup_first sp name pre post m s sv au hs hpre hm

/-- … and the default when no layer defines it. -/
theorem C19_lookup_default (sp : Spec) (name : String) (configs : List SMap) (s : Setting) (au : Bool)
    (hs : sp.get name = some s) (hnone : ∀ c ∈ configs, c.get name = none) :
    lookup sp name configs au = .ok (some s.default) :=
  lookup_default sp name configs s au hs hnone

/-- An unrecognised name is a ConfigurationError, or `None` with `allow_unrecognized`. -/
theorem C19_lookup_unknown (sp : Spec) (name : String) (configs : List SMap)
    (hs : sp.get name = none) :
    lookup sp name configs false = .error .configuration ∧ lookup sp name configs true = .ok none :=
  lookup_unknown sp name configs hs

/-! ### sequences of operations -/

/-- Applying a list of operations is a left fold of `step`. -/
theorem C19_seq_fold (sp : Spec) (st : State) (ops : List Op) :
    run sp st ops = ops.foldl (fun st op => (step sp st op).1) st :=
  run_eq_foldl sp st ops

/-- … hence it composes. -/
theorem C19_seq_append (sp : Spec) (st : State) (a b : List Op) :
    run sp st (a ++ b) = run sp (run sp st a) b :=
  run_append sp st a b

/-- SET succeeds exactly with the coerced value, and a lookup that consults
    this layer first returns it. -/
theorem C19_seq_set (sp : Spec) (m : SMap) (sc : Scope) (name : String) (v : JV) (s : Setting)
    (val : Val) (rest : List SMap) (hs : sp.get name = some s)
    (hc : coerceValue sp s .set v false = .ok val) :
    ∃ m', apply sp m ⟨.set, sc, name, v⟩ = .ok m' ∧
      m'.get name = some { name := name, value := val, source := sc.source, scope := sc } ∧
      lookup sp name (m' :: rest) = .ok (some val) := by
  obtain ⟨m', h1, h2⟩ := lookup_after_set sp m sc name v s val rest hs hc
  refine ⟨m', h1, ?_, h2⟩
  rw [apply_set sp m sc name v s val hs hc] at h1
  cases h1
  exact SMap.get_set_same m name _

/-- The model is a pure function of (spec, storage, operation) – an `Operation`
    is never changed by `coerce_value` / `apply`, and what is coerced for the
    server callbacks is what `apply` stores (`C19_seq_set`).  In particular a
    SET can be repeated: applying the same SET to its own result changes
    nothing.  (That the IMPLEMENTATION does not break this by mutating its
    argument – e.g. the nested `_tname` – is checked on the real code by the
    `oracle:op-mutated`, `oracle:apply-not-repeatable` and `oracle:dbview-differs`
    oracles; nested object fields themselves are outside this model.) -/
theorem C19_seq_set_repeat (sp : Spec) (m m' : SMap) (sc : Scope) (name : String) (v : JV)
    (h : apply sp m ⟨.set, sc, name, v⟩ = .ok m') :
    apply sp m' ⟨.set, sc, name, v⟩ = .ok m' := by
  obtain ⟨s, val, hs, hc, rfl⟩ := apply_set_inv sp m m' sc name v h
  rw [apply_set sp _ sc name v s val hs hc]
  unfold setValue
  rw [SMap.set_set_same]

/-- RESET removes the entry: in this layer alone the setting reads as its default again. -/
theorem C19_seq_reset (sp : Spec) (m m' : SMap) (sc : Scope) (name : String) (v : JV)
    (s : Setting) (hs : sp.get name = some s) (hwf : m.WF)
    (h : apply sp m ⟨.reset, sc, name, v⟩ = .ok m') :
    m' = m.delete name ∧ m'.get name = none ∧ lookup sp name [m'] = .ok (some s.default) :=
  ⟨apply_reset_inv sp m m' sc name v h, lookup_after_reset sp m m' sc name v s hs hwf h⟩

/-- ADD (CONFIGURE … INSERT) on an object setting is insertion of the coerced
    object into the current set (stored, else default); it succeeds only if the
    result has pairwise unequal elements (`__eq__`: same type spec and equal
    own unique fields) AND no two elements – of whatever (sub)types – agree on
    an exclusive field at its unique site (`NoClash`). -/
theorem C19_seq_add (sp : Spec) (m m' : SMap) (sc : Scope) (name : String) (v : JV)
    (h : apply sp m ⟨.add, sc, name, v⟩ = .ok m') :
    ∃ s t o l, sp.get name = some s ∧ s.ty = .obj t ∧
      fromPyValue sp t false v = .ok (some o) ∧ existValue m name s = .objs l ∧
      m' = setValue m name (.objs (l ++ [o])) sc ∧
      (l ++ [o]).Pairwise (fun a b => a.pyEq b = false) ∧
      (l ++ [o]).Pairwise NoClash := by
  obtain ⟨s, t, o, l, h1, h2, h3, h4, h5, h6, h7⟩ := apply_add_inv sp m m' sc name v h
  exact ⟨s, t, o, l, h1, h2, h3, h4, h5, h6, checkUnique_excl _ _ h7⟩

/-- SET of a list on an object setting (`coerce_object_set`): the stored
    elements are pairwise unequal and pairwise free of exclusivity clashes. -/
theorem C19_seq_set_objs (sp : Spec) (t : TSpec) (so : Bool) (v : JV) (l : List Obj)
    (h : coerceObjectSet sp t so v = .ok l) :
    l.Pairwise NoClash ∧ l.Pairwise (fun a b => a.pyEq b = false) :=
  coerceObjectSet_excl sp t so v l h

/-- `get_field_unique_site`: the site is the TOP-MOST type of the chain self,
    parent, grand-parent, … on which the field is exclusive (so sibling subtypes
    inheriting an exclusive field share its site). -/
theorem C19_unique_site (t : TSpec) (k : String) :
    t.uniqueSite k =
      ((({ name := t.name, fields := t.fields } : TBase) :: t.ancestors).filter
          (fun b => fieldUniqueIn b.fields k)).getLast?.map (·.name) :=
  uniqueSite_top t k

/-- REM erases the elements equal to the given object (absent: nothing is
    removed, no error); REM of `None` removes nothing.  The result is stored at
    the operation's scope – except that NOTHING is stored when that scope has no
    entry and nothing was removed (`remStore`). -/
theorem C19_seq_rem (sp : Spec) (m m' : SMap) (sc : Scope) (name : String) (v : JV)
    (h : apply sp m ⟨.rem, sc, name, v⟩ = .ok m') :
    ∃ s t l, sp.get name = some s ∧ s.ty = .obj t ∧ existValue m name s = .objs l ∧
      ((∃ o, fromPyValue sp t true v = .ok (some o) ∧
          m' = remStore m name sc l (l.filter fun x => !x.pyEq o)) ∨
       (fromPyValue sp t true v = .ok none ∧ m' = remStore m name sc l l)) :=
  apply_rem_inv sp m m' sc name v h

/-- **A filtered RESET that removes nothing leaves every effective value
    unchanged**: whatever layers come before and after this one, `lookup` of
    every setting gives the same answer with the layer before and after the
    operation.  (Before fix 9cae9a4 this was false: an empty set was stored and
    masked the less specific layers.) -/
theorem C19_seq_rem_noop (sp : Spec) (m m' : SMap) (sc : Scope) (name : String) (v : JV)
    (h : apply sp m ⟨.rem, sc, name, v⟩ = .ok m')
    (hnoop : ∀ s t l o, sp.get name = some s → s.ty = .obj t → existValue m name s = .objs l →
      fromPyValue sp t true v = .ok (some o) → (l.filter fun x => !x.pyEq o) = l)
    (k : String) (pre post : List SMap) (au : Bool) :
    lookup sp k (pre ++ m' :: post) au = lookup sp k (pre ++ m :: post) au :=
  rem_noop_lookup sp m m' sc name v h hnoop k pre post au

/-- `_check_object_set_uniqueness`: success returns its input, pairwise
    unequal, pairwise without two objects agreeing on an exclusive field at its
    unique site, and at most `MAX_CONFIG_SET_SIZE` long. -/
theorem C19_seq_unique (l l' : List Obj) (h : checkUnique l = .ok l') :
    l' = l ∧ l'.Pairwise (fun a b => a.pyEq b = false) ∧ l'.Pairwise NoClash ∧
    l'.length ≤ MAX_CONFIG_SET_SIZE := by
  obtain ⟨h1, h2, h3⟩ := checkUnique_ok l l' h
  exact ⟨h1, h2, checkUnique_excl l l' h, h3⟩

/-- Frame: a successful operation changes no other setting of its layer, keeps
    the keys unique, and tags the entry with the operation's name and scope. -/
theorem C19_seq_frame (sp : Spec) (m m' : SMap) (op : Op) (h : apply sp m op = .ok m') :
    (∀ k, k ≠ op.name → m'.get k = m.get k) ∧ (m.WF → m'.WF) ∧
    (op.code = .set ∨ op.code = .add → ∃ v, m'.get op.name =
        some { name := op.name, value := v, source := op.scope.source, scope := op.scope }) :=
  ⟨apply_frame sp m m' op h, apply_WF sp m m' op h, apply_entry sp m m' op h⟩

/-- A step never touches the other two layers. -/
theorem C19_seq_scope (sp : Spec) (st : State) (op : Op) (sc : Scope) (h : sc ≠ op.scope) :
    (step sp st op).1.map sc = st.map sc :=
  step_other_scope sp st op sc h

/-! ### rejection -/

/-- A value that fails coercion (wrong type, out of range, bad duration /
    memory text, broken uniqueness in a SET, unknown field …) makes the whole
    operation fail with that error; an unknown setting is a ConfigurationError;
    and a failed step leaves all three layers exactly as they were. -/
theorem C19_reject (sp : Spec) (st : State) (op : Op) :
    (∀ s e, sp.get op.name = some s →
        coerceValue sp s op.code op.value op.code.allowMissing = .error e →
        apply sp (st.map op.scope) op = .error e) ∧
    (sp.get op.name = none → apply sp (st.map op.scope) op = .error .configuration) ∧
    (∀ e, apply sp (st.map op.scope) op = .error e →
        (step sp st op).2 = some e ∧ (step sp st op).1 = st) := by
  refine ⟨fun s e hs hc => apply_coerce_error sp _ op s e hs hc,
          fun h => apply_unknown sp _ op h, fun e h => ?_⟩
  have h2 := (step_error_iff sp st op e).mpr h
  exact ⟨h2, step_error sp st op e h2⟩

/-! ### JSON -/

/-- `from_json(to_json(m)) == m` for every storage map whose entries are
    admissible (`MapOK`: unique keys, known settings, values of the setting's
    kind – any integer duration, NON-NEGATIVE memory, enum members, raw atoms,
    duplicate-free sets, objects following their type). -/
theorem C19_json (sp : Spec) (m : SMap) (h : MapOK sp m) :
    ∃ j, toJson sp m = .ok j ∧ fromJson sp j = .ok m :=
  json_roundtrip_typed sp m h

/-- The same with the per-value round trip as the hypothesis (covers any
    value for which `value_from_json_value ∘ value_to_json_value` is the identity). -/
theorem C19_json_rt (sp : Spec) (m : SMap) (hwf : m.WF)
    (hent : ∀ kv ∈ m, ∃ s, sp.get kv.1 = some s ∧ kv.2.name = kv.1 ∧ RT sp s kv.2.value) :
    ∃ j, toJson sp m = .ok j ∧ fromJson sp j = .ok m :=
  json_roundtrip sp m hwf hent

/-- The values SET stores for scalar and set-of-scalar settings are admissible
    (so `C19_json` applies to them) – except a negative `int` given to a memory
    setting, which is accepted and then does not round-trip
    (`memory_rt_negative_counterexample`). -/
theorem C19_json_set_admissible (sp : Spec) (s : Setting) (t : STy) (v : JV) (val : Val)
    (hty : s.ty = .sc t) (hset : s.setOf = true → t = .bool ∨ t = .int ∨ t = .str)
    (h : coerceValue sp s .set v false = .ok val)
    (hneg : ∀ i, t = .mem → v = .int i → 0 ≤ i) : ValOK sp s val :=
  coerce_scalar_ValOK sp s t v val hty hset h hneg

/-- Invariant: a successful operation keeps a storage map admissible, provided
    it avoids the two corners where the real code breaks the property
    (`OpNice`: no negative int for a memory slot; no SET on a single-valued
    object setting) and the spec is well-formed (`SpecOK`). -/
theorem C19_json_invariant (sp : Spec) (hsp : SpecOK sp) (m m' : SMap) (op : Op) (hm : MapOK sp m)
    (hop : OpNice sp op) (h : apply sp m op = .ok m') : MapOK sp m' :=
  apply_MapOK sp hsp m m' op hm hop h

/-- Hence every configuration reachable from the empty one by such operations
    – whatever mixture of accepted and rejected ones – survives
    `to_json` / `from_json` in each of its three layers. -/
theorem C19_json_reachable (sp : Spec) (hsp : SpecOK sp) (ops : List Op)
    (hops : ∀ op ∈ ops, OpNice sp op) (sc : Scope) :
    ∃ j, toJson sp ((run sp {} ops).map sc) = .ok j ∧
         fromJson sp j = .ok ((run sp {} ops).map sc) := by
  apply json_roundtrip_typed
  apply run_MapOK sp hsp ops {} _ hops
  intro sc'
  cases sc' <;> exact ⟨SMap.WF_nil, by intro kv h; simp [State.map] at h⟩

/-- What `frozenset(...)` builds is duplicate-free and stable under rebuilding. -/
theorem C19_json_set (l : List Scalar) : PD (mkSet l) ∧ mkSet (mkSet l) = mkSet l :=
  ⟨mkSet_PD l, mkSet_idem l⟩

/-! ### Duration and memory -/

/-- `Duration(d.to_iso8601()) == d` and `Duration.from_iso8601(d.to_iso8601()) == d`
    for EVERY integer number of microseconds, negative ones included (the sign
    is repeated on every printed component and read back per component). -/
theorem duration_rt (us : Int) :
    Duration.usFromPgText (Duration.toIso us) = .ok us ∧
    Duration.fromIso (Duration.toIso us) = .ok us :=
  ⟨Duration.usFromPgText_toIso us, Duration.fromIso_toIso us⟩

/-- `ConfigMemory(str(m)) == m` for every non-negative number of bytes. -/
theorem memory_rt (n : Nat) : Memory.parseMemory (Memory.memToStr (n : Int)) = some n :=
  Memory.memory_roundtrip n

/-- The constant `to_edgeql` prints for a (non-negative) memory value is the cast
    of `to_str()`, and that text reads back as the same number of bytes. -/
theorem memory_edgeql_rt (n : Nat) :
    constText (.mem n) = .ok ("<cfg::memory>'" ++ String.ofList (Memory.memToStr n) ++ "'") ∧
    Memory.parseMemory (Memory.memToStr (n : Int)) = some n :=
  ⟨rfl, Memory.memory_roundtrip n⟩

/-- `Duration(text)` and `Duration.from_iso8601(text)` reject EVERY text without a
    digit – `''`, `'\n'`, `'PT'`, blanks, … (fix 44d9781; before, the first three
    were read as 0 µs). -/
theorem duration_needs_digit (s : List Char) (h : ∀ c ∈ s, Duration.isDigit c = false) :
    Duration.usFromPgText s = .error .invalid ∧ Duration.fromIso s = .error .invalid :=
  Duration.noDigit_rejected s h

/-- FALSE for negative values, which `ConfigMemory(int)` (hence
    `coerce_single_value`) accepts: `ConfigMemory(-5)` prints `-5B`, which
    `ConfigMemory(str)` rejects.  Replayed on the real code by the harness
    (`json-rt:raises:memory:InvalidValueError`). -/
theorem memory_rt_negative_counterexample :
    coerceSingle .mem (.int (-5)) = .ok (.mem (-5)) ∧
    Memory.parseMemory (Memory.memToStr (-5)) = none := by
  exact ⟨rfl, Memory.memory_negative_counterexample⟩

/-! ### Non-vacuity and documented corners -/

def exOps : List Op := [
  ⟨.set, .instance, "i", .int 1⟩, ⟨.set, .session, "i", .int 3⟩, ⟨.set, .session, "i", .str "x"⟩,
  ⟨.set, .database, "d", .str "1:30"⟩,
  ⟨.add, .session, "objs", .obj [("database", .str "a"), ("port", .int 1)]⟩,
  ⟨.add, .session, "objs", .obj [("database", .str "b"), ("port", .int 1), ("timeout", .str "PT-0.5S")]⟩,
  ⟨.add, .session, "objs", .obj [("database", .str "a"), ("port", .int 2)]⟩,
  ⟨.rem, .session, "objs", .obj [("database", .str "b")]⟩ ]

/-- most specific layer wins; a rejected SET changed nothing -/
example : effective exSpec (run exSpec {} exOps) "i" = .ok (some (.sc (.int 3))) := by decide
example : effective exSpec (run exSpec {} exOps) "d" = .ok (some (.sc (.dur 5400000000))) := by decide
example : (step exSpec (run exSpec {} exOps) ⟨.set, .session, "i", .str "x"⟩).2 = some .configuration := by
  decide
/-- the duplicate `database = "a"` was rejected, `b` was removed again -/
example : ((run exSpec {} exOps).sess.get "objs").map (fun sv => match sv.value with
    | .objs l => l.length | _ => 0) = some 1 := by decide

/-- `SpecOK` is satisfiable: the example spec (scalars, a set, a single and a
    multi-valued object setting with unique fields, a set-valued and a
    `None`-defaulted field) is well-formed -/
example : SpecOK exSpec := by
  refine ⟨?_, ?_, ?_, ?_⟩
  · intro n t h; rw [exSpec_types n t h]; exact exPort_ok
  · intro n s t h hty
    have := exSpec_get n s h
    simp [exSpec, exSettings] at this
    rcases this with rfl | rfl | rfl | rfl | rfl | rfl <;> simp at hty <;> subst hty <;> decide
  · intro n s t h hty
    have := exSpec_get n s h
    simp [exSpec, exSettings] at this
    rcases this with rfl | rfl | rfl | rfl | rfl | rfl <;> simp at hty <;> simp [ValOK]
  · intro n s t h hty hso
    have := exSpec_get n s h
    simp [exSpec, exSettings] at this
    rcases this with rfl | rfl | rfl | rfl | rfl | rfl <;> simp at hty hso <;> simp [← hty]

/-- a hierarchy: `name` exclusive on the parent and inherited, `token` exclusive on one subtype only -/
def exProv : TBase := { name := "Prov", fields := [{ name := "name", ty := .sc .str, unique := true }] }
def exSmtp : TSpec := { name := "Smtp", ancestors := [exProv], fields :=
  [{ name := "name", ty := .sc .str, unique := true },
   { name := "token", ty := .sc .str, unique := true, default := some (.sc .none) }] }
def exWeb : TSpec := { name := "Web", ancestors := [exProv], fields :=
  [{ name := "name", ty := .sc .str, unique := true }] }
def exObj (t : TSpec) (n : String) : Obj :=
  { tspec := t, vals := t.fields.map fun f => (f.name, if f.name = "name" then .sc (.str n) else .sc .none) }

/-- sibling subtypes share the site of the inherited exclusive field, so equal
    names are rejected although the objects are not `__eq__`; different names pass -/
example : exSmtp.uniqueSite "name" = some "Prov" ∧ exWeb.uniqueSite "name" = some "Prov" ∧
    exSmtp.uniqueSite "token" = some "Smtp" := by decide
example : (exObj exSmtp "a").pyEq (exObj exWeb "a") = false ∧
    checkUnique [exObj exSmtp "a", exObj exWeb "a"] = .error .constraintViolation ∧
    checkUnique [exObj exSmtp "a", exObj exWeb "b"] = .ok [exObj exSmtp "a", exObj exWeb "b"] := by decide

/-- the JSON theorem's hypothesis is satisfiable by a non-trivial map -/
def exMap : SMap := (run exSpec {} exOps).sess

example : ∃ j, toJson exSpec exMap = .ok j ∧ fromJson exSpec j = .ok exMap := by
  refine ⟨_, rfl, ?_⟩
  decide

/-- documented corner of the real code: SET on a single-valued object setting
    stores a frozenset, after which `to_json` raises AttributeError -/
example : ∃ m, apply exSpec [] ⟨.set, .session, "obj", .list [.obj [("database", .str "a"), ("port", .int 1)]]⟩
      = .ok m ∧ (match toJson exSpec m with | .error .attributeError => true | _ => false) = true := by
  refine ⟨_, rfl, ?_⟩
  decide

/-- documented corner: ADD on a single-valued object setting whose default is
    `None` raises TypeError (`list(None)`) -/
example : apply exSpec [] ⟨.add, .session, "obj", .obj [("database", .str "a"), ("port", .int 1)]⟩
    = .error .typeError := by decide

/-- since fix 7df602b a bool is rejected for an int64 SETTING … -/
example : coerceSingle .int (.bool true) = .error .configuration := rfl
/-- … but documented corner: `from_pyvalue` still accepts it for an int FIELD of an object -/
example : coerceField { name := "port", ty := .sc .int } (.bool true) = .ok (.sc (.bool true)) := rfl

/-- the former masking witness: one object at INSTANCE, REM of an absent object at
    SESSION – the step succeeds, stores nothing, the effective value stays -/
example :
    let st := run exSpec {} [⟨.add, .instance, "objs", .obj [("database", .str "a"), ("port", .int 1)]⟩]
    let op : Op := ⟨.rem, .session, "objs", .obj [("database", .str "zzz")]⟩
    (step exSpec st op).2 = none ∧ (step exSpec st op).1.sess = [] ∧
    effective exSpec (step exSpec st op).1 "objs" = effective exSpec st "objs" := by
  decide

/-- since fix a93d1c2 `to_edgeql` prints memory values as a cast of their text -/
example : ∃ m, apply exSpec [] ⟨.set, .instance, "mem", .str "5MiB"⟩ = .ok m ∧
    toEdgeQL exSpec m = .ok ["CONFIGURE INSTANCE SET mem := <cfg::memory>'5MiB';"] := by
  refine ⟨_, rfl, ?_⟩
  decide

end EdbVerif.C19
