/-
C18 — Quoted literals and identifiers cannot break out of their quotes.

For every string (byte string) that a quoted form can express, the text that
the system's quoting functions produce is read back as ONE token carrying the
original value, whatever follows it (`rest`), by
  * the EdgeQL tokenizer (`EdbVerif.Lex.lexOne`, model of tokenizer.rs +
    validation.rs + helpers/{strings,bytes}.rs, tied to the real Rust code by the
    differential run), resp.
  * PostgreSQL's lexical rules (`EdbVerif.PgLex`, a transcription of the
    PostgreSQL documentation — TRUSTED specification, see that file).
The quoting functions are the models in `EdbVerif.Quote` of
`edb/edgeql/quote.py`, `edb/edgeql/codegen.py` (visit_Constant /
visit_BytesConstant) and `edb/pgsql/common.py`, tied to the real Python code by
the differential run.  State of the code: after the fixes 269eaeb, 6e967b8,
1c83ec0, 878e057.

Reading guide.
  * `U : UClass` are Rust's `is_alphabetic` / `is_alphanumeric` outside ASCII and
    `P : PyUnicode` is CPython's Unicode database outside ASCII: every theorem
    holds for ALL such tables (the identifier theorem needs the inclusion
    `Compat P U`, which the harness checks on every code point of the real tables).
  * "what follows" (`rest`) is arbitrary for the string and bytes literals: the
    closing delimiter ends the token.  A back-quoted name must not be followed
    by another back-quote, a bare identifier must be followed by a
    non-identifier character; for SQL the PostgreSQL continuation rule
    ('…' <newline> '…' is ONE constant) has to be excluded.  Each theorem states
    its delimiter condition.
  * All EdgeQL statements now hold at full strength: the only guards left say
    what NO quoted form can express (NUL in a string; NUL / bidi control in a
    dollar string, which has no escapes; names that neither the back-quoted nor
    the bare form can carry).  One SQL statement (`quote_e_literal`, dead code)
    is still false: `_partial` + `_counterexample`.
  * Section "what the fixes repaired": the counterexamples that were true of
    the previous code, stated about `EdbVerif.QuoteOld`, next to the behaviour
    of the current code on the same inputs.
-/
import EdbVerif.Lemmas.QuoteConst
import EdbVerif.Lemmas.QuoteBytes
import EdbVerif.Lemmas.QuoteIdent
import EdbVerif.Lemmas.QuotePg
import EdbVerif.Lemmas.QuotePgName
import EdbVerif.Lemmas.QuotePgDollar
import EdbVerif.Lemmas.QuotePgTags
import EdbVerif.Lemmas.QuoteParam
import EdbVerif.Lemmas.QuoteAll
import EdbVerif.Lemmas.QuoteDollarTotal
import EdbVerif.Model.QuoteOld

namespace EdbVerif.C18
open EdbVerif.Lex EdbVerif.Quote

/-- the token a string literal must be read back as -/
abbrev strTok (s : List Char) : Tok := ⟨.str, .str s⟩
/-- the token a bytes literal must be read back as -/
abbrev bytesTok (b : List UInt8) : Tok := ⟨.binStr, .bytes b⟩

/-- no NUL: the strings an EdgeQL string literal can express -/
def noNul (s : List Char) : Bool := s.all (fun c => c.toNat ≠ 0)

/-! ## EdgeQL string literal: `quote_literal` -/

/-- `quote_literal` is read back as one string token with the original value,
    for EVERY string without NUL, whatever follows. -/
theorem edgeql_str (U : UClass) (s rest : List Char) (h : noNul s = true) :
    lexOne U (quoteLiteral s ++ rest) = .ok (strTok s, rest) :=
  quoteLiteral_lex U s rest (by simpa [noNul] using h)

/-- NUL really is inexpressible: `quote_literal('\0')` = `'\x00'` is refused
    (so is `\u0000`); no EdgeQL string literal denotes it. -/
theorem edgeql_str_nul_rejected (U : UClass) :
    quoteLiteral [Char.ofNat 0] = ['\'', '\\', 'x', '0', '0', '\''] ∧
    lexOne U ['\'', '\\', 'x', '0', '0', '\''] = .error .badEscape ∧
    lexOne U ['\'', '\\', 'u', '0', '0', '0', '0', '\''] = .error .badEscape := by
  exact ⟨by decide, by rfl, by rfl⟩

/-! ## EdgeQL dollar-quoted literal: `dollar_quote_literal` -/

/-- `dollar_quote_literal` is read back as one string token with the original
    value for EVERY text a dollar string can carry (`dollarExpressible`: no NUL,
    no bidi control — a dollar string has no escapes), whatever follows. -/
theorem edgeql_dollar (U : UClass) (s rest : List Char) (h : dollarExpressible s = true) :
    ∃ q, dollarQuoteLiteral s = some q ∧ lexOne U (q ++ rest) = .ok (strTok s, rest) := by
  obtain ⟨q, hq⟩ := dollarQuoteLiteral_isSome s
  exact ⟨q, hq, dollarQuote_lex U s q rest hq h⟩

/-- The `while` loop of `dollar_quote_literal` always ends within
    `len(text) + 2` candidates (the fuel of the model is never exhausted): each
    rejected candidate occupies its own `$` position of the text. -/
theorem edgeql_dollar_total (s : List Char) : ∃ q, dollarQuoteLiteral s = some q :=
  dollarQuoteLiteral_isSome s

/-- The loop of `dollar_quote_literal` only ever settles on `$$` or on a tag
    `$<hex, least significant digit first, starting with a–f>$`, and the tag
    does not occur in the text followed by the tag minus its last `$`: the
    closing tag is the FIRST occurrence after the opening one. -/
theorem edgeql_dollar_tag (s t : List Char) (h : dollarTag s = some t) :
    GoodTag t ∧ Quote.contains t (s ++ t.dropLast) = false :=
  dollarTag_spec s t h

/-! ## The form `visit_Constant` picks -/

/-- `visit_Constant` (STRING) — plain `'…'`/`"…"`, raw `r'…'`, `$$…$$`,
    `$tag$…$tag$` or the escaped `quote_literal` form — is read back as one
    string token with the original value for EVERY string without NUL,
    whatever follows. -/
theorem edgeql_const (U : UClass) (s rest : List Char) (h : noNul s = true) :
    ∃ q, ppStr s = some q ∧ lexOne U (q ++ rest) = .ok (strTok s, rest) := by
  obtain ⟨q, hq⟩ := ppStr_isSome s
  exact ⟨q, hq, ppStr_lex U s q rest hq (by simpa [noNul, constExpressible] using h)⟩

/-- `visit_Constant` always prints something (no fuel artefact) -/
theorem edgeql_const_total (s : List Char) : ∃ q, ppStr s = some q := ppStr_isSome s

/-! ## EdgeQL bytes literal: `visit_BytesConstant` -/

/-- `visit_BytesConstant` is read back as one bytes token with the original
    value for EVERY byte string, whatever follows. -/
theorem edgeql_bytes (U : UClass) (b : List UInt8) (rest : List Char) :
    lexOne U (ppBytes b ++ rest) = .ok (bytesTok b, rest) :=
  ppBytes_lex U b rest

/-! ## EdgeQL identifiers: `quote_ident` -/

/-- `quote_ident` (default flags) is read back as one identifier-like token
    (an `Ident`, or a keyword that is not reserved, or `__type__`/`__std__`)
    whose value is the original name, for EVERY name some identifier form can
    carry (`identExpressible`), provided Python's classes are inside the
    tokenizer's (`Compat P U`: a fact about the two Unicode tables; on the
    real ones — CPython 3.12 / Unicode 15.0 vs the rustc in use — the harness
    finds no exception among all 1 112 064 code points). -/
theorem edgeql_ident (U : UClass) (P : PyUnicode) (hc : Compat P U) (s rest : List Char)
    (h : identExpressible P s = true)
    (hd : identDelim U (needsQuoting P s false false) rest) :
    ∃ t, lexOne U (quoteIdent P s false false false ++ rest) = .ok (t, rest) ∧
      t.val = .str s ∧ IdentLike t.kind :=
  quoteIdent_lex U P hc s rest h hd

/-- `quote_ident(s, force=True)` on names the back-quoted form can carry -/
theorem edgeql_ident_forced (U : UClass) (P : PyUnicode) (s rest : List Char)
    (h : backtickExpressible s = true) (hq : rest.head? ≠ some '`') :
    lexOne U (quoteIdent P s true false false ++ rest) = .ok (⟨.ident, .str s⟩, rest) :=
  quoteIdent_forced_lex U P s rest h hq

/-! ## The whole text is exactly one token

`lexAll` is the token stream (white space and comments skipped between
tokens, EOI excluded).  This is the shape of the harness oracle: real quoting
function → real tokenizer → one token (+EOI) with the original value. -/

theorem edgeql_str_single (U : UClass) (s : List Char) (h : noNul s = true) :
    lexAll U (quoteLiteral s) = ([strTok s], none) :=
  quoteLiteral_lexAll U s (by simpa [noNul] using h)

theorem edgeql_dollar_single (U : UClass) (s : List Char) (h : dollarExpressible s = true) :
    ∃ q, dollarQuoteLiteral s = some q ∧ lexAll U q = ([strTok s], none) := by
  obtain ⟨q, hq⟩ := dollarQuoteLiteral_isSome s
  exact ⟨q, hq, dollarQuote_lexAll U s q hq h⟩

theorem edgeql_const_single (U : UClass) (s : List Char) (h : noNul s = true) :
    ∃ q, ppStr s = some q ∧ lexAll U q = ([strTok s], none) := by
  obtain ⟨q, hq⟩ := ppStr_isSome s
  exact ⟨q, hq, ppStr_lexAll U s q hq (by simpa [noNul, constExpressible] using h)⟩

theorem edgeql_bytes_single (U : UClass) (b : List UInt8) :
    lexAll U (ppBytes b) = ([bytesTok b], none) :=
  ppBytes_lexAll U b

/-! ## SQL: `edb/pgsql/common.py` against the PostgreSQL lexical rules -/

/-- `quote_literal`: for every string without NUL (which no query can contain),
    followed by anything that does not start with a quote and is not a
    continuation (white space with a newline, then a quote), the standard
    string constant is read back with the original value. -/
theorem pg_literal (s rest : List Char) (h0 : ∀ c ∈ s, c.toNat ≠ 0)
    (hq : rest.head? ≠ some '\'') (hc : PgLex.continues false rest = false) :
    PgLex.lexStd (pgQuoteLiteral s ++ rest) = .ok (s, rest) :=
  PgLex.pgQuoteLiteral_lex s rest h0 hq hc

/-- the names `quote_ident` can print for PostgreSQL: non-empty, no NUL, at
    most 63 bytes (longer names are truncated by the server), and — when left
    bare — already in ASCII lower case (CPython's `lower()` guarantees it; the
    model's `P.lower` is arbitrary, hence the explicit condition) -/
def pgIdentExpressible (P : PyUnicode) (s : List Char) (force column : Bool) : Bool :=
  !s.isEmpty && s.all (fun c => c.toNat ≠ 0) && decide (PgLex.utf8Len s ≤ 63) &&
  (pgNeedsQuoting P s column || force || s.map PgLex.asciiLower = s)

/-- what may follow the printed identifier: after `"…"` no double quote;
    after a bare name no identifier character, no quote (`e'…'` is another
    token) and no `&` after a lone `u` (`u&"…"`) -/
def pgIdentDelim (P : PyUnicode) (s : List Char) (force column : Bool) (rest : List Char) : Prop :=
  if pgNeedsQuoting P s column || force then rest.head? ≠ some '"' else PgLex.bareDelim s rest

/-- `quote_ident` (any `force`, `column`): read back as one identifier with the
    original name; a bare name may also be an unreserved key word or, with
    `column = False`, a column-name key word (PostgreSQL accepts those as
    identifiers in the positions the flag is about). -/
theorem pg_ident (P : PyUnicode) (s rest : List Char) (force column : Bool)
    (h : pgIdentExpressible P s force column = true) (hd : pgIdentDelim P s force column rest) :
    ∃ t, PgLex.lexIdent (pgQuoteIdent P s force column ++ rest) = .ok (t, rest) ∧
      PgLex.PgIdentLike column s t := by
  simp only [pgIdentExpressible, Bool.and_eq_true, Bool.not_eq_true', List.all_eq_true,
    decide_eq_true_eq, Bool.or_eq_true] at h
  obtain ⟨⟨⟨hne, h0⟩, hlen⟩, hcase⟩ := h
  unfold pgIdentDelim at hd
  by_cases hq : (pgNeedsQuoting P s column || force) = true
  · simp only [hq, if_true] at hd
    refine ⟨.ident s, ?_, Or.inl rfl⟩
    simp only [pgQuoteIdent, hq, if_true]
    exact PgLex.pgQuoteIdentRaw_lex s rest (by intro e; subst e; simp at hne)
      (fun c hc => by simpa using h0 c hc) hlen hd
  · have hq' : (pgNeedsQuoting P s column || force) = false := by simpa using hq
    simp only [hq', Bool.false_eq_true, if_false] at hd
    simp only [Bool.or_eq_false_iff] at hq'
    have hlow : s.map PgLex.asciiLower = s := by
      rcases hcase with (hcase | hcase) | hcase
      · simp [hq'.1] at hcase
      · simp [hq'.2] at hcase
      · exact hcase
    simp only [pgQuoteIdent, hq'.1, hq'.2, Bool.or_self, Bool.false_eq_true, if_false]
    exact PgLex.pgBare_lex P s rest column hq'.1 hlow hlen hd

/-- `quote_bytea_literal`: for EVERY byte string, `'\x…'::bytea` (or
    `''::bytea`) is read as a string constant, the cast, the type name, and
    `byteain` gives back the original bytes; `rest` must not continue the type
    name. -/
theorem pg_bytea (b : List UInt8) (rest : List Char)
    (hd : rest = [] ∨ ∃ c cs, rest = c :: cs ∧ PgLex.isIdentCont c = false) :
    PgLex.lexByteaLit (pgQuoteBytea b ++ rest) = .ok (b, rest) :=
  PgLex.pgQuoteBytea_lex b rest hd

/- FULL STATEMENT (false):
     ∀ s, (∀ c ∈ s, c.toNat ≠ 0) → lexEsc (pgQuoteELiteral s ++ rest) = .ok (s, rest)
   `quote_e_literal` escapes quotes but not backslashes (it keeps `\\` and `\'`
   sequences of its input as they are). -/

/-- `quote_e_literal` round-trips exactly the strings without backslash (and NUL). -/
theorem pg_eliteral_partial (s rest : List Char) (h0 : ∀ c ∈ s, c.toNat ≠ 0 ∧ c ≠ '\\')
    (hq : rest.head? ≠ some '\'') (hc : PgLex.continues false rest = false) :
    PgLex.lexEsc (pgQuoteELiteral s ++ rest) = .ok (s, rest) :=
  PgLex.pgQuoteELiteral_lex s rest h0 hq hc

/-- `quote_e_literal('\\') = "E'\\'"`: the backslash escapes the closing quote,
    the constant never ends; and `a\nb` (backslash, n) comes back as a newline. -/
theorem pg_eliteral_counterexample :
    PgLex.lexEsc (pgQuoteELiteral ['\\']) = .error .unterminated ∧
    PgLex.lexEsc (pgQuoteELiteral ['a', '\\', 'n', 'b']) = .ok (['a', '\n', 'b'], []) := by
  exact ⟨by rfl, by rfl⟩

/-! ## Long names: `edgedb_name_to_pg_name`

PostgreSQL silently truncates identifiers to NAMEDATALEN-1 = 63 BYTES, so
`pg_ident` needs `utf8Len ≤ 63`.  The code's guard against that is
`edgedb_name_to_pg_name`: names longer than `MAX_NAME_LENGTH` = 51 are replaced
by `<md5, base64, 22 chars>:<tail>`.  The md5 digest is a parameter
(`hash`); what is used of it: 22 characters, ASCII, not NUL. -/

/- FULL STATEMENT (false):
     ∀ name, edgedbNameToPgName hash name 0 = some r → PgLex.utf8Len r ≤ 63
   `len(name)` counts CHARACTERS, PostgreSQL counts BYTES: a name of ≤ 51
   characters that needs more than 63 bytes is returned unchanged. -/

/-- never more than 51 characters (prefix_length ≤ 27; every caller uses 0) -/
theorem pg_name_length (hash : List Char → List Char) (name r : List Char) (pl : Nat)
    (hh : (hash name).length = 22) (hpl : pl ≤ 27)
    (h : edgedbNameToPgName hash name pl = some r) : r.length ≤ 51 :=
  PgLex.edgedbName_length hash name r pl hh hpl h

/-- For ASCII names (non-empty, no NUL) the result is at most 51 bytes, and
    `quote_ident` of it (any `force` / `column`) is read back by PostgreSQL as
    one identifier with exactly that name: no truncation, no collision. -/
theorem pg_name_partial (P : PyUnicode) (hash : List Char → List Char) (name r rest : List Char)
    (pl : Nat) (force column : Bool)
    (hh : (hash name).length = 22) (hha : ∀ c ∈ hash name, c.toNat < 128 ∧ c.toNat ≠ 0)
    (hna : ∀ c ∈ name, c.toNat < 128 ∧ c.toNat ≠ 0) (hne : name ≠ []) (hpl : pl ≤ 27)
    (h : edgedbNameToPgName hash name pl = some r)
    (hd : pgIdentDelim P r force column rest) :
    PgLex.utf8Len r ≤ 51 ∧
    ∃ t, PgLex.lexIdent (pgQuoteIdent P r force column ++ rest) = .ok (t, rest) ∧
      PgLex.PgIdentLike column r t := by
  have hb := PgLex.edgedbName_bytes_ascii hash name r pl hh (fun c hc => (hha c hc).1)
    (fun c hc => (hna c hc).1) hpl h
  have hm := PgLex.edgedbName_mem hash name r pl h
  have hr : ∀ c ∈ r, c.toNat < 128 ∧ c.toNat ≠ 0 := by
    intro c hc
    rcases hm c hc with h1 | h1 | h1
    · exact hna c h1
    · exact hha c h1
    · subst h1; decide
  refine ⟨hb, pg_ident P r rest force column ?_ hd⟩
  have hrne := PgLex.edgedbName_nonempty hash name r pl hne h
  have he : r.isEmpty = false := by cases r <;> simp_all
  simp only [pgIdentExpressible, he, Bool.not_false, Bool.true_and, Bool.and_eq_true, List.all_eq_true,
    decide_eq_true_eq, Bool.or_eq_true]
  refine ⟨⟨fun c hc => by simpa using (hr c hc).2, by omega⟩, ?_⟩
  by_cases hq : pgNeedsQuoting P r column = true
  · exact Or.inl (Or.inl hq)
  · right
    have hq' : pgNeedsQuoting P r column = false := by simpa using hq
    simp only [pgNeedsQuoting, Bool.or_eq_false_iff, decide_eq_false_iff_not, Decidable.not_not] at hq'
    have hl := hq'.2
    have hall : r.all (fun c => decide (c.toNat < 128)) = true := by
      simp only [List.all_eq_true, decide_eq_true_eq]; exact fun c hc => (hr c hc).1
    simp only [pyLower, hall, if_true] at hl
    have e : PgLex.asciiLower = Lex.asciiLower := rfl
    rw [e]; exact hl

/-- `名`×25 + `~1` and `名`×25 + `~2` (27 characters, 77 bytes each) are returned
    unchanged; quoted, PostgreSQL reads BOTH as `名`×21 (63 bytes): two distinct
    names collide. -/
theorem pg_name_counterexample (hash : List Char → List Char) :
    let n1 := List.replicate 25 (Char.ofNat 0x540d) ++ ['~', '1']
    let n2 := List.replicate 25 (Char.ofNat 0x540d) ++ ['~', '2']
    edgedbNameToPgName hash n1 0 = some n1 ∧ edgedbNameToPgName hash n2 0 = some n2 ∧ n1 ≠ n2 ∧
    PgLex.utf8Len n1 = 77 ∧
    PgLex.lexIdent (pgQuoteIdentRaw n1) = .ok (.ident (List.replicate 21 (Char.ofNat 0x540d)), []) ∧
    PgLex.lexIdent (pgQuoteIdentRaw n2) = .ok (.ident (List.replicate 21 (Char.ofNat 0x540d)), []) := by
  refine ⟨by rfl, by rfl, by decide, by decide, by rfl, by rfl⟩

/-! ## dbops: bodies inside dollar tags (after f6e6d09), `COMMENT ON` splices (after 4eafb00)

`PLTopBlock.to_string` wraps every DDL block in `DO LANGUAGE plpgsql <tag> … <tag>`,
`dbops.CreateFunction` wraps the function text likewise; the tag is now chosen
against the body: `$__$`, `$__1$`, `$__2$`, … (resp. `$____funcbody____$`,
`$____funcbody1____$`, …) until `tag not in body + tag[:-1]`. -/

/-- the `DO` block `<tag>\\n{body}\\n<tag>` (`wrapNl body` is what sits between the tags): for EVERY
    body the loop finds a tag (within `len(body)+2` candidates) and PostgreSQL reads exactly the
    wrapped content back, whatever follows -/
theorem pg_do_block (body rest : List Char) :
    ∃ t, doTag body = some t ∧
      PgLex.lexDollarStr (t ++ wrapNl body ++ t ++ rest) = .ok (wrapNl body, rest) := by
  obtain ⟨t, ht⟩ := doTag_isSome body
  exact ⟨t, ht, doBlock_lex body t rest ht⟩

/-- the function text: likewise -/
theorem pg_funcbody (body rest : List Char) :
    ∃ t, funcTag body = some t ∧
      PgLex.lexDollarStr (t ++ wrapNl body ++ t ++ rest) = .ok (wrapNl body, rest) := by
  obtain ⟨t, ht⟩ := funcTag_isSome body
  exact ⟨t, ht, funcBody_lex body t rest ht⟩

/-- a FIXED tag is only safe for bodies that do not contain it (kept: this is what the old code relied on) -/
theorem pg_fixed_tag (body rest : List Char)
    (h : findSub ('$' :: PgLex.doName ++ ['$']) (body ++ '$' :: PgLex.doName) = none) :
    PgLex.lexDollarStr (PgLex.wrap PgLex.doName body ++ rest) = .ok (body, rest) :=
  PgLex.doTag_lex body rest h

/-- `'COMMENT ON {type} {id} IS '` with `get_id_in_literal`: the string constant is read back with
    the object id intact (`type` is a key word without quotes; no NUL anywhere) -/
theorem pg_comment_on (T q rest : List Char) (hT : ∀ c ∈ T, c ≠ '\'' ∧ c.toNat ≠ 0)
    (hq0 : ∀ c ∈ q, c.toNat ≠ 0)
    (hr : rest.head? ≠ some '\'') (hc : PgLex.continues false rest = false) :
    PgLex.lexStd (commentOnStr T q ++ rest) =
      .ok ("COMMENT ON ".toList ++ T ++ [' '] ++ q ++ " IS ".toList, rest) := by
  have e : commentOnStr T q = pgQuoteLiteral ("COMMENT ON ".toList ++ T ++ [' '] ++ q ++ " IS ".toList) := by
    have h1 : replaceChar '\'' ['\'', '\''] "COMMENT ON ".toList = "COMMENT ON ".toList := by decide
    have h2 : replaceChar '\'' ['\'', '\''] " IS ".toList = " IS ".toList := by decide
    have h3 := PgLex.noQuote_replace T (fun c hc => (hT c hc).1)
    have h4 : replaceChar '\'' ['\'', '\''] [' '] = [' '] := by decide
    have hd : ∀ a b : List Char, replaceChar '\'' ['\'', '\''] (a ++ b) =
        replaceChar '\'' ['\'', '\''] a ++ replaceChar '\'' ['\'', '\''] b := by
      intro a b; simp [replaceChar, List.flatMap_append]
    simp only [commentOnStr, pgQuoteLiteral, hd, h1, h2, h3, h4]
  rw [e]
  refine pg_literal _ rest ?_ hr hc
  intro c hc'
  simp only [List.mem_append] at hc'
  rcases hc' with (((h | h) | h) | h) | h
  · revert c; decide
  · exact (hT c h).2
  · simp at h; subst h; decide
  · exact hq0 c h
  · revert c; decide

/-! ## Parameters: `param_to_str` (after 237fcc6, 638d351) -/

/-- `param_to_str` is read back as ONE parameter token whose value is the
    original name, for every name some parameter form can carry
    (`paramExpressible`), under the table inclusion `Compat P U`.  Purely
    numeric names are left bare only when they are ASCII digits. -/
theorem edgeql_param (U : UClass) (P : PyUnicode) (hc : Compat P U) (s rest : List Char)
    (h : paramExpressible P s = true) (hd : paramDelim U (paramQuoted P s) rest) :
    lexOne U (paramToStr P s ++ rest) = .ok (⟨.parameter, .str s⟩, rest) :=
  paramToStr_lex U P hc s rest h hd

/-! ## What the fixes repaired

The counterexamples below were true of the code before the four fixes; they are
stated about `EdbVerif.QuoteOld` (the previous functions) and paired with what
the current functions do on the same input.  The harness does not replay them
as failures any more: on the current tree the inputs must pass. -/

/-- before 269eaeb: `dollar_quote_literal('x$') = '$$x$$$'`, read back as `x` + stray `$`;
    now `$a$x$$a$`, read back as `x$` -/
theorem fixed_dollar (U : UClass) :
    QuoteOld.dollarQuoteLiteral ['x', '$'] = some ['$', '$', 'x', '$', '$', '$'] ∧
    lexOne U ['$', '$', 'x', '$', '$', '$'] = .ok (strTok ['x'], ['$']) ∧
    dollarQuoteLiteral ['x', '$'] = some ['$', 'a', '$', 'x', '$', '$', 'a', '$'] ∧
    lexOne U ['$', 'a', '$', 'x', '$', '$', 'a', '$'] = .ok (strTok ['x', '$'], []) := by
  exact ⟨by decide, by rfl, by decide, by rfl⟩

/-- before 269eaeb: `'"$` was printed `$$'"$$$`; now `$a$'"$$a$` -/
theorem fixed_const_dollar (U : UClass) :
    QuoteOld.ppStr ['\'', '"', '$'] = some ['$', '$', '\'', '"', '$', '$', '$'] ∧
    lexOne U ['$', '$', '\'', '"', '$', '$', '$'] = .ok (strTok ['\'', '"'], ['$']) ∧
    ppStr ['\'', '"', '$'] = some ['$', 'a', '$', '\'', '"', '$', '$', 'a', '$'] := by
  exact ⟨by decide, by rfl, by decide⟩

/-- before 1c83ec0: U+202E was printed raw by `quote_literal` and by
    `visit_Constant` and rejected; now both print `'\u202e'` -/
theorem fixed_bidi (U : UClass) :
    lexOne U (QuoteOld.quoteLiteral [Char.ofNat 0x202e]) = .error .prohibitedChar ∧
    QuoteOld.ppStr [Char.ofNat 0x202e] = some ['\'', Char.ofNat 0x202e, '\''] ∧
    quoteLiteral [Char.ofNat 0x202e] = ['\'', '\\', 'u', '2', '0', '2', 'e', '\''] ∧
    ppStr [Char.ofNat 0x202e] = some ['\'', '\\', 'u', '2', '0', '2', 'e', '\''] := by
  exact ⟨by rfl, by decide, by decide, by decide⟩

/-- before 1c83ec0 a string with U+0085 went through Python's `repr` and came
    out as `'\x85'` (rejected: "only non-null ascii allowed"); now `'\u0085'` -/
theorem fixed_c1 (U : UClass) :
    lexOne U ['\'', '\\', 'x', '8', '5', '\''] = .error .badEscape ∧
    ppStr [Char.ofNat 0x85] = some ['\'', '\\', 'u', '0', '0', '8', '5', '\''] ∧
    lexOne U ['\'', '\\', 'u', '0', '0', '8', '5', '\''] = .ok (strTok [Char.ofNat 0x85], []) := by
  exact ⟨by rfl, by decide, by rfl⟩

/-- before 6e967b8: `b'\'` swallowed the closing quote, and the bytes `5c 6e`
    were printed `b'\n'` = ONE byte `0a`; now `b'\\'` and `b'\\n'` -/
theorem fixed_bytes (U : UClass) :
    lexOne U (QuoteOld.ppBytes [92]) = .error .unterminatedString ∧
    lexOne U (QuoteOld.ppBytes [92, 110]) = .ok (bytesTok [10], []) ∧
    ppBytes [92, 110] = ['b', '\'', '\\', '\\', 'n', '\''] := by
  exact ⟨by rfl, by rfl, by decide⟩

/-- before 878e057: `²a` (U+00B2: alphanumeric, not decimal, NOT alphabetic for
    CPython; not alphabetic for Rust) was left bare and rejected; now it is
    back-quoted -/
theorem fixed_ident (U : UClass) (P : PyUnicode)
    (h1 : P.isalnum (Char.ofNat 0xb2) = true) (h2 : P.isdecimal (Char.ofNat 0xb2) = false)
    (h2' : P.isalpha (Char.ofNat 0xb2) = false)
    (h3 : P.lower [Char.ofNat 0xb2, 'a'] = [Char.ofNat 0xb2, 'a'])
    (h4 : U.alpha (Char.ofNat 0xb2) = false) :
    QuoteOld.quoteIdent P [Char.ofNat 0xb2, 'a'] = [Char.ofNat 0xb2, 'a'] ∧
    lexOne U [Char.ofNat 0xb2, 'a'] = .error .unexpectedChar ∧
    quoteIdent P [Char.ofNat 0xb2, 'a'] false false false = quoteIdentRaw [Char.ofNat 0xb2, 'a'] ∧
    lexOne U (quoteIdentRaw [Char.ofNat 0xb2, 'a']) = .ok (⟨.ident, .str [Char.ofNat 0xb2, 'a']⟩, []) := by
  have hl : pyLower P [Char.ofNat 0xb2, 'a'] = [Char.ofNat 0xb2, 'a'] := by
    have : ([Char.ofNat 0xb2, 'a'].all fun c => decide (c.toNat < 128)) = false := by decide
    simp only [pyLower, this]; simpa using h3
  have ha : pyIsAlnum P (Char.ofNat 0xb2) = true := by simp only [pyIsAlnum]; simpa using h1
  have hb : pyIsDecimal P (Char.ofNat 0xb2) = false := by simp only [pyIsDecimal]; simpa using h2
  have hal : pyIsAlpha P (Char.ofNat 0xb2) = false := by simp only [pyIsAlpha]; simpa using h2'
  have hw : pyIsWordStart P (Char.ofNat 0xb2) = true := by simp [pyIsWordStart, pyIsWord, ha, hb]
  have hm : matchIdent P [Char.ofNat 0xb2, 'a'] = true := by
    have : pyIsWord P 'a' = true := by simp [pyIsWord, pyIsAlnum, isAsciiLetter]
    simp [matchIdent, hw, this]
  have hr : isReservedKw [Char.ofNat 0xb2, 'a'] = false := by decide
  have hc : ([Char.ofNat 0xb2, 'a'].isEmpty || decide ([Char.ofNat 0xb2, 'a'].head? = some '@') ||
      Quote.hasNamespaceSep [Char.ofNat 0xb2, 'a']) = false := by decide
  refine ⟨?_, ?_, ?_, by rfl⟩
  · simp [QuoteOld.quoteIdent, QuoteOld.needsQuoting, hc, hm, hl, hr]
  · have : isAlpha U (Char.ofNat 0xb2) = false := by simp only [isAlpha]; simpa using h4
    simp [lexOne, this, isDigit]
  · have hne : (Char.ofNat 0xb2) ≠ '_' := by decide
    have hns : Quote.hasNamespaceSep [Char.ofNat 0xb2, 'a'] = false := by decide
    simp [quoteIdent, needsQuoting, hns, hm, hl, hr, hal, hb, hne]

/-- before f6e6d09 the tags were constants: a correctly quoted literal `'$__$'` (an enum label)
    ended the `DO` body (`'` is read as the body, the rest runs as top-level SQL); now the loop
    moves on to `$__1$` -/
theorem fixed_do_block :
    PgLex.lexDollarStr (PgLex.wrap PgLex.doName (pgQuoteLiteral ['$', '_', '_', '$'])) =
      .ok (['\''], ['\'', '$', '_', '_', '$']) ∧
    doTag (pgQuoteLiteral ['$', '_', '_', '$']) = some ['$', '_', '_', '1', '$'] := by
  exact ⟨by rfl, by decide⟩

/-- before 237fcc6 / 638d351 `param_to_str('1٢')` was `$1٢` (read as `$1` + stray `٢`); now `` $`1٢` `` -/
theorem fixed_param (U : UClass) (P : PyUnicode) (h2 : U.alpha (Char.ofNat 0x662) = false)
    (h3 : P.isalpha (Char.ofNat 0x662) = false) :
    lexOne U ['$', '1', Char.ofNat 0x662] = .ok (⟨.parameter, .str ['1']⟩, [Char.ofNat 0x662]) ∧
    paramToStr P ['1', Char.ofNat 0x662] = '$' :: quoteIdentRaw ['1', Char.ofNat 0x662] := by
  constructor
  · simp [lexOne, lexDollar, isAlpha, isAsciiLetter, isDigit, isTagChar, spanTag, h2]
  · have ha : pyIsAlpha P (Char.ofNat 0x662) = false := by simp only [pyIsAlpha]; simpa using h3
    have hd : isDigit (Char.ofNat 0x662) = false := by decide
    have hne : (Char.ofNat 0x662) ≠ '_' := by decide
    simp [paramToStr, quoteIdent, hd, hne, isDigit, pyIsAlpha, isAsciiLetter, h3]

/-! ## Non-vacuity: the guards are met by non-trivial inputs -/

example : noNul "it's a \\ \"test\"\n\t$$ \x01".toList = true := by decide
example : dollarExpressible "a$$b'\"$a$c$".toList = true ∧
    dollarTag "a$$b'\"$a$c$".toList = some "$b$".toList := by decide
example : ppStr "both ' and \" and $".toList = some "$a$both ' and \" and $$a$".toList := by decide
example : identExpressible PyUnicode.ascii "select".toList = true ∧
    quoteIdent PyUnicode.ascii "select".toList false false false = "`select`".toList := by decide
example : identExpressible PyUnicode.ascii "abort".toList = true ∧
    quoteIdent PyUnicode.ascii "abort".toList false false false = "abort".toList := by decide
example : identExpressible PyUnicode.ascii "my `odd` name".toList = true := by decide
example : identExpressible PyUnicode.ascii "__type__".toList = true := by decide
example : paramExpressible PyUnicode.ascii "my param".toList = true ∧ paramExpressible PyUnicode.ascii "10".toList = true ∧
    paramToStr PyUnicode.ascii "10".toList = "$10".toList := by decide
example : Compat PyUnicode.ascii UClass.ascii := by
  refine ⟨fun c h => ?_, fun c h => ?_⟩
  · simp only [pyIsAlpha, PyUnicode.ascii] at h
    simp only [isAlpha]
    split at h <;> simp_all
  · simp only [pyIsWord, pyIsAlnum, PyUnicode.ascii, Bool.or_eq_true, decide_eq_true_eq] at h
    rcases h with h | h
    · right
      simp only [isAlnum]
      split at h <;> simp_all
    · exact Or.inl h
example : pgIdentExpressible PyUnicode.ascii "User \"x\"".toList false false = true ∧
    pgIdentExpressible PyUnicode.ascii "plain_name1".toList false false = true := by decide
example : pgQuoteIdent PyUnicode.ascii "select".toList false false = "\"select\"".toList ∧
    pgQuoteIdent PyUnicode.ascii "abort".toList false false = "abort".toList := by decide
example : (PgLex.bareDelim "abort".toList " x".toList) := by
  refine ⟨Or.inr ⟨' ', ['x'], rfl, by decide⟩, by decide, by decide⟩

end EdbVerif.C18
