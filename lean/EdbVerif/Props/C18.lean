/-
C18 — Quoted literals and identifiers cannot break out of their quotes.

For every string (byte string) that a quoted form can express, the text that
the system's quoting functions produce is read back as ONE token carrying the
original value, whatever follows it (`rest`), by
  * the EdgeQL tokenizer (`EdbVerif.Lex.lexOne`, model of tokenizer.rs +
    validation.rs + helpers/{strings,bytes}.rs, tied to the real Rust code by the
    differential run), resp.
  * PostgreSQL's lexical rules (`EdbVerif.PgLex`, a transcription of the
    PostgreSQL documentation — TRUSTED specification, see that file).
The quoting functions are the models in `EdbVerif.Quote` of
`edb/edgeql/quote.py`, `edb/edgeql/codegen.py` (visit_Constant /
visit_BytesConstant) and `edb/pgsql/common.py`, tied to the real Python code by
the differential run.

Reading guide.
  * `U : UClass` are Rust's `is_alphabetic` / `is_alphanumeric` outside ASCII and
    `P : PyUnicode` is CPython's Unicode database outside ASCII: every theorem
    holds for ALL such tables.
  * "what follows" (`rest`) is arbitrary for the string and bytes literals: the
    closing delimiter ends the token.  A back-quoted name must not be followed
    by another back-quote (`` `a` `` + `` `b` `` would read as one name), a bare
    identifier must be followed by a non-identifier character; for SQL the
    PostgreSQL continuation rule ('…' <newline> '…' is ONE constant) has to be
    excluded.  Each theorem states its delimiter condition.
  * FIVE of the nine full statements are FALSE of the code as it is; each has a
    `_counterexample` theorem (replayed on the real code by the harness) and a
    `_partial` theorem whose decidable guard is the exact expressible subset
    the proof covers.  The false full statements stay visible in comments.
-/
import EdbVerif.Lemmas.QuoteConst
import EdbVerif.Lemmas.QuoteBytes
import EdbVerif.Lemmas.QuoteIdent
import EdbVerif.Lemmas.QuotePg
import EdbVerif.Lemmas.QuoteAll

namespace EdbVerif.C18
open EdbVerif.Lex EdbVerif.Quote

/-- the token a string literal must be read back as -/
abbrev strTok (s : List Char) : Tok := ⟨.str, .str s⟩
/-- the token a bytes literal must be read back as -/
abbrev bytesTok (b : List UInt8) : Tok := ⟨.binStr, .bytes b⟩

/-- no NUL and no bidirectional control (U+202A–202E, U+2066–2069) -/
def noProhibited (s : List Char) : Bool := s.all (fun c => (checkProhibited c true).isNone)

/-! ## EdgeQL string literal: `quote_literal` -/

/- FULL STATEMENT (false):
     ∀ s, (∀ c ∈ s, c.toNat ≠ 0) → lexOne U (quoteLiteral s ++ rest) = .ok (strTok s, rest)
   NUL cannot be written in any EdgeQL string literal; every other string can
   (`\uXXXX`), but `escape_string` leaves the bidi controls raw and the tokenizer
   rejects them unescaped. -/

/-- `quote_literal` is read back as one string token with the original value,
    for every string without NUL and bidi controls, whatever follows. -/
theorem edgeql_str_partial (U : UClass) (s rest : List Char) (h : noProhibited s = true) :
    lexOne U (quoteLiteral s ++ rest) = .ok (strTok s, rest) :=
  quoteLiteral_lex U s rest (by simpa [noProhibited] using h)

/-- `quote_literal('‮')` = `'<U+202E>'` is rejected by the tokenizer. -/
theorem edgeql_str_counterexample (U : UClass) :
    (Char.ofNat 0x202e).toNat ≠ 0 ∧
    lexOne U (quoteLiteral [Char.ofNat 0x202e]) = .error .prohibitedChar := by
  exact ⟨by decide, by rfl⟩

/-! ## EdgeQL dollar-quoted literal: `dollar_quote_literal` -/

/- FULL STATEMENT (false):
     ∀ s q, dollarQuoteLiteral s = some q → (no NUL / bidi in s) →
       lexOne U (q ++ rest) = .ok (strTok s, rest)
   The tag is chosen so that it does not occur in the text, but the text
   followed by the closing tag can contain the tag EARLIER: when the text ends
   with the tag minus its last `$` (`x$` for `$$`, `…$a` for `$a$`). -/

/-- `dollar_quote_literal` is read back correctly exactly on
    `dollarExpressible` texts: no NUL / bidi control (a dollar string has no
    escapes) and the chosen tag `t` does not occur in `text ++ t.dropLast`. -/
theorem edgeql_dollar_partial (U : UClass) (s q rest : List Char)
    (hq : dollarQuoteLiteral s = some q) (h : dollarExpressible s = true) :
    lexOne U (q ++ rest) = .ok (strTok s, rest) :=
  dollarQuote_lex U s q rest hq h

/-- `dollar_quote_literal('x$') = '$$x$$$'` reads back as the string `x`
    followed by a stray `$`. -/
theorem edgeql_dollar_counterexample (U : UClass) :
    dollarQuoteLiteral ['x', '$'] = some ['$', '$', 'x', '$', '$', '$'] ∧
    lexOne U ['$', '$', 'x', '$', '$', '$'] = .ok (strTok ['x'], ['$']) := by
  exact ⟨by decide, by rfl⟩

/-- The loop of `dollar_quote_literal` only ever settles on `$$` or on a tag
    `$<hex, least significant digit first, starting with a–f>$` that does not
    occur in the text. -/
theorem edgeql_dollar_tag (s t : List Char) (h : dollarTag s = some t) :
    GoodTag t ∧ Quote.contains t s = false :=
  dollarTag_spec s t h

/-! ## The form `visit_Constant` picks -/

/- FULL STATEMENT (false):
     ∀ s q, ppStr P s = some q → (∀ c ∈ s, c.toNat ≠ 0) →
       lexOne U (q ++ rest) = .ok (strTok s, rest)
   Three families of counterexamples: the dollar flaw above; a string with a
   control character goes through Python's `repr`, which prints the
   non-printable code points U+0080–U+00FF as `\xNN` (the tokenizer accepts `\x`
   only below 0x80); a string without control characters is printed raw,
   including bidi controls, which the tokenizer rejects unescaped. -/

/-- `visit_Constant` (STRING) is read back as one string token with the
    original value on `constExpressible` strings, whatever follows. -/
theorem edgeql_const_partial (U : UClass) (P : PyUnicode) (s q rest : List Char)
    (hq : ppStr P s = some q) (h : constExpressible P s = true) :
    lexOne U (q ++ rest) = .ok (strTok s, rest) :=
  ppStr_lex U P s q rest hq h

/-- the string `'"$` is printed `$$'"$$$`, read back as `'"` then a stray `$` -/
theorem edgeql_const_counterexample_dollar (U : UClass) (P : PyUnicode) :
    ppStr P ['\'', '"', '$'] = some ['$', '$', '\'', '"', '$', '$', '$'] ∧
    lexOne U ['$', '$', '\'', '"', '$', '$', '$'] = .ok (strTok ['\'', '"'], ['$']) := by
  exact ⟨by rfl, by rfl⟩

/-- U+0085 (a C1 control, not printable for CPython) is printed `'\x85'`,
    which the tokenizer rejects ("only non-null ascii allowed") -/
theorem edgeql_const_counterexample_c1 (U : UClass) (P : PyUnicode)
    (hP : P.printable (Char.ofNat 0x85) = false) :
    ppStr P [Char.ofNat 0x85] = some ['\'', '\\', 'x', '8', '5', '\''] ∧
    lexOne U ['\'', '\\', 'x', '8', '5', '\''] = .error .badEscape := by
  refine ⟨?_, by rfl⟩
  have h1 : pyIsPrintable P (Char.ofNat 0x85) = false := by
    simp only [pyIsPrintable]; simpa using hP
  have h2 : reprChar P '\'' (Char.ofNat 0x85) = ['\\', 'x', '8', '5'] := by
    simp only [reprChar, h1]; decide
  have h3 : [Char.ofNat 0x85].any isNonPrintableRE = true := by decide
  have h4 : reprQuote [Char.ofNat 0x85] = '\'' := by decide
  simp [ppStr, h3, pyRepr, h4, h2]

/-- U+202E is printed raw and rejected -/
theorem edgeql_const_counterexample_bidi (U : UClass) (P : PyUnicode) :
    ppStr P [Char.ofNat 0x202e] = some ['\'', Char.ofNat 0x202e, '\''] ∧
    lexOne U ['\'', Char.ofNat 0x202e, '\''] = .error .prohibitedChar := by
  exact ⟨by rfl, by rfl⟩

/-! ## EdgeQL bytes literal: `visit_BytesConstant` -/

/- FULL STATEMENT (false):
     ∀ b, lexOne U (ppBytes b ++ rest) = .ok (bytesTok b, rest)
   `_BYTES_ESCAPE_RE` is written `b'[\\\'\x00-\x1f\x7e-\xff]'` in a non-raw
   literal: the regex sees `\'`, i.e. the class contains the quote but NOT the
   backslash, so a backslash byte is printed unescaped. -/

/-- `visit_BytesConstant` is read back as one bytes token with the original
    value for every byte string without the byte 0x5C, whatever follows. -/
theorem edgeql_bytes_partial (U : UClass) (b : List UInt8) (rest : List Char)
    (h : ∀ x ∈ b, x.toNat ≠ 92) :
    lexOne U (ppBytes b ++ rest) = .ok (bytesTok b, rest) :=
  ppBytes_lex U b rest h

/-- `b'\'`: the single backslash byte swallows the closing quote; and the two
    bytes `\n` are printed `b'\n'`, which reads back as ONE byte 0x0A. -/
theorem edgeql_bytes_counterexample (U : UClass) :
    lexOne U (ppBytes [92]) = .error .unterminatedString ∧
    lexOne U (ppBytes [92, 110]) = .ok (bytesTok [10], []) := by
  exact ⟨by rfl, by rfl⟩

/-! ## EdgeQL identifiers: `quote_ident` -/

/- FULL STATEMENT (false): with `identExpressible` weakened to "some form can
   express the name".  `quote_ident` decides with Python's regex classes
   (`[^\W\d]\w*`), the tokenizer with Rust's `is_alphabetic/is_alphanumeric`:
   e.g. U+00B2 (superscript two) is `\w`, not `\d`, hence a legal FIRST character
   for Python, but not alphabetic for Rust; the name `²a` is left bare and
   rejected, although `` `²a` `` would be fine. -/

/-- `quote_ident` (default flags) is read back as one identifier-like token
    (an `Ident`, or a keyword that is not reserved, or `__type__`/`__std__`)
    whose value is the original name, on `identExpressible` names. -/
theorem edgeql_ident_partial (U : UClass) (P : PyUnicode) (s rest : List Char)
    (h : identExpressible P U s = true)
    (hd : identDelim U (needsQuoting P s false false) rest) :
    ∃ t, lexOne U (quoteIdent P s false false false ++ rest) = .ok (t, rest) ∧
      t.val = .str s ∧ IdentLike t.kind :=
  quoteIdent_lex U P s rest h hd

/-- `quote_ident(s, force=True)` on names the back-quoted form can carry -/
theorem edgeql_ident_forced (U : UClass) (P : PyUnicode) (s rest : List Char)
    (h : backtickExpressible s = true) (hq : rest.head? ≠ some '`') :
    lexOne U (quoteIdent P s true false false ++ rest) = .ok (⟨.ident, .str s⟩, rest) :=
  quoteIdent_forced_lex U P s rest h hq

/-- `²a`: alphanumeric and not decimal for CPython, not alphabetic for Rust:
    left bare, rejected; the back-quoted form would have been accepted. -/
theorem edgeql_ident_counterexample (U : UClass) (P : PyUnicode)
    (h1 : P.isalnum (Char.ofNat 0xb2) = true) (h2 : P.isdecimal (Char.ofNat 0xb2) = false)
    (h3 : P.lower [Char.ofNat 0xb2, 'a'] = [Char.ofNat 0xb2, 'a'])
    (h4 : U.alpha (Char.ofNat 0xb2) = false) :
    quoteIdent P [Char.ofNat 0xb2, 'a'] false false false = [Char.ofNat 0xb2, 'a'] ∧
    lexOne U [Char.ofNat 0xb2, 'a'] = .error .unexpectedChar ∧
    lexOne U (quoteIdentRaw [Char.ofNat 0xb2, 'a']) = .ok (⟨.ident, .str [Char.ofNat 0xb2, 'a']⟩, []) := by
  refine ⟨?_, ?_, by rfl⟩
  · have hl : pyLower P [Char.ofNat 0xb2, 'a'] = [Char.ofNat 0xb2, 'a'] := by
      have : ([Char.ofNat 0xb2, 'a'].all fun c => decide (c.toNat < 128)) = false := by decide
      simp only [pyLower, this]; simpa using h3
    have hw : pyIsWordStart P (Char.ofNat 0xb2) = true := by
      have a : pyIsAlnum P (Char.ofNat 0xb2) = true := by simp only [pyIsAlnum]; simpa using h1
      have b : pyIsDecimal P (Char.ofNat 0xb2) = false := by simp only [pyIsDecimal]; simpa using h2
      simp [pyIsWordStart, pyIsWord, a, b]
    have hm : matchIdent P [Char.ofNat 0xb2, 'a'] = true := by
      have : pyIsWord P 'a' = true := by simp [pyIsWord, pyIsAlnum, isAsciiLetter]
      simp [matchIdent, hw, this]
    have hr : isReservedKw [Char.ofNat 0xb2, 'a'] = false := by decide
    have hc : ([Char.ofNat 0xb2, 'a'].isEmpty || decide ([Char.ofNat 0xb2, 'a'].head? = some '@') ||
        Quote.hasNamespaceSep [Char.ofNat 0xb2, 'a']) = false := by decide
    simp [quoteIdent, needsQuoting, hc, hm, hl, hr]
  · have : isAlpha U (Char.ofNat 0xb2) = false := by simp only [isAlpha]; simpa using h4
    simp [lexOne, this, isDigit]

/-! ## The whole text is exactly one token

`lexAll` is the token stream (white space and comments skipped between
tokens, EOI excluded).  This is the shape of the harness oracle: real quoting
function → real tokenizer → one token (+EOI) with the original value. -/

theorem edgeql_str_single (U : UClass) (s : List Char) (h : noProhibited s = true) :
    lexAll U (quoteLiteral s) = ([strTok s], none) :=
  quoteLiteral_lexAll U s (by simpa [noProhibited] using h)

theorem edgeql_dollar_single (U : UClass) (s q : List Char)
    (hq : dollarQuoteLiteral s = some q) (h : dollarExpressible s = true) :
    lexAll U q = ([strTok s], none) :=
  dollarQuote_lexAll U s q hq h

theorem edgeql_const_single (U : UClass) (P : PyUnicode) (s q : List Char)
    (hq : ppStr P s = some q) (h : constExpressible P s = true) :
    lexAll U q = ([strTok s], none) :=
  ppStr_lexAll U P s q hq h

theorem edgeql_bytes_single (U : UClass) (b : List UInt8) (h : ∀ x ∈ b, x.toNat ≠ 92) :
    lexAll U (ppBytes b) = ([bytesTok b], none) :=
  ppBytes_lexAll U b h

/-! ## SQL: `edb/pgsql/common.py` against the PostgreSQL lexical rules -/

/-- `quote_literal`: for every string without NUL (which no query can contain),
    followed by anything that does not start with a quote and is not a
    continuation (white space with a newline, then a quote), the standard
    string constant is read back with the original value. -/
theorem pg_literal (s rest : List Char) (h0 : ∀ c ∈ s, c.toNat ≠ 0)
    (hq : rest.head? ≠ some '\'') (hc : PgLex.continues false rest = false) :
    PgLex.lexStd (pgQuoteLiteral s ++ rest) = .ok (s, rest) :=
  PgLex.pgQuoteLiteral_lex s rest h0 hq hc

/-- the names `quote_ident` can print for PostgreSQL: non-empty, no NUL, at
    most 63 bytes (longer names are truncated by the server), and — when left
    bare — already in ASCII lower case (CPython's `lower()` guarantees it; the
    model's `P.lower` is arbitrary, hence the explicit condition) -/
def pgIdentExpressible (P : PyUnicode) (s : List Char) (force column : Bool) : Bool :=
  !s.isEmpty && s.all (fun c => c.toNat ≠ 0) && decide (PgLex.utf8Len s ≤ 63) &&
  (pgNeedsQuoting P s column || force || s.map PgLex.asciiLower = s)

/-- what may follow the printed identifier: after `"…"` no double quote;
    after a bare name no identifier character, no quote (`e'…'` is another
    token) and no `&` after a lone `u` (`u&"…"`) -/
def pgIdentDelim (P : PyUnicode) (s : List Char) (force column : Bool) (rest : List Char) : Prop :=
  if pgNeedsQuoting P s column || force then rest.head? ≠ some '"' else PgLex.bareDelim s rest

/-- `quote_ident` (any `force`, `column`): read back as one identifier with the
    original name; a bare name may also be an unreserved key word or, with
    `column = False`, a column-name key word (PostgreSQL accepts those as
    identifiers in the positions the flag is about). -/
theorem pg_ident (P : PyUnicode) (s rest : List Char) (force column : Bool)
    (h : pgIdentExpressible P s force column = true) (hd : pgIdentDelim P s force column rest) :
    ∃ t, PgLex.lexIdent (pgQuoteIdent P s force column ++ rest) = .ok (t, rest) ∧
      PgLex.PgIdentLike column s t := by
  simp only [pgIdentExpressible, Bool.and_eq_true, Bool.not_eq_true', List.all_eq_true,
    decide_eq_true_eq, Bool.or_eq_true] at h
  obtain ⟨⟨⟨hne, h0⟩, hlen⟩, hcase⟩ := h
  unfold pgIdentDelim at hd
  by_cases hq : (pgNeedsQuoting P s column || force) = true
  · simp only [hq, if_true] at hd
    refine ⟨.ident s, ?_, Or.inl rfl⟩
    simp only [pgQuoteIdent, hq, if_true]
    exact PgLex.pgQuoteIdentRaw_lex s rest (by intro e; subst e; simp at hne)
      (fun c hc => by simpa using h0 c hc) hlen hd
  · have hq' : (pgNeedsQuoting P s column || force) = false := by simpa using hq
    simp only [hq', Bool.false_eq_true, if_false] at hd
    simp only [Bool.or_eq_false_iff] at hq'
    have hlow : s.map PgLex.asciiLower = s := by
      rcases hcase with (hcase | hcase) | hcase
      · simp [hq'.1] at hcase
      · simp [hq'.2] at hcase
      · exact hcase
    simp only [pgQuoteIdent, hq'.1, hq'.2, Bool.or_self, Bool.false_eq_true, if_false]
    exact PgLex.pgBare_lex P s rest column hq'.1 hlow hlen hd

/-- `quote_bytea_literal`: for EVERY byte string, `'\x…'::bytea` (or
    `''::bytea`) is read as a string constant, the cast, the type name, and
    `byteain` gives back the original bytes; `rest` must not continue the type
    name. -/
theorem pg_bytea (b : List UInt8) (rest : List Char)
    (hd : rest = [] ∨ ∃ c cs, rest = c :: cs ∧ PgLex.isIdentCont c = false) :
    PgLex.lexByteaLit (pgQuoteBytea b ++ rest) = .ok (b, rest) :=
  PgLex.pgQuoteBytea_lex b rest hd

/- FULL STATEMENT (false):
     ∀ s, (∀ c ∈ s, c.toNat ≠ 0) → lexEsc (pgQuoteELiteral s ++ rest) = .ok (s, rest)
   `quote_e_literal` escapes quotes but not backslashes (it keeps `\\` and `\'`
   sequences of its input as they are). -/

/-- `quote_e_literal` round-trips exactly the strings without backslash (and NUL). -/
theorem pg_eliteral_partial (s rest : List Char) (h0 : ∀ c ∈ s, c.toNat ≠ 0 ∧ c ≠ '\\')
    (hq : rest.head? ≠ some '\'') (hc : PgLex.continues false rest = false) :
    PgLex.lexEsc (pgQuoteELiteral s ++ rest) = .ok (s, rest) :=
  PgLex.pgQuoteELiteral_lex s rest h0 hq hc

/-- `quote_e_literal('\\') = "E'\\'"`: the backslash escapes the closing quote,
    the constant never ends; and `a\nb` (backslash, n) comes back as a newline. -/
theorem pg_eliteral_counterexample :
    PgLex.lexEsc (pgQuoteELiteral ['\\']) = .error .unterminated ∧
    PgLex.lexEsc (pgQuoteELiteral ['a', '\\', 'n', 'b']) = .ok (['a', '\n', 'b'], []) := by
  exact ⟨by rfl, by rfl⟩

/-! ## Non-vacuity: the guards are met by non-trivial inputs -/

example : noProhibited "it's a \\ \"test\"\n\t$$".toList = true := by decide
example : dollarExpressible "a$$b'\"$a$c".toList = true ∧
    dollarTag "a$$b'\"$a$c".toList = some "$b$".toList := by decide
example : constExpressible PyUnicode.ascii "both ' and \" and $$ and \\".toList = true := by decide
example : constExpressible PyUnicode.ascii "ctrl \n and \x01 and '".toList = true := by decide
example : identExpressible PyUnicode.ascii UClass.ascii "select".toList = true ∧
    quoteIdent PyUnicode.ascii "select".toList false false false = "`select`".toList := by decide
example : identExpressible PyUnicode.ascii UClass.ascii "abort".toList = true ∧
    quoteIdent PyUnicode.ascii "abort".toList false false false = "abort".toList := by decide
example : identExpressible PyUnicode.ascii UClass.ascii "my `odd` name".toList = true := by decide
example : identExpressible PyUnicode.ascii UClass.ascii "__type__".toList = true := by decide
example : pgIdentExpressible PyUnicode.ascii "User \"x\"".toList false false = true ∧
    pgIdentExpressible PyUnicode.ascii "plain_name1".toList false false = true := by decide
example : pgQuoteIdent PyUnicode.ascii "select".toList false false = "\"select\"".toList ∧
    pgQuoteIdent PyUnicode.ascii "abort".toList false false = "abort".toList := by decide
example : (PgLex.bareDelim "abort".toList " x".toList) := by
  refine ⟨Or.inr ⟨' ', ['x'], rfl, by decide⟩, by decide, by decide⟩

end EdbVerif.C18
