/-
C10 — Step-by-step migration equals direct migration.

By induction over the chain from `C02_apply_diff` (model: `Model/Schema.lean`,
`migrate` = diff then apply, `migrateChain` = fold of `migrate`).  The
statements are about chains in which every step is accepted, as the property is.
-/
import EdbVerif.Lemmas.SchemaChain

namespace EdbVerif.C10
open EdbVerif.Schema

/-- **C10.**  Evolving the empty database through any chain of valid schemas
    ends in (a schema equal as a finite map to) the last one. -/
theorem C10_chain (sim : Sim) (hs : SimSound sim) (S : List Schema) (hv : ∀ s ∈ S, Valid s)
    (r : Schema) (h : migrateChain sim [] S = .ok r) (t : Schema) (ht : S.getLast? = some t) :
    Same r t :=
  chain_same hs S [] r valid_nil hv h t ht

/-- The same from any valid starting point: only the last schema matters. -/
theorem C10_chain_from (sim : Sim) (hs : SimSound sim) (a : Schema) (ha : Valid a) (S : List Schema)
    (hv : ∀ s ∈ S, Valid s) (r : Schema) (h : migrateChain sim a S = .ok r)
    (t : Schema) (ht : S.getLast? = some t) : Same r t :=
  chain_same hs S a r ha hv h t ht

/-- **Path independence.**  The chain and the direct migration from the empty
    schema agree — even when the two runs use different similarity functions
    (different plans, renames vs drop+create, different tie-breaks). -/
theorem C10_path_independent (sim sim' : Sim) (hs : SimSound sim) (hs' : SimSound sim')
    (S : List Schema) (hv : ∀ s ∈ S, Valid s) (t : Schema) (ht : S.getLast? = some t)
    (r r' : Schema) (h : migrateChain sim [] S = .ok r) (h' : migrate sim' [] t = .ok r') :
    Same r r' := by
  have h1 := chain_same hs S [] r valid_nil hv h t ht
  have h2 := migrate_same valid_nil (hv t (List.mem_of_getLast? ht)) hs' h'
  exact h1.trans_symm h2

/-- Two chains with the same last schema end in the same schema. -/
theorem C10_confluence (sim sim' : Sim) (hs : SimSound sim) (hs' : SimSound sim')
    (S S' : List Schema) (hv : ∀ s ∈ S, Valid s) (hv' : ∀ s ∈ S', Valid s)
    (t : Schema) (ht : S.getLast? = some t) (ht' : S'.getLast? = some t)
    (r r' : Schema) (h : migrateChain sim [] S = .ok r) (h' : migrateChain sim' [] S' = .ok r') :
    Same r r' :=
  (chain_same hs S [] r valid_nil hv h t ht).trans_symm (chain_same hs' S' [] r' valid_nil hv' h' t ht')

/-- A final migration to the empty schema removes everything. -/
theorem C10_to_empty (sim : Sim) (hs : SimSound sim) (A : Schema) (hA : Valid A) (r : Schema)
    (h : migrate sim A [] = .ok r) : r = [] :=
  (migrate_same hA valid_nil hs h).nil

/-! ### Non-vacuity -/

def exSim : Sim := fun ctx y x =>
  if renameObj ctx.renames y = x ∧ y.name = x.name then 1000
  else if y.name = x.name then 800 else if y.data = x.data then 700 else 300

def s1 : Schema := [⟨1, "Foo", 1, []⟩, ⟨2, "name", 5, [(1, "Foo")]⟩]
def s2 : Schema := [⟨1, "Foo", 1, []⟩, ⟨1, "Bar", 2, [(1, "Foo")]⟩, ⟨2, "name", 5, [(1, "Bar")]⟩]
def s3 : Schema := [⟨1, "Baz", 2, []⟩, ⟨2, "name", 5, [(1, "Baz")]⟩, ⟨2, "n2", 5, [(1, "Baz")]⟩]

/-- create, re-parent, rename + drop of the old base: all steps accepted, the end is `s3`
    as a finite map (the association list comes out in a different order) -/
example : (migrateChain exSim [] [s1, s2, s3]).toOption =
    some [⟨2, "name", 5, [(1, "Baz")]⟩, ⟨1, "Baz", 2, []⟩, ⟨2, "n2", 5, [(1, "Baz")]⟩] := by decide

example : (∀ s ∈ [s1, s2, s3], Valid s) := by
  intro s hs
  simp only [List.mem_cons, List.not_mem_nil, or_false] at hs
  rcases hs with rfl | rfl | rfl <;> exact ⟨by decide, by decide⟩

example : (migrate exSim s3 []).toOption = some [] := by decide

end EdbVerif.C10
