/-
C11 — SDL is declarative: declaration order does not matter.

Property theorems about `EdbVerif.Sdl.build`, the model of
`edb/schema/ddl.py::apply_sdl` + `edb/edgeql/declarative.py::sdl_to_ddl`
(layout pass, `_register_item`, `topological.sort`, application loop).
Helper lemmas: `EdbVerif/Lemmas/Sdl*.lean`; the sort itself is C20.

Reading guide.  A document (`Doc`) is the token stream of the SDL text: module
block entries and declarations in textual order; every declaration (`Item`)
carries the names the real tracer reports for it — that part of the real code
(`tracer.py`) is an *input* of the model and is tied by the harness.
`graph d` is the `DepGraphEntry` map handed to `topological.sort`,
`build d` the schema obtained by applying the sorted DDL.  Permuting the
document changes the iteration order of that map and therefore the order of
the emitted DDL; the theorems say that neither the dependency relation nor the
built schema changes.  The hypothesis `Complete d` ("what a declaration needs is
reachable through traced hard dependencies") is exactly what the abstraction
of the tracer has to deliver; without it the statement is false
(`C11_incomplete_counterexample`, replayed on the real code by the harness).
-/
import EdbVerif.Lemmas.SdlOk

namespace EdbVerif.C11
open EdbVerif.Topo EdbVerif.Sdl

/-- **Any two linear extensions agree.**  `Dep a b` = "a depends on b".  If
    steps that do not depend on each other commute (as partial state
    transformers), any two duplicate-free orderings of the same steps in which
    nothing precedes something it depends on give the same result. -/
theorem linear_extensions_equal {α σ : Type} (step : σ → α → Option σ) (Dep : α → α → Prop)
    (comm : ∀ a b, a ≠ b → ¬ Dep a b → ¬ Dep b a → CommuteAt step a b)
    {l₁ l₂ : List α} (hp : l₁.Perm l₂) (hn : l₁.Nodup)
    (h₁ : l₁.Pairwise fun x y => ¬ Dep x y) (h₂ : l₂.Pairwise fun x y => ¬ Dep x y) (s : σ) :
    runSteps step s l₁ = runSteps step s l₂ :=
  Sdl.linear_extensions_equal step Dep comm hp hn h₁ h₂ s

/-- **Independent declarations commute** in the concrete schema algebra: if
    neither needs the other, applying them in either order gives the same schema
    or fails in both orders. -/
theorem commute (s : Schema) (a b : Item) (h : Independent a b) :
    (s.apply a).bind (fun s' => s'.apply b) = (s.apply b).bind (fun s' => s'.apply a) :=
  mapAlgebra_commutes s a b h

/-- The traced dependency relations are functions of the *set* of declarations:
    hard, weak and loop-control edges and the presence of a dangling reference
    are the same for every permutation of the document (module grouping, all
    the ancestor / member / prefix closures of `_register_item` included). -/
theorem deps_perm {d₁ d₂ : Doc} (h : d₁.Perm d₂) :
    (∀ a b, DepHard d₁ a b ↔ DepHard d₂ a b) ∧ (∀ a b, DepWeak d₁ a b ↔ DepWeak d₂ a b) ∧
    (∀ a b, DepCtrl d₁ a b ↔ DepCtrl d₂ a b) ∧ (Dangling d₁ ↔ Dangling d₂) :=
  ⟨depHard_perm h, depWeak_perm h, depCtrl_perm h, dangling_perm h⟩

/-- The emitted DDL is a linear extension: every declaration exactly once, after
    everything it has a hard dependency on (C20 transported to documents). -/
theorem C11_order (d : Doc) (hn : (names d).Nodup) (o : List Nat)
    (h : sortEx (graph d) false = .ok o) :
    o.Perm (names d) ∧ ∀ a b, DepHard d a b → o.idxOf b < o.idxOf a :=
  sort_ok_spec d hn h

/-- **Order independence, for every schema algebra in which independent
    declarations commute**: two documents with the same declarations in a
    different order build the same result (the same schema, or the same kind of
    rejection), provided the tracer is complete for them. -/
theorem C11_perm_general {σ : Type} (A : Algebra σ) (hA : A.Commutes) (d₁ d₂ : Doc)
    (h : d₁.Perm d₂) (hv : Complete d₁) : buildWith A d₁ = buildWith A d₂ :=
  buildWith_perm A hA h hv

/-- **Order independence** for the concrete algebra. -/
theorem C11_perm (d₁ d₂ : Doc) (h : d₁.Perm d₂) (hv : Complete d₁) : build d₁ = build d₂ :=
  buildWith_perm mapAlgebra mapAlgebra_commutes h hv

/-- **Order independence at the three levels**: permuting top-level entries,
    the entries of (nested) module blocks and type / pointer bodies — `TPerm`
    — does not change the result. -/
theorem C11_perm_nested (t t' : List Top) (h : TPerm t t') (hv : Complete (toksList t)) :
    build (toksList t) = build (toksList t') :=
  buildWith_perm mapAlgebra mapAlgebra_commutes (tperm_toks h) hv

/-- **A valid acyclic document builds to exactly its declarations**: distinct
    names, every traced reference resolved, no hard ∪ control cycle, complete
    tracer ⇒ the emitted DDL applies without error and the schema maps every
    declared name to its declaration and nothing else. -/
theorem C11_ok (d : Doc) (hn : (names d).Nodup) (hd : ¬ Dangling d)
    (hc : ¬ Cyclic (fun a b => DepHard d a b ∨ DepCtrl d a b)) (hv : Complete d) :
    ∃ s, build d = .ok s ∧ ∀ k, s k = (find (collect d) k).map (·.body) :=
  build_ok hn hd hc hv

/-- **Cycle verdict**: a document is rejected as cyclic exactly when its names
    are distinct, every traced reference resolves, and the traced hard ∪
    loop-control relation has a cycle.  Weak references never cause it. -/
theorem C11_cycle (d : Doc) :
    build d = .cycle ↔
      (names d).Nodup ∧ ¬ Dangling d ∧ Cyclic (fun a b => DepHard d a b ∨ DepCtrl d a b) :=
  buildWith_cycle_iff mapAlgebra d

/-- The cycle verdict does not depend on the order either (no completeness needed). -/
theorem C11_cycle_perm (d₁ d₂ : Doc) (h : d₁.Perm d₂) : build d₁ = .cycle ↔ build d₂ = .cycle := by
  rw [C11_cycle, C11_cycle, (names_perm h).nodup_iff, dangling_perm h]
  have : ∀ a b, (DepHard d₁ a b ∨ DepCtrl d₁ a b) ↔ (DepHard d₂ a b ∨ DepCtrl d₂ a b) :=
    fun a b => by rw [depHard_perm h, depCtrl_perm h]
  unfold Cyclic
  simp only [transGen_congr this]

/-- `completeB` (what the driver evaluates on every generated document) is a
    sound test for the hypothesis `Complete`. -/
theorem complete_of_completeB (d : Doc) (h : completeB d = true) : Complete d :=
  Sdl.complete_of_completeB h

/-- **The completeness hypothesis is necessary.**  `abstract constraint c2
    extending c1; abstract constraint c1;` as the real tracer reports it (no edge
    from c2 to c1 although c2 needs c1): the two orders are permutations of each
    other and build different results. -/
theorem C11_incomplete_counterexample :
    cxDoc₁.Perm cxDoc₂ ∧ ¬ Complete cxDoc₁ ∧ build cxDoc₁ ≠ build cxDoc₂ := by
  refine ⟨List.Perm.swap _ _ _, cx_incomplete, ?_⟩
  intro h
  obtain ⟨s, hs⟩ := cx_build₂
  rw [cx_build₁, hs] at h
  cases h

/-! ### Non-vacuity: concrete documents meeting the hypotheses -/

/-- `type B extending A { property y := .x }` written BEFORE `abstract type A
    { property x -> str }`, in two module blocks; names: A=1 A@x=2 B=3 B@y=4 -/
def exDoc : Doc :=
  [ .enter 0,
    .item { name := 3, body := 30, loc := 3, qloc := 3, bases := [1], req := [1] },
    .item { name := 4, body := 40, loc := 9, qloc := 9, encl := [3], isPtr := true, isComp := true,
            erefs := [.ptr 1 [8]], req := [3, 2] },
    .enter 0,
    .item { name := 1, body := 10, loc := 1, qloc := 1 },
    .item { name := 2, body := 20, loc := 8, qloc := 8, encl := [1], isPtr := true, req := [1] } ]

example : Complete exDoc := complete_of_completeB exDoc (by decide)

example : sortEx (graph exDoc) false = .ok [1, 3, 2, 4] := by decide

example : ∃ s, build exDoc = .ok s ∧ s 4 = some 40 ∧ s 2 = some 20 := ⟨_, rfl, rfl, rfl⟩

/-- the same document with A's block first: another emitted order, the same schema -/
example : sortEx (graph (exDoc.drop 3 ++ exDoc.take 3)) false = .ok [1, 2, 3, 4] := by decide

example : build (exDoc.drop 3 ++ exDoc.take 3) = build exDoc :=
  C11_perm _ _ List.perm_append_comm
    (complete_of_completeB _ (by decide))

/-- a genuine cycle: two mutually recursive aliases -/
example : build [ .item { name := 1, loc := 1, qloc := 1, isView := true, erefs := [.obj 2], req := [2] },
                  .item { name := 2, loc := 2, qloc := 2, isView := true, erefs := [.obj 1], req := [1] } ]
    = .cycle := by rfl

/-- a near-cycle through a weak edge is not a cycle -/
example : ∃ s, build [ .item { name := 1, loc := 1, qloc := 1, wrefs := [.obj 2] },
                       .item { name := 2, loc := 2, qloc := 2, erefs := [.obj 1], req := [1] } ]
    = .ok s := ⟨_, rfl⟩

/-- nested permutation: swapping two members of a type body and two top-level entries -/
example (h₁ h₂ h₃ : Item) (t : Top) :
    TPerm [t, .decl (.mk h₁ [.mk h₂ [], .mk h₃ []])] [.decl (.mk h₁ [.mk h₃ [], .mk h₂ []]), t] :=
  .trans (.swap _ _ _) (.consDecl h₁ (.swap _ _ _) (.refl _))

end EdbVerif.C11
