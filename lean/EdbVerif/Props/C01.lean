/-
C01 — EdgeQL text survives a print / re-parse round trip (expression core, token level).

Model: `EdbVerif.QL` (`Model/QL.lean`): `pp : Expr → List Tok` mirrors
`edb/edgeql/codegen.py::EdgeQLSourceGenerator` for the expression core, `parse : List Tok →
Option Expr` is a precedence-climbing parser driven by the table generated from
`edb/edgeql/parser/grammar/{precedence,expressions}.py` (`Gen/Prec.lean`).  Both are tied to the
real printer / tokenizer / LR parser by the differential run of `harness/props/c01.py`.

Reading guide.  `Safe e` (`Model/QLSpec.lean`, decidable) = the normal form the parser produces
(`WF e`) + the parenthesisation side conditions under which the printer's output denotes `e`
again.  The side conditions are NOT implied by `WF`: the real printer writes prefix operators
(`-x`, `NOT (x)`, `<T>x`, `DETACHED x`, folded negative literals) and `(arg)[i]` without enclosing
parentheses, so e.g. `(-1) ^ x` is printed as `(-1 ^ x)`, which denotes `-(1 ^ x)`.  Since the
third session the model also contains `Path`s with outbound pointer steps (`base.s.t`,
`Expr.path`): `visit_Path` writes `base.s` bare or `(base).s` and never parenthesises the whole
path, so `DETACHED (x.y)` is printed as `DETACHED x.y`, which denotes `(DETACHED x).y`
(`P_DETACHED` is above `P_DOT`); the side condition `detachedLvl ≤ unitLvl e` of `Safe` excludes
exactly that.  Still outside the model: slices, named tuples / named args, `@prop` / `.<back` /
`[IS T]` / `.0` steps, partial paths.  The
`…_counterexample` theorems below prove that for the model; the harness replays the same inputs
on the real printer + parser (they fail there in the same way).
-/
import EdbVerif.Lemmas.QLRound
import EdbVerif.Lemmas.QLWf

namespace EdbVerif.C01
open EdbVerif.QL EdbVerif.QLLex EdbVerif.Gen.Prec

/-- **Round trip.**  For every expression in parser normal form that satisfies the printer's
    parenthesisation side conditions, parsing the printed tokens gives the expression back. -/
theorem C01_roundtrip (e : Expr) (h : Safe e) : parse (pp e) = some e :=
  QL.parse_pp e h

/-- **Print idempotence**: printing the re-parsed expression gives the same tokens. -/
theorem C01_idempotent (e : Expr) (h : Safe e) : (parse (pp e)).map pp = some (pp e) := by
  rw [QL.parse_pp e h]; rfl

/-- **Normal form**: every tree the parser returns is in parser normal form (no unary minus over a
    numeric constant, flattened non-empty `Indirection`, flattened `Path`, atoms are atom tokens) — so `WF` is exactly
    the shape of ASTs the printer is ever handed by the parser. -/
theorem C01_parse_wf (ts : List Tok) (e : Expr) (h : parse ts = some e) : WF e :=
  QL.parse_wf ts e h

/-- **The property, for token texts**: whenever the parser accepts a token sequence and the resulting
    tree meets the printer's side conditions, the printed form is accepted again, denotes the same
    tree, and printing it again gives the same tokens. -/
theorem C01_tokens (ts : List Tok) (e : Expr) (_h : parse ts = some e) (hs : Safe e) :
    parse (pp e) = some e ∧ (parse (pp e)).map pp = some (pp e) :=
  ⟨C01_roundtrip e hs, C01_idempotent e hs⟩

/-- The statement without the side conditions (`∀ e, WF e → parse (pp e) = some e`) is FALSE of
    the printer: the folded negative literal `-1` as left operand of `^` is printed without
    parentheses, `(-1 ^ x)`, and re-parses as `-(1 ^ x)`.
    Real code: `select (-1) ^ x` prints as `select (-1 ^ x)`. -/
theorem C01_roundtrip_counterexample_neg_pow :
    let e := Expr.binop .o_circumflex (.num 1 .int "1") (.name "x")
    WF e ∧ parse (pp e) = some (.unop .minus (.binop .o_circumflex (.num 0 .int "1") (.name "x")))
      ∧ parse (pp e) ≠ some e := by
  refine ⟨by decide, by rfl, ?_⟩
  rw [show parse (pp (Expr.binop .o_circumflex (.num 1 .int "1") (.name "x")))
        = some (.unop .minus (.binop .o_circumflex (.num 0 .int "1") (.name "x"))) from by rfl]
  intro h; cases h

/-- `(NOT a) = b` is printed as `(NOT (a) = b)`, which denotes `NOT (a = b)`.
    Real code: `select (not a) = b`. -/
theorem C01_roundtrip_counterexample_not_eq :
    let e := Expr.binop .o_equals (.unop .not (.name "a")) (.name "b")
    WF e ∧ parse (pp e) = some (.unop .not (.binop .o_equals (.name "a") (.name "b")))
      ∧ parse (pp e) ≠ some e := by
  refine ⟨by decide, by rfl, ?_⟩
  rw [show parse (pp (Expr.binop .o_equals (.unop .not (.name "a")) (.name "b")))
        = some (.unop .not (.binop .o_equals (.name "a") (.name "b"))) from by rfl]
  intro h; cases h

/-- `DETACHED (x[1])` is printed as `DETACHED (x)[1]`, which denotes `(DETACHED x)[1]`
    (`DETACHED` binds tighter than `[`).  Real code: `select detached (x[1])`. -/
theorem C01_roundtrip_counterexample_detached_index :
    let e := Expr.detached (.index (.name "x") [.num 0 .int "1"])
    WF e ∧ parse (pp e) = some (.index (.detached (.name "x")) [.num 0 .int "1"])
      ∧ parse (pp e) ≠ some e := by
  refine ⟨by decide, by rfl, ?_⟩
  rw [show parse (pp (Expr.detached (.index (.name "x") [.num 0 .int "1"])))
        = some (.index (.detached (.name "x")) [.num 0 .int "1"]) from by rfl]
  intro h; cases h

/-- `DETACHED (x.y)` is printed as `DETACHED x.y`, which denotes `(DETACHED x).y`
    (`DETACHED` binds tighter than `.`; `visit_Path` never parenthesises the path).
    Real code: `select detached (x.y)`. -/
theorem C01_roundtrip_counterexample_detached_path :
    let e := Expr.detached (.path (.name "x") "y" [])
    WF e ∧ parse (pp e) = some (.path (.detached (.name "x")) "y" [])
      ∧ parse (pp e) ≠ some e := by
  refine ⟨by decide, by rfl, ?_⟩
  rw [show parse (pp (Expr.detached (.path (.name "x") "y" [])))
        = some (.path (.detached (.name "x")) "y" []) from by rfl]
  intro h; cases h

/-! ### Non-vacuity: concrete non-trivial expressions meeting `Safe` -/

/-- `(f(-1, <T>x) + (a IF NOT (b) ELSE [1, 2][0])) IS NOT T`-like nesting -/
def ex1 : Expr :=
  .isop true
    (.binop .o_plus
      (.call "f" [.num 1 .int "1", .cast "T" (.name "x")])
      (.ifelse true (.unop .not (.name "b")) (.name "a")
        (.index (.array [.num 0 .int "1", .num 0 .int "2"]) [.num 0 .int "0"])))
    "T"

example : Safe ex1 := by decide
example : parse (pp ex1) = some ex1 := C01_roundtrip ex1 (by decide)

/-- prefix operators are fine as RIGHT operands and under looser operators on the left -/
def ex2 : Expr :=
  .binop .o_and (.unop .not (.name "a"))
    (.binop .o_circumflex (.name "x") (.unop .minus (.cast "T" (.num 2 .float "1.5"))))

example : Safe ex2 := by decide

/-- paths: `-(((f(1)).a.b)[x.y]).c + <T>{1}.d`: bare and parenthesised bases, several steps, a path
    as index / under an index, under prefix operators below `.` -/
def ex3 : Expr :=
  .binop .o_plus
    (.unop .minus
      (.path (.index (.path (.call "f" [.num 0 .int "1"]) "a" ["b"]) [.path (.name "x") "y" []]) "c" []))
    (.cast "T" (.path (.set [.num 0 .int "1"]) "d" []))

example : Safe ex3 := by decide
example : parse (pp ex3) = some ex3 := C01_roundtrip ex3 (by decide)
/-- `DETACHED` over a path is the one prefix operator that is NOT safe -/
example : ¬ Safe (.detached (.path (.name "x") "y" [])) := by decide

end EdbVerif.C01
