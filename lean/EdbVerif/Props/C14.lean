/-
C14 — Type descriptors describe query types faithfully and uniquely.

Property theorems about `EdbVerif.Desc` (`Model/Desc.lean`), the model of the
descriptor encoder building blocks, of two decoders and of the id strings of
`edb/server/compiler/sertypes.py`.  Helper lemmas: `Lemmas/DescWire.lean`
(one block), `Lemmas/DescEnc.lean` (the stream, the position table,
de-duplication, annotations), `Lemmas/DescId.lean` (id strings),
`Lemmas/DescFrame.lean` (the ≥2.0 length prefixes).

Reading guide.  `Desc` = a descriptor tree (node = kind, id, optional
name/schema_defined, flat payload; `pre` / `post` children = described before /
after the encoder looks the id up in `uuid_to_pos`).
`encodeA p dn d` = the bytes `describe()` returns for protocol family `p`
(`v1` < 2.0 ≤ `v2`): descriptor blocks, then the type-name annotation blocks
(`dn = some f`: `inline_typenames` with `f id` = display name; `encode p d` =
`encodeA p none d`).

TWO decoders:
* `decodeDoc p`  — a CLIENT following the documented wire format: every kind incl.
  `SQL_ROW`, annotation blocks (tag ≥ 0x80: id, text) recorded.  This is the
  decoder the property speaks about: `C14_roundtrip`.
* `decodeReal p` — the model of `sertypes.parse`, the server-internal decoder
  (no arm for `SQL_ROW` nor for the `0xff` annotation): `C14_roundtrip_real`,
  `C14_anno_rejected`; it is what the differential run compares with the real code.

`WFDesc p d` = every node exists in `p` and fits the packers (`nodes`, `fits`)
and ids are faithful inside `d` (`faithful`: equal ids ⇒ equal sub-descriptors).
`Decodable d` = no `SQL_ROW` node.
-/
import EdbVerif.Lemmas.DescEnc
import EdbVerif.Lemmas.DescId
import EdbVerif.Lemmas.DescFrame

namespace EdbVerif.C14
open EdbVerif.Desc

/-- A client following the documented format decodes every stream the encoder
    emits — both protocol families, with or without `inline_typenames`, every
    descriptor kind — to the descriptor and to exactly the emitted (id, type name)
    annotations. -/
theorem C14_roundtrip (p : Proto) (dn : Option (Id → Bytes)) (d : Desc) (h : WFDesc p d)
    (hdn : ∀ f, dn = some f → ∀ i, (f i).length < 4294967296) :
    decodeDoc p (encodeA p dn d) = some (d, (enc p dn {} d).ann) :=
  Desc.roundtrip_doc p dn d h hdn

/-- Every annotation the encoder emits names a sub-descriptor of `d` that is a
    derived scalar or an enum below protocol 2.0, with its display name; without
    `inline_typenames` there is none. -/
theorem C14_annotations (p : Proto) (f : Id → Bytes) (d : Desc) :
    (∀ e ∈ (enc p (some f) {} d).ann,
        ∃ u ∈ subs d, e = (u.id, f u.id) ∧ annotated p u.hdr.kind = true) ∧
    (enc p none {} d).ann = [] := by
  refine ⟨fun e he => ?_, Desc.enc_ann_none p d⟩
  rcases Desc.enc_ann p f d {} e he with h | h
  · cases h
  · exact h

/-- The model of the REAL `sertypes.parse` gives back the descriptor on the streams
    it is specified for (no annotations, no `SQL_ROW`). -/
theorem C14_roundtrip_real (p : Proto) (d : Desc) (h : WFDesc p d) (hd : Decodable d) :
    decodeReal p (encode p d) = some d :=
  Desc.roundtrip p d h hd

/-- One block is read back exactly and the reader stops exactly at its end
    (whatever follows): consecutive descriptors do not overlap.  Both decoders. -/
theorem C14_prefix_block (m : Mode) (p : Proto) (f : Flat) (rest : Bytes)
    (hok : hdrOK p f.h f.pre.length f.post.length = true)
    (hsql : m = .doc ∨ ∀ n, f.h.kind ≠ .sqlRow n)
    (hpre : ∀ r ∈ f.pre, r < 65536) (hpost : ∀ r ∈ f.post, r < 65536) :
    parseFlat m p (block p f ++ rest) = some (.desc f (chkOf p f), rest) :=
  Desc.parseFlat_block m p f rest hok hsql hpre hpost

/-- Decoding consumes exactly the encoded bytes: with anything appended, the
    decoder is, after `encode p d`, in the state "all of `d`'s descriptors
    known, `d` last" and continues with the appended bytes. -/
theorem C14_prefix (m : Mode) (p : Proto) (d : Desc) (h : WFDesc p d) (hs : SqlOK m d) :
    ∃ cl, decodeAll m p {} (encode p d) = some ⟨cl, []⟩ ∧ cl.getLast? = some d ∧
      ∀ rest, decodeAll m p {} (encode p d ++ rest) = decodeAll m p ⟨cl, []⟩ rest :=
  Desc.decode_prefix m p d h hs

/-- De-duplication: the position table (`uuid_to_pos`) lists every distinct
    sub-descriptor id exactly once, the stream holds exactly one block per
    table entry, and block `k` decodes to the sub-descriptor with id `tbl[k]`
    (so every reference to a repeated sub-descriptor points at the one block). -/
theorem C14_dedupe (m : Mode) (p : Proto) (d : Desc) (h : WFDesc p d) (hs : SqlOK m d) :
    (enc p none {} d).tbl.Nodup ∧ (∀ i, i ∈ (enc p none {} d).tbl ↔ ∃ u ∈ subs d, u.id = i) ∧
    ∃ cl, decodeAll m p {} (encode p d) = some ⟨cl, []⟩ ∧ cl.map Desc.id = (enc p none {} d).tbl ∧
      ∀ u ∈ subs d, cl[pos (enc p none {} d).tbl u.id]? = some u :=
  Desc.dedupe_full m p d h hs

/-- Described into an existing context (`Context.derive()`, state descriptors):
    if the stream so far decodes to the table, it still does afterwards. -/
theorem C14_context (m : Mode) (c : Id → Desc) (p : Proto) (dn : Option (Id → Bytes)) (d : Desc) (s : St)
    (hinv : Inv m c p s) (hc : ∀ u ∈ subs d, c u.id = u) (hn : nodesOK p d = true)
    (hd : ∀ u ∈ subs d, m = .doc ∨ ∀ n, u.hdr.kind ≠ .sqlRow n)
    (hfit : (enc p dn s d).tbl.length ≤ 65536) :
    Inv m c p (enc p dn s d) ∧ d.id ∈ (enc p dn s d).tbl :=
  ⟨Desc.enc_inv m c p d s hinv hc hn hd hfit, Desc.enc_mem p d s⟩

/-- (after fix c2beb91) The string hashed into a content-derived id determines the
    arguments of the id function (up to "empty list = absent") for ARBITRARY element
    names — they may contain `:` and `\` — as long as names, type name and id texts
    contain no NUL (the part separator; the tokenizer rejects U+0000, checked by
    the harness), id texts are non-empty and `:`-free, cardinality characters are
    neither NUL nor `:`, and the optional lists have the shape the callers give them
    (`callerShaped`: each optional list has the subtypes' length, cardinalities only
    together with names).  For the optional `;sources` tail of shape ids (fix d2d2129)
    the hypotheses are: the source ids are `str(uuid)` texts (`uuidText`, so the tail
    cannot be mistaken for `repr(links)`) and, when given, one per element; an empty
    list counts as absent (`norm`). -/
theorem C14_id_inj (k₁ k₂ : IdKey) (hfn : k₁.fn = k₂.fn) (h₁ : k₁.NoSep) (h₂ : k₂.NoSep)
    (c₁ : k₁.callerShaped) (c₂ : k₂.callerShaped) (he : idPreimage k₁ = idPreimage k₂) :
    k₁.norm = k₂.norm :=
  Desc.id_inj k₁ k₂ hfn h₁ h₂ c₁ c₂ he

/-- Shape ids and source types at the level of `_describe_object_shape` (fix d2d2129),
    which passes the source type ids iff some element's source differs from the
    shape's own type `mt`, one per element: two shapes over the same object type
    with the same elements and equal id strings have the same source types. -/
theorem C14_shape_sources_inj (base mt : Bytes) (subs names : List Bytes) (cards : List Nat)
    (lp links : List Bool) (impl : Bool) (src src' : List Bytes)
    (hl : src.length = subs.length) (hl' : src'.length = subs.length)
    (h₁ : (shapeKeyOf base mt subs names cards lp links impl src).NoSep)
    (h₂ : (shapeKeyOf base mt subs names cards lp links impl src').NoSep)
    (c₁ : (shapeKeyOf base mt subs names cards lp links impl src).callerShaped)
    (c₂ : (shapeKeyOf base mt subs names cards lp links impl src').callerShaped)
    (he : idPreimage (shapeKeyOf base mt subs names cards lp links impl src) =
          idPreimage (shapeKeyOf base mt subs names cards lp links impl src')) : src = src' :=
  Desc.shapeKeyOf_sources_inj base mt subs names cards lp links impl src src' hl hl' h₁ h₂ c₁ c₂ he

/-- What fix d2d2129 repaired: `select Named { name, [is A].x }` and
    `select Named { name, [is B].x }` had ONE id string (`idPreimageNoSources`: source
    types ignored) although their arguments differ; now they have two. -/
theorem C14_shape_source_collision :
    idPreimageNoSources polyA = idPreimageNoSources polyB ∧ polyA.norm ≠ polyB.norm ∧
    idPreimage polyA ≠ idPreimage polyB :=
  ⟨poly_pair.1, poly_pair.2.2, poly_pair.2.1⟩

/-- What fix c2beb91 repaired: with the PRE-fix strings (`idPreimageBuggy`: names
    joined with `:` as they are) the named tuples ``(`a:b` := int64, c := int64)`` and
    ``(a := int64, `b:c` := int64)``, and two object shapes with those element
    names, share their id string; with the fixed strings they do not. -/
theorem C14_id_collision :
    (∃ k₁ k₂ : IdKey, k₁.fn = 0 ∧ k₂.fn = 0 ∧ k₁.NoSep ∧ k₂.NoSep ∧ k₁.callerShaped ∧ k₂.callerShaped ∧
      idPreimageBuggy k₁ = idPreimageBuggy k₂ ∧ k₁.norm ≠ k₂.norm ∧ idPreimage k₁ ≠ idPreimage k₂) ∧
    (∃ k₁ k₂ : IdKey, k₁.fn = 1 ∧ k₂.fn = 1 ∧ idPreimageBuggy k₁ = idPreimageBuggy k₂ ∧
      k₁.norm ≠ k₂.norm ∧ idPreimage k₁ ≠ idPreimage k₂) :=
  ⟨⟨collA, collB, rfl, rfl, collA_noSep, collB_noSep, coll_collision.2.2.2.1, coll_collision.2.2.2.2,
     coll_collision.1, coll_collision.2.1, coll_collision.2.2.1⟩,
   ⟨shapeA, shapeB, rfl, rfl, shape_collision.1, shape_collision.2.1, shape_collision.2.2⟩⟩

/-- Observation about the server-internal decoder (not part of the property):
    the model of `sertypes.parse` rejects what `describe(inline_typenames=True)`
    emits below protocol 2.0 as soon as it contains one annotation block. -/
theorem C14_anno_rejected (f : Id → Bytes) (d : Desc) (h : WFDesc .v1 d) (hd : Decodable d)
    (hne : (enc .v1 (some f) {} d).ann ≠ []) :
    decodeReal .v1 (encodeA .v1 (some f) d) = none :=
  Desc.anno_rejected f d h hd hne

/-! ### the ≥ 2.0 length prefixes frame the stream

`frame b = uint32(len b) ++ b` (`_finish_typedesc`); `frames n bs` = a client that
looks at the length prefixes ONLY (skip `len` bytes, again), `n` = fuel;
`structWalk m p n bs` = the structural reader `parseFlat` (mode `m`; it reads and
ignores the prefix) block after block, returning the chunks it consumed.
`BlocksFit .v2 d`: every body is shorter than 2^32 bytes — the guard of
`_uint32_packer(len(desc))` that `WFDesc` does not contain (an enum with 65535
labels of 2^32-1 bytes passes `nodesOK`); decidable, a function of header and
child counts only (`C14_body_size`). -/

/-- `len(desc)` does not depend on the positions written into the block: it is a
    function of the node's header and its numbers of children. -/
theorem C14_body_size (p : Proto) (f : Flat) :
    (body p f).length = bodySize p f.h f.pre.length f.post.length :=
  Desc.body_length p f

/-- One block, whatever follows: the `uint32` prefix reads back as EXACTLY the byte
    length of the body, and the body is what follows the prefix. -/
theorem C14_frame_block (f : Flat) (rest : Bytes)
    (hfit : bodySize .v2 f.h f.pre.length f.post.length < 4294967296) :
    block .v2 f = frame (body .v2 f) ∧
    rdU32 (block .v2 f ++ rest) = some ((body .v2 f).length, body .v2 f ++ rest) :=
  ⟨rfl, Desc.rdU32_block f rest hfit⟩

/-- **Framing.**  For every well-formed descriptor tree (protocol ≥ 2.0, with or
    without `inline_typenames`) the stream `describe()` returns is a concatenation of
    `uint32(len body) ++ body`: walking by the length prefixes alone succeeds, ends
    exactly at the end of the stream, and visits one block per entry of
    `uuid_to_pos` (= per distinct sub-descriptor, `C14_dedupe`).  A client can skip
    any descriptor whose tag it does not know. -/
theorem C14_frames (dn : Option (Id → Bytes)) (d : Desc) (h : WFDesc .v2 d) (hb : BlocksFit .v2 d) :
    ∃ bodies : List Bytes,
      frames (encodeA .v2 dn d).length (encodeA .v2 dn d) = some bodies ∧
      bodies.length = (enc .v2 none {} d).tbl.length ∧
      encodeA .v2 dn d = bodies.flatMap frame :=
  Desc.frames_encodeA dn d h hb

/-- **Skip form.**  The reader that uses ONLY the length prefixes and the structural
    reader (both decoders: `m`) cut the stream at the same places: the chunks
    `parseFlat` consumes are exactly `prefix ++ body` for the bodies `frames` yields. -/
theorem C14_skip (m : Mode) (dn : Option (Id → Bytes)) (d : Desc) (h : WFDesc .v2 d) (hs : SqlOK m d)
    (hb : BlocksFit .v2 d) :
    ∃ bodies : List Bytes,
      frames (encodeA .v2 dn d).length (encodeA .v2 dn d) = some bodies ∧
      structWalk m .v2 (encodeA .v2 dn d).length (encodeA .v2 dn d) = some (bodies.map frame) ∧
      bodies.length = (enc .v2 none {} d).tbl.length :=
  Desc.skip_encodeA m dn d h hs hb

/-! ### Non-vacuity -/

/-- `tuple<a: int64, b: str, c: int64>` (protocol ≥ 2.0) is well formed … -/
example : WFDesc .v2 exTuple ∧ Decodable exTuple := ⟨exTuple_wf, exTuple_decodable⟩
/-- … round-trips through both decoders … -/
example : decodeDoc .v2 (encodeA .v2 none exTuple) = some (exTuple, (enc .v2 none {} exTuple).ann) :=
  C14_roundtrip _ _ _ exTuple_wf (fun _ h => by cases h)
example : decodeReal .v2 (encode .v2 exTuple) = some exTuple :=
  C14_roundtrip_real _ _ exTuple_wf exTuple_decodable
/-- … and its repeated `int64` is emitted once: 3 blocks for 4 nodes. -/
example : (enc .v2 none {} exTuple).tbl.length = 3 ∧ (subs exTuple).length = 4 := by decide
/-- … its bodies fit the prefix, so the framing theorems apply; evaluated: the walk by
    prefixes finds 3 bodies (25 + 25 + 48 bytes, + 3 × 4 prefix bytes) in the 110-byte stream -/
example : BlocksFit .v2 exTuple := exTuple_blocksFit
example : ∃ bodies, frames (encodeA .v2 none exTuple).length (encodeA .v2 none exTuple) = some bodies ∧
    structWalk .real .v2 (encodeA .v2 none exTuple).length (encodeA .v2 none exTuple) = some (bodies.map frame) ∧
    bodies.length = (enc .v2 none {} exTuple).tbl.length :=
  C14_skip .real none exTuple exTuple_wf (Or.inr exTuple_decodable) exTuple_blocksFit
example : (frames (encode .v2 exTuple).length (encode .v2 exTuple)).map (·.map List.length) = some [25, 25, 48] ∧
    (encode .v2 exTuple).length = 110 := by decide
/-- a < 2.0 tree with an annotation: a derived scalar over `int64` -/
example : WFDesc .v1 exDerived ∧ Decodable exDerived ∧
    (enc .v1 (some fun _ => [109]) {} exDerived).ann ≠ [] := ⟨exDerived_wf, exDerived_decodable, by decide⟩

end EdbVerif.C14
