/-
C14 — Type descriptors describe query types faithfully and uniquely.

Property theorems about `EdbVerif.Desc` (`Model/Desc.lean`), the model of the
descriptor encoder building blocks, the decoder `parse` and the id strings of
`edb/server/compiler/sertypes.py`.  Helper lemmas: `Lemmas/DescWire.lean`
(one block), `Lemmas/DescEnc.lean` (the stream, the position table,
de-duplication), `Lemmas/DescId.lean` (id strings).

Reading guide.  `Desc` = a descriptor tree (node = kind, id, optional
name/schema_defined, flat payload; `pre` / `post` children = described before /
after the encoder looks the id up in `uuid_to_pos`).  `encode p d` = the bytes
`describe()` returns for protocol family `p` (`v1` < 2.0 ≤ `v2`); `decode p` =
`parse(bytes, protocol_version)`.  `WFDesc p d` = every node exists in `p` and
fits the packers (`nodes`, `fits`), there is no `SQL_ROW` node (`decodable`;
the real decoder has no arm for it) and ids are faithful inside `d`
(`faithful`: equal ids ⇒ equal sub-descriptors).
-/
import EdbVerif.Lemmas.DescEnc
import EdbVerif.Lemmas.DescId

namespace EdbVerif.C14
open EdbVerif.Desc

/-- Decoding the encoded descriptor gives back the descriptor, for both
    protocol families. -/
theorem C14_roundtrip (p : Proto) (d : Desc) (h : WFDesc p d) : decode p (encode p d) = some d :=
  Desc.roundtrip p d h

/-- One block is read back exactly and the reader stops exactly at its end
    (whatever follows): consecutive descriptors do not overlap. -/
theorem C14_prefix_block (p : Proto) (f : Flat) (rest : Bytes)
    (hok : hdrOK p f.h f.pre.length f.post.length = true) (hsql : ∀ n, f.h.kind ≠ .sqlRow n)
    (hpre : ∀ r ∈ f.pre, r < 65536) (hpost : ∀ r ∈ f.post, r < 65536) :
    parseFlat p (block p f ++ rest) = some (some (f, chkOf p f), rest) :=
  Desc.parseFlat_block p f rest hok hsql hpre hpost

/-- Decoding consumes exactly the encoded bytes: with anything appended, the
    decoder is, after `encode p d`, in the state "all of `d`'s descriptors
    known, `d` last" and continues with the appended bytes. -/
theorem C14_prefix (p : Proto) (d : Desc) (h : WFDesc p d) :
    ∃ cl, decodeAll p [] (encode p d) = some cl ∧ cl.getLast? = some d ∧
      ∀ rest, decodeAll p [] (encode p d ++ rest) = decodeAll p cl rest :=
  ⟨_, Desc.decode_encode p d h⟩

/-- De-duplication: the position table (`uuid_to_pos`) lists every distinct
    sub-descriptor id exactly once, the stream holds exactly one block per
    table entry, and block `k` decodes to the sub-descriptor with id `tbl[k]`
    (so every reference to a repeated sub-descriptor points at the one block). -/
theorem C14_dedupe (p : Proto) (d : Desc) (h : WFDesc p d) :
    (enc p {} d).tbl.Nodup ∧ (∀ i, i ∈ (enc p {} d).tbl ↔ ∃ u ∈ subs d, u.id = i) ∧
    ∃ cl, decodeAll p [] (encode p d) = some cl ∧ cl.map Desc.id = (enc p {} d).tbl ∧
      ∀ u ∈ subs d, cl[pos (enc p {} d).tbl u.id]? = some u :=
  Desc.dedupe_full p d h

/-- Described into an existing context (`Context.derive()`, state descriptors):
    if the stream so far decodes to the table, it still does afterwards. -/
theorem C14_context (c : Id → Desc) (p : Proto) (d : Desc) (s : St) (hinv : Inv c p s)
    (hc : ∀ u ∈ subs d, c u.id = u) (hn : nodesOK p d = true) (hd : Decodable d)
    (hfit : (enc p s d).tbl.length ≤ 65536) : Inv c p (enc p s d) ∧ d.id ∈ (enc p s d).tbl :=
  ⟨Desc.enc_inv c p d s hinv hc hn hd hfit, Desc.enc_mem p d s⟩

/-- The string hashed into a content-derived id determines the arguments of the
    id function (up to "empty list = absent") as long as no id text / name /
    cardinality character contains `:` or NUL (`NoSep`) and the optional lists
    have the shape the callers give them. -/
theorem C14_id_inj (k₁ k₂ : IdKey) (hfn : k₁.fn = k₂.fn) (h₁ : k₁.NoSep) (h₂ : k₂.NoSep)
    (c₁ : k₁.callerShaped) (c₂ : k₂.callerShaped) (he : idPreimage k₁ = idPreimage k₂) :
    k₁.norm = k₂.norm :=
  Desc.id_inj k₁ k₂ hfn h₁ h₂ c₁ c₂ he

/-- Without `NoSep` the id strings collide: the named tuples
    ``(`a:b` := int64, c := int64)`` and ``(a := int64, `b:c` := int64)``, and
    two object shapes with those element names, share their id string. -/
theorem C14_id_collision :
    (∃ k₁ k₂ : IdKey, k₁.fn = 0 ∧ k₂.fn = 0 ∧ k₁.callerShaped ∧ k₂.callerShaped ∧
      idPreimage k₁ = idPreimage k₂ ∧ k₁.norm ≠ k₂.norm) ∧
    (∃ k₁ k₂ : IdKey, k₁.fn = 1 ∧ k₂.fn = 1 ∧ idPreimage k₁ = idPreimage k₂ ∧ k₁.norm ≠ k₂.norm) :=
  ⟨⟨collA, collB, rfl, rfl, coll_collision.2.2.1, coll_collision.2.2.2, coll_collision.1,
     coll_collision.2.1⟩,
   ⟨shapeA, shapeB, rfl, rfl, shape_collision.1, shape_collision.2⟩⟩

/-- The encoder's own type-name annotations (`inline_typenames`, protocol < 2.0:
    tag `0xff`, id, text, appended after the descriptors) are NOT accepted by the
    decoder: `parse` has no arm for `ANNO_TYPENAME`.  (Replayed on the real code
    by the harness, key `decoder-rejects-inline-typename-annotation`.) -/
theorem C14_anno_rejected (d : Desc) (h : WFDesc .v1 d) (id text : Bytes) :
    decode .v1 (encode .v1 d ++ annoBlock .v1 id text) = none :=
  Desc.anno_rejected d h id text

/-! ### Non-vacuity -/

/-- `tuple<a: int64, b: str, c: int64>` (protocol ≥ 2.0) is well formed … -/
example : WFDesc .v2 exTuple := exTuple_wf
/-- … round-trips … -/
example : decode .v2 (encode .v2 exTuple) = some exTuple := C14_roundtrip _ _ exTuple_wf
/-- … and its repeated `int64` is emitted once: 3 blocks for 4 nodes. -/
example : (enc .v2 {} exTuple).tbl.length = 3 ∧ (subs exTuple).length = 4 := by decide

/-- a key meeting `NoSep` and `callerShaped`: `(a := int64, b := int64)` -/
example : (IdKey.coll asciiTuple [int64Str, int64Str] (some [[97], [98]])).NoSep ∧
    (IdKey.coll asciiTuple [int64Str, int64Str] (some [[97], [98]])).callerShaped := by
  refine ⟨⟨by decide, ?_, ?_⟩, ?_⟩
  · intro s hs
    simp only [List.mem_cons, List.not_mem_nil, or_false, or_self] at hs
    subst hs
    exact ⟨⟨by decide, by decide⟩, by decide⟩
  · intro ns h n hn
    simp only [Option.some.injEq] at h
    subst h
    simp only [List.mem_cons, List.not_mem_nil, or_false] at hn
    rcases hn with rfl | rfl <;> exact ⟨by decide, by decide⟩
  · intro ns h
    simp only [Option.some.injEq] at h
    subst h; rfl

end EdbVerif.C14
