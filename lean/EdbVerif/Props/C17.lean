/-
C17 — Compiler workers always compile against the caller's current state.

Property theorems about `EdbVerif.Sync`, the model of the delta-sync protocol
between `edb/server/compiler_pool/pool.py` (server: belief per worker,
`_compute_compile_preargs`, `sync_worker_state_cb`, `BaseWorker.call`,
`compile`, `compile_in_tx`) and `edb/server/compiler_pool/worker.py` (worker:
`__sync__`, `compile`, `compile_in_tx`).  Helper lemmas and proofs are in
`EdbVerif/Lemmas/Sync*.lean`.

Reading guide.  Values are identity tokens; `env.falsy t` / `env.bad t` say
that the object behind `t` is falsy / cannot be unpickled by the worker.  A
*slot* is one of the places a worker keeps a part (schema / reflection cache /
config of a database, global schema, system config); `ws.bel.get σ` is what
the server believes worker `ws` holds in `σ`, `ws.act.get σ` what it holds.
`exec env (initState init) pre` is the state after the history `pre` started
from workers initialised with `init`; which worker serves a request is part of
the request, so every statement holds for every scheduling decision of the
pool.

Outcome.  The three statements of DESIGN §4 (`C17_used`, `C17_belief`,
`C17_intx`) are FALSE of the code at full strength; each is proved here under
the weakest hypotheses I could find, the exact condition is given
(`C17_used_exact`), and for every dropped hypothesis there is a concrete
counter-history (`…_counterexample…`), which the harness replays on the real
functions.
-/
import EdbVerif.Lemmas.SyncFix

namespace EdbVerif.C17
open EdbVerif.Sync

/-! ## C17_used — the compiler receives what the caller supplied -/

/-- **Exact condition.**  Whatever happened before: if a `compile` request
    reaches the worker-side compiler, the 5-tuple the compiler receives is the
    5-tuple the caller supplied **iff** the request is `Safe`: no part that
    the server elides (belief `is` supplied) is held differently by the
    worker.  (When the belief does not know the database everything is sent
    and the request is always safe.) -/
theorem C17_used_exact (env : Env) (st : State) (r : CReq) (u : Used)
    (h : (stepCompile env st r).2.used = some u) : u = r.supplied ↔ Safe (st r.w) r :=
  Sync.compile_used_exact env st r u h

/-- **C17_used.**  In every history in which identities never come back
    (`NoReturn`: no request supplies, for a slot, an identity that an earlier
    request had already replaced by another one), every `compile` request is
    served with exactly the five parts it supplied — with arbitrary falsy
    values, sync failures at every failure point, compiler errors, unpicklable
    states and unserialisable results before it.  Stale beliefs only cause
    harmless re-sends. -/
theorem C17_used (env : Env) (init : Side) (pre : List Req) (r : CReq)
    (h : NoReturn init (pre ++ [.compile r])) :
    (stepCompile env (exec env (initState init) pre) r).2.usedSupplied r :=
  Sync.used_noReturn env init pre r h

/-- **C17_used, identities may come back.**  If no earlier request had a late
    failure point (global schema / system config always unpickle, results can
    always be sent back) and no earlier request supplied a falsy reflection
    cache or database config, every `compile` request is served with exactly
    the five parts it supplied, however identities are re-used. -/
theorem C17_used_strict (env : Env) (init : Side) (pre : List Req) (r : CReq)
    (hl : NoLateFail env pre) (hf : ∀ σ, FalsyOK env σ pre) :
    (stepCompile env (exec env (initState init) pre) r).2.usedSupplied r :=
  Sync.used_strict env init pre r hl hf

/-- `compile_in_tx`: whenever the call (re)sets the root user schema of the
    transaction's compiler state, it sets it to the supplied one — under
    `NoReturn` (which here also demands that the transaction's root schema has
    not been superseded) … -/
theorem C17_used_tx (env : Env) (init : Side) (pre : List Req) (r : TReq)
    (h : NoReturn init (pre ++ [.tx r])) :
    (stepTx env (exec env (initState init) pre) r).2.usedRoot r :=
  Sync.txRoot_noReturn env init pre r h

/-- … or, for transactions whose root schema is an old one (the normal case:
    `_in_tx_root_user_schema_pickle`), when no earlier request had a late
    failure point (falsy merges do not matter for the schema slot). -/
theorem C17_used_tx_strict (env : Env) (init : Side) (pre : List Req) (r : TReq)
    (hl : NoLateFail env pre) (hf : FalsyOK env (.schema r.db) pre) :
    (stepTx env (exec env (initState init) pre) r).2.usedRoot r :=
  Sync.txRoot_strict env init pre r hl hf

/-! ## C17_belief — "belief says x ⇒ the worker holds x" -/

/-- **C17_belief.**  After every history without late failure points and
    without falsy reflection caches / database configs, for every worker and
    every slot: what the server believes the worker holds is what it holds.
    Early sync failures (schema / reflection cache / database config cannot be
    unpickled), compiler errors and unpicklable compiler states are allowed. -/
theorem C17_belief (env : Env) (init : Side) (h : List Req) (hl : NoLateFail env h)
    (hf : ∀ σ, FalsyOK env σ h) (w : Nat) : Agree (exec env (initState init) h w) :=
  Sync.agree_exec env init h hl hf w

/-- Slot-wise version: the hypothesis on falsy values is only needed for the
    slot in question (none at all for the global schema and the system
    config; for a schema only "`b''` cannot be unpickled"). -/
theorem C17_belief_slot (env : Env) (init : Side) (h : List Req) (σ : Slot)
    (hl : NoLateFail env h) (hf : FalsyOK env σ h) (w : Nat) :
    AgreeAt (exec env (initState init) h w) σ :=
  Sync.agreeAt_exec env σ h _ (Sync.agreeAt_init init σ) hl hf w

/-- Unconditionally: a request that ends in `FailedStateSync` changes no
    belief (the acknowledgement callback does not run) … -/
theorem C17_failed_sync_keeps_belief (env : Env) (st : State) (r : CReq)
    (h : (stepCompile env st r).2.res = .syncFail) (i : Nat) :
    ((stepCompile env st r).1 i).bel = (st i).bel :=
  Sync.syncFail_keeps_belief env st r h i

/-- … and a belief changes only to a value that was sent in this request and
    that the worker has installed. -/
theorem C17_belief_moves_with_worker (env : Env) (st : State) (r : CReq) (σ : Slot) :
    ((stepCompile env st r).1 r.w).bel.get σ = (st r.w).bel.get σ ∨
      ∃ t, (preargs (st r.w).bel r).at r.db σ = some t ∧
        ((stepCompile env st r).1 r.w).bel.get σ = some t ∧
        ((stepCompile env st r).1 r.w).act.get σ = some t :=
  Sync.compile_bel_slot env st r σ

/-- The `assert`s in `sync_worker_state_cb` never fire. -/
theorem C17_callback_asserts_hold (env : Env) (st : State) (r : CReq) :
    (stepCompile env st r).2.res ≠ .cbAssert :=
  Sync.no_cbAssert env st r

/-! ## C17_intx — the compiler state used in a transaction -/

/-- **C17_intx.**  If in the history so far nothing went wrong after a
    worker-side compiler state was touched (`NoStateLoss`: every state returned
    by the compiler could be pickled and sent back, and no failing
    in-transaction compilation mutated the state it was given), a
    `compile_in_tx` request that reaches the compiler runs on the supplied
    compiler state … -/
theorem C17_intx (env : Env) (init : Side) (pre : List Req) (r : TReq) (hs : NoStateLoss pre) :
    (stepTx env (exec env (initState init) pre) r).2.usedState r :=
  Sync.intx env init pre r hs

/-- … in particular `REUSE_LAST_STATE_MARKER` is sent only to a worker whose
    `LAST_STATE` is the state the supplied pickle came from. -/
theorem C17_intx_reuse (env : Env) (init : Side) (pre : List Req) (r : TReq)
    (hs : NoStateLoss pre)
    (h : (stepTx env (exec env (initState init) pre) r).2.send = .reuse) :
    (exec env (initState init) pre r.w).act.last = r.pstate :=
  Sync.reuse_only_to_holder env init pre r hs h

/-- **C17_intx at full strength, for the repaired pool.**  Candidate repair: in
    `pool.py`, when `worker.call(…)` raises, set `worker._last_pickled_state =
    None` before re-raising.  With the repair in `compile_in_tx` AND in
    `compile` (`fixC = true`) every history, with failures of every kind
    anywhere, has the property: a `compile_in_tx` request that supplies a
    state (callers never pass `None`) and reaches the compiler runs on that
    state.  With the repair in `compile_in_tx` only (`fixC = false`) one
    hypothesis remains: `compile` never loses a state
    (`CompileNoStateLoss`; see `C17_intx_fix_tx_only_counterexample`). -/
theorem C17_intx_fixed (fixC : Bool) (env : Env) (init : Side) (pre : List Req) (r : TReq)
    (hc : fixC = false → CompileNoStateLoss pre) (hp : r.pstate ≠ none) :
    (stepTx env (execFix fixC env (initState init) pre) r).2.usedState r :=
  Sync.intx_fixed fixC env init pre r hc hp

/-! ## Counter-histories: the full statements are false

Token encoding `tokEnv`: bit 0 = falsy, bit 1 = cannot be unpickled.
8 = schema S1, 12 = schema S2, 16 = reflection cache, 20 = database config C1,
25 = an empty database config (falsy), 28 = global schema G1, 34 = a global
schema whose unpickling fails, 36 = system config, 400… = compiler states.
All workers start knowing database 0 = (8, 16, 20), global 28, system 36.
The harness (`witness_specs` in harness/props/c17.py) replays exactly these
histories on the real pool and worker code. -/

def init0 : Side :=
  { dbs := fun db => if db = 0 then some ⟨8, 16, 20⟩ else none, glob := 28, sys := 36, last := none }

/-- `compile` of database 0 on worker `w` with schema `s`, db config `c`, global schema `g` -/
def C (w s c g : Nat) (out : COut) (ns : Nat) : CReq :=
  { w := w, db := 0, schema := s, refl := 16, glob := g, dbcfg := c, sys := 36, out := out, ns := ns }
/-- `compile_in_tx` of database 0 on worker `w` with root schema `s`, pickled state `p` -/
def T (w s : Nat) (p : Option Nat) (out : TOut) (ns : Nat) : TReq :=
  { w := w, db := 0, schema := s, pstate := p, out := out, ns := ns }

abbrev run (pre : List Req) : State := exec tokEnv (initState init0) pre

/-- (i) falsy merge: one successful request supplying an empty database config
    leaves the belief at the old config (20) while the worker holds 25.  No
    failure of any kind is involved. -/
theorem C17_belief_counterexample_falsy :
    NoLateFail tokEnv [.compile (C 0 8 25 28 .ok 400)] ∧
    ¬ Agree (run [.compile (C 0 8 25 28 .ok 400)] 0) := by
  refine ⟨by simp [NoLateFail, Req.noLateFail, CReq.noLateFail, C, tokEnv], fun h => ?_⟩
  have := h (.dbcfg 0) 20 (by decide)
  revert this; decide

/-- … and if the old identity 20 is then supplied again it is elided and the
    compiler gets the empty config 25 instead. -/
theorem C17_used_counterexample_falsy :
    ¬ (stepCompile tokEnv (run [.compile (C 0 8 25 28 .ok 400)]) (C 0 8 20 28 .ok 404)).2.usedSupplied
        (C 0 8 20 28 .ok 404) := by
  intro h
  have := h ⟨8, 28, 16, 25, 36⟩ (by decide)
  revert this; decide

/-- (ii) partial sync: the new schema 12 is installed in `DBS`, then unpickling
    the global schema 34 fails → `FailedStateSync`, no acknowledgement: the
    belief still says schema 8.  No falsy value is involved. -/
theorem C17_belief_counterexample_partial :
    (∀ σ, FalsyOK tokEnv σ [.compile (C 0 12 20 34 .ok 400)]) ∧
    (stepCompile tokEnv (initState init0) (C 0 12 20 34 .ok 400)).2.res = .syncFail ∧
    ¬ Agree (run [.compile (C 0 12 20 34 .ok 400)] 0) := by
  refine ⟨?_, by decide, fun h => ?_⟩
  · intro σ q hq
    simp only [List.mem_singleton] at hq
    subst hq
    cases σ <;> simp [Req.falsyOK, CReq.falsyOK, C, tokEnv]
  · have := h (.schema 0) 8 (by decide)
    revert this; decide

/-- … a later request that supplies schema 8 again is compiled against 12. -/
theorem C17_used_counterexample_partial :
    ¬ (stepCompile tokEnv (run [.compile (C 0 12 20 34 .ok 400)]) (C 0 8 20 28 .ok 404)).2.usedSupplied
        (C 0 8 20 28 .ok 404) := by
  intro h
  have := h ⟨12, 28, 16, 20, 36⟩ (by decide)
  revert this; decide

/-- … and so is a transaction that started under schema 8 (its root schema is
    legitimately an old one): `compile_in_tx` elides the schema, the worker
    takes `DBS[dbname].user_schema` = 12.  (400 is a state returned by worker 1,
    so worker 0 cannot reuse its last state.) -/
theorem C17_used_counterexample_tx_root :
    ¬ (stepTx tokEnv (run [.compile (C 1 8 20 28 .ok 400), .compile (C 0 12 20 34 .ok 404)])
        (T 0 8 (some 400) .ok 408)).2.usedRoot (T 0 8 (some 400) .ok 408) := by
  intro h
  have := h ⟨400, some 12⟩ (by decide) 12 rfl
  revert this; decide

/-- (iii) the worker assigns `LAST_STATE` before it pickles the new state; when
    that pickling fails the server keeps `_last_pickled_state` = 400 while the
    worker's `LAST_STATE` is 404.  The client (whose state is still 400) then
    gets the REUSE marker sent to that worker and runs on state 404. -/
theorem C17_intx_counterexample :
    (stepTx tokEnv (run [.compile (C 0 8 20 28 .ok 400), .tx (T 0 8 (some 400) .statePickleFail 404)])
        (T 0 8 (some 400) .ok 408)).2.send = .reuse ∧
    ¬ (stepTx tokEnv (run [.compile (C 0 8 20 28 .ok 400), .tx (T 0 8 (some 400) .statePickleFail 404)])
        (T 0 8 (some 400) .ok 408)).2.usedState (T 0 8 (some 400) .ok 408) := by
  refine ⟨by decide, fun h => ?_⟩
  have := h ⟨404, none⟩ (by decide)
  revert this; decide

/-- (iv) a `compile_in_tx` that FAILS after mutating the state in place.  With
    the REUSE marker the compiler works on the worker's `LAST_STATE` object
    itself; it mutates it (content 400 → 404) and raises; `pool.compile_in_tx`
    leaves `_last_pickled_state` = 400 (it is only assigned on success), so the
    caller's next request with the same pickled state 400 gets the REUSE marker
    again and is compiled on the mutated state 404.  Nothing unusual is
    needed: an ordinary compilation error inside a transaction. -/
theorem C17_intx_counterexample_failed_compile :
    (stepTx tokEnv (run [.compile (C 0 8 20 28 .ok 400), .tx (T 0 8 (some 400) .raiseMutated 404)])
        (T 0 8 (some 400) .ok 408)).2.send = .reuse ∧
    ¬ (stepTx tokEnv (run [.compile (C 0 8 20 28 .ok 400), .tx (T 0 8 (some 400) .raiseMutated 404)])
        (T 0 8 (some 400) .ok 408)).2.usedState (T 0 8 (some 400) .ok 408) := by
  refine ⟨by decide, fun h => ?_⟩
  have := h ⟨404, none⟩ (by decide)
  revert this; decide

/-- the repair of `compile_in_tx` alone does not cover `compile` assigning
    `LAST_STATE` before a failing `pickle.dumps(cstate)` -/
theorem C17_intx_fix_tx_only_counterexample :
    ¬ (stepTx tokEnv
        (execFix false tokEnv (initState init0)
          [.compile (C 0 8 20 28 .ok 400), .compile (C 0 8 20 28 .statePickleFail 404)])
        (T 0 8 (some 400) .ok 408)).2.usedState (T 0 8 (some 400) .ok 408) := by
  intro h
  have := h ⟨404, none⟩ (by decide)
  revert this; decide

/-- on the repaired pool the counter-history (iv) is served correctly: no
    REUSE marker, the supplied pickle 400 is sent and used -/
example :
    (stepTx tokEnv
        (execFix false tokEnv (initState init0)
          [.compile (C 0 8 20 28 .ok 400), .tx (T 0 8 (some 400) .raiseMutated 404)])
        (T 0 8 (some 400) .ok 408)).2 = ⟨.byName, .ok, some ⟨400, some 8⟩⟩ := by decide

/-- why `C17_intx_fixed` asks for a non-`None` state: after the repair cleared
    `_last_pickled_state`, a caller passing `None` would match it (`None is None`) -/
example :
    (stepTx tokEnv
        (execFix true tokEnv (initState init0)
          [.compile (C 0 8 20 28 .ok 400), .tx (T 0 8 (some 400) .raise 404)])
        (T 0 8 none .ok 408)).2 = ⟨.reuse, .ok, some ⟨400, none⟩⟩ := by decide

/-! ## Non-vacuity: the hypotheses are satisfiable by non-trivial histories -/

/-- a history with an empty config, a partial sync failure, a status-2 reply,
    a compile error and two workers in which identities never come back -/
def hNoReturn : List Req :=
  [.compile (C 0 8 25 28 .ok 400), .compile (C 0 12 25 34 .ok 404), .compile (C 1 12 25 32 .resultUnpicklable 408),
   .compile (C 0 12 29 32 .raise 412), .tx (T 0 12 (some 400) .ok 416), .compile (C 0 12 29 32 .ok 420)]

example : NoReturn init0 hNoReturn := by decide

/-- in it the belief of worker 0 about the database config is stale at the end (20 vs 29) … -/
example : (run hNoReturn 0).bel.get (.dbcfg 0) = some 20 ∧ (run hNoReturn 0).act.get (.dbcfg 0) = some 29 := by
  decide

/-- … yet the last request was compiled against exactly what it supplied -/
example : (trace tokEnv (initState init0) hNoReturn)[5]? =
    some (.compile ⟨⟨none, none, none, some 29, none⟩, true, .ok, some ⟨12, 32, 16, 29, 36⟩⟩) := by decide

/-- a history satisfying the hypotheses of `C17_belief` / `C17_used_strict`:
    identities come back (20 after 24), an early sync failure (schema 14 cannot be unpickled),
    a compile error -/
def hStrict : List Req :=
  [.compile (C 0 8 24 28 .ok 400), .compile (C 0 14 20 28 .ok 404), .compile (C 0 12 20 28 .raise 408),
   .compile (C 1 12 24 32 .ok 412), .compile (C 0 8 20 28 .ok 416)]

example : NoLateFail tokEnv hStrict ∧ ∀ σ, FalsyOK tokEnv σ hStrict := by
  constructor
  · intro q hq
    simp only [hStrict, List.mem_cons, List.mem_nil_iff, or_false] at hq
    rcases hq with h | h | h | h | h <;> subst h <;> simp [Req.noLateFail, CReq.noLateFail, C, tokEnv]
  · intro σ q hq
    simp only [hStrict, List.mem_cons, List.mem_nil_iff, or_false] at hq
    rcases hq with h | h | h | h | h <;> subst h <;> cases σ <;>
      simp [Req.falsyOK, CReq.falsyOK, C, tokEnv]

example : (trace tokEnv (initState init0) hStrict)[1]? =
    some (.compile ⟨⟨some 14, none, none, some 20, none⟩, true, .syncFail, none⟩) := by decide

/-- `C17_intx`'s hypothesis holds of a history that really reuses a state -/
example : NoStateLoss [.compile (C 0 8 20 28 .ok 400), .tx (T 0 8 (some 400) .ok 404)] ∧
    (stepTx tokEnv (run [.compile (C 0 8 20 28 .ok 400), .tx (T 0 8 (some 400) .ok 404)])
      (T 0 8 (some 404) .raise 408)).2 = ⟨.reuse, .compErr, some ⟨404, none⟩⟩ := by
  refine ⟨?_, by decide⟩
  intro q hq
  simp only [List.mem_cons, List.mem_nil_iff, or_false] at hq
  rcases hq with h | h <;> subst h <;> simp [Req.noStateLoss, C, T]

/-- `C17_intx_fixed` (repair in `compile_in_tx` only) applies to a history full of failures -/
example : CompileNoStateLoss
    [.compile (C 0 8 20 28 .ok 400), .tx (T 0 8 (some 400) .raiseMutated 404),
     .tx (T 0 8 (some 400) .statePickleFail 408), .compile (C 0 12 20 34 .raise 412),
     .tx (T 0 8 (some 400) .resultUnpicklable 416)] := by
  intro r hr
  simp only [List.mem_cons, List.mem_nil_iff, or_false, Req.compile.injEq, reduceCtorEq,
    false_or] at hr
  rcases hr with h | h <;> subst h <;> simp [C]

end EdbVerif.C17
