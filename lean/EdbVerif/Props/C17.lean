/-
C17 — Compiler workers always compile against the caller's current state.

Property theorems about `EdbVerif.Sync`, the model of the delta-sync protocol
between `edb/server/compiler_pool/pool.py` (server: belief per worker,
`_compute_compile_preargs`, `sync_worker_state_cb`, `BaseWorker.call`,
`compile`, `compile_in_tx`) and `edb/server/compiler_pool/worker.py` (worker:
`__sync__`, `compile`, `compile_in_tx`) — the code AFTER the repairs
2709780 (callback merges with `old if new is None else new`), 03eafed
(`__sync__` unpickles everything before installing anything), ae526a3
(`LAST_STATE` assigned after pickling; the pool forgets `_last_pickled_state`
when `worker.call` raises) and 3499a3b (a request that `worker_proc.worker` /
`handle_client_call` cannot unpickle is answered with a `FailedStateSync`).  Helper lemmas and proofs are in
`EdbVerif/Lemmas/Sync*.lean`; the pre-repair transitions survive in
`Model/SyncBuggy.lean` for the `C17_repaired_…` theorems only.

Reading guide.  Values are identity tokens; `env.bad t` says that the object
behind `t` cannot be unpickled by the worker.  A *slot* is one of the places a
worker keeps a part (schema / reflection cache / config of a database, global
schema, system config); `ws.bel.get σ` is what the server believes worker `ws`
holds in `σ`, `ws.act.get σ` what it holds.  `exec env (initState init) pre`
is the state after the history `pre` started from workers initialised with
`init`; which worker serves a request is part of the request, so every
statement holds for every scheduling decision of the pool.  Histories contain
falsy values, sync failures at every failure point, compiler errors (with and
without in-place mutation of the transaction state), unpicklable compiler
states and unserialisable results, unless a hypothesis says otherwise.

Outcome.  `C17_intx` holds at full strength (given the dbview invariant that a
transaction passes its pickled state).  `C17_used` and `C17_belief` hold for
every history without a *status 2* reply ("could not serialize result in
worker subprocess": the worker has synced, but `BaseWorker.call` gets neither
a result nor an exception object and does not acknowledge) — that defect is
not repaired; the theorems carrying that hypothesis are named `…_partial`, the
full statements are refuted by `…_counterexample_status2`.  Independently,
`C17_used_noreturn` shows that even then nothing wrong is compiled as long as
identities never come back, and `C17_used_exact` gives the exact condition.
-/
import EdbVerif.Lemmas.SyncGhost
import EdbVerif.Lemmas.SyncMTThm
import EdbVerif.Model.SyncBuggy

namespace EdbVerif.C17
open EdbVerif.Sync

/-! ## C17_used — the compiler receives what the caller supplied -/

/-- **Exact condition.**  Whatever happened before: if a `compile` request
    reaches the worker-side compiler, the 5-tuple the compiler receives is the
    5-tuple the caller supplied **iff** the request is `Safe`: no part that
    the server elides (belief `is` supplied) is held differently by the
    worker.  (When the belief does not know the database everything is sent
    and the request is always safe.) -/
theorem C17_used_exact (env : Env) (st : State) (r : CReq) (u : Used)
    (h : (stepCompile env st r).2.used = some u) : u = r.supplied ↔ Safe (st r.w) r :=
  Sync.compile_used_exact' env st r u h

/-- **C17_used** (partial: one hypothesis).  If no earlier `compile` request
    ended with status 2, every `compile` request is served with exactly the
    five parts it supplied — however identities are re-used, with falsy values
    and sync failures at every failure point before it.

    Full statement (FALSE, see `C17_used_counterexample_status2`):
    `∀ env init pre r, (stepCompile env (exec env (initState init) pre) r).2.usedSupplied r`.
    Missing: `BaseWorker.call` cannot acknowledge after status 2. -/
theorem C17_used_partial (env : Env) (init : Side) (pre : List Req) (r : CReq)
    (hl : NoStatus2 pre) :
    (stepCompile env (exec env (initState init) pre) r).2.usedSupplied r :=
  Sync.used_noStatus2 env init pre r hl

/-- **C17_used when identities never come back.**  In every history — status 2
    replies included — in which no request supplies, for a slot, an identity
    that an earlier request had already replaced by another one (`NoReturn`),
    every `compile` request is served with exactly the five parts it supplied:
    a stale belief only causes harmless re-sends. -/
theorem C17_used_noreturn (env : Env) (init : Side) (pre : List Req) (r : CReq)
    (h : NoReturn init (pre ++ [.compile r])) :
    (stepCompile env (exec env (initState init) pre) r).2.usedSupplied r :=
  Sync.used_noReturn env init pre r h

/-- `compile_in_tx` (partial): whenever the call (re)sets the root user schema
    of the transaction's compiler state, it sets it to the supplied one — also
    when that is an old schema identity, the normal case
    (`_in_tx_root_user_schema_pickle`) — provided no earlier `compile` ended
    with status 2.

    Full statement (FALSE, see `C17_used_tx_counterexample_status2`): the same
    without `NoStatus2 pre`. -/
theorem C17_used_tx_partial (env : Env) (init : Side) (pre : List Req) (r : TReq)
    (hl : NoStatus2 pre) :
    (stepTx env (exec env (initState init) pre) r).2.usedRoot r :=
  Sync.txRoot_noStatus2 env init pre r hl

/-- … or provided identities never come back (which here also demands that the
    transaction's root schema has not been superseded). -/
theorem C17_used_tx_noreturn (env : Env) (init : Side) (pre : List Req) (r : TReq)
    (h : NoReturn init (pre ++ [.tx r])) :
    (stepTx env (exec env (initState init) pre) r).2.usedRoot r :=
  Sync.txRoot_noReturn env init pre r h

/-! ## C17_belief — "belief says x ⇒ the worker holds x" -/

/-- **C17_belief** (partial: one hypothesis).  After every history without a
    status 2 reply, for every worker and every slot: what the server believes
    the worker holds is what it holds.

    Full statement (FALSE, see `C17_belief_counterexample_status2`):
    `∀ env init h w, Agree (exec env (initState init) h w)`. -/
theorem C17_belief_partial (env : Env) (init : Side) (h : List Req) (hl : NoStatus2 h) (w : Nat) :
    Agree (exec env (initState init) h w) :=
  Sync.agree_exec env init h hl w

/-- **Second sentence of the property, at full strength.**  A failed state
    transfer (`FailedStateSync`) changes no believed slot and leaves every
    worker process exactly as it was … -/
theorem C17_failed_sync_changes_nothing (env : Env) (st : State) (r : CReq)
    (h : (stepCompile env st r).2.res = .syncFail) (i : Nat) :
    (∀ σ, ((stepCompile env st r).1 i).bel.get σ = (st i).bel.get σ) ∧
      ((stepCompile env st r).1 i).act = (st i).act :=
  Sync.syncFail_changes_nothing' env st r h i

/-- … hence it never leaves the server believing the worker holds state it does
    not hold, from whatever state it starts. -/
theorem C17_failed_sync_preserves_agreement (env : Env) (st : State) (r : CReq)
    (h : (stepCompile env st r).2.res = .syncFail) (i : Nat) (σ : Slot)
    (ha : AgreeAt (st i) σ) : AgreeAt ((stepCompile env st r).1 i) σ := by
  obtain ⟨hb, hact⟩ := Sync.syncFail_changes_nothing' env st r h i
  intro x hx
  rw [hb σ] at hx
  rw [hact]
  exact ha x hx

/-- Unconditionally: a belief changes only to a value that was sent in this
    request and that the worker has installed. -/
theorem C17_belief_moves_with_worker (env : Env) (st : State) (r : CReq) (σ : Slot) :
    ((stepCompile env st r).1 r.w).bel.get σ = (st r.w).bel.get σ ∨
      ∃ t, (preargs (st r.w).bel r).at r.db σ = some t ∧
        ((stepCompile env st r).1 r.w).bel.get σ = some t ∧
        ((stepCompile env st r).1 r.w).act.get σ = some t :=
  Sync.compile_bel_slot' env st r σ

/-- The `assert`s in `sync_worker_state_cb` never fire. -/
theorem C17_callback_asserts_hold (env : Env) (st : State) (r : CReq) :
    (stepCompile env st r).2.res ≠ .cbAssert :=
  Sync.no_cbAssert' env st r

/-! ## C17_intx — the compiler state used in a transaction -/

/-- **C17_intx, every history.**  A `compile_in_tx` request that passes a
    pickled state (dbview invariant: a transaction always does) and reaches
    the compiler runs on that state — after failures of every kind anywhere,
    status 2 included … -/
theorem C17_intx (env : Env) (init : Side) (pre : List Req) (r : TReq) (hp : r.pstate ≠ none) :
    (stepTx env (exec env (initState init) pre) r).2.usedState r :=
  Sync.intx env init pre r hp

/-- … in particular `REUSE_LAST_STATE_MARKER` is sent only to a worker whose
    `LAST_STATE` is the state the supplied pickle came from. -/
theorem C17_intx_reuse (env : Env) (init : Side) (pre : List Req) (r : TReq)
    (hp : r.pstate ≠ none)
    (h : (stepTx env (exec env (initState init) pre) r).2.send = .reuse) :
    (exec env (initState init) pre r.w).act.last = r.pstate :=
  Sync.reuse_only_to_holder env init pre r hp h

/-! ## The assumption behind "identity tokens": no address reuse while memoized -/

/-- All theorems above are about a `_pickle_memoized` that returns, for an object, the
    pickle of that object (`MemoFaithful`): then the transition with an explicit memo IS the
    model's transition.  `functools.lru_cache` guarantees it by keeping its keys alive. -/
theorem C17_memo_faithful (memo : Tok → Tok) (h : MemoFaithful memo) (env : Env) (st : State)
    (r : CReq) : stepCompileMemo memo env st r = stepCompile env st r :=
  Sync.stepCompileMemo_faithful memo h env st r

/-- … and it is needed.  A memo keyed by address: the database config 24 was allocated
    where the dead config 20 used to be and gets 20's pickle.  The request succeeds, the
    worker compiles with 20, the server records 24 as held — never re-sent, no error.
    (Tokens as in the counter-histories below.) -/
theorem C17_memo_counterexample :
    let memo : Tok → Tok := fun t => if t = 24 then 20 else t
    let r : CReq := { w := 0, db := 0, schema := 8, refl := 16, glob := 28, dbcfg := 24, sys := 36,
                      out := .ok, ns := 400 }
    let st : State := initState { dbs := fun db => if db = 0 then some ⟨8, 16, 21⟩ else none,
                                  glob := 28, sys := 36, last := none }
    (stepCompileMemo memo tokEnv st r).2.res = .ok ∧
    (stepCompileMemo memo tokEnv st r).2.used = some ⟨8, 28, 16, 20, 36⟩ ∧
    ((stepCompileMemo memo tokEnv st r).1 0).bel.get (.dbcfg 0) = some 24 ∧
    ((stepCompileMemo memo tokEnv st r).1 0).act.get (.dbcfg 0) = some 20 := by
  decide

/-! ## Counter-histories for the statements that are still false

Token encoding `tokEnv`: bit 0 = falsy, bit 1 = cannot be unpickled.
8 = schema S1, 12 = schema S2, 16 = reflection cache, 20 = database config C1,
25 = an empty database config (falsy), 28 = global schema G1, 34 = a global
schema whose unpickling fails, 36 = system config, 400… = compiler states.
All workers start knowing database 0 = (8, 16, 20), global 28, system 36.
The harness (`witness_specs` in harness/props/c17.py) replays exactly these
histories on the real pool and worker code. -/

def init0 : Side :=
  { dbs := fun db => if db = 0 then some ⟨8, 16, 20⟩ else none, glob := 28, sys := 36, last := none }

/-- `compile` of database 0 on worker `w` with schema `s`, db config `c`, global schema `g` -/
def C (w s c g : Nat) (out : COut) (ns : Nat) : CReq :=
  { w := w, db := 0, schema := s, refl := 16, glob := g, dbcfg := c, sys := 36, out := out, ns := ns }
/-- `compile_in_tx` of database 0 on worker `w` with root schema `s`, pickled state `p` -/
def T (w s : Nat) (p : Option Nat) (out : TOut) (ns : Nat) : TReq :=
  { w := w, db := 0, schema := s, pstate := p, out := out, ns := ns }

abbrev run (pre : List Req) : State := exec tokEnv (initState init0) pre
/-- the same history on the pre-repair transitions -/
abbrev runBuggy (pre : List Req) : State := Buggy.exec tokEnv (initState init0) pre

/-- status 2: the new schema 12 is sent and installed, the compiler runs, but
    its result cannot be serialised → no acknowledgement: the belief still
    says schema 8 while the worker holds 12. -/
theorem C17_belief_counterexample_status2 :
    (stepCompile tokEnv (initState init0) (C 0 12 20 28 .resultUnpicklable 400)).2.res = .serErr ∧
    ¬ Agree (run [.compile (C 0 12 20 28 .resultUnpicklable 400)] 0) := by
  refine ⟨by decide, fun h => ?_⟩
  have := h (.schema 0) 8 (by decide)
  revert this; decide

/-- … a later request that supplies schema 8 again is compiled against 12. -/
theorem C17_used_counterexample_status2 :
    ¬ (stepCompile tokEnv (run [.compile (C 0 12 20 28 .resultUnpicklable 400)])
        (C 0 8 20 28 .ok 404)).2.usedSupplied (C 0 8 20 28 .ok 404) := by
  intro h
  have := h ⟨12, 28, 16, 20, 36⟩ (by decide)
  revert this; decide

/-- … and so is a transaction that started under schema 8: `compile_in_tx`
    elides the schema, the worker takes `DBS[dbname].user_schema` = 12.  (400 is
    a state returned by worker 1, so worker 0 cannot reuse its last state.) -/
theorem C17_used_tx_counterexample_status2 :
    ¬ (stepTx tokEnv (run [.compile (C 1 8 20 28 .ok 400), .compile (C 0 12 20 28 .resultUnpicklable 404)])
        (T 0 8 (some 400) .ok 408)).2.usedRoot (T 0 8 (some 400) .ok 408) := by
  intro h
  have := h ⟨400, some 12⟩ (by decide) 12 rfl
  revert this; decide

/-- why `C17_intx` needs the dbview invariant: after a failed call the pool holds
    `_last_pickled_state = None`; a caller passing `None` would match it
    (`None is None`), get the REUSE marker and run on the worker's state 400. -/
theorem C17_intx_counterexample_none_state :
    ¬ (stepTx tokEnv (run [.compile (C 0 8 20 28 .ok 400), .tx (T 0 8 (some 400) .raise 404)])
        (T 0 8 none .ok 408)).2.usedState (T 0 8 none .ok 408) := by
  intro h
  have := h ⟨400, none⟩ (by decide)
  revert this; decide

/-! ## What the repairs repaired

Each theorem: on the pre-repair transitions (`Buggy`) the history ends with the
compiler receiving something else than supplied; on the current ones it is
served correctly.  The harness keeps the histories as regression witnesses. -/

/-- 2709780 — falsy merge.  Worker 0 is sent an empty database config (25);
    the old callback kept believing 20 (`new or old`), so supplying 20 again
    was elided and the compiler got 25. -/
theorem C17_repaired_falsy_merge :
    (Buggy.stepCompile tokEnv (runBuggy [.compile (C 0 8 25 28 .ok 400)]) (C 0 8 20 28 .ok 404)).2.used
      = some ⟨8, 28, 16, 25, 36⟩ ∧
    (stepCompile tokEnv (run [.compile (C 0 8 25 28 .ok 400)]) (C 0 8 20 28 .ok 404)).2.used
      = some (C 0 8 20 28 .ok 404).supplied := by decide

/-- 03eafed — partial `__sync__`.  Schema 12 was installed before unpickling
    the global schema 34 failed; the belief stayed at 8, and a later request
    (or transaction) supplying 8 was compiled against 12.  Now the failed sync
    installs nothing. -/
theorem C17_repaired_partial_sync :
    (Buggy.stepCompile tokEnv (runBuggy [.compile (C 0 12 20 34 .ok 400)]) (C 0 8 20 28 .ok 404)).2.used
      = some ⟨12, 28, 16, 20, 36⟩ ∧
    (stepCompile tokEnv (run [.compile (C 0 12 20 34 .ok 400)]) (C 0 8 20 28 .ok 404)).2.used
      = some (C 0 8 20 28 .ok 404).supplied ∧
    (Buggy.stepTx tokEnv (runBuggy [.compile (C 1 8 20 28 .ok 400), .compile (C 0 12 20 34 .ok 404)])
        (T 0 8 (some 400) .ok 408)).2.used = some ⟨400, some 12⟩ ∧
    (stepTx tokEnv (run [.compile (C 1 8 20 28 .ok 400), .compile (C 0 12 20 34 .ok 404)])
        (T 0 8 (some 400) .ok 408)).2.used = some ⟨400, some 8⟩ := by decide

/-- ae526a3 — `LAST_STATE` vs `_last_pickled_state`.  (a) state pickling fails
    in `compile_in_tx`, (b) `compile_in_tx` fails after mutating the reused state
    in place, (c) state pickling fails in `compile`: before the repair the next
    `compile_in_tx` with the caller's state 400 got the REUSE marker and ran on
    state 404; now the pickle 400 is sent and used. -/
theorem C17_repaired_last_state :
    (Buggy.stepTx tokEnv (runBuggy [.compile (C 0 8 20 28 .ok 400), .tx (T 0 8 (some 400) .statePickleFail 404)])
        (T 0 8 (some 400) .ok 408)).2 = ⟨.reuse, .ok, some ⟨404, none⟩⟩ ∧
    (stepTx tokEnv (run [.compile (C 0 8 20 28 .ok 400), .tx (T 0 8 (some 400) .statePickleFail 404)])
        (T 0 8 (some 400) .ok 408)).2 = ⟨.byName, .ok, some ⟨400, some 8⟩⟩ ∧
    (Buggy.stepTx tokEnv (runBuggy [.compile (C 0 8 20 28 .ok 400), .tx (T 0 8 (some 400) .raiseMutated 404)])
        (T 0 8 (some 400) .ok 408)).2 = ⟨.reuse, .ok, some ⟨404, none⟩⟩ ∧
    (stepTx tokEnv (run [.compile (C 0 8 20 28 .ok 400), .tx (T 0 8 (some 400) .raiseMutated 404)])
        (T 0 8 (some 400) .ok 408)).2 = ⟨.byName, .ok, some ⟨400, some 8⟩⟩ ∧
    (Buggy.stepTx tokEnv (runBuggy [.compile (C 0 8 20 28 .ok 400), .compile (C 0 8 20 28 .statePickleFail 404)])
        (T 0 8 (some 400) .ok 408)).2 = ⟨.reuse, .ok, some ⟨404, none⟩⟩ ∧
    (stepTx tokEnv (run [.compile (C 0 8 20 28 .ok 400), .compile (C 0 8 20 28 .statePickleFail 404)])
        (T 0 8 (some 400) .ok 408)).2 = ⟨.byName, .ok, some ⟨400, some 8⟩⟩ := by decide

/-- 3499a3b — a request the worker cannot read.  `worker_proc.worker` fails in
    `pickle.loads(req)` (a compile argument), nothing runs.  Before the repair the reply
    was status 1 with that ordinary exception and `BaseWorker.call` ran the callback: the
    server believed schema 12 was installed, the worker still had 8, and the next request
    supplying 12 was compiled against 8 (no identity returns, no status 2).  Now the reply
    is a `FailedStateSync`: no acknowledgement, 12 is sent again. -/
theorem C17_repaired_lost_request :
    ((Buggy.stepCompileLost (initState init0) (C 0 12 20 28 .requestUnreadable 400)).1 0).bel.get
        (.schema 0) = some 12 ∧
    (stepCompile tokEnv (Buggy.stepCompileLost (initState init0) (C 0 12 20 28 .requestUnreadable 400)).1
        (C 0 12 20 28 .ok 404)).2.used = some ⟨8, 28, 16, 20, 36⟩ ∧
    (run [.compile (C 0 12 20 28 .requestUnreadable 400)] 0).bel.get (.schema 0) = some 8 ∧
    (stepCompile tokEnv (run [.compile (C 0 12 20 28 .requestUnreadable 400)])
        (C 0 12 20 28 .ok 404)).2.used = some (C 0 12 20 28 .ok 404).supplied := by decide

/-! ## Non-vacuity: the hypotheses are satisfiable by non-trivial histories -/

/-- a history with an empty config, a failed sync, a status-2 reply, a compile
    error and two workers in which identities never come back -/
def hNoReturn : List Req :=
  [.compile (C 0 8 25 28 .ok 400), .compile (C 0 12 25 34 .ok 404), .compile (C 1 12 25 32 .resultUnpicklable 408),
   .compile (C 1 12 29 32 .raise 412), .tx (T 0 12 (some 400) .ok 416), .compile (C 1 12 29 32 .ok 420)]

example : NoReturn init0 hNoReturn := by decide

/-- in it the belief of worker 1 about the global schema is stale after the third request (28 vs 32) … -/
example : (run (hNoReturn.take 3) 1).bel.get .glob = some 28 ∧ (run (hNoReturn.take 3) 1).act.get .glob = some 32 := by
  decide

/-- … yet the last request was compiled against exactly what it supplied -/
example : ((trace tokEnv (initState init0) hNoReturn)[5]?).map
    (fun o => match o with | .compile c => c.used | .tx _ => none) =
    some (some ⟨12, 32, 16, 29, 36⟩) := by decide

/-- a history satisfying the hypothesis of the `…_partial` theorems with everything
    else going wrong: an empty config (25), identities coming back (20 after 25),
    sync failures at an early (schema 14) and a late (global 34) failure point, a
    compile error, a failed `compile_in_tx` that mutates the state, an unpicklable state -/
def hNoStatus2 : List Req :=
  [.compile (C 0 8 25 28 .ok 400), .compile (C 0 14 20 28 .ok 404), .compile (C 0 12 20 34 .raise 408),
   .tx (T 0 8 (some 400) .raiseMutated 412), .compile (C 1 12 25 32 .statePickleFail 416),
   .compile (C 0 8 20 28 .ok 420), .tx (T 0 8 (some 400) .resultUnpicklable 424)]

example : NoStatus2 hNoStatus2 := by
  intro q hq
  simp only [hNoStatus2, List.mem_cons, List.mem_nil_iff, or_false] at hq
  rcases hq with h | h | h | h | h | h | h <;> subst h <;> simp [Req.noStatus2, C]

example : ((trace tokEnv (initState init0) hNoStatus2).map
    (fun o => match o with | .compile c => c.res | .tx t => t.res)) =
    [.ok, .syncFail, .syncFail, .compErr, .statePickleErr, .ok, .serErr] := by decide

/-- `C17_intx` applies to a request that really gets the REUSE marker -/
example :
    (stepTx tokEnv (run [.compile (C 0 8 20 28 .ok 400), .tx (T 0 8 (some 400) .ok 404)])
      (T 0 8 (some 404) .raise 408)).2 = ⟨.reuse, .compErr, some ⟨404, none⟩⟩ := by decide

/-! ## The remote path: EdgeDB server → compiler server → multi-tenant workers

Model `EdbVerif.SyncMT` (Model/SyncMT.lean): `pool.RemotePool` / `RemoteWorker` on the
EdgeDB server of each client, `server.MultiSchemaPool` (`_sync`, `ClientSchema.diff`, the
per-worker LRU record of client-schema versions) on the compiler server,
`multitenant_worker.__sync__` (FULL SYNC / DIFF SYNC ADD, UPDATE, DROP / invalidation) in
the workers.  `execMT env (initMT init dom size) pre` is the state after the requests `pre`
(any clients, any databases, any worker chosen for each request, any cache size), started
from the clients' init args. -/

section remote
open EdbVerif.SyncMT

/-- **Remote path, used state, every history.**  A request that reaches a worker-side
    compiler is compiled against exactly what the compiler server holds *now* (after
    this request's own `_sync`) for that client and database: user schema, global schema,
    reflection cache, database config, instance config — however many databases changed
    since the worker last saw the client, whatever was evicted, whichever earlier syncs
    failed, status 2 included.  (This is the statement that the seeded edit of
    "DIFF SYNC UPDATE" falsifies.) -/
theorem C17_remote_used_current (env : Env) (init : Nat → Side) (dom : Nat → List Nat)
    (size : Nat) (pre : List MReq) (q : MReq) :
    (stepMT env (execMT env (initMT init dom size) pre) q).2.usedCurrent
      (stepMT env (execMT env (initMT init dom size) pre) q).1 q :=
  SyncMT.usedCurrent_step' env _ q (SyncMT.inv_exec env pre _ (SyncMT.inv_init init dom size))

/-- **Remote path, C17_used** (partial).  If no earlier request ended in
    `FailedStateSync`, the request is compiled against exactly the five parts the client
    supplied.

    Full statement (FALSE, see `C17_remote_used_counterexample_failed_sync`): the same
    without `NoFailedSync`.  Missing: a worker-side `FailedStateSync` comes after the
    compiler server has stored the new parts, and the EdgeDB server does not acknowledge. -/
theorem C17_remote_used_partial (env : Env) (init : Nat → Side) (dom : Nat → List Nat)
    (size : Nat) (pre : List MReq) (q : MReq)
    (h : NoFailedSync env (initMT init dom size) pre) :
    (stepMT env (execMT env (initMT init dom size) pre) q).2.usedSupplied q :=
  SyncMT.usedSupplied_step' env _ q (SyncMT.inv_exec env pre _ (SyncMT.inv_init init dom size))
    (SyncMT.agree1_exec env q.c pre _ (SyncMT.agree1_init init dom size q.c) h)

/-- **Remote path, belief of the EdgeDB server** (partial): without `FailedStateSync` results,
    what the EdgeDB server of a client believes the compiler server holds is what it holds. -/
theorem C17_remote_belief_partial (env : Env) (init : Nat → Side) (dom : Nat → List Nat)
    (size : Nat) (h : List MReq) (hn : NoFailedSync env (initMT init dom size) h) (c : Nat) :
    Agree1 (execMT env (initMT init dom size) h) c :=
  SyncMT.agree1_exec env c h _ (SyncMT.agree1_init init dom size c) hn

/-- **Remote path, record of the compiler server** (partial): without status 2, "the
    compiler server records version `v` of client `c` for worker `w`" implies "`w` holds
    exactly version `v` of `c`: every slot of every database, and no other database".

    Full statement (FALSE, see `C17_remote_record_counterexample_status2`): the same
    without `NoStatus2MT`. -/
theorem C17_remote_record_partial (env : Env) (init : Nat → Side) (dom : Nat → List Nat)
    (size : Nat) (h : List MReq) (hn : NoStatus2MT h) :
    RecordExact (execMT env (initMT init dom size) h) :=
  SyncMT.recordExact_exec env h _ (SyncMT.inv_init init dom size)
    (SyncMT.recordExact_init init dom size) hn

/-- … and in every history, status 2 included: on every slot on which the recorded version
    coincides with the compiler server's current version, the worker holds the current
    content (so a lagging record only causes re-sends: on the compiler server every
    received part is a fresh object, identities never come back). -/
theorem C17_remote_record_weak (env : Env) (init : Nat → Side) (dom : Nat → List Nat)
    (size : Nat) (h : List MReq) (w c : Nat) (v cs : CS)
    (hv : cacheGet ((execMT env (initMT init dom size) h).wk w).cache c = some v)
    (hcs : (execMT env (initMT init dom size) h).cli c = some cs) :
    ∃ x, ((execMT env (initMT init dom size) h).wk w).act c = some x ∧
      ∀ σ, v.get σ = cs.get σ → x.get σ = cs.cont σ := by
  obtain ⟨_, _, _, x, hx, _, h5⟩ :=
    (SyncMT.inv_exec env h _ (SyncMT.inv_init init dom size)).entry w c v hv
  exact ⟨x, hx, h5 cs hcs⟩

/-! ### concrete histories (remote path); replayed on the real three tiers by the harness

Client 1 with databases 0 = (8, 16, 20) and 1 = (12, 16, 20), global schema 28, instance
config 36; two workers; cache size 2.  44, 48 = new schemas, 34 = a global schema that
cannot be unpickled, 52 = another global schema. -/

def initR : Nat → Side := fun _ =>
  { dbs := fun db => if db = 0 then some ⟨8, 16, 20⟩ else if db = 1 then some ⟨12, 16, 20⟩ else none,
    glob := 28, sys := 36, last := none }

/-- request of client 1 for database `db` served by worker `w` -/
def Q (w db s g : Nat) (out : COut := .ok) : MReq :=
  ⟨1, { w := w, db := db, schema := s, refl := 16, glob := g, dbcfg := 20, sys := 36, out := out, ns := 0 }⟩

abbrev stR : MTState := initMT initR (fun _ => [0, 1]) 2

def usedOf (h : List MReq) : List (Option Used) := (traceMT tokEnv stR h).map (·.used)

/-- one diff carrying two databases: worker 0 learns the client, both databases change
    while worker 1 serves, then worker 0 is asked for database 0 (it receives ONE diff with
    both databases) and for database 1 (nothing is sent): both compiled against the new
    schemas 44 and 48. -/
example : usedOf [Q 0 0 8 28, Q 1 0 44 28, Q 1 1 48 28, Q 0 0 44 28, Q 0 1 48 28] =
    [some ⟨8, 28, 16, 20, 36⟩, some ⟨44, 28, 16, 20, 36⟩, some ⟨48, 28, 16, 20, 36⟩,
     some ⟨44, 28, 16, 20, 36⟩, some ⟨48, 28, 16, 20, 36⟩] := by decide

example : ((traceMT tokEnv stR [Q 0 0 8 28, Q 1 0 44 28, Q 1 1 48 28, Q 0 0 44 28, Q 0 1 48 28]).map
    (·.kind)) = [some .full, some .full, some .diff, some .diff, some .insync] := by decide

/-- status 2: worker 0 has synced schema 44, but the compiler server still records the
    version with schema 8 for it. -/
theorem C17_remote_record_counterexample_status2 :
    ¬ RecordExact (execMT tokEnv stR [Q 0 0 8 28, Q 0 0 44 28 .resultUnpicklable]) := by
  intro h
  have hc : (cacheGet ((execMT tokEnv stR [Q 0 0 8 28, Q 0 0 44 28 .resultUnpicklable]).wk 0).cache 1).map
      (fun v => v.cont (.schema 0)) = some (some 8) := by decide
  cases hv : cacheGet ((execMT tokEnv stR [Q 0 0 8 28, Q 0 0 44 28 .resultUnpicklable]).wk 0).cache 1 with
  | none => rw [hv] at hc; cases hc
  | some v =>
    rw [hv] at hc
    simp only [Option.map_some, Option.some.injEq] at hc
    obtain ⟨x, hx, hh⟩ := h 0 1 v hv
    have ha : (((execMT tokEnv stR [Q 0 0 8 28, Q 0 0 44 28 .resultUnpicklable]).wk 0).act 1).map
        (fun x => x.get (.schema 0)) = some (some 44) := by decide
    rw [hx] at ha
    simp only [Option.map_some, Option.some.injEq] at ha
    have := hh (.schema 0)
    rw [ha, hc] at this
    cases this

/-- failed sync on a worker: the compiler server has stored schema 44 and the unpicklable
    global schema 34, the worker raises `FailedStateSync`, the EdgeDB server keeps
    believing (8, 28).  When the client then supplies schema 8 again with a new global
    schema 52, the schema is elided and the worker compiles against 44. -/
theorem C17_remote_used_counterexample_failed_sync :
    (traceMT tokEnv stR [Q 0 0 44 34, Q 0 0 8 52]).map (fun o => (o.res, o.used)) =
      [(.syncFail, none), (.ok, some ⟨44, 52, 16, 20, 36⟩)] ∧
    ¬ (stepMT tokEnv (execMT tokEnv stR [Q 0 0 44 34]) (Q 0 0 8 52)).2.usedSupplied (Q 0 0 8 52) := by
  refine ⟨by decide, fun h => ?_⟩
  have := h ⟨44, 52, 16, 20, 36⟩ (by decide)
  revert this; decide

/-- 3499a3b on the remote path — a request the compiler server cannot unpickle
    (`handle_client_call`): nothing is stored.  Before the repair the client acknowledged
    it anyway, believed schema 44 was there, elided it next time and was compiled
    against 8; now the reply is a `FailedStateSync` and 44 is sent again. -/
theorem C17_repaired_remote_lost_request :
    (stepMT tokEnv (Buggy.stepMTLost stR (Q 0 0 44 28 .requestUnreadable)).1 (Q 0 0 44 28)).2.used
      = some ⟨8, 28, 16, 20, 36⟩ ∧
    (traceMT tokEnv stR [Q 0 0 44 28 .requestUnreadable, Q 0 0 44 28]).map (fun o => (o.res, o.used)) =
      [(.syncFail, none), (.ok, some ⟨44, 28, 16, 20, 36⟩)] := by decide

/-- … and until the global schema changes the client is wedged: the elided parts keep the
    unpicklable value on the compiler server and every request fails. -/
example : (traceMT tokEnv stR [Q 0 0 44 34, Q 0 0 44 28, Q 1 1 12 28]).map (·.res) =
    [.syncFail, .syncFail, .syncFail] := by decide

/-- eviction: cache size 1, two clients on one worker: the second client evicts the first
    (invalidation list `[1]`), which is then synced in full again. -/
example : ((traceMT tokEnv (initMT initR (fun _ => [0, 1]) 1)
      [Q 0 0 8 28, ⟨2, (Q 0 0 8 28).r⟩, Q 0 0 8 28]).map (fun o => (o.kind, o.inval))) =
    [(some .full, []), (some .full, [1]), (some .full, [2])] := by decide

end remote

end EdbVerif.C17
