/-
C03 — DESCRIBE output rebuilds the same schema.

Model: `EdbVerif/Model/Describe.lean` (names, schema algebra, describe / replay
for DDL and SDL, token printer and parser); vocabulary:
`EdbVerif/Model/DescribeSpec.lean`; proofs: `EdbVerif/Lemmas/Describe*.lean`.

Reading guide.
* `Ctx` is the replaying session's `modaliases`: `cur` = current module,
  `aliases` = `SET ALIAS k AS MODULE m` entries.
* `describeDDL tbl S` / `describeSDL tbl S` are token lists: every module,
  every object, every field of the printed-field table `tbl`, every name fully
  qualified; DDL shells are ordered with the C20 model `Topo.sortEx`.
* `loadDDL std t c` / `loadSDL tbl std t c` parse the tokens and replay them on
  a database that contains only the standard library `std`, in a session with
  context `c`, resolving every name by the real lookup rules (`resolveRef` =
  `FlatSchema._search_with_getter`, `resolveShell` = `utils.resolve_name`,
  `classname` = `_classname_from_ast`, `resolveTracer` = `tracer.resolve_name`).
* `Schema.Equiv` is equality of finite maps (declaration order is not part of
  a schema).

The property as stated ("for ALL session contexts") is FALSE of the real lookup
rules: an alias whose key equals the first component of a module name
redirects fully qualified names.  What holds — and is proved — is the
statement for every context satisfying `CtxSafe c S` (no alias shadows a
module the text mentions; nothing is assumed about the current module), and
the failure is proved on concrete witnesses (`…_counterexample`), which the
harness replays on the real engine.
-/
import EdbVerif.Lemmas.DescribeMain

namespace EdbVerif.C03
open EdbVerif.Describe

/-! ### names -/

/-- **Self-containedness lemma.**  A fully qualified name `m::n` resolves under
    a session context `c` exactly as it does with no context at all, for every
    state of the schema, PROVIDED the aliases of `c` leave `m` alone:
    `apply_module_aliases(m, c) = (False, m)`, i.e. no alias key equals the
    first component of `m` (or it maps it to itself) and `m` is not
    `__current__::…`. -/
theorem resolve_qualified_ctx_independent (e : Env) (c : Ctx) (m : ModName) (n : String)
    (h : applyAliases c (some m) = (false, some m)) :
    resolveRef e c ⟨some m, n⟩ = resolveRef e {} ⟨some m, n⟩ :=
  resolveRef_qualified_ctx_independent e c m n h

/-- The current module never matters for a qualified name. -/
theorem resolve_qualified_cur_independent (e : Env) (cur cur' : Option ModName)
    (al : List (String × ModName)) (m : ModName) (n : String)
    (hm : ∀ rest, rest ≠ [] → m ≠ "__current__" :: rest) :
    resolveRef e ⟨cur, al⟩ ⟨some m, n⟩ = resolveRef e ⟨cur', al⟩ ⟨some m, n⟩ :=
  resolveRef_qualified_cur_independent e cur cur' al m n hm

/-- The condition is exact: when the aliases send `m` to another module `m'`
    (and `m` is not `std::m'`), `m::n` never resolves to `m::n` — whatever the
    schema contains. -/
theorem resolve_qualified_shadowed (e : Env) (c : Ctx) (m m' : ModName) (n : String)
    (hstd : m ≠ ["__std__"]) (h : applyAliases c (some m) = (false, some m'))
    (hne : m' ≠ m) (hne2 : "std" :: m' ≠ m) :
    resolveRef e c ⟨some m, n⟩ ≠ some ⟨m, n⟩ :=
  resolveRef_qualified_shadowed e c m m' n hstd h hne hne2

/-- Definition sites (`CREATE <class> m::n`) and DDL positions (`extending`,
    link targets, …) under a context that leaves `m` alone. -/
theorem define_qualified_ctx_independent (e : Env) (c : Ctx) (m : ModName) (n : String)
    (hs : ModSafe c m) :
    classname c ⟨some m, n⟩ = .ok ⟨m, n⟩ ∧
    (e.has ⟨m, n⟩ = true → resolveShell e c ⟨some m, n⟩ = some ⟨m, n⟩) :=
  ⟨classname_qualified_safe c m n hs, resolveShell_qualified_safe e c m n hs⟩

/-! ### describe ∘ load -/

/-- **C03 (DDL).**  For every valid user schema `S` over a standard library
    `std`, every printed-field table that covers `S`, and EVERY session context
    whose aliases shadow no module mentioned by `S` (any current module, any
    other aliases): the DDL text exists, is accepted, and rebuilds `S`. -/
theorem C03_ddl (tbl : FieldTable) (std : Env) (c : Ctx) (S : Schema)
    (hv : Valid tbl std S) (hs : CtxSafe c S) :
    ∃ t S', describeDDL tbl S = .ok t ∧ loadDDL std t c = .ok S' ∧ S'.Equiv S :=
  ddl_roundtrip tbl std c S hv hs

/-- **C03 (SDL).**  Same for the SDL text applied as a migration
    (`START MIGRATION TO {…}; POPULATE; COMMIT`).  `apply_sdl` always
    initialises the module `default`, hence the extra hypothesis (see
    `C03_sdl_default_counterexample`). -/
theorem C03_sdl (tbl : FieldTable) (std : Env) (c : Ctx) (S : Schema)
    (hv : Valid tbl std S) (hs : CtxSafe c S) (hdef : defaultMod ∈ S.modules) :
    ∃ S', loadSDL tbl std (describeSDL tbl S) c = .ok S' ∧ S'.Equiv S :=
  sdl_roundtrip tbl std c S hv hs hdef

/-- The text is self-contained: two safe contexts rebuild the same schema. -/
theorem C03_ctx_independent (tbl : FieldTable) (std : Env) (c c' : Ctx) (S : Schema)
    (hv : Valid tbl std S) (hs : CtxSafe c S) (hs' : CtxSafe c' S) :
    ∃ t S₁ S₂, describeDDL tbl S = .ok t ∧ loadDDL std t c = .ok S₁ ∧ loadDDL std t c' = .ok S₂ ∧
      S₁.Equiv S₂ := by
  obtain ⟨t, S₁, ht, h1, e1⟩ := ddl_roundtrip tbl std c S hv hs
  obtain ⟨t', S₂, ht', h2, e2⟩ := ddl_roundtrip tbl std c' S hv hs'
  rw [ht] at ht'; injection ht' with ht'; subst ht'
  exact ⟨t, S₁, S₂, ht, h1, h2, e1.trans e2.symm⟩

/-- print / parse lemma for statement lists (used by C02's text variant) -/
theorem parse_print (ss : List Stmt) (hwf : ∀ s ∈ ss, StmtWF s) :
    parseStmts ((printStmts ss).length + 1) (printStmts ss) = some ss :=
  parse_print_stmts ss hwf

/-! ### witnesses -/

def q (m : List String) (n : String) : QName := ⟨m, n⟩

def exStd : Env := { names := [q ["std"] "str", q ["std"] "exclusive"], modules := [["std"]] }

/-- `module default { type User { link t -> a::T2 } }  module a { type T2 { property n -> str } }` -/
def exS : Schema := {
  modules := [["default"], ["a"]],
  objs := [
    { cls := "ObjectType", name := q ["default"] "User", fields := [],
      kids := [{ head := { cls := "Link", name := .sym "t",
                           fields := [("target", [.tname (q ["a"] "T2")])] }, body := [] }] },
    { cls := "ObjectType", name := q ["a"] "T2", fields := [],
      kids := [{ head := { cls := "Property", name := .sym "n",
                           fields := [("target", [.tname (q ["std"] "str")])] },
                 body := [.enter { cls := "Constraint", name := .tname (q ["std"] "exclusive"),
                                   fields := [] }, .leave] }] } ] }

/-- the same with a second `User` in module `a` -/
def exS2 : Schema := { exS with objs := exS.objs ++
  [{ cls := "ObjectType", name := q ["a"] "User", fields := [], kids := [] }] }

/-- `SET ALIAS a AS MODULE default` (accepted on a fresh database) -/
def shadowA : Ctx := { cur := some ["default"], aliases := [("a", ["default"])] }
/-- `SET ALIAS default AS MODULE a` -/
def shadowDefault : Ctx := { cur := some ["default"], aliases := [("default", ["a"])] }

def loadsTo (r : Except Err Schema) (names : List QName) : Bool :=
  match r with
  | .ok S' => S'.names == names
  | .error _ => false

def failsWith (r : Except Err Schema) (e : Err) : Bool :=
  match r with
  | .ok _ => false
  | .error e' => e' == e

def viaDDL (S : Schema) (c : Ctx) : Except Err Schema :=
  match describeDDL modelTable S with
  | .ok t => loadDDL exStd t c
  | .error e => .error e

def viaSDL (S : Schema) (c : Ctx) : Except Err Schema :=
  loadSDL modelTable exStd (describeSDL modelTable S) c

/-- **The full statement is false.**  With the session alias `a → default`
    the DDL and the SDL text of `exS` are accepted but silently build
    `default::T2` instead of `a::T2`; with `default → a` the text of `exS2` is
    rejected (`a::User` already exists).  Replayed on the real engine by the
    harness (keys `alias-shadow:…`). -/
theorem C03_alias_shadow_counterexample :
    loadsTo (viaDDL exS shadowA) [q ["default"] "User", q ["default"] "T2"] = true ∧
    loadsTo (viaSDL exS shadowA) [q ["default"] "User", q ["default"] "T2"] = true ∧
    failsWith (viaDDL exS2 shadowDefault) (.exists_ (q ["a"] "User")) = true ∧
    failsWith (viaSDL exS2 shadowDefault) (.exists_ (q ["a"] "User")) = true := by
  decide +kernel

/-- … and in particular the rebuilt schema is not `exS`. -/
theorem C03_alias_shadow_not_equiv :
    ∃ t S', describeDDL modelTable exS = .ok t ∧ loadDDL exStd t shadowA = .ok S' ∧ ¬ S'.Equiv exS := by
  have h : loadsTo (viaDDL exS shadowA) [q ["default"] "User", q ["default"] "T2"] = true :=
    C03_alias_shadow_counterexample.1
  unfold viaDDL at h
  cases ht : describeDDL modelTable exS with
  | error e => simp only [ht, loadsTo] at h; cases h
  | ok t =>
    simp only [ht] at h
    cases hl : loadDDL exStd t shadowA with
    | error e => simp only [hl, loadsTo] at h; cases h
    | ok S' =>
      simp only [hl, loadsTo, beq_iff_eq] at h
      refine ⟨t, S', rfl, hl, ?_⟩
      intro he
      have hmem : q ["a"] "T2" ∈ S'.names := he.names.mem_iff.2 (by decide)
      rw [h] at hmem
      revert hmem; decide

/-- a schema without the module `default` (possible through DDL) -/
def exS3 : Schema := {
  modules := [["a"]],
  objs := [{ cls := "ObjectType", name := q ["a"] "T2", fields := [], kids := [] }] }

def modulesAre (r : Except Err Schema) (ms : List ModName) : Bool :=
  match r with
  | .ok S' => S'.modules == ms
  | .error _ => false

/-- **SDL re-creates `default`.**  The SDL text of a schema that has no module
    `default` rebuilds a schema WITH an (empty) module `default`, under the
    plainest context; the DDL text does not.  Replayed on the real engine
    (key `sdl-default-module`). -/
theorem C03_sdl_default_counterexample :
    modulesAre (viaSDL exS3 { cur := some ["default"] }) [["default"], ["a"]] = true ∧
    modulesAre (viaDDL exS3 { cur := some ["default"] }) [["a"]] = true := by
  decide +kernel

/-! ### non-vacuity: `exS` satisfies the hypotheses of `C03_ddl` / `C03_sdl` -/

def allTable : FieldTable := fun _ => none

theorem exS_acyclic : ¬ ∃ x, Relation.TransGen (ShellDep exS) x x := by
  apply acyclic_of_rank exS (fun _ => 0)
  rintro a b ⟨o, ho, _, hb, _⟩
  simp only [exS, q, List.mem_cons, List.not_mem_nil, or_false] at ho
  rcases ho with rfl | rfl <;> simp [Top.shellNames, fieldsNames] at hb

theorem exS_valid : Valid allTable exStd exS where
  names_nodup := by decide
  names_fresh := by decide
  mods_nodup := by decide
  mods_fresh := by decide
  mods_ne := by decide
  mods_closed := by decide
  obj_mods := by decide
  closed := by decide
  acyclic := exS_acyclic
  covered := by
    intro o _
    exact ⟨fun _ _ => rfl, fun k _ => ⟨fun _ _ => rfl, fun i _ => by
      cases i with
      | enter h => exact fun _ _ => rfl
      | leave => trivial⟩⟩
  mods_real := by
    intro x hx
    have : x.mod = ["default"] ∨ x.mod = ["a"] ∨ x.mod = ["std"] := by
      revert x; decide
    rcases this with h | h | h <;> rw [h] <;> exact ⟨by decide, by decide, by decide⟩
  balanced := by decide

/-- a context with another current module and an unrelated alias is safe -/
def benign : Ctx := { cur := some ["a"], aliases := [("zz", ["a"])] }

theorem exS_safe : CtxSafe benign exS := by
  intro x hx
  have : x.mod = ["default"] ∨ x.mod = ["a"] ∨ x.mod = ["std"] := by
    revert x; decide
  rcases this with h | h | h <;> rw [h] <;> exact ⟨by decide, by decide, by decide⟩

example : ∃ t S', describeDDL allTable exS = .ok t ∧ loadDDL exStd t benign = .ok S' ∧ S'.Equiv exS :=
  C03_ddl allTable exStd benign exS exS_valid exS_safe

example : ∃ S', loadSDL allTable exStd (describeSDL allTable exS) benign = .ok S' ∧ S'.Equiv exS :=
  C03_sdl allTable exStd benign exS exS_valid exS_safe (by decide)

/-- and the shadowing context is NOT safe for `exS` -/
example : ¬ CtxSafe shadowA exS := by
  intro h
  have := (h (q ["a"] "T2") (by decide)).2.2
  revert this; decide

end EdbVerif.C03
