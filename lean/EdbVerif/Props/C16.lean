/-
C16 — every connection request is eventually served.

Same model as C15 (`Model/Pool.lean`; a transition = one atomic section of pool.py, floats and
the clock = the environment `env`).  What is proved here is the SAFETY core of the property
and local progress; the liveness statement itself is FALSE of the model — and of the real
pool — already in fault-free fair runs: see the two counterexample theorems at the end (the
same schedules hang the real `Pool` under plain asyncio: notes/C16-repro-1.py, -2.py, and
corpus/C16/hang-1-*, hang-2-*; a third class, Mode D, depends on float-calibrated quotas and
is only demonstrated on the real pool: notes/C16-repro-3.py).

Scope: histories without `prune_inactive_connections` events (`NoPruneInactive`;
`prune_all_connections` is covered); the per-step oracle of the harness checks the same clauses on the real
pool for all histories.

Reading guide (`Model/PoolSpec.lean`): `Inv₂ s` = for every block, if somebody sleeps in its
queue then `|stack| ≤ #woken-and-not-yet-resumed`; `InvQ s` = `Inv₂` + the queue of a block
lists exactly its sleeping waiters, every sleeping waiter is in the queue of its block,
`conn_waiters_num` counts the tasks inside `try_acquire`, ids are unique, a request is
either waiting or holding.
-/
import EdbVerif.Lemmas.PoolC16
import EdbVerif.Lemmas.PoolPrune

namespace EdbVerif.C16
open EdbVerif.Pool

/-- No lost wake-up, for all histories without `prune_inactive_connections` events
    (`prune_all_connections` is allowed), all capacities, any number of databases, every
    environment: an idle connection never sits in a block while all of the block's waiters sleep. -/
theorem no_lost_wakeup (max : Nat) (evs : List (Env × Ev)) (hev : ∀ x ∈ evs, NoPruneInactive x.2) :
    Inv₂ (run (init max) evs) :=
  (runQ' max evs hev).2.inv2

/-- The whole waiter bookkeeping is invariant (and so is C15's `InvNum`, jointly). -/
theorem waiters_consistent (max : Nat) (evs : List (Env × Ev)) (hev : ∀ x ∈ evs, NoPruneInactive x.2) :
    InvNum (run (init max) evs) ∧ InvQ (run (init max) evs) :=
  runQ' max evs hev

/-- … as a one-step statement: preserved by every transition for every environment choice. -/
theorem waiters_step (s : State) (env : Env) (e : Ev) (h : InvNum s ∧ InvQ s) (he : NoPruneInactive e) :
    InvNum (step s env e) ∧ InvQ (step s env e) :=
  stepQ' h env e he

/-- `abort_all`: when a connect failure exhausts the retries (or is 3D000, "database does not
    exist"), `_connect` empties the queue of the block and every sleeping waiter of the block
    gets the error. -/
theorem abort_all (s : State) (h : InvNum s ∧ InvQ s) (u : Nat) (b : Block) (hb : s.find u = some b)
    (is3D : Bool) (hex : is3D = true ∨ b.failures ≥ RETRIES) :
    (∀ b', (connFail s u is3D).find u = some b' → b'.queue = []) ∧
    (∀ w ∈ s.waiters, w.block = u → w.st = .queued →
      ({ w with st := .aborted } : Waiter) ∈ (connFail s u is3D).waiters) := by
  rw [connFail_exhausted hb is3D hex]
  have hc := (primsQ.connFailCore
    (fun b => if is3D && b.failures + 1 ≤ RETRIES then RETRIES + 1 else b.failures + 1) h hb).1
  have hbm := State.find_some hb
  have hf : (connFailCore s u is3D).find u = some
      { b with pending := b.pending - 1,
               failures := if is3D && b.failures + 1 ≤ RETRIES then RETRIES + 1 else b.failures + 1 } := by
    unfold connFailCore
    have := State.find_mod (s := ({ s with cur := s.cur - 1 } : State)) u u
      (fun b => { b with pending := b.pending - 1,
                         failures := if is3D && b.failures + 1 ≤ RETRIES then RETRIES + 1 else b.failures + 1 })
      (fun _ => rfl)
    rw [this]
    show Option.map _ (s.find u) = _
    rw [hb]; simp [hbm.2]
  exact abortWaiters_spec hc.1.uids hc.2 hf

/-- … and a request that got the error leaves `acquire` with it: it is no longer waiting and
    holds nothing. -/
theorem aborted_request_completes (s : State) (id : Nat) (w : Waiter) (b : Block)
    (hfind : s.waiters.find? (·.id == id) = some w) (hb : s.find w.block = some b)
    (hst : w.st = .aborted) (hp : w.prune = false) :
    (∀ x ∈ (resume s id).waiters, x.id ≠ id) ∧ (resume s id).holders = s.holders ∧
    (resume s id).err = s.err :=
  resume_aborted hfind hb hst hp

/-- `woken_empty`: a woken waiter that finds the stack empty re-enters at the FRONT of the
    queue, and `conn_waiters_num` is unchanged. -/
theorem woken_empty (s : State) (id : Nat) (w : Waiter) (b : Block)
    (hfind : s.waiters.find? (·.id == id) = some w) (hb : s.find w.block = some b)
    (hst : w.st = .woken) (hp : w.prune = false) (he : b.stack = []) (ha : 1 ≤ w.attempts) :
    ∃ b', (resume s id).find w.block = some b' ∧ b'.queue = id :: b.queue ∧
      b'.waitersNum = b.waitersNum ∧ b'.stack = [] ∧
      (⟨id, w.block, .queued, w.attempts + 1, false⟩ : Waiter) ∈ (resume s id).waiters :=
  Pool.woken_empty hfind hb hst hp he ha

/-- Local progress (`C16_partial`): a connection released into (or connected for) a block
    whose queue is `r :: rest` wakes exactly the head `r` and stays on the stack for it.
    Together with `no_lost_wakeup` and `woken_empty` this is all the liveness the code has:
    a sleeping waiter is served by the next connection that reaches its block, unless that
    connection is taken away again before the waiter resumes. -/
theorem C16_partial (s : State) (u c r : Nat) (rest : List Nat) (b : Block) (hb : s.find u = some b)
    (hq : b.queue = r :: rest) (w : Waiter) (hw : w ∈ s.waiters) (hid : w.id = r) :
    ({ w with st := .woken } : Waiter) ∈ (blockRelease s u c).waiters ∧
    ∃ b', (blockRelease s u c).find u = some b' ∧ b'.stack = b.stack ++ [c] ∧ b'.queue = rest :=
  release_wakes hb hq w hw hid

/-
The full statement — NOT a theorem, refuted below:

  theorem C16 (fair run: every enabled internal event eventually happens, holders release,
               connects eventually succeed, timers keep firing; any number of blocks) :
      every `acq r d` is eventually followed by a state in which `r` holds a connection of `d`

`not_stuck` (a blocked request ⇒ some internal event is enabled that changes the state, or
some holder exists) is refuted by the same witnesses: in a `Dead` state nothing is in flight,
nobody holds a connection, all waiters sleep, and the only enabled events — `_tick` and
`_run_gc` — are the identity for EVERY environment.
-/

/-- Counterexample 1 (GC race, `max = 1`, two databases, no fault): a fair history — every
    event of it is enabled (`err = none`) — ends in a `Dead` state with a sleeping request and
    all capacity free. -/
theorem C16_counterexample_gc_race :
    ∃ evs : List (Env × Ev), (∀ x ∈ evs, Prims.NoPruneEv x.2) ∧ Dead (run (init 1) evs) ∧
      (run (init 1) evs).cur = 0 :=
  ⟨gcRace, Prims.noPrune_all (by decide), gcRace_end ▸ gcRaceEnd_dead, gcRace_end ▸ rfl⟩

/-- Counterexample 2 (a `_tick` in the loop iteration of two `release()`s shrinks the block —
    discarding its whole idle stack — before the woken waiter resumes; `max = 3`, no fault):
    again a `Dead` state with a sleeping request and an empty pool. -/
theorem C16_counterexample_tick_shrink :
    ∃ evs : List (Env × Ev), (∀ x ∈ evs, Prims.NoPruneEv x.2) ∧ Dead (run (init 3) evs) ∧
      (run (init 3) evs).cur = 0 :=
  ⟨tickShrink, Prims.noPrune_all (by decide), tickShrink_end ▸ tickShrinkEnd_dead, tickShrink_end ▸ rfl⟩

/-! ### Non-vacuity -/

example : InvQ (run (init 1) gcRace) :=
  (waiters_consistent 1 gcRace (fun x hx => (Prims.noPrune_all (by decide) x hx).1)).2

/-- a state in which `Inv₂` is not vacuous: a sleeping waiter, an idle connection, a woken waiter -/
def exEvs : List (Env × Ev) :=
  [({}, .acq 0 0), ({}, .acq 1 0), ({}, .start 0), ({}, .cdone 0 true false)]

example : (run (init 1) exEvs).blocks.any (fun b => !b.queue.isEmpty && !b.stack.isEmpty) = true ∧
    InvQ (run (init 1) exEvs) :=
  ⟨by decide, (waiters_consistent 1 _ (fun x hx => (Prims.noPrune_all (by decide) x hx).1)).2⟩

end EdbVerif.C16
