import EdbVerif.Lemmas.PoolTrans3
namespace EdbVerif.C16
end EdbVerif.C16
