/-
C09 — Compiler session state follows transaction and savepoint semantics.

Level 1 (this section): the compiler-side `CompilerConnectionState` machine
(`EdbVerif.Tx.step`, the model of `edb/server/compiler/dbstate.py`) refines the
PostgreSQL-style block-with-savepoint-stack `Spec` for EVERY history of
START / COMMIT / ROLLBACK / DECLARE n / RELEASE n / ROLLBACK TO n / payload updates,
repeated names and rejected statements included.

Reading guide.  `abs c` reads the current `Transaction` object of `c` as a `Spec`
(`base` = `_state0`, `cur` = `_current`, `frames` = `_savepoints` innermost first,
`explicit` = `not _implicit`).  `cls` forgets the savepoint id a DECLARE returns.
`Reachable c` = produced from a fresh connection state by some history.
The compiler's implicit transaction is an open block whose baseline is `base`
(autocommit outside a block is a server-level fact: a fresh state per compile; level 2).
-/
import EdbVerif.Lemmas.Tx
import EdbVerif.Lemmas.TxProto
import EdbVerif.Lemmas.TxPool
import EdbVerif.Lemmas.TxDetached
import EdbVerif.Lemmas.TxClient

namespace EdbVerif.C09
open EdbVerif.Tx

/-! ## Level 1 -/

/-- Refinement: after any history the abstraction of the implementation state is the
    spec state, and every call was accepted / rejected (with the same error class)
    exactly as the spec says. -/
theorem refines (t0 : Nat) (pl : Payload) (h : List Ev) :
    abs (run (ConState.init t0 pl) h).1 = some ((Spec.init pl).run h).1 ∧
    (run (ConState.init t0 pl) h).2.map cls = ((Spec.init pl).run h).2 :=
  Tx.refines t0 pl h

/-- One more event from any reachable state: abstraction and result class commute with
    the spec step, and the state stays reachable. -/
theorem refines_step (c : ConState) (hr : Reachable c) (p : Spec) (ha : abs c = some p) (e : Ev) :
    abs (step c e).1 = some (p.step e).1 ∧ cls (step c e).2 = (p.step e).2 ∧
      Reachable (step c e).1 :=
  Tx.reachable_step c hr p ha e

/-- A rejected statement leaves the state as it was.  (In the model this is how `step` is
    built — every `raise` in `dbstate.py` precedes the first write; the differential run
    compares the whole real object graph before / after every rejected real call.) -/
theorem rejected_unchanged (c : ConState) (e : Ev) (err : Err)
    (h : (step c e).2 = .error err) : (step c e).1 = c :=
  Tx.step_rejected_unchanged c e err h

/-- ROLLBACK is always accepted, restores the baseline, leaves the block and drops every
    savepoint. -/
theorem rollback_restores (c : ConState) (hr : Reachable c) (p : Spec) (ha : abs c = some p) :
    abs (step c .rollback).1 = some { base := p.base, explicit := false, cur := p.base, frames := [] } ∧
    cls (step c .rollback).2 = .ok () := by
  have := Tx.reachable_step c hr p ha .rollback
  exact ⟨this.1, this.2.1⟩

/-- … and the baseline is the payload the block was started on: whatever savepoint
    commands and updates `h` ran inside a block started on a clean state (`cur = base`, as
    every START is in the composed system), ROLLBACK brings back the payload seen at START. -/
theorem rollback_restores_tx_start (c : ConState) (hr : Reachable c) (p : Spec)
    (ha : abs c = some p) (hclean : p.cur = p.base) (hout : p.explicit = false)
    (h : List Ev) (hin : ∀ e ∈ h, e.inner = true) :
    abs (run c (.start :: h ++ [.rollback])).1 =
      some { base := p.cur, explicit := false, cur := p.cur, frames := [] } := by
  obtain ⟨t, hI, ha'⟩ := Tx.reachable_inv c hr
  have hp : p = absT t := by rw [ha] at ha'; exact Option.some.inj ha'
  obtain ⟨t', hI', hab, _⟩ := Tx.run_refines c t hI (.start :: h ++ [.rollback])
  rw [Tx.abs_eq _ t' hI'.cur, hab, ← hp]
  have h1 : (p.step .start).1 = { p with explicit := true } := by simp [Spec.step, hout]
  have h2 := Spec.run_inner { p with explicit := true } h hin
  show some (Spec.run p (.start :: (h ++ [.rollback]))).1 = _
  simp only [Spec.run]
  rw [h1, Spec.run_append]
  simp only [Spec.run, Spec.step]
  rw [h2.1, hclean]

/-- ROLLBACK TO n inside a block, n declared: the payload saved by the innermost `n` is
    current again, `n` itself stays, every savepoint declared after it is gone. -/
theorem rollback_to_restores (c : ConState) (hr : Reachable c) (p : Spec) (ha : abs c = some p)
    (n : Nat) (f : Frame) (rest : List Frame)
    (hb : p.explicit = true) (hf : findFrame n p.frames = some (f :: rest)) :
    abs (step c (.rollbackTo n)).1 = some { p with cur := f.2, frames := f :: rest } ∧
    cls (step c (.rollbackTo n)).2 = .ok () := by
  have := Tx.reachable_step c hr p ha (.rollbackTo n)
  rw [Spec.step_rollbackTo_found p n f rest hb hf] at this
  exact ⟨this.1, this.2.1⟩

/-- RELEASE n inside a block, n declared: the current payload is kept, the innermost `n`
    and every savepoint declared after it are gone. -/
theorem release_keeps (c : ConState) (hr : Reachable c) (p : Spec) (ha : abs c = some p)
    (n : Nat) (f : Frame) (rest : List Frame)
    (hb : p.explicit = true) (hf : findFrame n p.frames = some (f :: rest)) :
    abs (step c (.release n)).1 = some { p with frames := rest } ∧
    cls (step c (.release n)).2 = .ok () := by
  have := Tx.reachable_step c hr p ha (.release n)
  rw [Spec.step_release_found p n f rest hb hf] at this
  exact ⟨this.1, this.2.1⟩

/-- COMMIT inside a block makes the current payload the new baseline. -/
theorem commit_baseline (c : ConState) (hr : Reachable c) (p : Spec) (ha : abs c = some p)
    (hb : p.explicit = true) :
    abs (step c .commit).1 = some { base := p.cur, explicit := false, cur := p.cur, frames := [] } ∧
    cls (step c .commit).2 = .ok () := by
  have := Tx.reachable_step c hr p ha .commit
  simp only [Spec.step, hb] at this
  exact ⟨this.1, this.2.1⟩

/-- Outside a block, savepoint commands and COMMIT are rejected (and change nothing);
    inside a block START is rejected, and so are RELEASE / ROLLBACK TO of an unknown name. -/
theorem outside_block_rejected (c : ConState) (hr : Reachable c) (p : Spec) (ha : abs c = some p) :
    (p.explicit = false →
      (step c .commit = (c, .error .notInTx)) ∧
      (∀ n, step c (.declare n) = (c, .error .spOutsideBlock)) ∧
      (∀ n, step c (.release n) = (c, .error .spOutsideBlock)) ∧
      (∀ n, step c (.rollbackTo n) = (c, .error .spOutsideBlock))) ∧
    (p.explicit = true →
      (step c .start = (c, .error .alreadyInTx)) ∧
      (∀ n, findFrame n p.frames = none →
        step c (.release n) = (c, .error .noSavepoint) ∧
        step c (.rollbackTo n) = (c, .error .noSavepoint))) := by
  have key : ∀ e err, (p.step e).2 = .error err → step c e = (c, .error err) := by
    intro e err he
    have h := (Tx.reachable_step c hr p ha e).2.1
    rw [he] at h
    have h2 : (step c e).2 = .error err := by
      cases hs : (step c e).2 with
      | ok r => rw [hs] at h; simp [cls] at h
      | error e' => rw [hs] at h; simp only [cls, Except.error.injEq] at h; rw [h]
    exact Prod.ext (Tx.step_rejected_unchanged c e err h2) h2
  refine ⟨fun ho => ⟨?_, ?_, ?_, ?_⟩, fun hi => ⟨?_, ?_⟩⟩
  · exact key _ _ (by simp [Spec.step, ho])
  · exact fun n => key _ _ (by simp [Spec.step, ho])
  · exact fun n => key _ _ (by simp [Spec.step, ho])
  · exact fun n => key _ _ (by simp [Spec.step, ho])
  · exact key _ _ (by simp [Spec.step, hi])
  · exact fun n hn => ⟨key _ _ (by simp [Spec.step, hi, hn]), key _ _ (by simp [Spec.step, hi, hn])⟩

/-! ### Non-vacuity (level 1): a concrete history with repeated names and rejections -/

/-- START; SAVEPOINT 1; ddl; SAVEPOINT 1; alias; RELEASE 1; ROLLBACK TO 1; COMMIT; COMMIT -/
def exH : List Ev :=
  [.start, .declare 1, .upd (.schema 5 6), .declare 1, .upd (.aliases 7), .release 1,
   .rollbackTo 1, .commit, .commit]

example : Reachable (run (ConState.init 100 ⟨1, 2, 3, 4⟩) exH).1 := ⟨100, ⟨1, 2, 3, 4⟩, exH, rfl⟩

example : abs (run (ConState.init 100 ⟨1, 2, 3, 4⟩) exH).1 =
      some { base := ⟨1, 2, 3, 4⟩, explicit := false, cur := ⟨1, 2, 3, 4⟩, frames := [] } ∧
    (run (ConState.init 100 ⟨1, 2, 3, 4⟩) exH).2.map cls =
      [.ok (), .ok (), .ok (), .ok (), .ok (), .ok (), .ok (), .ok (), .error .notInTx] := by
  decide

/-- inside the block, after the second SAVEPOINT 1: hypotheses of `rollback_to_restores` /
    `release_keeps` are satisfiable -/
example : let c := (run (ConState.init 100 ⟨1, 2, 3, 4⟩) (exH.take 5)).1
    ∃ p f rest, abs c = some p ∧ p.explicit = true ∧ findFrame 1 p.frames = some (f :: rest) ∧
      rest ≠ [] :=
  ⟨{ base := ⟨1, 2, 3, 4⟩, explicit := true, cur := ⟨5, 6, 7, 4⟩,
     frames := [(1, ⟨5, 6, 3, 4⟩), (1, ⟨1, 2, 3, 4⟩)] }, (1, ⟨5, 6, 3, 4⟩), [(1, ⟨1, 2, 3, 4⟩)],
   by decide, by decide, by decide, by decide⟩

/-! ## Level 2: the protocol

`Server.step` is one client statement through the server model (`dbview.pyx` +
`execute.pyx` + the binary protocol's error handling) and the compiler (`Compiler.compile` /
`compile_in_tx`, `sync_tx`, the unit's `tx_id / sp_id / sp_name / tx_commit / …` fields),
with the environment's choices `cf` (the statement's own compilation fails) and `bf` (the
backend fails) and the pickle transport of the compiler pool (every call works on a private
unpickled copy of `_last_comp_state`; the pool's REUSE_LAST_STATE_MARKER shortcut is the subject
of the last section).  `PSpec` is the
PostgreSQL-style session; `PSpec.covers` is the envelope:

* the backend may fail on DDL / alias / config statements, queries and COMMIT — a failed COMMIT
  ending the block (`stay = false`) — but not on START / savepoint commands (see the
  counterexamples below), and not on ROLLBACK or on a COMMIT that leaves the backend in the
  block (`stay = true`): those detach the compiler's current `Transaction` object from the id
  the server keeps sending; the spec says what must happen then (only ROLLBACK / ROLLBACK TO
  are accepted and they must work); `detached_rescue` proves the two steps that matter,
  `detached_later_savepoint_counterexample` shows where it fails, the harness checks the rest on
  the real code (corpus/C09/regressions.json);
* compilation may fail anywhere;
* no RELEASE removes a savepoint whose name is also carried by a savepoint that stays.

`SOut.agrees`: same outcome class (ok / rejected / failed-in-backend), and — unless the
block was already aborted — every statement that was not rejected was compiled against
exactly the payload the spec exposes at that point. -/

/-- Protocol refinement for every history inside the envelope (any fresh-state clock values
    `t0`, any savepoint names, repeated or not, any interleaving of rejected / failed
    statements): the outputs agree statement by statement, and at the end the server is in a
    block iff the spec is, is "aborted" iff the spec is, and its baseline (database schema,
    global schema, session aliases and config) is the spec's. -/
theorem protocol_refines (pl : Payload) (h : List SEv)
    (hcov : (PSpec.init pl).coversAll h = true) :
    let S' := (Server.runAll (Server.init pl) h).1
    let p' := ((PSpec.init pl).run h).1
    agreesAll (Server.runAll (Server.init pl) h).2 ((PSpec.init pl).run h).2 ∧
    S'.inTx = p'.inTx ∧ (S'.inTx = true → S'.txErr = p'.failed) ∧
    p'.base = ⟨S'.uschema, S'.gschema, S'.aliases, S'.config⟩ := by
  have := Tx.runAll_refines (Tx.rel_init pl) h hcov
  refine ⟨this.2, ?_⟩
  have hR := this.1
  unfold Rel at hR
  by_cases hin : (Server.runAll (Server.init pl) h).1.inTx = true
  · rw [if_pos hin] at hR
    obtain ⟨c, t, _, hI⟩ := hR
    exact ⟨by rw [hI.sin, hI.pin], fun _ => hI.pfail.symm, hI.base⟩
  · rw [if_neg hin] at hR
    obtain ⟨_, _, hp⟩ := hR
    have hin' : (Server.runAll (Server.init pl) h).1.inTx = false := by simpa using hin
    refine ⟨by rw [hin', hp]; rfl, fun h' => absurd h' hin, by rw [hp]; rfl⟩

/-- One more statement from any state coupled to a spec state (the inductive step; `Rel` is
    the coupling invariant of `Lemmas/TxProto.lean`). -/
theorem protocol_step (S : Server) (p : PSpec) (hR : Rel S p) (e : SEv) (hcov : p.covers e = true) :
    Rel (S.step e).1 (p.step e).1 ∧
    (S.step e).2.agrees { cls := (p.step e).2, exposed := p.exposed, healthy := p.healthy } :=
  Tx.stepOk_all hR e hcov

/-- Pickle transport: when the compiler raises, the server keeps the state it had
    (`_last_comp_state` is only assigned from a successful call's result). -/
theorem pickle_rejected_keeps_state (S : Server) (e : SEv)
    (h : (S.step e).2.unit = none) : (S.step e).1.last = S.last := by
  unfold Server.step Server.stepOn at h ⊢
  cases hr : (S.compileOn S.last e).res with
  | error err =>
    simp only [hr, Server.compileFailed]
    split <;> rfl
  | ok u => simp [hr] at h

/-! ### Non-vacuity (level 2) -/

/-- out-of-block DDL; START; SAVEPOINT 0; SAVEPOINT 1; alias; SAVEPOINT 1 (shadows); config fails
    in the backend; a query is refused; ROLLBACK TO 1 (the inner one, rescues the block);
    ROLLBACK TO 1 again; RELEASE 0 (takes both `1`s with it: no same-named savepoint stays);
    COMMIT; SAVEPOINT outside a block is rejected. -/
def exP : List SEv :=
  [ { stmt := .upd (.schema 5 6) }, { stmt := .start, t0 := 100 }, { stmt := .declare 0 },
    { stmt := .declare 1 }, { stmt := .upd (.aliases 7) }, { stmt := .declare 1 },
    { stmt := .upd (.config 8), bf := true }, { stmt := .query }, { stmt := .rollbackTo 1 },
    { stmt := .rollbackTo 1 }, { stmt := .release 0 }, { stmt := .commit }, { stmt := .declare 2 } ]

example : (PSpec.init ⟨1, 2, 3, 4⟩).coversAll exP = true := by decide

example : ((PSpec.init ⟨1, 2, 3, 4⟩).run exP).2.map (·.cls) =
    [.ok, .ok, .ok, .ok, .ok, .ok, .failed, .rejected, .ok, .ok, .ok, .ok, .rejected] ∧
    ((PSpec.init ⟨1, 2, 3, 4⟩).run exP).1 = PSpec.out ⟨5, 6, 7, 4⟩ := by decide

/-! ### COMMIT / ROLLBACK failing while the backend stays in the block (detached transaction)

After `ROLLBACK TO a` the server's transaction id is the savepoint's.  The compiler compiles
COMMIT (or ROLLBACK) — `commit_tx` / `rollback_tx` swap in a fresh implicit `Transaction` — the
backend fails and stays in the block (`SEv.detaching`).  The next `compile_in_tx` must bring the
old explicit transaction back (`sync_tx → sync_to_savepoint: self._current_tx = sp.tx`):
ROLLBACK TO works, savepoint/COMMIT/START are refused because the block is aborted, ROLLBACK
leaves.  Proved: the two steps that matter (below).  Tested only: longer stays in the detached
state and the `_try_compile_rollback` escape (server id not a savepoint id). -/

/-- From any healthy coupled state inside a block whose server-side id is a savepoint id
    (`hsp`: an earlier ROLLBACK TO) with no savepoint declared since (`hH`; without it the
    statement is false, see `detached_later_savepoint_counterexample`): the detaching failure
    agrees with the spec (compiled against the exposed payload, outcome failed, block aborted),
    the rescue statement — ROLLBACK, or ROLLBACK TO any name — is accepted or refused exactly as
    the spec says, and an accepted rescue lands in a coupled state again. -/
theorem detached_rescue (S : Server) (p : PSpec) (hR : Rel S p) (hin : S.inTx = true)
    (hf : p.failed = false) (e1 : SEv) (hd : e1.detaching = true)
    (hsp : ∃ q ∈ S.sps, q.spid = S.txid) (hH : ∀ q ∈ S.sps, q.spid ≤ S.txid)
    (e2 : SEv) (he2 : e2.stmt = .rollback ∨ ∃ n, e2.stmt = .rollbackTo n) :
    (S.step e1).2.agrees { cls := (p.step e1).2, exposed := p.exposed, healthy := p.healthy } ∧
    ((S.step e1).1.step e2).2.agrees
      { cls := ((p.step e1).1.step e2).2, exposed := (p.step e1).1.exposed,
        healthy := (p.step e1).1.healthy } ∧
    (((S.step e1).1.step e2).2.outcome = .ok →
      Rel ((S.step e1).1.step e2).1 ((p.step e1).1.step e2).1) :=
  Tx.detached_rescue hR hin hf e1 hd hsp hH e2 he2

/-- Without `hH` it is false, on the real code too (key `proto:detached-later-savepoint`):
    `START; SAVEPOINT 1; ROLLBACK TO 1; query; SAVEPOINT 2; COMMIT [fails, backend stays in the
    block]; ROLLBACK TO 2`.  PostgreSQL still has savepoint 2.  `sync_to_savepoint(id of 1)`
    re-attaches the old transaction but purges every savepoint with a larger id from it and from
    the log, so the compiler refuses the rescue. -/
def cexDetachedLater : List SEv :=
  [ { stmt := .start }, { stmt := .declare 1 }, { stmt := .rollbackTo 1 }, { stmt := .query },
    { stmt := .declare 2 }, { stmt := .commit, bf := true, stay := true }, { stmt := .rollbackTo 2 } ]

theorem detached_later_savepoint_counterexample :
    ((Server.runAll (Server.init ⟨1, 2, 3, 4⟩) cexDetachedLater).2.getLast?.map (·.outcome)) =
      some (.rejected .inTxError) ∧
    (((PSpec.init ⟨1, 2, 3, 4⟩).run cexDetachedLater).2.getLast?.map (·.cls)) = some .ok := by
  decide

/-- Without `hsp` (no ROLLBACK TO yet in the block: the server's id is the START id, the
    `_try_compile_rollback` escape serves the rescue without looking at the state) the MODEL
    accepts `ROLLBACK TO` of a released name that the server's stack still lists.  This is a
    limit of the model, not a finding: the real backend refuses that SQL before
    `rollback_tx_to_savepoint` runs, and the model's backend never refuses a statement by
    itself.  (The escape with a live name, and ROLLBACK, agree with the spec — tested.) -/
example :
    let h : List SEv := [ { stmt := .start }, { stmt := .declare 1 }, { stmt := .release 1 },
      { stmt := .commit, bf := true, stay := true }, { stmt := .rollbackTo 1 } ]
    ((Server.runAll (Server.init ⟨1, 2, 3, 4⟩) h).2.getLast?.map (·.outcome)) = some .ok ∧
    (((PSpec.init ⟨1, 2, 3, 4⟩).run h).2.getLast?.map (·.cls)) = some .rejected := by
  decide

def exDetachedCommit : List SEv :=
  [ { stmt := .start }, { stmt := .declare 1 }, { stmt := .upd (.schema 5 6) }, { stmt := .rollbackTo 1 },
    { stmt := .upd (.aliases 7) }, { stmt := .commit, bf := true, stay := true },
    { stmt := .declare 2 }, { stmt := .start }, { stmt := .commit }, { stmt := .rollbackTo 1 },
    { stmt := .declare 2 }, { stmt := .upd (.config 8) }, { stmt := .commit }, { stmt := .query } ]

def exDetachedRollback : List SEv :=
  [ { stmt := .start }, { stmt := .declare 1 }, { stmt := .upd (.schema 5 6) }, { stmt := .rollbackTo 1 },
    { stmt := .upd (.aliases 7) }, { stmt := .rollback, bf := true },
    { stmt := .declare 2 }, { stmt := .rollbackTo 1 }, { stmt := .upd (.config 8) }, { stmt := .rollback },
    { stmt := .query } ]

example : agreesAll (Server.runAll (Server.init ⟨1, 2, 3, 4⟩) exDetachedCommit).2
      ((PSpec.init ⟨1, 2, 3, 4⟩).run exDetachedCommit).2 ∧
    ((PSpec.init ⟨1, 2, 3, 4⟩).run exDetachedCommit).2.map (·.cls) =
      [.ok, .ok, .ok, .ok, .ok, .failed, .rejected, .rejected, .rejected, .ok, .ok, .ok, .ok, .ok] ∧
    ((PSpec.init ⟨1, 2, 3, 4⟩).run exDetachedCommit).1 = PSpec.out ⟨1, 2, 3, 8⟩ := by decide

example : agreesAll (Server.runAll (Server.init ⟨1, 2, 3, 4⟩) exDetachedRollback).2
      ((PSpec.init ⟨1, 2, 3, 4⟩).run exDetachedRollback).2 ∧
    ((PSpec.init ⟨1, 2, 3, 4⟩).run exDetachedRollback).1 = PSpec.out ⟨1, 2, 3, 4⟩ := by decide

/-! ### Outside the envelope: counterexamples (each is replayed on the real classes by the
harness, keys `proto:*`) -/

/-- RELEASE of a shadowing savepoint, no fault anywhere:
    `START; SAVEPOINT a; ddl X; SAVEPOINT a; ddl Y; RELEASE a; ROLLBACK TO a; query`.
    PostgreSQL is back at the first `a` (before X).  The server never pops its savepoint stack
    on RELEASE, finds the released inner `a` on top, reports its id as the transaction id, and
    the next `compile_in_tx` re-synchronises the compiler to it (the log still has it): the
    query is compiled against a schema that contains X. -/
def cexShadow : List SEv :=
  [ { stmt := .start }, { stmt := .declare 1 }, { stmt := .upd (.schema 5 6) }, { stmt := .declare 1 },
    { stmt := .upd (.schema 7 8) }, { stmt := .release 1 }, { stmt := .rollbackTo 1 }, { stmt := .query } ]

theorem protocol_release_shadowed_counterexample :
    ((Server.runAll (Server.init ⟨1, 2, 3, 4⟩) cexShadow).2.getLast?.map
        (fun o => (o.outcome, o.against))) = some (.ok, some ⟨5, 6, 3, 4⟩) ∧
    (((PSpec.init ⟨1, 2, 3, 4⟩).run cexShadow).2.getLast?.map
        (fun o => (o.cls, o.exposed))) = some (.ok, ⟨1, 2, 3, 4⟩) ∧
    ¬ agreesAll (Server.runAll (Server.init ⟨1, 2, 3, 4⟩) cexShadow).2
        ((PSpec.init ⟨1, 2, 3, 4⟩).run cexShadow).2 := by
  decide

/-- A RELEASE that compiled but failed in the backend: the compiler has forgotten the
    savepoint, PostgreSQL has not — the ROLLBACK TO that would rescue the block is refused. -/
def cexRelease : List SEv :=
  [ { stmt := .start }, { stmt := .declare 1 }, { stmt := .release 1, bf := true }, { stmt := .rollbackTo 1 } ]

theorem protocol_release_fault_counterexample :
    ((Server.runAll (Server.init ⟨1, 2, 3, 4⟩) cexRelease).2.getLast?.map (·.outcome)) =
      some (.rejected .inTxError) ∧
    (((PSpec.init ⟨1, 2, 3, 4⟩).run cexRelease).2.getLast?.map (·.cls)) = some .ok := by
  decide

/-- A SAVEPOINT that compiled but failed in the backend, after a ROLLBACK TO the same name:
    the compiler rolls back to its phantom savepoint (which contains the DDL), the server's
    transaction id does not move, nothing re-synchronises. -/
def cexDeclare : List SEv :=
  [ { stmt := .start }, { stmt := .declare 1 }, { stmt := .rollbackTo 1 }, { stmt := .upd (.schema 5 6) },
    { stmt := .declare 1, bf := true }, { stmt := .rollbackTo 1 }, { stmt := .query } ]

theorem protocol_declare_fault_counterexample :
    ((Server.runAll (Server.init ⟨1, 2, 3, 4⟩) cexDeclare).2.getLast?.map
        (fun o => (o.outcome, o.against))) = some (.ok, some ⟨5, 6, 3, 4⟩) ∧
    (((PSpec.init ⟨1, 2, 3, 4⟩).run cexDeclare).2.getLast?.map
        (fun o => (o.cls, o.exposed))) = some (.ok, ⟨1, 2, 3, 4⟩) := by
  decide

/-- A START TRANSACTION that failed in the backend leaves the server "in an aborted
    transaction" (`dbv.start()` ran before the failure): the next statement is refused although
    PostgreSQL is not in a block. -/
def cexStart : List SEv := [ { stmt := .start, bf := true }, { stmt := .query } ]

theorem protocol_start_fault_counterexample :
    ((Server.runAll (Server.init ⟨1, 2, 3, 4⟩) cexStart).2.getLast?.map (·.outcome)) =
      some (.rejected .inTxError) ∧
    (((PSpec.init ⟨1, 2, 3, 4⟩).run cexStart).2.getLast?.map (·.cls)) = some .ok := by
  decide

/-! ### Session state sent by the client (`decode_state`)

Every Execute message carries the client's session state; the server installs its aliases / config
into its view before parsing (also inside a block) and sends them to `compile_in_tx` as
`request.modaliases / session_config`, which applies them to the compiler state ("session
differences") BEFORE `sync_tx`.  `CEv.cs = none`: the client echoes what the server reported (the
assumption of everything above). -/

/-- A client-side change of the session state is honoured — the statement sent along is compiled
    with it, the coupling is kept — whenever the compiler state the server holds is already at
    the server's transaction id (`Server.settled`: no `sync_to_savepoint` pending), or outside a
    block. -/
theorem client_state_settled (S : Server) (p : PSpec) (hR : Rel S p) (hs : S.settled) (e : CEv)
    (hcov : (p.clientState e.cs).covers e.ev = true) :
    Rel (S.stepC e).1 (p.stepC e).1 ∧
    (S.stepC e).2.agrees { cls := (p.stepC e).2, exposed := (p.clientState e.cs).exposed,
                           healthy := (p.clientState e.cs).healthy } :=
  Tx.stepOk_client hR hs e hcov

/-- Right after a ROLLBACK TO it is not (key `proto:client-state-after-rollback-to`):
    `START; SAVEPOINT 1; ROLLBACK TO 1; <query, sent with new aliases 7>; <query>`.
    `compile_in_tx` applies the request's aliases to `_current` and then `sync_tx` →
    `sync_to_savepoint` replaces `_current` by the savepoint's state: the first statement after
    the ROLLBACK TO is compiled with the savepoint's aliases (3), not the client's (7); the
    second one is right again (the differences are re-applied, no sync pending). -/
def cexClientState : List CEv :=
  [ { ev := { stmt := .start } }, { ev := { stmt := .declare 1 } }, { ev := { stmt := .rollbackTo 1 } },
    { cs := some (7, 4), ev := { stmt := .query } }, { ev := { stmt := .query } } ]

theorem client_state_after_rollback_to_counterexample :
    (Server.runAllC (Server.init ⟨1, 2, 3, 4⟩) cexClientState).2.map (·.against) =
      [some ⟨1, 2, 3, 4⟩, some ⟨1, 2, 3, 4⟩, some ⟨1, 2, 3, 4⟩, some ⟨1, 2, 3, 4⟩, some ⟨1, 2, 7, 4⟩] ∧
    ((PSpec.init ⟨1, 2, 3, 4⟩).runC cexClientState).2.map (·.exposed) =
      [⟨1, 2, 3, 4⟩, ⟨1, 2, 3, 4⟩, ⟨1, 2, 3, 4⟩, ⟨1, 2, 7, 4⟩, ⟨1, 2, 7, 4⟩] := by
  decide

/-! ## The compiler pool's REUSE_LAST_STATE_MARKER transport

`Sys` adds one pool worker to the server: its `LAST_STATE` object (`wobj`) and the pool's
`worker._last_pickled_state` (`wtok`, identity of a bytes object as a token).  The marker is sent
when `wtok` is the bytes object the server holds; the worker then compiles on `wobj` in place.
`PoolVer.fixed` is the pool as it is now (commit ae526a3: `_last_pickled_state = None` when a call
raises, `LAST_STATE` assigned after pickling); `PoolVer.buggy` is the pool before it. -/

/-- With the fixed pool, every `compile_in_tx` — marker or not — works on a state equal to the
    bytes the server holds (`Sys.cin` = `_last_comp_state`), along any history. -/
theorem reuse_fixed_compiles_on_callers_state (pl : Payload) (h : List SEv) :
    let y := (Sys.runAll .fixed (Sys.init pl) h).1
    y.cin = y.srv.last :=
  Sys.cin_eq _ (Tx.Sys.runAll_fixed _ (Tx.Sys.init_coherent pl) h).2.2

/-- … in particular after a rejected script (the one shape of statement that is rejected
    *after* it has written to the state object): the server keeps its bytes and the next
    statement is compiled on exactly those. -/
theorem reuse_fixed_rejected_script (y : Sys) (ss : List Stmt) (y' : Sys) (o : SOut)
    (hs : y.stepScript .fixed ss = some (y', o)) :
    y'.srv.last = y.srv.last ∧ y'.cin = y'.srv.last := by
  have := Tx.Sys.stepScript_fixed y ss y' o hs
  exact ⟨this.1, this.2.2⟩

/-- Hence the fixed pool is observationally the pickle transport … -/
theorem reuse_fixed_is_pickle (pl : Payload) (h : List SEv) :
    (Sys.runAll .fixed (Sys.init pl) h).1.srv = (Server.runAll (Server.init pl) h).1 ∧
    (Sys.runAll .fixed (Sys.init pl) h).2 = (Server.runAll (Server.init pl) h).2 := by
  have := Tx.Sys.runAll_fixed (Sys.init pl) (Tx.Sys.init_coherent pl) h
  exact ⟨this.1, this.2.1⟩

/-- … and the protocol refinement holds for it on the same envelope. -/
theorem protocol_refines_reuse (pl : Payload) (h : List SEv)
    (hcov : (PSpec.init pl).coversAll h = true) :
    agreesAll (Sys.runAll .fixed (Sys.init pl) h).2 ((PSpec.init pl).run h).2 := by
  rw [(reuse_fixed_is_pickle pl h).2]
  exact (protocol_refines pl h hcov).1

/-- The pool BEFORE the fix: the script `RELEASE SAVEPOINT 1; <query>` inside a block is refused
    by `_make_query_unit` *after* `release_savepoint` has written to the state.  The old pool
    kept `_last_pickled_state`, so the rescuing `ROLLBACK TO 1` went out with the marker, was
    compiled on the worker's mutated `LAST_STATE` (savepoint gone) and was refused; with the
    fixed pool it is compiled on the server's bytes and accepted. -/
theorem reuse_script_counterexample_poolBuggy :
    let pre : List SEv := [{ stmt := .start }, { stmt := .declare 1 }]
    let script : List Stmt := [.release 1, .query]
    (∀ v, ((Sys.runAll v (Sys.init ⟨1, 2, 3, 4⟩) pre).1.stepScript v script).map
        (·.2.outcome) = some (.rejected .txInScript)) ∧
    ((((Sys.runAll .buggy (Sys.init ⟨1, 2, 3, 4⟩) pre).1.stepScript .buggy script).map
        (fun r => (r.1.step .buggy { stmt := .rollbackTo 1 }).2.outcome)) =
          some (.rejected .inTxError)) ∧
    ((((Sys.runAll .fixed (Sys.init ⟨1, 2, 3, 4⟩) pre).1.stepScript .fixed script).map
        (fun r => (r.1.step .fixed { stmt := .rollbackTo 1 }).2.outcome)) = some .ok) := by
  refine ⟨fun v => by cases v <;> decide, by decide, by decide⟩

end EdbVerif.C09
