/-
C12 — Statically inferred result types match evaluated values.

Objects (models, `EdbVerif/Model/Types.lean`, `TypesQL.lean`; tables GENERATED from the real std
schema, `EdbVerif/Gen/Types.lean`):

* `castableS / castDistS`   `edb/schema/casts.py::get_implicit_cast_distance`
* `commonS`                 every value `casts.find_common_castable_type` can return, over all
                            iteration orders of its Python `set`s
* `implCastable, commonType` `Type.implicitly_castable_to / find_common_implicitly_castable_type`
                            (scalars, tuples, arrays, flat object types)
* `findCallable, resolve`   `polyres.find_callable`, `func.compile_operator / compile_FunctionCall`
* `inferType`, `eval`, `hasType`   MiniQL: static types, reference evaluator, typed values

Reading guide.  `Le a b` is "a is implicitly castable to b".  Statements that mention the
generated tables are re-proved by kernel evaluation whenever the tables change.
-/
import EdbVerif.Lemmas.TypesSound
import EdbVerif.Lemmas.TypesResolve

namespace EdbVerif.C12
open EdbVerif.Types EdbVerif.Gen.Types

/-! ### common type = least upper bound -/

/-- The implicit-cast relation (`implicitly_castable_to`) is a preorder on types; it is a partial
    order on types without user-derived scalars.  (A user scalar and its concrete base are
    implicitly castable to EACH OTHER: the relation looks only at topmost concrete bases.) -/
theorem implicit_cast_order :
    (∀ a : Ty, Le a a) ∧ (∀ a b c : Ty, Le a b → Le b c → Le a c) ∧
    (∀ a b : Ty, plain a = true → plain b = true → Le a b → Le b a → a = b) :=
  ⟨Le.refl, fun _ _ _ => Le.trans, fun _ _ pa pb => Le.antisymm pa pb⟩

/-- **common_lub.**  `find_common_implicitly_castable_type a b`, when it returns `c`, returns a
    least upper bound of `a` and `b` in the implicit-cast order — scalars (std, user-derived,
    enums), tuples and arrays element-wise, object types — and it returns one whenever `a` and `b`
    have any least upper bound, the same up to mutual castability.  The real algorithm guarantees
    this only on a cast graph that is a (partial) join-semilattice in which its greedy climb cannot
    overshoot; that hypothesis on the GENERATED graph is `scalarTable` (`decide +kernel`). -/
theorem common_lub (a b c : Ty) :
    (commonType a b = some c → IsLUB a b c) ∧
    (IsLUB a b c → ∃ c', commonType a b = some c' ∧ Equiv c' c) :=
  commonType_isLUB a b c

/-- Without user-derived scalars the order is antisymmetric and the statement is an exact iff. -/
theorem common_lub_plain (a b c : Ty) (pa : plain a = true) (pc : plain c = true) :
    commonType a b = some c ↔ IsLUB a b c :=
  commonType_isLUB_plain a b c pa pc

/-- **Value soundness of the common type** (the order with "derived below base"): both operands
    CONVERT to the common type, i.e. it is reached from each operand by keeping the type or by
    an implicit cast of its concrete base to a std scalar.  In particular the common type is never
    a user-derived scalar that one of the operands is not already an instance of: `[<myint>1, 2]`
    is an `array<int64>`, not an `array<myint>`. -/
theorem common_value_sound (a b c : Ty) (h : commonType a b = some c) : Conv a c ∧ Conv b c :=
  commonType_conv a b c h

/-- Two scalars with the same concrete base — a user scalar and its base, two siblings, a
    second-level derivation and its parent, or the SAME user scalar twice — have that base as their
    common type (`if left == right: return schema, left` on the topmost concrete bases). -/
theorem common_same_base (a b : Sc) (x : Scalar) (ha : a.top = some x) (hb : b.top = some x) :
    commonType (.scalar a) (.scalar b) = some (.scalar (.base x)) := by
  have : commonScalar x x = some x := by
    rcases commonScalar_spec x x with ⟨_, hn⟩ | ⟨c, hc, hl⟩
    · exact absurd ⟨castableS_refl x, castableS_refl x⟩ (hn x)
    · rw [lubB_iff] at hl
      rw [hc, castableS_antisymm (hl.2.2 x (castableS_refl x) (castableS_refl x)) hl.1]
  simp [commonType, commonSc, ha, hb, this]

theorem implCastableL_length : ∀ as bs : List Ty, implCastableL as bs = true → as.length = bs.length
  | [], [], _ => rfl
  | a :: as, b :: bs, h => by
    simp only [implCastableL, Bool.and_eq_true] at h
    simp [implCastableL_length as bs h.2]
  | [], _ :: _, h | _ :: _, [], h => by simp [implCastableL] at h

theorem commonTypeL_length : ∀ as bs cs : List Ty, commonTypeL as bs = some cs →
    as.length = bs.length ∧ cs.length = as.length
  | [], [], cs, h => by simp only [commonTypeL] at h; cases h; exact ⟨rfl, rfl⟩
  | a :: as, b :: bs, cs, h => by
    simp only [commonTypeL] at h
    split at h
    · rename_i c cs' _ hcs'
      cases h
      have := commonTypeL_length as bs cs' hcs'
      simp [this.1, this.2]
    · cases h
  | [], _ :: _, _, h | _ :: _, [], _, h => by simp [commonTypeL] at h

/-- **Tuple arity is part of the type.**  A tuple is implicitly castable only to a tuple with the
    same number of elements, and two tuples have a common type only if they have the same number of
    elements — the common type then has that many too.  (`(1, 2) ?? (1, 2, 3)` is ill-typed.) -/
theorem tuple_arity (as bs : List Ty) :
    (implCastable (.tuple as) (.tuple bs) = true → as.length = bs.length) ∧
    (∀ c, commonType (.tuple as) (.tuple bs) = some c →
      ∃ cs, c = .tuple cs ∧ as.length = bs.length ∧ cs.length = as.length) := by
  constructor
  · intro h
    simp only [implCastable] at h
    exact implCastableL_length as bs h
  · intro c h
    simp only [commonType] at h
    split at h
    · rename_i he
      cases h
      have := Ty.beqL_eq as bs he
      subst this
      exact ⟨as, rfl, rfl, rfl⟩
    · simp only [Option.map_eq_some_iff] at h
      obtain ⟨cs, hcs, rfl⟩ := h
      exact ⟨cs, rfl, commonTypeL_length as bs cs hcs⟩

/-- The scalar algorithm iterates over Python `set`s of casts; `commonS` collects the results of
    ALL iteration orders.  On the generated table there is never a choice: no upper bound and no
    result, or exactly one result, the least upper bound. -/
theorem common_set_order_irrelevant (a b : Scalar) :
    (commonS a b = [] ∧ ∀ u, ¬ (castableS a u = true ∧ castableS b u = true)) ∨
    (∃ c, commonS a b = [c] ∧ castableS a c = true ∧ castableS b c = true ∧
      ∀ u, castableS a u = true → castableS b u = true → castableS c u = true) := by
  rcases commonS_spec a b with h | ⟨c, hc, hl⟩
  · exact Or.inl h
  · exact Or.inr ⟨c, hc, (lubB_iff a b c).1 hl⟩

/-- `commonType` is symmetric: UNION / `??` / IF-ELSE / set and array constructors do not type by
    the left operand. -/
theorem common_symmetric (a b : Ty) : commonType a b = commonType b a :=
  commonType_comm a b

/-- **castDist = shortest path.**  `get_implicit_cast_distance` is the shortest-path metric of the
    generated implicit-cast graph: 0 on the diagonal, 1 along a declared cast, the triangle
    inequality holds, a distance `d+1` is realised by a last cast from a type at distance `d`, and
    the recursion bound of the model is never the reason for an answer. -/
theorem castDist_shortest_path (a b : Scalar) :
    castDistS a a = some 0 ∧
    ((a, b) ∈ implicitEdges → a ≠ b → castDistS a b = some 1) ∧
    reach (scalarFuel + 1) a b = castDistS a b ∧
    (∀ d, castDistS a b = some (d + 1) → ∃ p ∈ preds b, castDistS a p = some d) ∧
    (∀ c d1 d2, castDistS a b = some d1 → castDistS b c = some d2 →
        ∃ d, castDistS a c = some d ∧ d ≤ d1 + d2) := by
  have h := distTable
  simp only [distTableOK, List.all_eq_true, Bool.and_eq_true] at h
  obtain ⟨h0, hb⟩ := h a (Scalar.mem_all a)
  obtain ⟨⟨⟨h1, h2⟩, h3⟩, h4⟩ := hb b (Scalar.mem_all b)
  refine ⟨by simpa using h0, ?_, by simpa using h2, ?_, ?_⟩
  · intro he hne
    have : implicitEdges.contains (a, b) = true := by simpa using he
    simp only [this, Bool.not_true, Bool.false_or, Bool.or_eq_true, beq_iff_eq] at h1
    rcases h1 with h1 | h1
    · exact absurd h1 hne
    · exact h1
  · intro d hd
    rw [hd] at h3
    simp only [List.any_eq_true, beq_iff_eq] at h3
    exact h3
  · intro c d1 d2 hd1 hd2
    have := h4 c (Scalar.mem_all c)
    rw [hd1, hd2] at this
    simp only at this
    split at this
    · rename_i d hd
      exact ⟨d, hd, by simpa using this⟩
    · cases this

/-! ### overload resolution is deterministic -/

/-- **resolve_det (selection).**  `find_callable` returns exactly the successfully bound
    overloads that are minimal for (total implicit-cast distance, then total distance to the common
    parent type). -/
theorem resolve_selects_minima (cands : List Callable) (args : List Ty) (b : Bound) :
    b ∈ findCallable cands args ↔
      b ∈ boundCands cands args ∧ ∀ b' ∈ boundCands cands args, Better b b' :=
  mem_findCallable cands args b

/-- **resolve_det.**  A function call resolves to `b` only if `b` strictly beats every other
    bound overload (never two winners), and the outcome — winner, no match, or the number of
    tied candidates — is the same for every order in which the schema enumerates the overloads:
    resolution is a function of the name and the argument types. -/
theorem resolve_det (f : Fn) (args : List Ty) :
    (∀ b, resolveFn f args = .ok b →
      b ∈ boundCands (overloads f) args ∧
      ∀ b' ∈ boundCands (overloads f) args, Better b b' ∧ (Better b' b → b' = b)) ∧
    (∀ cands', (overloads f).Perm cands' → resolveFn f args = pick (findCallable cands' args)) :=
  ⟨resolveFn_ok f args, resolveFn_order_independent f args⟩

/-- The ambiguity condition: more than one candidate survives only when two bound overloads tie
    on both distances. -/
theorem resolve_ambiguity (cands : List Callable) (args : List Ty) (x y : Bound) (r : List Bound)
    (h : findCallable cands args = x :: y :: r) :
    x ∈ boundCands cands args ∧ y ∈ boundCands cands args ∧ x.dist = y.dist ∧ x.tdist = y.tdist :=
  findCallable_ambiguous cands args x y r h

/-- Operators: `compile_operator` looks only at the FIRST tuple/array overload to decide whether
    the operator is "recursive"; on the generated table all of them agree, so this too is
    independent of the enumeration order. -/
theorem operator_recursive_flag_uniform (f : Fn) :
    sameRecursive ((operOverloads f).filter fun o => o.params.all fun p => pIsTuple p.2) = true ∧
    sameRecursive ((operOverloads f).filter fun o => o.params.all fun p => pIsArray p.2) = true := by
  have h := recursiveTable
  simp only [recursiveTableOK, List.all_eq_true, Bool.and_eq_true] at h
  exact h f (Fn.mem_all f)

/-! ### the numeric operator table -/

/-- **numeric_table.**  For every arithmetic operator and every pair of numeric scalar types:
    the type overload resolution reports is the type the typed evaluator's result carries
    (`promote`: convert both operands to their least common type, then to the nearest type the
    primitive is implemented on; the primitive decides the result type), the operation is
    rejected exactly when the evaluator has no carrier for it, and resolution is never ambiguous.
    Generated obligation (`decide +kernel` over `Gen.Types`). -/
theorem numeric_table (f : Fn) (hf : f ∈ arith) (a b : Scalar) (ha : a ∈ numeric) (hb : b ∈ numeric) :
    (∀ r, promote f a b = some r →
        ∃ bd, resolve f [.scalar (.base a), .scalar (.base b)] = .ok bd ∧ bd.ret = .scalar (.base r)) ∧
    (promote f a b = none → resolve f [.scalar (.base a), .scalar (.base b)] = .noMatch) := by
  have h := numericTable
  simp only [numericTableOK, List.all_eq_true, Bool.and_eq_true] at h
  have h1 := ((h f hf).2 a ha).2 b hb
  have h2 := h1.1
  unfold isScalarRet at h2
  constructor
  · intro r hr
    rw [hr] at h2
    split at h2
    · rename_i bd x hres hx
      cases hx
      exact ⟨bd, hres, (Ty.beq_iff _ _).1 h2⟩
    · rename_i hx; cases hx
    · cases h2
  · intro hn
    rw [hn] at h2
    split at h2
    · rename_i hx; cases hx
    · rename_i hres _; exact hres
    · cases h2

/-- Every arithmetic overload on numeric types declares what its primitive computes on that
    carrier: `T op T → arithResult op T` (e.g. `int64 / int64 → float64`, `bigint ^ bigint →
    decimal`), unary `± T → T`. -/
theorem arith_overloads_closed (f : Fn) (hf : f ∈ arith) (c : Callable) (hc : c ∈ operOverloads f) :
    arithOverloadOK f c = true := by
  have h := numericTable
  simp only [numericTableOK, List.all_eq_true, Bool.and_eq_true] at h
  exact (h f hf).1 c hc

/-- Comparison of two numeric types resolves (unambiguously, to `bool`) exactly when the two
    types have a common type. -/
theorem compare_table (f : Fn) (hf : f ∈ compare) (a b : Scalar) (ha : a ∈ numeric) (hb : b ∈ numeric) :
    (∃ bd, resolve f [.scalar (.base a), .scalar (.base b)] = .ok bd ∧ bd.ret = .scalar (.base .bool) ∧
        (commonScalar a b).isSome = true) ∨
    (resolve f [.scalar (.base a), .scalar (.base b)] = .noMatch ∧ commonScalar a b = none) := by
  have h := compareTable
  simp only [compareTableOK, List.all_eq_true, Bool.and_eq_true] at h
  have h1 := (h f hf a ha b hb).2
  split at h1
  · rename_i bd hres
    simp only [Bool.and_eq_true] at h1
    exact Or.inl ⟨bd, hres, (Ty.beq_iff _ _).1 h1.1, h1.2⟩
  · rename_i hres
    exact Or.inr ⟨hres, by simpa using h1⟩
  · cases h1

/-! ### soundness of the inferred type -/

/-- **C12_sound (partial).**  For every query `q` of the calculus — literals, typed empty sets,
    tuples, array literals, operator and function calls from the generated table (UNION, `??`,
    IF/ELSE, DISTINCT, IN, EXISTS, arithmetic, comparison, `++`, count/sum/min/max/len/array_agg/
    array_unpack/enumerate/…), casts, FOR, FILTER, object sets, paths, shapes — every database
    conforming to the schema and every value `v` the reference evaluator produces:
    `inferType q = some τ → hasType v τ`.

    FULL statement (DESIGN §4): the same without the hypothesis `inCalc`.
    What is missing: `inCalc sch [] q` asks, at every call node, that (1) the values the primitive of
    the selected overload produces have the declared return type (`primRet f ptys = some ret`) and
    (2) every argument type CONVERTS (`convertible`: value inclusion, derived-below-base) to the
    parameter type it is converted to.  Both
    are consequences of the signature table and of `bindCand`; they are PROVED here for arithmetic and
    comparison on numeric scalars (`call_in_calculus_numeric`) and CHECKED by the driver on every
    query the real compiler accepts in the differential run (a failure is reported as
    `corr:incalc`), but not proved for arbitrary argument types. -/
theorem C12_sound_partial (sch : Schema) (db : DB) (hdb : Conforms sch db) (q : Q) (τ : Ty)
    (hc : inCalc sch [] q = true) (wt : inferType sch [] q = some τ) :
    ∀ v ∈ eval sch db [] q, hasType v τ :=
  sound sch db hdb q [] [] τ rfl hc wt

/-- The same under binders: FOR bodies, FILTER conditions and shape elements are typed in the
    environment of their bound variables. -/
theorem C12_sound_open (sch : Schema) (db : DB) (hdb : Conforms sch db) (q : Q) (Γ : List Ty)
    (env : List Val) (τ : Ty) (he : EnvOK env Γ) (hc : inCalc sch Γ q = true)
    (wt : inferType sch Γ q = some τ) : ∀ v ∈ eval sch db env q, hasType v τ :=
  sound sch db hdb q Γ env τ he hc wt

/-- Shapes: for every object `o` the shape's subject evaluates to, the values of each computed
    element inhabit the element type reported in the output descriptor (`inferShape`). -/
theorem C12_shape (sch : Schema) (db : DB) (hdb : Conforms sch db) (q : Q) (els : List Q)
    (ts : List Ty) (hc : inCalc sch [] (.shape q els) = true)
    (wt : inferShape sch [] (.shape q els) = some ts) :
    ∀ o ∈ eval sch db [] q, BagsOK (evalL sch db [o] els) ts := by
  intro o ho
  simp only [inferShape] at wt
  simp only [inCalc, Bool.and_eq_true] at hc
  split at wt
  · rename_i t hq
    simp only [hq] at hc
    have hot := sound sch db hdb q [] [] (.obj t) rfl hc.1 hq o ho
    exact soundL sch db hdb els [.obj t] [o] ts (by simp [hasTypeL, hot]) hc.2 wt
  · cases wt

/-- Run-time tags are exact: a value inhabits exactly one type, the one `typeOf` reads off. -/
theorem hasType_unique (v : Val) (t : Ty) (h : hasType v t) : typeOf v = t :=
  typeOf_of_hasType v t h

/-- The side condition of `C12_sound_partial` holds for arithmetic and comparison operators applied
    to numeric scalar types (generated obligation). -/
theorem call_in_calculus_numeric (f : Fn) (hf : f ∈ arith ∨ f ∈ compare) (a b : Scalar)
    (ha : a ∈ numeric) (hb : b ∈ numeric) : callOK f [.scalar (.base a), .scalar (.base b)] = true := by
  rcases hf with hf | hf
  · have h := numericTable
    simp only [numericTableOK, List.all_eq_true, Bool.and_eq_true] at h
    exact (((h f hf).2 a ha).2 b hb).2
  · have h := compareTable
    simp only [compareTableOK, List.all_eq_true, Bool.and_eq_true] at h
    exact (h f hf a ha b hb).1

/-! ### Non-vacuity: concrete instances -/

instance : DecidableEq Ty := fun a b =>
  if h : Ty.beq a b = true then isTrue (Ty.beq_eq a b h)
  else isFalse fun e => h (e ▸ Ty.beq_refl a)

def exSchema : Schema :=
  [⟨[.scalar (.base .str), .scalar (.base .int16), .scalar (.base .float32), .obj 0]⟩]

def exDB : DB :=
  [⟨0, 1, [[.str "a"], [.num .int16 3 0], [.num .float32 1 1], [.obj 0 2]]⟩,
   ⟨0, 2, [[.str "b"], [.num .int16 (-2) 0], [], []]⟩]

/-- `for x in (select T) union (x.p1 + x.p2, {1, 2.5}, [x.p1, 10])` -/
def exQ : Q :=
  .for_ (.objs 0) (.tuple [
    .call .op_plus [.path (.var 0) 1, .path (.var 0) 2],
    .call .op_union [.lit (.int64 1), .lit (.float64 5 1)],
    .array [.path (.var 0) 1, .lit (.int64 10)]])

example : inferType exSchema [] exQ =
    some (.tuple [.scalar (.base .float32), .scalar (.base .float64), .array (.scalar (.base .int64))]) := by
  decide +kernel

example : inCalc exSchema [] exQ = true := by decide +kernel

example : (eval exSchema exDB [] exQ).length = 2 := by decide +kernel

example : Conforms exSchema exDB := by
  intro o ho p vs hp
  simp only [exDB, List.mem_cons, List.not_mem_nil, or_false] at ho
  rcases ho with rfl | rfl
  · match p, hp with
    | 0, hp => cases hp; exact ⟨_, rfl, by simp [hasType, hasTypeB]⟩
    | 1, hp => cases hp; exact ⟨_, rfl, by simp [hasType, hasTypeB]; decide⟩
    | 2, hp => cases hp; exact ⟨_, rfl, by simp [hasType, hasTypeB]; decide⟩
    | 3, hp => cases hp; exact ⟨_, rfl, by simp [hasType, hasTypeB]⟩
  · match p, hp with
    | 0, hp => cases hp; exact ⟨_, rfl, by simp [hasType, hasTypeB]⟩
    | 1, hp => cases hp; exact ⟨_, rfl, by simp [hasType, hasTypeB]; decide⟩
    | 2, hp => cases hp; exact ⟨_, rfl, by simp⟩
    | 3, hp => cases hp; exact ⟨_, rfl, by simp⟩

/-- least upper bounds that exist and one that does not -/
example : commonType (.tuple [.scalar (.base .int64), .scalar (.base .str)])
    (.tuple [.scalar (.base .float32), .scalar (.base .str)]) =
    some (.tuple [.scalar (.base .float64), .scalar (.base .str)]) := by decide +kernel
example : commonType (.scalar (.base .bigint)) (.scalar (.base .float64)) = none := by decide +kernel
example : commonType (.array (.scalar (.base .int16))) (.array (.scalar (.base .decimal))) =
    some (.array (.scalar (.base .decimal))) := by decide +kernel

/-- tuples of different arity have no common type, in every polymorphic context -/
def tup2 : Ty := .tuple [.scalar (.base .int64), .scalar (.base .int64)]
def tup3 : Ty := .tuple [.scalar (.base .int64), .scalar (.base .int64), .scalar (.base .int64)]
example : commonType tup2 tup3 = none := by decide +kernel
example : (resolve .op_coalesce [tup2, tup3]).ret? = none ∧ (resolve .op_union [tup2, tup3]).ret? = none ∧
    (resolve .op_if [tup2, .scalar (.base .bool), tup3]).ret? = none ∧
    (resolve .op_eq [tup2, tup3]).ret? = none ∧ (resolve .op_in [tup2, tup3]).ret? = none := by
  decide +kernel
example : inferType [] [] (.call .op_coalesce
    [.empty tup2, .tuple [.lit (.int64 1), .lit (.int64 2), .lit (.int64 3)]]) = none := by decide +kernel
example : inferType [] [] (.array [.empty tup2, .empty tup3]) = none := by decide +kernel

/-- user scalars: `myint extending int64`, `yourint extending int64`, `posint extending myint` -/
def myint : Ty := .scalar (.derived [1] .int64)
def yourint : Ty := .scalar (.derived [2] .int64)
def posint : Ty := .scalar (.derived [3, 1] .int64)

example : commonType myint (.scalar (.base .int64)) = some (.scalar (.base .int64)) := by decide +kernel
example : commonType myint yourint = some (.scalar (.base .int64)) := by decide +kernel
example : commonType posint myint = some (.scalar (.base .int64)) := by decide +kernel
example : commonType myint myint = some (.scalar (.base .int64)) := by decide +kernel
example : commonType (.array myint) (.array myint) = some (.array myint) := by decide +kernel
example : commonType myint (.scalar (.base .float64)) = some (.scalar (.base .float64)) := by
  decide +kernel
/-- `int64` is implicitly castable to `myint` (preorder) but does not convert to it -/
example : implCastable (.scalar (.base .int64)) myint = true ∧
    convertible (.scalar (.base .int64)) myint = false ∧
    convertible myint (.scalar (.base .int64)) = true := by decide +kernel
/-- `[<myint>1, 2] : array<int64>`; `{<myint>1, <myint>2} : myint` (the equality shortcut of
    overload resolution); `[<myint>1, <myint>2] : array<int64>` (no shortcut in `infer_common_type`) -/
example : inferType [] [] (.array [.cast myint (.lit (.int64 1)), .lit (.int64 2)]) =
    some (.array (.scalar (.base .int64))) := by decide +kernel
example : inferType [] [] (.call .op_union [.cast myint (.lit (.int64 1)), .cast myint (.lit (.int64 2))]) =
    some myint := by decide +kernel
example : inferType [] [] (.array [.cast myint (.lit (.int64 1)), .cast myint (.lit (.int64 2))]) =
    some (.array (.scalar (.base .int64))) := by decide +kernel

/-- `sum(int16)`: `sum(int32)` and `sum(float32)` tie on cast distance; the parent-type distance
    decides for `int32 → int64` -/
example : (resolve .fn_sum [.scalar (.base .int16)]).ret? = some (.scalar (.base .int64)) := by
  decide +kernel
/-- `int16 / int16` is `float32`, `int32 / int32` is `float64` -/
example : (resolve .op_div [.scalar (.base .int16), .scalar (.base .int16)]).ret? =
    some (.scalar (.base .float32)) := by decide +kernel
example : (resolve .op_div [.scalar (.base .int32), .scalar (.base .int32)]).ret? =
    some (.scalar (.base .float64)) := by decide +kernel
/-- no implicit cast joins `bigint` and `float64` -/
example : (resolve .op_plus [.scalar (.base .bigint), .scalar (.base .float64)]).ret? = none := by
  decide +kernel

end EdbVerif.C12
