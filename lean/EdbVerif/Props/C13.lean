/-
C13 — Generated SQL is well-scoped, parameter-consistent and deterministic.

This property is decided by TRANSLATION VALIDATION: the compiler
(`edb/pgsql/compiler/*`, ~15 kloc) is not modelled.  What is proved here is the
correctness of the validator and of the two small deterministic helpers:

* `check_sound` / `check_complete`: the executable scope checker `check` of
  `Model/PgAst.lean` accepts a statement exactly when it is `WellScoped`, the
  declarative statement of PostgreSQL's scoping rules in `Model/PgAstSpec.lean`
  (rules R1–R9 there: level-by-level lookup, LATERAL visibility, JOIN ON scope,
  alias uniqueness, WITH / WITH RECURSIVE, exported column names, set
  operations, DML targets and `excluded`).  The harness exports every SQL tree
  the real compiler emits and runs it through `check`.
* `argmap_*`: the numbering `populate_argmap` produces.
* `alias_fresh`: `AliasGenerator.get` never returns the same alias twice.

The specification itself (the rules as stated) is trusted: no PostgreSQL server
exists in the sandbox.  Hand-written accept/reject cases from the PostgreSQL
documentation are replayed against `check` on every run (harness/props/c13.py)
and a few are kept below as kernel-checked `example`s.
-/
import EdbVerif.Lemmas.PgScope
import EdbVerif.Lemmas.Argmap
import EdbVerif.Lemmas.ArgmapPg

namespace EdbVerif.C13
open EdbVerif.PgAst EdbVerif.Argmap

/-! ### The scope checker -/

/-- Soundness: whatever `check` accepts is well-scoped. -/
theorem check_sound (q : Query) (h : check q = true) : WellScoped q :=
  (PgAst.check_iff q).1 h

/-- Completeness: `check` rejects nothing that is well-scoped (so a rejection
    of an emitted statement is a real scoping violation under the stated rules). -/
theorem check_complete (q : Query) (h : WellScoped q) : check q = true :=
  (PgAst.check_iff q).2 h

/-- The same for a sub-query checked in an arbitrary environment. -/
theorem check_query_iff (env : Env) (q : Query) : checkQuery env q = true ↔ WSQuery env q :=
  PgAst.checkQuery_iff env q

/-- Name resolution is decided level by level exactly as the declarative
    relation says (R1). -/
theorem resolves_iff (levels : List Level) (parts : List Name) :
    resolves levels parts = true ↔ Resolves levels parts :=
  PgAst.resolves_iff levels parts

/-! ### populate_argmap -/

/-- The assignment sequence of `populate_argmap`: the processed parameters
    (ordinary ones first, `__edb_arg_*` extras second) numbered from (1, 1),
    then the globals from the next free physical index. -/
theorem argmap_shape (np : Bool) (params : List Param) (globals : List Global) :
    assigns np params globals =
      number (processed np params) 1 1
        ++ globalPass globals (1 + realCount (processed np params)) :=
  Argmap.assigns_eq np params globals

/-- Physical parameter indexes are exactly `1..n`, in order and without gaps:
    the non-tuple parameters take `1..R` in processing order, the globals (each
    followed directly by its `present__` companion, if any) take `R+1..R+G`. -/
theorem argmap_contig (np : Bool) (params : List Param) (globals : List Global) :
    let ps := processed np params
    ((ps.zip (number ps 1 1)).filter (fun x => !x.1.hasSub)).map (·.2.2.index)
        ++ (globalPass globals (1 + realCount ps)).map (·.2.index)
      = List.range' 1 (realCount ps + globalSlots globals) := by
  intro ps
  rw [Argmap.number_phys, Argmap.globalPass_index, ← List.range'_append_1]

/-- A tuple parameter does not consume an index: every parameter sits at
    `1 +` the number of non-tuple parameters before it (so a tuple parameter
    shares the index of the next physical slot, its first sub-parameter). -/
theorem argmap_index_closed (ps : List Param) (i : Nat) (h : i < (number ps 1 1).length) :
    ((number ps 1 1)[i]).2.index = 1 + realCount (ps.take i) :=
  Argmap.number_index_closed ps 1 1 i h

/-- Logical indexes skip sub-parameters: over the parameters that are not
    sub-parameters they are exactly `1..m` in order … -/
theorem argmap_logical (ps : List Param) :
    ((ps.zip (number ps 1 1)).filter (fun x => !isSubParam x.1.name)).map (·.2.2.logical)
      = (List.range' 1 (logicalCount ps)).map Int.ofNat :=
  Argmap.number_logical ps 1 1

/-- … every entry has logical index `1 +` the number of non-sub-parameters
    before it, and globals have logical index -1. -/
theorem argmap_logical_closed (ps : List Param) (i : Nat) (h : i < (number ps 1 1).length) :
    ((number ps 1 1)[i]).2.logical = ((1 + logicalCount (ps.take i) : Nat) : Int) :=
  Argmap.number_logical_closed ps 1 1 i h

theorem argmap_globals_logical (gs : List Global) (phys : Nat) :
    ∀ kv ∈ globalPass gs phys, kv.2.logical = -1 :=
  Argmap.globalPass_logical gs phys

/-- Keys are written in processing order; when they are pairwise distinct the
    resulting dict is the assignment sequence itself (no entry is overwritten,
    hence the numbering above is the numbering of the dict). -/
theorem argmap_dict (np : Bool) (params : List Param) (globals : List Global)
    (h : ((processed np params).map (·.name) ++ globalKeys globals).Nodup) :
    populateArgmap np params globals = assigns np params globals := by
  apply Argmap.populateArgmap_of_nodup
  rw [Argmap.assigns_eq, List.map_append, Argmap.number_keys, Argmap.globalPass_keys]
  exact h

/-! ### AliasGenerator -/

/-- Successive `AliasGenerator.get` results are pairwise distinct, from any
    generator state and for any hints — including hints that already end in
    `~digits`, contain `~`, are empty, or end in a newline: the alias is
    `key ++ "~" ++ decimal(counter[key])`, the decimal part contains no `~`, so
    the last `~` splits it uniquely and the per-key counter only grows. -/
theorem alias_fresh (cs : Counts) (hints : List (List Char)) : (aliasRun cs hints).Nodup :=
  Argmap.aliasRun_nodup hints cs

/-- An alias determines the (normalised hint, counter) pair it was built from. -/
theorem alias_inj {k k' : List Char} {n n' : Nat} (h : aliasOf k n = aliasOf k' n') :
    k = k' ∧ n = n' :=
  Argmap.aliasOf_inj h

/-- FINDING: freshness is FALSE of the generator the SQL compiler actually uses
    (`edb/pgsql/compiler/aliases.py`: `edgedb_name_to_pg_name(super().get(hint))`).
    An alias longer than `MAX_NAME_LENGTH` = 51 is replaced by
    `base64(md5(alias)) + ':' + alias[-28:]`, which still ends in `~1`; when that
    shortened alias is later used as a hint (the compiler does this:
    `env.aliases.get(rel.name)`), the suffix is stripped, the counter of the
    49-character key starts at 1, and the very same alias comes back.  Holds for
    every 22-character digest function and every hint longer than 51 characters
    without a `~digits` suffix.  The harness replays the witness `'x' * 60` on the
    real class (key `alias-collision-pg:witness`). -/
theorem alias_fresh_pg_counterexample (hash : List Char → List Char)
    (hlen : ∀ s, (hash s).length = 22) (h : List Char) (hlong : maxNameLength < h.length)
    (hkey : hintKey h = h) :
    ¬ (pgAliasRun hash [] [h, (pgAliasRun hash [] [h]).headD []]).Nodup := by
  rw [Argmap.pgAlias_collision hash hlen h hlong hkey]
  simp

/-- the hypotheses are satisfiable: the witness used by the harness -/
example : maxNameLength < (List.replicate 60 'x').length ∧
    hintKey (List.replicate 60 'x') = List.replicate 60 'x' := by decide

/-! ### Non-vacuity: concrete statements, and mutants that are rejected -/

/-- `SELECT q.y FROM s.t AS a, LATERAL (SELECT a.x AS y) AS q` -/
def exLateral (lateral : Bool) : Query :=
  .select [.mk none (.col ["q", "y"])]
    [.rel (some "s") "t" (some "a") [] none,
     .subq lateral (.select [.mk (some "y") (.col ["a", "x"])] [] [] [] []) "q" []] [] [] []

example : check (exLateral true) = true := by decide
/-- K: `include_rvar` dropping LATERAL — the same tree without the flag is rejected. -/
example : check (exLateral false) = false := by decide
example : WellScoped (exLateral true) := check_sound _ (by decide)
example : ¬ WellScoped (exLateral false) := fun h => by
  have := check_complete _ h
  revert this
  decide

/-- K: `get_path_var` returning a column of an rvar that is not in the FROM list. -/
example : check (.select [.mk none (.col ["b", "x"])] [.rel (some "s") "t" (some "a") [] none] [] [] [])
    = false := by decide

/-- a column that the sub-select does not export -/
example : check (.select [.mk none (.col ["q", "z"])]
    [.subq false (.select [.mk (some "y") .leaf] [] [] [] []) "q" []] [] [] []) = false := by decide

/-- `relctx.unpack_var`: `FROM p, ROWS FROM (unnest(p.arr) AS (_t0, _t1)) u1,
    ROWS FROM (unnest(ARRAY[_t1]) AS (_t2, _t3)) u2` — the inner unnest uses the column `_t1`
    that the outer one defines; `swap` puts the inner one first. -/
def exUnpack (swap : Bool) : Query :=
  let p := FromItem.subq false (.select [.mk (some "arr") .leaf] [] [] [] []) "p" []
  let u1 := FromItem.func false [.node [.col ["p", "arr"]]] "u1" (some ["_t0", "_t1"])
  let u2 := FromItem.func false [.node [.col ["_t1"]]] "u2" (some ["_t2", "_t3"])
  .select [.mk none (.col ["_t0"]), .mk none (.col ["_t3"])]
    (if swap then [p, u2, u1] else [p, u1, u2]) [] [] []

example : check (exUnpack false) = true := by decide
/-- K: `qry.from_clause.insert(0, …)` → `append(…)` in `unpack_var`: a function in FROM is implicitly
    LATERAL but sees PRECEDING items only. -/
example : check (exUnpack true) = false := by decide
example : ¬ WellScoped (exUnpack true) := fun h => by
  have := check_complete _ h
  revert this
  decide

/-- `WITH c1 AS (SELECT $1 AS v), c2 AS (SELECT k.v AS w FROM c1 AS k) SELECT c2.w FROM c2 LIMIT $2` -/
def exCtes (swap : Bool) : Query :=
  let c1 := Cte.mk "c1" [] (.select [.mk (some "v") (.param 1)] [] [] [] [])
  let c2 := Cte.mk "c2" [] (.select [.mk (some "w") (.col ["k", "v"])] [.cref "c1" (some "k") []] [] [] [])
  .withq false (if swap then [c2, c1] else [c1, c2])
    (.select [.mk none (.col ["c2", "w"])] [.cref "c2" none []] [] [] [.param 2])

example : check (exCtes false) = true := by decide
/-- K: CTE referenced before its definition. -/
example : check (exCtes true) = false := by decide
example : paramsQuery (exCtes false) = [1, 2] := by decide

/-- `INSERT INTO s.t AS a VALUES (…) ON CONFLICT (k) DO UPDATE SET v = excluded.v RETURNING a.k` -/
example : check (.insert (some "s") "t" (some "a") (some ["k", "v"]) (.values 1 [.leaf]) [.col ["k"]]
    [.col ["excluded", "v"]] [.mk none (.col ["a", "k"])]) = true := by decide
example : check (.insert (some "s") "t" (some "a") (some ["k", "v"]) (.values 1 [.leaf]) [] []
    [.mk none (.col ["excluded", "k"])]) = false := by decide
/-- a column the target table does not have (known catalog columns) -/
example : check (.insert (some "s") "t" (some "a") (some ["k", "v"]) (.values 1 [.leaf]) [] []
    [.mk none (.col ["a", "w"])]) = false := by decide

/-- argmap of `select (<optional str>$x, <tuple<…>>$z)` : x, z (tuple), two sub-parameters, one
    global with a `present__` companion -/
example :
    populateArgmap false
      [⟨"x".toList, false, false⟩, ⟨"z".toList, true, true⟩,
       ⟨"__edb_decoded_z_0__".toList, true, false⟩, ⟨"__edb_decoded_z_1__".toList, true, false⟩]
      [⟨"g".toList, false, true⟩]
    = [("x".toList, ⟨1, 1, false⟩), ("z".toList, ⟨2, 2, true⟩),
       ("__edb_decoded_z_0__".toList, ⟨2, 3, true⟩), ("__edb_decoded_z_1__".toList, ⟨3, 3, true⟩),
       ("g".toList, ⟨4, -1, false⟩), ("gpresent__".toList, ⟨5, -1, true⟩)] := by decide

/-- hints that already carry a `~digits` suffix, twice over -/
example : aliasRun [] ["a".toList, "a~1".toList, "a~1~2".toList, "a~1~1".toList, [], "v~7".toList]
    = ["a~1".toList, "a~2".toList, "a~1~1".toList, "a~1~2".toList, "v~1".toList, "v~2".toList] := by
  decide

end EdbVerif.C13
