/-
C02 — A computed migration turns the old schema into exactly the new one.

Two layers (see `Model/Schema.lean`):

* the planner `planObjs`, a line-by-line model of `edb/schema/delta.py::delta_objects`
  (tied to the real function by the level-1 differential run), for which the
  *partition* theorems hold for EVERY similarity function, tie-break, rename
  table, guidance and inheritance order;
* the flat schema algebra (`apply`, `diff`, `migrate`), an abstraction of
  `delta_schemas` + `linearize_delta` + `Command.apply`, for which
  `applyAll A (diff sim A B) = B` holds for every similarity function that is
  sound at 1.0 (`SimSound`: what `Object.compare` guarantees by construction).

Helper lemmas: `Lemmas/SchemaPlan` (planner), `SchemaApply`, `SchemaSched`
(scheduling theorem), `SchemaOrder` (uses the C20 theorems about `sort_ex`),
`SchemaRename`, `SchemaDiff`.
-/
import EdbVerif.Lemmas.SchemaDiff

namespace EdbVerif.C02
open EdbVerif.Schema

/-- **Planner completeness, new side.**  Whatever `compare` returns, every new
    object is exactly one of: created, the target of an alter, identical to an
    old object, or suppressed (creation banned by the guidance / its name is the
    target of a rename the context has already decided on). -/
theorem diff_partition_new (e : Env) (old new : List String) (p : Plan)
    (h : planObjs e old new = .ok p) (x : String) (hx : x ∈ new) :
    ExactlyOne4 (Created p x) (AlteredTo p x) (IdenticalNew p x) (SuppressedNew e old p x) :=
  partition_new h x hx

/-- **Planner completeness, old side.** -/
theorem diff_partition_old (e : Env) (old new : List String) (p : Plan)
    (h : planObjs e old new = .ok p) (y : String) (hy : y ∈ old) :
    ExactlyOne4 (Deleted p y) (AlteredFrom p y) (IdenticalOld p y) (SuppressedOld e old p y) :=
  partition_old h y hy

/-- The matching is injective both ways, only pairs that `delta_objects`
    compares are ever matched (same name, or new-only name with old-only name),
    and nothing is created or deleted twice. -/
theorem diff_matching (e : Env) (old new : List String) (p : Plan)
    (h : planObjs e old new = .ok p) :
    p.matchedX.Nodup ∧ p.matchedY.Nodup ∧ (∀ m ∈ p.matched, Candidate old new m.x m.y) ∧
    (new.Nodup → p.createdX.Nodup) ∧ (old.Nodup → p.deletedY.Nodup) :=
  ⟨(plan_matched_nodup h).1, (plan_matched_nodup h).2, plan_matched_candidate h,
   createdX_nodup h, deletedY_nodup h⟩

/-- Without guidance and pre-decided renames (the first pass of
    `delta_schemas`) nothing is suppressed: created / altered-to / identical
    is a partition of the new objects, deleted / altered-from / identical of
    the old ones. -/
theorem diff_partition (e : Env) (old new : List String) (p : Plan)
    (hg : e.guidance = none) (hr : e.renames = [])
    (h : planObjs e old new = .ok p) :
    (∀ x ∈ new, ExactlyOne3 (Created p x) (AlteredTo p x) (IdenticalNew p x)) ∧
    (∀ y ∈ old, ExactlyOne3 (Deleted p y) (AlteredFrom p y) (IdenticalOld p y)) := by
  have hsn : ∀ x, ¬ SuppressedNew e old p x := by
    rintro x ⟨_, h1 | h1⟩
    · simp [hg, canCreate] at h1
    · simp [hr, renamesX] at h1
  have hso : ∀ y, ¬ SuppressedOld e old p y := by
    rintro y ⟨_, h1 | h1⟩
    · simp [hg, canDelete] at h1
    · simp [hr, renamesY] at h1
  constructor
  · intro x hx
    have := partition_new h x hx
    unfold ExactlyOne4 at this
    unfold ExactlyOne3
    have := hsn x
    tauto
  · intro y hy
    have := partition_old h y hy
    unfold ExactlyOne4 at this
    unfold ExactlyOne3
    have := hso y
    tauto

/-- The thresholds: a pair is left alone only at similarity 1.0; without
    guidance and pre-decided rename it is altered only strictly between 0.6 and 1.0. -/
theorem diff_thresholds (e : Env) (old new : List String) (p : Plan)
    (h : planObjs e old new = .ok p) (m : Match) (hm : m ∈ p.matched) :
    (m.conf = none → effSim e m.x m.y = 1000) ∧
    (m.conf.isSome = true → e.guidance = none → m.x ∉ renamesX e.renames old →
        600 < e.sim m.y m.x ∧ e.sim m.y m.x < 1000) :=
  ⟨matched_none_sim h hm, matched_some_sim h hm⟩

/-- **C02.**  For valid schemas `A`, `B` and any similarity function that is
    sound at 1.0, a computed migration — whichever plan the matching picked —
    applies without error and ends in exactly `B`.  (`diff` fails rather than
    produce a wrong plan when the commands cannot be ordered or an untouched
    object refers to a dropped one; the statement is about accepted migrations,
    as the property is.) -/
theorem C02_apply_diff (sim : Sim) (A B : Schema) (hA : Valid A) (hB : Valid B) (hs : SimSound sim)
    (cmds : List Cmd) (h : diff sim A B = .ok cmds) :
    ∃ s, applyAll A cmds = .ok s ∧ Same s B :=
  apply_diff hA hB hs h

/-- The scheduling core of C02, usable on its own: ANY order of a correct set
    of create/alter/delete commands that respects `needs` works. -/
theorem C02_any_order (A' B : Schema) (cmds order : List Cmd) (hS : Sched A' B cmds)
    (hnd : cmds.Nodup) (hp : order.Perm cmds) (hdep : DepClosed A' cmds order) :
    ∃ s, applyAll A' order = .ok s ∧ Same s B :=
  sched_apply hS hnd hp hdep

/-
Not proved here (stays at level 2, see notes/C02.md):
  theorem C02_text : applyAll A (parseCmds (printCmds (diff sim A B))) = .ok B
needs the print/parse round-trip of C03, which is not part of this package;
the DDL-text replay is checked on the real engine by the differential run.
-/

/-! ### Non-vacuity -/

/-- similarity 1.0 iff equal after renames, 0.8 for the same name, 0.7 for the same payload -/
def exSim : Sim := fun ctx y x =>
  if renameObj ctx.renames y = x ∧ y.name = x.name then 1000
  else if y.name = x.name then 800 else if y.data = x.data then 700 else 300

theorem exSim_sound : SimSound exSim := by
  intro ctx y x _ h
  unfold exSim at h
  split at h
  · assumption
  · split at h
    · cases h
    · split at h <;> cases h

/-- class 1 = types, class 2 = pointers (referring to their source type) -/
def exA : Schema :=
  [⟨1, "Foo", 1, []⟩, ⟨2, "name", 5, [(1, "Foo")]⟩, ⟨1, "Old", 2, []⟩, ⟨2, "o", 1, [(1, "Old")]⟩]
def exB : Schema :=
  [⟨1, "Foo2", 1, []⟩, ⟨2, "name", 6, [(1, "Foo2")]⟩, ⟨2, "age", 7, [(1, "Foo2")]⟩]

example : Valid exA ∧ Valid exB :=
  ⟨⟨by decide, by decide⟩, ⟨by decide, by decide⟩⟩

/-- rename + create + alter + two ordered deletes -/
example : (diff exSim exA exB).toOption = some
    [.rename 1 "Foo" "Foo2", .delete 2 "o", .delete 1 "Old",
     .create ⟨2, "age", 7, [(1, "Foo2")]⟩, .alter 2 "name" 6 [(1, "Foo2")]] := by decide

example : (migrate exSim exA exB).toOption = some exB := by decide

/-- the planner on a tie: `b` and `c` both at 0.7 against `d` — the name order decides -/
example : (planObjs { sim := fun y x => if y = "a" ∧ x = "a" then 1000 else 700 } ["a", "b", "c"] ["a", "d"]).toOption
    = some { creates := [], matched := [⟨"a", "a", none⟩, ⟨"d", "b", some 700⟩], deletes := [("c", 700)] } := by
  decide

end EdbVerif.C02
