/-
C15 — the connection pool never oversubscribes or double-lends the backend.

Theorems about `EdbVerif.Pool`, the model of `edb/server/connpool/pool.py`
(`Model/Pool.lean`): a transition is one atomic section of the real code, and
every float/clock-derived decision is a parameter `env : Env` of the transition
(so "for all `env`" covers every quota vector, every timing).  `run` folds a
list of `(env, event)` pairs.  Nothing is assumed about the events: an event
that is not enabled (unknown task id, release by a non-holder, …) leaves the
counters alone and sets the `err` ghost field, exactly where the real code
would raise.

Reading guide (`Model/PoolSpec.lean`):
* `usage s`        = Σ_blocks (|conns| + pending_conns) + #disconnects in flight that are
                     not part of a transfer;
* `discByHolder s` = connections handed back with `release(discard=True)` whose
                     `_discard_conn` has not finished: the property's "counts as closed".
-/
import EdbVerif.Lemmas.PoolPrune

namespace EdbVerif.C15
open EdbVerif.Pool

/-- The invariant holds initially, for every capacity. -/
theorem inv_init (max : Nat) : InvNum (init max) := init_inv max

/-- Every transition preserves it, for every environment choice. -/
theorem inv_step (s : State) (env : Env) (e : Ev) (h : InvNum s) : InvNum (step s env e) :=
  step_inv h env e

/-- C15 (numeric part) for all histories, all capacities, any number of databases. -/
theorem inv_run (max : Nat) (evs : List (Env × Ev)) : InvNum (run (init max) evs) :=
  run_inv evs _ (init_inv max)

/-- Reported usage is the true usage: `current_capacity` equals what the blocks
    and the disconnects in flight add up to.  (Before the repair 6ff8693 of `_transfer`
    this only held up to a `phantom` term, see notes/C16.md.) -/
theorem usage_exact (max : Nat) (evs : List (Env × Ev)) :
    (run (init max) evs).cur = usage (run (init max) evs) :=
  (inv_run max evs).acc

/-- Never above the maximum, not counting connections their holder handed back as broken. -/
theorem capacity (max : Nat) (evs : List (Env × Ev)) :
    (run (init max) evs).cur ≤ (run (init max) evs).max + discByHolder (run (init max) evs) :=
  (inv_run max evs).cap

/-! ### Ownership

`InvOwn` (`Model/PoolSpec.lean`) is proved for histories without
`prune_inactive_connections` / `prune_all_connections` events (`Prims.NoPruneEv`): those two
hold connections in a task-local list / drop lent connections on purpose (HA failover); the
numeric invariant above covers them, the per-step oracle of the harness checks ownership on
the real pool for them. -/

/-- `InvNum ∧ InvQ ∧ InvOwn` is preserved by every transition other than the two pruning
    entry points, for every environment choice … -/
theorem own_step (s : State) (env : Env) (e : Ev) (h : (InvNum s ∧ InvQ s) ∧ InvOwn s)
    (he : Prims.NoPruneEv e) : (InvNum (step s env e) ∧ InvQ (step s env e)) ∧ InvOwn (step s env e) :=
  stepO h env e he

/-- … hence holds along every such history, for every capacity and any number of databases. -/
theorem own_run (max : Nat) (evs : List (Env × Ev)) (hev : ∀ x ∈ evs, Prims.NoPruneEv x.2) :
    InvOwn (run (init max) evs) :=
  (runO max evs hev).2

/-- A connection is lent to at most one request at a time. -/
theorem no_double_lend (max : Nat) (evs : List (Env × Ev)) (hev : ∀ x ∈ evs, Prims.NoPruneEv x.2) :
    ((run (init max) evs).holders.map (·.conn)).Nodup :=
  (own_run max evs hev).single

/-- A lent connection is a connection of the block of the database it was requested for, and
    is marked in use there. -/
theorem lent_belongs (max : Nat) (evs : List (Env × Ev)) (hev : ∀ x ∈ evs, Prims.NoPruneEv x.2) :
    ∀ h ∈ (run (init max) evs).holders,
      ∃ b ∈ (run (init max) evs).blocks, b.name = h.name ∧ (h.conn, true) ∈ b.conns :=
  (own_run max evs hev).held

/-- An idle connection (on a stack) is a connection of that block, is not marked in use and
    is lent to nobody; no connection is twice on a stack. -/
theorem idle_is_free (max : Nat) (evs : List (Env × Ev)) (hev : ∀ x ∈ evs, Prims.NoPruneEv x.2) :
    ∀ b ∈ (run (init max) evs).blocks, b.stack.Nodup ∧ ∀ c ∈ b.stack,
      (c, false) ∈ b.conns ∧ ∀ h ∈ (run (init max) evs).holders, h.conn ≠ c := by
  intro b hb
  have h := runO max evs hev
  exact ⟨h.2.stackNd b hb, fun c hc =>
    ⟨h.2.stackIdle b hb c hc, idle_not_lent h.1.1.toWF h.2 hb hc⟩⟩

/-- A connection belongs to one block, and `conn_acquired_num` is the number of connections
    lent from the block. -/
theorem block_counters (max : Nat) (evs : List (Env × Ev)) (hev : ∀ x ∈ evs, Prims.NoPruneEv x.2) :
    (∀ b1 ∈ (run (init max) evs).blocks, ∀ b2 ∈ (run (init max) evs).blocks, ∀ c,
        c ∈ b1.ids → c ∈ b2.ids → b1.uid = b2.uid) ∧
    ∀ b ∈ (run (init max) evs).blocks,
      b.acquired = (((run (init max) evs).holders.filter (·.name == b.name)).length : Int) :=
  ⟨(own_run max evs hev).disj, (own_run max evs hev).acq⟩

/-! ### What the pruning entry points break (decide-checked witnesses)

`InvNum` holds through both (`inv_step`).  The waiter invariant holds through
`prune_all_connections` (Props/C16).  Ownership does not: -/

/-- `prune_all_connections` (HA failover) drops LENT connections from `conns` on purpose:
    after `acquire; pall` the conjunct `InvOwn.held` ("a lent connection is in its block,
    marked in use") is false — and `conn_acquired_num` stays 1 with nothing lent from the block. -/
theorem own_breaks_after_prune_all : ¬ InvOwn (run (init 1) pallRun) := own_breaks_after_pall

/-- `prune_inactive_connections`: while the task is suspended it holds the connections it took
    off the stack (`NoLeak` accounts for them); when it is aborted (connect retries exhausted
    while it waits in `try_acquire`) they are orphaned: `NoLeak` — "every connection that is not
    lent is idle, scheduled for discard, or in a prune task's hands" — fails, with `err = none`
    (every event enabled) and no prune task left.  None of the conjuncts of `InvOwn` fails there
    (`checkOwn = []`): the orphan is in its block, not in use, not idle, not lent — forever.
    (Finding `orphaned-by-dead-prune-task`; replayed on the real pool: corpus/C16/leak-7-*.) -/
theorem no_leak_breaks_after_aborted_prune :
    (¬ NoLeak (run (init 2) leakRun) ∧ (run (init 2) leakRun).err = none ∧
      (run (init 2) leakRun).prunes = [] ∧ checkOwn (run (init 2) leakRun) = []) ∧
    NoLeak (run (init 2) leakRun.dropLast) :=
  ⟨leak_after_aborted_prune, no_leak_before_abort⟩

/-! ### Non-vacuity: a concrete run that exercises transfer, discard and failure -/

/-- two databases, capacity 1: acquire on 0, connect, lend, second database
    waits, release → transfer (disconnect + connect), lend. -/
def exRun : List (Env × Ev) :=
  [({}, .acq 0 0), ({}, .start 0), ({}, .cdone 0 true false), ({}, .resume 0),
   ({}, .acq 1 1), ({ avgNZ := [0, 1] }, .tick), ({}, .rel 0 false),
   ({}, .start 1), ({}, .ddone 1 true), ({}, .cdone 1 true false), ({}, .resume 1)]

example : (run (init 1) exRun).holders = [⟨1, 1, 1⟩] ∧ (run (init 1) exRun).cur = 1 ∧
    (run (init 1) exRun).err = none := by decide

example : InvOwn (run (init 1) exRun) := own_run 1 exRun (Prims.noPrune_all (by decide))

end EdbVerif.C15
