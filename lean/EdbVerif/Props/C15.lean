/-
C15 — the connection pool never oversubscribes or double-lends the backend.

Theorems about `EdbVerif.Pool`, the model of `edb/server/connpool/pool.py`
(`Model/Pool.lean`): a transition is one atomic section of the real code, and
every float/clock-derived decision is a parameter `env : Env` of the transition
(so "for all `env`" covers every quota vector, every timing).  `run` folds a
list of `(env, event)` pairs.  Nothing is assumed about the events: an event
that is not enabled (unknown task id, release by a non-holder, …) leaves the
counters alone and sets the `err` ghost field, exactly where the real code
would raise.

Reading guide (`Model/PoolSpec.lean`):
* `usage s`        = Σ_blocks (|conns| + pending_conns) + #disconnects in flight that are
                     not part of a transfer;
* `discByHolder s` = connections handed back with `release(discard=True)` whose
                     `_discard_conn` has not finished: the property's "counts as closed".
-/
import EdbVerif.Lemmas.PoolTrans3

namespace EdbVerif.C15
open EdbVerif.Pool

/-- The invariant holds initially, for every capacity. -/
theorem inv_init (max : Nat) : InvNum (init max) := init_inv max

/-- Every transition preserves it, for every environment choice. -/
theorem inv_step (s : State) (env : Env) (e : Ev) (h : InvNum s) : InvNum (step s env e) :=
  step_inv h env e

/-- C15 (numeric part) for all histories, all capacities, any number of databases. -/
theorem inv_run (max : Nat) (evs : List (Env × Ev)) : InvNum (run (init max) evs) :=
  run_inv evs _ (init_inv max)

/-- Reported usage is the true usage: `current_capacity` equals what the blocks
    and the disconnects in flight add up to.  (Before the repair 6ff8693 of `_transfer`
    this only held up to a `phantom` term, see notes/C16.md.) -/
theorem usage_exact (max : Nat) (evs : List (Env × Ev)) :
    (run (init max) evs).cur = usage (run (init max) evs) :=
  (inv_run max evs).acc

/-- Never above the maximum, not counting connections their holder handed back as broken. -/
theorem capacity (max : Nat) (evs : List (Env × Ev)) :
    (run (init max) evs).cur ≤ (run (init max) evs).max + discByHolder (run (init max) evs) :=
  (inv_run max evs).cap

/-! ### Non-vacuity: a concrete run that exercises transfer, discard and failure -/

/-- two databases, capacity 1: acquire on 0, connect, lend, second database
    waits, release → transfer (disconnect + connect), lend. -/
def exRun : List (Env × Ev) :=
  [({}, .acq 0 0), ({}, .start 0), ({}, .cdone 0 true false), ({}, .resume 0),
   ({}, .acq 1 1), ({ avgNZ := [0, 1] }, .tick), ({}, .rel 0 false),
   ({}, .start 1), ({}, .ddone 1 true), ({}, .cdone 1 true false), ({}, .resume 1)]

example : (run (init 1) exRun).holders = [⟨1, 1, 1⟩] ∧ (run (init 1) exRun).cur = 1 ∧
    (run (init 1) exRun).err = none := by decide

end EdbVerif.C15
