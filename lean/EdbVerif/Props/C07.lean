/-
C07 — Access policies guard every read path.

Property theorems about `EdbVerif.Policy`, the model of
`edb/edgeql/compiler/policies.py` (`get_rewrite_filter`, `has_own_policies`,
`try_type_rewrite`) and of the way `range_for_material_objtype` reads a
`(type, skip_subtypes)` key (through its rewrite when it has one).  Only
statements, non-vacuity examples and concrete witnesses live here; proofs are in
`EdbVerif/Lemmas/Policy*.lean`.

Reading guide.  `WF sch` lists the invariants of the stored schema data the
real functions read (topological listing = the inheritance graph is a DAG,
stored ancestors = closure of bases, inherited policies).  `holds c o` is the
truth of the opaque policy condition `c` on object `o`.  `visible` is the
decision taken from the policies *of the object's own concrete type*.
`selectType sch holds db t` is what `select T` yields: the key `(t, false)` read
through the `type_rewrites` entries `try_type_rewrite` builds.

What is a theorem and what is not: these theorems are about *plans* (the
`type_rewrites` map and how keys are read).  That every relation in the SQL the
compiler emits for a query is read through its key's rewrite is audited per
generated query by `harness/props/c07.py`, not proved.  Likewise the compilation
context of policy bodies (`suppress_rewrites`, the per-security-context caches of
schema aliases and computed globals) is not modelled: "a view compiled inside a
policy body is never reused by the statement proper" is an audit rule on the real
IR/SQL, not a theorem.
-/
import EdbVerif.Lemmas.PolicyExact
import EdbVerif.Lemmas.PolicyCond

namespace EdbVerif.C07
open EdbVerif.Policy

/-- **C07_decision.**  An object is visible iff its concrete type has no policy
    at all, or some select-kind `allow` policy of its type holds for it and no
    select-kind `deny` policy of its type does. -/
theorem C07_decision (sch : Schema) (holds : CondId → Obj → Bool) (o : Obj) :
    visible sch holds o = true ↔
      polsOf sch o.ty = [] ∨
      ((∃ p ∈ polsOf sch o.ty, Kind.select ∈ p.kinds ∧ p.allow = true ∧ holds p.cond o = true) ∧
       ¬ ∃ p ∈ polsOf sch o.ty, Kind.select ∈ p.kinds ∧ p.allow = false ∧ holds p.cond o = true) := by
  show ((polsOf sch o.ty).isEmpty || decision .select (polsOf sch o.ty) (fun c => holds c o)) = true ↔ _
  rw [Bool.or_eq_true, decision_iff, List.isEmpty_iff]

/-- **C07_filter.**  The formula `get_rewrite_filter` builds — (OR of the allow
    conditions, `false` when there is none) AND NOT (OR of the deny conditions),
    `OR` the never-true anti-optimisation term for `select` — denotes exactly the
    decision, for every access kind; and there is a filter iff the type has a
    policy of any kind (so a type with only non-select policies reads as empty). -/
theorem C07_filter (mode : Kind) (pols : List Pol) (ρ : CondId → Bool) :
    (rewriteFilter mode pols = none ↔ pols = []) ∧
    ∀ f, rewriteFilter mode pols = some f → denote ρ f = decision mode pols ρ :=
  ⟨rewriteFilter_none_iff mode pols, fun f h => denote_rewriteFilter mode pols f h ρ⟩

/-- **C07_plan_nobypass.**  On every inheritance DAG, for every placement and
    kind of policies, every key and every fuel: whatever reading the key through
    the rewrite plan yields is an object of the database, of the key's type (or a
    subtype, for a non-skip key), that the policies of *its own concrete type*
    make visible.  No read path through the plan bypasses a policy — in
    particular not the policy of a descendant reached through an ancestor, a
    diamond or an abstract type. -/
theorem C07_plan_nobypass (sch : Schema) (wf : WF sch) (holds : CondId → Obj → Bool) (db : DB)
    (fuel : Nat) (k : Key) (o : Obj) (h : o ∈ evalKey sch holds db fuel k) :
    o ∈ db ∧ inScope sch k o = true ∧ visible sch holds o = true :=
  evalKey_sound wf holds db fuel k o h

/-- `select T` never shows a hidden object. -/
theorem C07_select_nobypass (sch : Schema) (wf : WF sch) (holds : CondId → Obj → Bool) (db : DB)
    (t : TypeId) (o : Obj) (h : o ∈ selectType sch holds db t) :
    o ∈ db ∧ inScope sch ⟨t, false⟩ o = true ∧ visible sch holds o = true :=
  evalKey_sound wf holds db _ _ o h

/-- The scope of a non-skip key (computed from the stored ancestors) is exactly
    spec-level subtyping (`Sub`: reflexive–transitive closure of declared bases),
    so "`inScope ⟨t,false⟩ o`" above reads "`type o ≤ t`". -/
theorem C07_scope_is_subtyping (sch : Schema) (wf : WF sch) (t : TypeId) (o : Obj) :
    inScope sch ⟨t, false⟩ o = true ↔ Sub sch o.ty t :=
  inScope_iff_sub wf t o

/-- **C07_registration_independent_of_conditions.**  What `try_type_rewrite`
    registers for a key — nothing, a filter, or a union and over which keys —
    does not depend on what the policy conditions *are*: replacing every
    condition (`mapCondS f`: any renaming of the opaque conditions, e.g. adding a
    `typeof` conjunct to an expression) changes only the leaves of the filter
    formula.  In particular a key has a rewrite before iff it has one after.

    Scope: in the model a condition is an opaque id, so this says that the
    *algorithm* never looks at conditions.  The two `typeof` defects fixed by
    6c16588 lived below this level (the compiler's `type_rewrites` dict was
    rebound while a policy body was being compiled); "compiling a condition has
    no side effect on the registry" is guarded by the harness oracles
    `plan:rewrite-lost`, `corpus:typeof-*` and the SQL audit, not by this theorem. -/
theorem C07_registration_independent_of_conditions (f : CondId → CondId) (sch : Schema) (k : Key) :
    entry (mapCondS f sch) k = (entry sch k).mapCond f ∧
    (entry (mapCondS f sch) k = .none ↔ entry sch k = .none) :=
  ⟨entry_mapCondS f sch k, entry_registered_iff f sch k⟩

/-- **C07_terminates.**  The two recursions (`has_own_policies` over children,
    and key references through union entries) are bounded by the number of
    types on every DAG: any fuel ≥ `#types` (resp. `#types + 1`) gives the same
    answer, so the fuel used by the model never decides anything. -/
theorem C07_terminates (sch : Schema) (wf : WF sch) :
    (∀ fuel c s, sch.length ≤ fuel → hasOwn sch fuel c s = hasOwn sch sch.length c s) ∧
    (∀ holds db fuel k, sch.length + 1 ≤ fuel →
        evalKey sch holds db fuel k = evalKey sch holds db (sch.length + 1) k) :=
  ⟨fun fuel c s h => hasOwn_stable wf fuel sch.length c s (by omega) (by omega),
   fun holds db fuel k h =>
     evalKey_stable wf holds db fuel (sch.length + 1) k
       (Nat.le_trans (need_le sch k) h) (need_le sch k)⟩

/-- **C07_plan_partial** (exact coverage, no duplicates — on forests).  If below
    `t` the hierarchy is a forest (`TreeBelow`: two children of a type never share
    a type below them — no diamonds or redundant bases below `t`, view types
    included; then the overlap branch of `try_type_rewrite` is never taken), then
    `select t` yields,
    as a bag, exactly the objects of the database whose concrete type is `t` or
    a subtype and that are visible: nothing hidden, nothing missing, nothing
    twice.  Policies may sit anywhere (on `t`, above it, below it), abstract
    types anywhere.

    The full statement wanted by the design —
    `∀ sch t, WF sch → WFDB sch db → selectType … t ~ db.filter (inScope ⟨t,false⟩ ∧ visible)`
    for *every* DAG — is FALSE of the code that exists: see the two
    counterexample theorems below (children with own policies that overlap:
    direct children are dropped; a redundant base: duplicates).  What holds on
    every DAG is `C07_plan_nobypass`. -/
theorem C07_plan_partial (sch : Schema) (wf : WF sch) (holds : CondId → Obj → Bool) (db : DB)
    (hdb : WFDB sch db) (t : TypeId) (htree : TreeBelow sch t) :
    (selectType sch holds db t).Perm
      (db.filter (fun o => inScope sch ⟨t, false⟩ o && visible sch holds o)) :=
  selectType_perm wf holds db hdb t htree

/-! ### Concrete hierarchies (non-vacuity and witnesses)

`p0 = allow select when c0`, `p1 = deny select when c1`. -/

def p0 : Pol := { name := 0, allow := true, kinds := [.select], cond := 0 }
def p1 : Pol := { name := 1, allow := false, kinds := [.select], cond := 1 }

/-- diamond `0 ← 1, 2 ← 3`; `p0` declared on 0, `p1` on 3 -/
def diamond : Schema :=
  [ { id := 0, bases := [], ancestors := [], abstract := false, material := true,
      pols := [⟨p0, []⟩] },
    { id := 1, bases := [0], ancestors := [0], abstract := false, material := true,
      pols := [⟨p0, [0]⟩] },
    { id := 2, bases := [0], ancestors := [0], abstract := false, material := true,
      pols := [⟨p0, [0]⟩] },
    { id := 3, bases := [2, 1], ancestors := [2, 1, 0], abstract := false, material := true,
      pols := [⟨p0, [2, 1]⟩, ⟨p1, []⟩] } ]

/-- one object per type; `c0` holds for all of them, `c1` for none -/
def diamondDB : DB := [⟨10, 0⟩, ⟨11, 1⟩, ⟨12, 2⟩, ⟨13, 3⟩]
def holdsC0 : CondId → Obj → Bool := fun c _ => c == 0

example : WF diamond := by decide
example : WFDB diamond diamondDB := by
  intro o ho
  simp only [diamondDB, List.mem_cons, List.not_mem_nil, or_false] at ho
  rcases ho with rfl | rfl | rfl | rfl <;> decide

/-- the entries the real compiler builds for this schema (see `harness/props/c07.py`,
    witness `w-diamond`) -/
example : entry diamond ⟨0, false⟩ = .union [⟨0, true⟩, ⟨3, true⟩] := by decide
example : entry diamond ⟨1, false⟩ = .union [⟨1, true⟩, ⟨3, false⟩] := by decide
example : entry diamond ⟨3, false⟩
    = .filter (.or (.and (.cond 0) (.not (.cond 1))) .bogus) := by decide

/-- **Counterexample to exact coverage (overlap branch).**  When children with
    own policies overlap, `try_type_rewrite` lists `descs` — the descendants *of
    the children* — and the children themselves are lost: all four objects are
    visible, `select 0` yields only two of them.  (No bypass, but objects of the
    direct children silently disappear.)  Replayed on the real compiler by the
    harness (key `plan:missing:overlap-drops-children`). -/
theorem C07_plan_exact_counterexample_overlap :
    WF diamond ∧ WFDB diamond diamondDB ∧
    (∀ o ∈ diamondDB, inScope diamond ⟨0, false⟩ o = true ∧ visible diamond holdsC0 o = true) ∧
    selectType diamond holdsC0 diamondDB 0 = [⟨10, 0⟩, ⟨13, 3⟩] := by
  refine ⟨by decide, ?_, by decide, by decide⟩
  intro o ho
  simp only [diamondDB, List.mem_cons, List.not_mem_nil, or_false] at ho
  rcases ho with rfl | rfl | rfl | rfl <;> decide

/-- `0 ← 1 ← 2` with the redundant base `2 ← 0`; `p0` on 0, `p1` on 2 -/
def redundant : Schema :=
  [ { id := 0, bases := [], ancestors := [], abstract := false, material := true,
      pols := [⟨p0, []⟩] },
    { id := 1, bases := [0], ancestors := [0], abstract := false, material := true,
      pols := [⟨p0, [0]⟩] },
    { id := 2, bases := [1, 0], ancestors := [1, 0], abstract := false, material := true,
      pols := [⟨p0, [1, 0]⟩, ⟨p1, []⟩] } ]

/-- **Counterexample to "no duplicates" (redundant base).**  The overlap test
    only compares the *strict* descendants of the children, so a child that is
    also a descendant of another child is unioned twice: `select 0` yields the
    object of type 2 twice.  Replayed on the real compiler by the harness (key
    `plan:dup:redundant-base-duplicates`). -/
theorem C07_plan_exact_counterexample_redundant_base :
    WF redundant ∧
    selectType redundant holdsC0 [⟨10, 0⟩, ⟨11, 1⟩, ⟨12, 2⟩] 0 = [⟨10, 0⟩, ⟨11, 1⟩, ⟨12, 2⟩, ⟨12, 2⟩] := by
  refine ⟨by decide, by decide⟩

/-- a tree `0 ← 1 ← 3`, `0 ← 2` (1 abstract) with `p0` on 0, `p1` on 1: the hypotheses
    of `C07_plan_partial` are satisfiable with a union entry at the root -/
def tree : Schema :=
  [ { id := 0, bases := [], ancestors := [], abstract := false, material := true,
      pols := [⟨p0, []⟩] },
    { id := 1, bases := [0], ancestors := [0], abstract := true, material := true,
      pols := [⟨p0, [0]⟩, ⟨p1, []⟩] },
    { id := 2, bases := [0], ancestors := [0], abstract := false, material := true,
      pols := [⟨p0, [0]⟩] },
    { id := 3, bases := [1], ancestors := [1, 0], abstract := false, material := true,
      pols := [⟨p0, [1]⟩, ⟨p1, [1]⟩] } ]

example : WF tree ∧ TreeBelow tree 0 ∧ entry tree ⟨0, false⟩ = .union [⟨0, true⟩, ⟨1, false⟩, ⟨2, false⟩]
    ∧ entry tree ⟨1, false⟩ = .filter (.or (.and (.cond 0) (.not (.cond 1))) .bogus) :=
  ⟨by decide, (regular_of_check (by decide)).tree, by decide, by decide⟩

/-- non-vacuity of `C07_plan_nobypass`: with `c1` true for object 13 the deny
    policy of the diamond's bottom type hides it on every path -/
example : selectType diamond (fun c o => c == 0 || (c == 1 && o.id == 13)) diamondDB 1 = [⟨11, 1⟩] := by decide
example : selectType diamond (fun c o => c == 0 || (c == 1 && o.id == 13)) diamondDB 3 = [] := by decide

end EdbVerif.C07
