/-
C05 — Backend tables and columns track the schema through every migration.

The machine (`EdbVerif/Model/Storage.lean`): a schema abstraction (object types,
links / properties with the attributes the storage layout depends on, link
properties), `layout : Schema → Catalog` = the tables and columns the query
compiler addresses (transcribed from `pgsql/types.py::get_pointer_storage_info`,
`has_table`; names are id-based), `emit` = the `CreateTable / DropTable /
AddColumn / DropColumn` operations `pgsql/delta.py` produces for one elementary
schema change, `exec` = the backend (fails where PostgreSQL would), `stepDDL`,
`run`.

Reading guide.  `run {} h = .ok st` says the history `h` was accepted by the
schema layer and executed by the backend, starting from the empty database.
`safeRun {} h` is the explicit guard: it excludes exactly four kinds of step on
which the REAL code breaks the property (each has a `…_counterexample` below,
and is replayed on the real code by the harness):
  * renaming a pointer to/from a name starting with `__` (the column key changes,
    no column rename is emitted);
  * giving a stored property an expression of a different cardinality
    (`_delete_property` reads the storage info of the new schema);
  * `RESET EXPRESSION` on a link that has stored link properties (the link table
    is re-created without their columns);
  * a user link property NAMED `source` / `target` (accepted only on an abstract link
    without concrete descendants): `_create_property` / `get_pointer_storage_info`
    special-case the name, not the identity.
Properties and links named `source` / `target` on OBJECT TYPES are ordinary pointers
(`PName.plain`, column named by id): the implicit endpoints exist only on links.
`Catalog.Equiv` is "same tables, same columns".
-/
import EdbVerif.Lemmas.StorageDrop2

namespace EdbVerif.C05
open EdbVerif.Storage

/-- **C05.** After every accepted (guarded) history the storage that was created
    and not dropped is exactly the layout of the current schema. -/
theorem C05_tracks (h : List DDL) (st : State) (hrun : run {} h = .ok st)
    (hsafe : safeRun {} h = true) : st.catalog.Equiv (layout st.schema) :=
  ((run_inv h {} inv_init hsafe).1 st hrun).2

/-- No emitted operation of a guarded history fails on the backend (no `DROP` of
    something missing, no `CREATE` / `ADD COLUMN` of something existing, no
    `ADD COLUMN` to a missing table): a history stops only by a schema-level rejection. -/
theorem C05_no_backend_error (h : List DDL) (hsafe : safeRun {} h = true) :
    run {} h ≠ .error .backend :=
  (run_inv h {} inv_init hsafe).2

/-- The inductive step, from ANY state that satisfies the invariant (not only
    states reached from the empty database). -/
theorem C05_step (st st' : State) (d : DDL) (hinv : Inv st) (hsafe : safeStep st.schema d = true)
    (h : stepDDL st d = .ok st') : Inv st' :=
  stepDDL_inv hinv hsafe h

/-- Well-formedness (unique ids, one pointer per name and source, existing
    sources) is itself maintained: the guards on identities are never the
    reason a later step is excluded. -/
theorem C05_wf (h : List DDL) (st : State) (hrun : run {} h = .ok st)
    (hsafe : safeRun {} h = true) : WF st.schema :=
  ((run_inv h {} inv_init hsafe).1 st hrun).1

/-- Renames (of a type, a pointer, a link property) emit no storage operation:
    the catalog is unchanged … -/
theorem C05_rename (st st' : State) (d : DDL)
    (hd : (∃ t n, d = .renameType t n) ∨ (∃ i n, d = .renamePtr i n) ∨ (∃ i l n, d = .renameLProp i l n))
    (h : stepDDL st d = .ok st') : st'.catalog = st.catalog :=
  rename_catalog hd h

/-- … and (for guarded renames) so is the layout the compiler expects: a rename
    never orphans storage. -/
theorem C05_rename_layout (st st' : State) (d : DDL) (hinv : Inv st)
    (hd : (∃ t n, d = .renameType t n) ∨ (∃ i n, d = .renamePtr i n) ∨ (∃ i l n, d = .renameLProp i l n))
    (hsafe : safeStep st.schema d = true) (h : stepDDL st d = .ok st') :
    (layout st'.schema).Equiv (layout st.schema) := by
  have h1 := (stepDDL_inv hinv hsafe h).2
  rw [rename_catalog hd h] at h1
  exact equiv_trans (equiv_symm h1) hinv.2

/-- After dropping everything the catalog is empty. -/
theorem C05_drop_all (h : List DDL) (st : State) (hrun : run {} h = .ok st)
    (hsafe : safeRun {} h = true) (ht : st.schema.types = []) (hp : st.schema.ptrs = []) :
    st.catalog.tables = [] ∧ st.catalog.cols = [] :=
  empty_of_equiv_empty (C05_tracks h st hrun hsafe) ht hp

/-- No step drops storage that the next schema still uses: whatever an emitted
    `DropTable` / `DropColumn` removes is absent from `layout (next schema)`. -/
theorem C05_no_drop_live (st st' : State) (d : DDL) (ops : List Op) (hinv : Inv st)
    (hsafe : safeStep st.schema d = true) (hem : emit st.schema d = some (st'.schema, ops))
    (hex : execAll st.catalog ops = some st'.catalog) (o : Op) (ho : o ∈ ops) :
    (∀ t b, o = .dropTable t b → t ∉ (layout st'.schema).tables) ∧
    (∀ t c, o = .dropCol t c → (t, c) ∉ (layout st'.schema).cols) :=
  no_drop_live hinv hsafe hem hex o ho

/-- The layout is built from the decision functions that are tied pointwise to
    `types.py` (level 1): a stored pointer of an object type has a column in its
    source's table iff `get_pointer_storage_info` answers "source table", and a
    table of its own iff the `link_bias` answer is "link table" (= `has_table`). -/
theorem C05_layout_decisions (p : Ptr) (t : Nat) (hs : p.src = some t) (hn : p.name ≠ .type_) :
    p.hasTable = hasTableV p.view ∧
    (p.computed = false →
      (p.srcCol.isSome ↔ ∃ c, storageInfo p.view false = some ⟨.source, false, c⟩) ∧
      (p.hasTable = true ↔ ∃ c, storageInfo p.view true = some ⟨.self, true, c⟩)) :=
  layout_decisions p t hs hn

/-! ### The three behaviours of the real code that violate the property -/

/-- `ALTER PROPERTY name RENAME TO __bar`: accepted, nothing emitted, but the
    compiler now addresses column `__bar` instead of the id-named one. -/
theorem C05_rename_dunder_counterexample :
    ∃ h st, run {} h = .ok st ∧ safeRun {} h = false ∧ ¬ st.catalog.Equiv (layout st.schema) := by
  refine ⟨[.createType 0 0 false, .createPtr ⟨1, some 0, .prop, .plain 5, true, false, false, []⟩,
           .renamePtr 1 (.dunder 7)], _, rfl, by decide, ?_⟩
  intro h
  have := (h.2 (.obj 0, .col 1)).mp (by decide)
  revert this; decide

/-- `ALTER PROPERTY name USING ({'x','y'})` on a stored single property: the
    column is not dropped (orphan storage). -/
theorem C05_setexpr_cardinality_counterexample :
    ∃ h st, run {} h = .ok st ∧ safeRun {} h = false ∧ ¬ st.catalog.Equiv (layout st.schema) := by
  refine ⟨[.createType 0 0 false, .createPtr ⟨1, some 0, .prop, .plain 5, true, false, false, []⟩,
           .setExpr 1 false], _, rfl, by decide, ?_⟩
  intro h
  have := (h.2 (.obj 0, .col 1)).mp (by decide)
  revert this; decide

/-- the mirror image: a stored multi property becoming a computed single one
    (`ALTER PROPERTY tags { USING ('x'); RESET CARDINALITY }`, or `{ SET SINGLE USING (…);
    USING ('x') }`) gets, on top of the correct `DROP TABLE`, a `DROP COLUMN` of a column
    that never existed: the emitted SQL fails on the backend -/
theorem C05_setexpr_cardinality_backend_counterexample :
    ∃ h, run {} h = .error .backend ∧ safeRun {} h = false :=
  ⟨[.createType 0 0 false, .createPtr ⟨1, some 0, .prop, .plain 5, false, false, false, []⟩,
    .setExpr 1 true], rfl, by decide⟩

/-- `ALTER LINK l USING (…)` then `RESET EXPRESSION` on a link with a stored link
    property: the re-created link table lacks the link property's column. -/
theorem C05_resetexpr_lprops_counterexample :
    ∃ h st, run {} h = .ok st ∧ safeRun {} h = false ∧ ¬ st.catalog.Equiv (layout st.schema) := by
  refine ⟨[.createType 0 0 false, .createPtr ⟨1, some 0, .link, .plain 5, false, false, false, []⟩,
           .addLProp 1 ⟨2, .other 6, false⟩, .setExpr 1 false, .resetExpr 1], _, rfl, by decide, ?_⟩
  intro h
  have := (h.2 (.ptr 1, .col 2)).mpr (by decide)
  revert this; decide

/-- `CREATE ABSTRACT LINK al { CREATE PROPERTY source -> str }` then `DROP PROPERTY source`:
    the storage code special-cases the NAME `source` / `target` of a link property, so the
    user property shares (and on drop removes) the link table's real `source` column. -/
theorem C05_lprop_named_source_counterexample :
    ∃ h st, run {} h = .ok st ∧ safeRun {} h = false ∧ ¬ st.catalog.Equiv (layout st.schema) := by
  refine ⟨[.createPtr ⟨1, none, .link, .plain 5, true, false, false, []⟩,
           .addLProp 1 ⟨2, .source, false⟩, .dropLProp 1 2], _, rfl, by decide, ?_⟩
  intro h
  have := (h.2 (.ptr 1, .source)).mpr (by decide)
  revert this; decide

/-- a user link property named `target` never gets its column -/
theorem C05_lprop_named_target_counterexample :
    ∃ h st, run {} h = .ok st ∧ safeRun {} h = false ∧ ¬ st.catalog.Equiv (layout st.schema) := by
  refine ⟨[.createPtr ⟨1, none, .link, .plain 5, true, false, false, []⟩,
           .addLProp 1 ⟨2, .target, false⟩], _, rfl, by decide, ?_⟩
  intro h
  have := (h.2 (.ptr 1, .col 2)).mpr (by decide)
  revert this; decide

/-! ### Non-vacuity: a guarded history exercising most of the alphabet -/

def exHistory : List DDL :=
  [ .createType 0 0 false,
    .createPtr ⟨1, some 0, .prop, .id, true, true, false, []⟩,
    .createPtr ⟨2, some 0, .prop, .plain 1, true, false, false, []⟩,
    .createType 3 2 false,
    .createPtr ⟨4, some 3, .link, .plain 3, true, false, false, []⟩,
    .addLProp 4 ⟨5, .other 4, false⟩,    -- single link gets a link table
    .setSingle 2 false,                  -- property moves to its own table
    .renamePtr 2 (.plain 9),
    .setSingle 4 false,                  -- link table already exists (conditional create skipped)
    .setLPropComputed 4 5 true,
    .setSingle 4 true,                   -- link table dropped
    .setExpr 2 false, .resetExpr 2,
    .dropLProp 4 5,
    .dropType 0 ]

example : safeRun {} exHistory = true := by decide

example : ∃ st, run {} exHistory = .ok st ∧ st.schema.types.length = 1 ∧
    st.catalog.tables = [.obj 3] := ⟨_, rfl, by decide, by decide⟩

end EdbVerif.C05
