/-
Model of the binary type-descriptor codec of `edb/server/compiler/sertypes.py`
(C14): the encoder building blocks (`_describe_*`, `_finish_typedesc`,
`_register_type_id`, `Context.buffer / uuid_to_pos`, `describe_params`,
`describe_input_shape`, `describe_sql_result`), the decoder (`parse`, `_parse`,
`_parse_*_descriptor`) and the strings hashed by `_get_collection_type_id`,
`_get_object_shape_id`, `_get_set_type_id`.

Two protocol families: `v1` = protocol < 2.0 (no length prefix, no names, base
scalars), `v2` = protocol ≥ 2.0 (`docs/reference/reference/protocol/typedesc.rst`).

Representation.  A descriptor *tree* is a node with a header (kind, id, optional
name/schema_defined, kind specific flat payload) and two ordered lists of child
trees:

* `pre`  – children the real encoder describes BEFORE it looks the node's id up
  in `uuid_to_pos` (tuple elements, array/range/set element, shape element types),
* `post` – children described AFTER that lookup, while the block is being built
  (scalar ancestors / base type, compound components, the object type and the
  per-element source types of a ≥2.0 shape; for collection types the `ancestors`
  list of the wire format, which the encoder always leaves empty).

The wire form of one node is a *flat block*: the same header with the children
replaced by positions in the stream (`uint16`).  Bytes, ids and names are
`List Nat` (names are UTF-8 bytes; UTF-8 validity is not modelled).

Core Lean only (the driver loads this file).
-/
namespace EdbVerif.Desc

abbrev Bytes := List Nat
/-- 16 bytes of a uuid -/
abbrev Id := List Nat

inductive Proto where
  | v1   -- protocol_version < (2, 0)
  | v2   -- protocol_version ≥ (2, 0)
deriving DecidableEq, Repr

/-- `.name`, `.schema_defined` of the ≥2.0 descriptors -/
structure Meta where
  name : Bytes
  sd   : Bool
deriving DecidableEq, Repr

/-- flat part of a `ShapeElement` / `InputShapeElement` -/
structure ShEl where
  flags : Nat
  card  : Nat
  name  : Bytes
deriving DecidableEq, Repr

inductive Kind where
  | set
  | baseScalar
  | scalar
  | tuple
  | namedTuple (names : List Bytes)
  | array (dims : List Int)
  | range
  | multirange
  | enum (members : List Bytes)
  | object
  | compound (op : Nat)
  | shape (eph : Bool) (els : List ShEl)
  | inputShape (els : List ShEl)
  | sqlRow (names : List Bytes)
deriving DecidableEq, Repr

structure Hdr where
  kind : Kind
  id   : Id
  mt   : Option Meta
deriving DecidableEq, Repr

/-- descriptor tree -/
inductive Desc where
  | mk (h : Hdr) (pre post : List Desc)
deriving Repr

instance : Inhabited Desc := ⟨.mk ⟨.baseScalar, [], none⟩ [] []⟩

def Desc.hdr : Desc → Hdr | .mk h _ _ => h
def Desc.id (d : Desc) : Id := d.hdr.id
def Desc.pre : Desc → List Desc | .mk _ a _ => a
def Desc.post : Desc → List Desc | .mk _ _ b => b

/-- one block of the stream: children are positions -/
structure Flat where
  h    : Hdr
  pre  : List Nat
  post : List Nat
deriving DecidableEq, Repr

/-! ### wire primitives (`struct.Struct('!H')` …) -/

def u8 (n : Nat) : Bytes := [n]
def u16 (n : Nat) : Bytes := [n / 256 % 256, n % 256]
def u32 (n : Nat) : Bytes := [n / 16777216 % 256, n / 65536 % 256, n / 256 % 256, n % 256]
/-- `_int32_packer` (two's complement) -/
def i32 (x : Int) : Bytes := u32 (x % 4294967296).toNat
/-- `_string_packer` on the UTF-8 bytes -/
def str (s : Bytes) : Bytes := u32 s.length ++ s
def bool (b : Bool) : Bytes := [if b then 1 else 0]
/-- `_type_ref_id_seq_packer`: count then positions -/
def refs (l : List Nat) : Bytes := u16 l.length ++ l.flatMap u16

def Kind.tag : Kind → Nat
  | .set => 0 | .shape .. => 1 | .baseScalar => 2 | .scalar => 3 | .tuple => 4
  | .namedTuple _ => 5 | .array _ => 6 | .enum _ => 7 | .inputShape _ => 8
  | .range => 9 | .object => 10 | .compound _ => 11 | .multirange => 12 | .sqlRow _ => 13

/-- `.name .schema_defined .ancestors` of collection / scalar / enum descriptors;
    nothing below protocol 2.0 -/
def metaAnc (p : Proto) (m : Option Meta) (anc : List Nat) : Bytes :=
  match p, m with
  | .v2, some m => str m.name ++ bool m.sd ++ refs anc
  | _, _ => []

/-- `.name .schema_defined` of object / compound descriptors -/
def nameSd (m : Option Meta) : Bytes :=
  match m with
  | some m => str m.name ++ bool m.sd
  | none => []

def elB (p : Proto) (withSrc : Bool) (x : ShEl × Nat × Nat) : Bytes :=
  u32 x.1.flags ++ u8 x.1.card ++ str x.1.name ++ u16 x.2.1 ++
    (if p = .v2 ∧ withSrc then u16 x.2.2 else [])

def nameRefB (x : Bytes × Nat) : Bytes := str x.1 ++ u16 x.2

/-- what follows tag and id -/
def kindBytes (p : Proto) (f : Flat) : Bytes :=
  match f.h.kind with
  | .set => f.pre.flatMap u16
  | .baseScalar => []
  | .scalar =>
      (match p with
       | .v2 => metaAnc p f.h.mt f.post
       | .v1 => f.post.flatMap u16)
  | .tuple => metaAnc p f.h.mt f.post ++ refs f.pre
  | .namedTuple names =>
      metaAnc p f.h.mt f.post ++ u16 f.pre.length ++ (names.zip f.pre).flatMap nameRefB
  | .array dims =>
      metaAnc p f.h.mt f.post ++ f.pre.flatMap u16 ++ u16 dims.length ++ dims.flatMap i32
  | .range => metaAnc p f.h.mt f.post ++ f.pre.flatMap u16
  | .multirange => metaAnc p f.h.mt f.post ++ f.pre.flatMap u16
  | .enum members => metaAnc p f.h.mt f.post ++ u16 members.length ++ members.flatMap str
  | .object => nameSd f.h.mt
  | .compound op => nameSd f.h.mt ++ u8 op ++ refs f.post
  | .shape eph els =>
      (match p with
       | .v2 =>
         bool eph ++ u16 (if eph then 0 else f.post.headD 0) ++ u16 f.pre.length ++
         (els.zip (f.pre.zip (if eph then List.replicate f.pre.length 0 else f.post.tail))).flatMap
           (elB p true)
       | .v1 =>
         u16 f.pre.length ++
         (els.zip (f.pre.zip (List.replicate f.pre.length 0))).flatMap (elB p true))
  | .inputShape els =>
      u16 f.pre.length ++ (els.zip (f.pre.zip (List.replicate f.pre.length 0))).flatMap (elB p false)
  | .sqlRow names => u16 f.pre.length ++ (names.zip f.pre).flatMap nameRefB

/-- the descriptor without the length prefix -/
def body (p : Proto) (f : Flat) : Bytes := u8 f.h.kind.tag ++ f.h.id ++ kindBytes p f

/-- `_finish_typedesc`: length prefix from protocol 2.0 on -/
def block (p : Proto) (f : Flat) : Bytes :=
  match p with
  | .v1 => body p f
  | .v2 => u32 (body p f).length ++ body p f

/-- `_add_annotation`: what goes to `Context.anno_buffer` for a scalar / enum
    when `inline_typenames` is set below protocol 2.0 (tag `0xff`, id, text) -/
def annoBlock (p : Proto) (id : Id) (text : Bytes) : Bytes :=
  let b := u8 255 ++ id ++ str text
  match p with
  | .v1 => b
  | .v2 => u32 b.length ++ b

/-! ### the encoder: `Context`, `_describe_type`, `_register_type_id` -/

/-- `Context.uuid_to_pos` (position = index: an id is registered with
    `len(uuid_to_pos)`), `Context.buffer` (joined) and the entries of
    `Context.anno_buffer` (id, type name) -/
structure St where
  tbl : List Id := []
  buf : Bytes := []
  ann : List (Id × Bytes) := []
deriving Repr, DecidableEq

def pos (tbl : List Id) (i : Id) : Nat := tbl.idxOf i

/-- the descriptors `_add_annotation` is called for: below protocol 2.0, derived
    scalars (`SCALAR`, not `BASE_SCALAR`) and enums -/
def annotated (p : Proto) (k : Kind) : Bool :=
  match p, k with
  | .v1, .scalar => true
  | .v1, .enum _ => true
  | _, _ => false

/-- `dn = some f`: `inline_typenames` is set and `f id` is `get_displayname` of the type -/
def annStep (p : Proto) (dn : Option (Id → Bytes)) (h : Hdr) (ann : List (Id × Bytes)) :
    List (Id × Bytes) :=
  match dn with
  | some f => if annotated p h.kind then ann ++ [(h.id, f h.id)] else ann
  | none => ann

mutual
/-- `_describe_type(t, ctx)` / `_describe_set` / `describe_input_shape` for one node:
    describe the `pre` children, return if the id is known, describe the `post`
    children, emit the block (and the annotation), register the id. -/
def enc (p : Proto) (dn : Option (Id → Bytes)) : St → Desc → St
  | s, .mk h pre post =>
    let s1 := encL p dn s pre
    if s1.tbl.contains h.id then s1 else
    let s2 := encL p dn s1 post
    let f : Flat := ⟨h, pre.map (fun c => pos s2.tbl c.id), post.map (fun c => pos s2.tbl c.id)⟩
    { tbl := if s2.tbl.contains h.id then s2.tbl else s2.tbl ++ [h.id],
      buf := s2.buf ++ block p f,
      ann := annStep p dn h s2.ann }
def encL (p : Proto) (dn : Option (Id → Bytes)) : St → List Desc → St
  | s, [] => s
  | s, d :: ds => encL p dn (enc p dn s d) ds
end

/-- `b''.join(ctx.anno_buffer)` -/
def annoBytes (p : Proto) (ann : List (Id × Bytes)) : Bytes :=
  ann.flatMap fun e => annoBlock p e.1 e.2

/-- `describe(...)[0]` from a fresh `Context`: descriptors, then annotations -/
def encodeA (p : Proto) (dn : Option (Id → Bytes)) (d : Desc) : Bytes :=
  (enc p dn {} d).buf ++ annoBytes p (enc p dn {} d).ann

/-- … without `inline_typenames` -/
def encode (p : Proto) (d : Desc) : Bytes := (enc p none {} d).buf

/-! ### readers (`binwrapper.BinWrapper`) -/

abbrev Rd (α : Type) := Bytes → Option (α × Bytes)

def rdU8 : Rd Nat
  | a :: r => some (a, r)
  | [] => none
def rdU16 : Rd Nat
  | a :: b :: r => some (a * 256 + b, r)
  | _ => none
def rdU32 : Rd Nat
  | a :: b :: c :: d :: r => some (a * 16777216 + b * 65536 + c * 256 + d, r)
  | _ => none
def rdN (n : Nat) : Rd Bytes := fun bs =>
  if n ≤ bs.length then some (bs.take n, bs.drop n) else none
/-- sequencing of readers (the implicit stream position of `BinWrapper`) -/
def bnd {α β : Type} (r : Rd α) (f : α → Rd β) : Rd β := fun bs =>
  match r bs with
  | none => none
  | some (a, bs') => f a bs'
def ret {α : Type} (a : α) : Rd α := fun bs => some (a, bs)
def fail {α : Type} : Rd α := fun _ => none

def rdStr : Rd Bytes := bnd rdU32 rdN
def rdBool : Rd Bool := bnd rdU8 fun b => ret (b != 0)
def rdMany {α : Type} (rd : Rd α) : Nat → Rd (List α)
  | 0 => ret []
  | n + 1 => bnd rd fun x => bnd (rdMany rd n) fun xs => ret (x :: xs)
def rdRefs : Rd (List Nat) := bnd rdU16 (rdMany rdU16)

/-- members of `edb.protocol.enums.Cardinality` -/
def cardOK (c : Nat) : Bool := c == 0x6e || c == 0x6f || c == 0x41 || c == 0x6d || c == 0x4d

def rdEl (p : Proto) (withSrc : Bool) : Rd (ShEl × Nat × Nat) :=
  bnd rdU32 fun fl =>
  bnd rdU8 fun c =>
  if !cardOK c then fail else
  bnd rdStr fun nm =>
  bnd rdU16 fun t =>
  if p = .v2 ∧ withSrc then bnd rdU16 fun s => ret (⟨fl, c, nm⟩, t, s)
  else ret (⟨fl, c, nm⟩, t, 0)

def rdNameRef : Rd (Bytes × Nat) :=
  bnd rdStr fun nm => bnd rdU16 fun t => ret (nm, t)

/-- `.name .schema_defined .ancestors` (≥2.0 only) -/
def rdMetaAnc (p : Proto) : Rd (Option Meta × List Nat) :=
  match p with
  | .v1 => ret (none, [])
  | .v2 => bnd rdStr fun nm => bnd rdBool fun sd => bnd rdRefs fun anc => ret (some ⟨nm, sd⟩, anc)

def i32ToInt (n : Nat) : Int := if n ≥ 2147483648 then (n : Int) - 4294967296 else n

/-- Two decoders.  `real` = the model of `sertypes.parse` (server internal: no arm
    for `SQL_ROW`, none for the `0xff` type-name annotation, `0x80‥0xfe` read as one
    string).  `doc` = a client following the documented wire format: `SQL_ROW`
    descriptors are decoded and annotation blocks (tag ≥ `0x80`: id, text) are
    recorded. -/
inductive Mode where
  | real | doc
deriving DecidableEq, Repr

/-- what one block of the stream is -/
inductive Item where
  | desc (f : Flat) (chk : List Nat)
  | anno (id : Id) (text : Bytes)
  | skip

/-- `_parse_descriptor` after the tag and id have been read.  The second
    component = references that the real decoder resolves but whose result is
    not part of the description (source types of an ephemeral free shape). -/
def parseKind (m : Mode) (p : Proto) (t : Nat) (id : Id) : Rd (Flat × List Nat) :=
  if t = 0 then
    bnd rdU16 fun r => ret (⟨⟨.set, id, none⟩, [r], []⟩, [])
  else if t = 2 then
    if p = .v2 then fail else ret (⟨⟨.baseScalar, id, none⟩, [], []⟩, [])
  else if t = 3 then
    match p with
    | .v2 => bnd (rdMetaAnc p) fun ma => ret (⟨⟨.scalar, id, ma.1⟩, [], ma.2⟩, [])
    | .v1 => bnd rdU16 fun r => ret (⟨⟨.scalar, id, none⟩, [], [r]⟩, [])
  else if t = 4 then
    bnd (rdMetaAnc p) fun ma =>
    bnd rdRefs fun els => ret (⟨⟨.tuple, id, ma.1⟩, els, ma.2⟩, [])
  else if t = 5 then
    bnd (rdMetaAnc p) fun ma =>
    bnd rdU16 fun n =>
    bnd (rdMany rdNameRef n) fun l =>
    ret (⟨⟨.namedTuple (l.map (·.1)), id, ma.1⟩, l.map (·.2), ma.2⟩, [])
  else if t = 6 then
    bnd (rdMetaAnc p) fun ma =>
    bnd rdU16 fun r =>
    bnd rdU16 fun nd =>
    if nd ≠ 1 then fail else
    bnd rdU32 fun dl =>
    if i32ToInt dl ≠ -1 then fail else
    ret (⟨⟨.array [i32ToInt dl], id, ma.1⟩, [r], ma.2⟩, [])
  else if t = 9 then
    bnd (rdMetaAnc p) fun ma =>
    bnd rdU16 fun r => ret (⟨⟨.range, id, ma.1⟩, [r], ma.2⟩, [])
  else if t = 12 then
    bnd (rdMetaAnc p) fun ma =>
    bnd rdU16 fun r => ret (⟨⟨.multirange, id, ma.1⟩, [r], ma.2⟩, [])
  else if t = 7 then
    bnd (rdMetaAnc p) fun ma =>
    bnd rdU16 fun n =>
    bnd (rdMany rdStr n) fun l => ret (⟨⟨.enum l, id, ma.1⟩, [], ma.2⟩, [])
  else if t = 10 then
    if p = .v1 then fail else
    bnd rdStr fun nm =>
    bnd rdBool fun sd => ret (⟨⟨.object, id, some ⟨nm, sd⟩⟩, [], []⟩, [])
  else if t = 11 then
    if p = .v1 then fail else
    bnd rdStr fun nm =>
    bnd rdBool fun sd =>
    bnd rdU8 fun op =>
    if op ≠ 1 ∧ op ≠ 2 then fail else
    bnd rdRefs fun cs => ret (⟨⟨.compound op, id, some ⟨nm, sd⟩⟩, [], cs⟩, [])
  else if t = 1 then
    match p with
    | .v1 =>
      bnd rdU16 fun n =>
      bnd (rdMany (rdEl p true) n) fun l =>
      ret (⟨⟨.shape false (l.map (·.1)), id, none⟩, l.map (·.2.1), []⟩, [])
    | .v2 =>
      bnd rdBool fun eph =>
      bnd rdU16 fun ty =>
      bnd rdU16 fun n =>
      bnd (rdMany (rdEl p true) n) fun l =>
      if eph then
        ret (⟨⟨.shape true (l.map (·.1)), id, none⟩, l.map (·.2.1), []⟩, l.map (·.2.2))
      else
        ret (⟨⟨.shape false (l.map (·.1)), id, none⟩, l.map (·.2.1), ty :: l.map (·.2.2)⟩, [])
  else if t = 8 then
    bnd rdU16 fun n =>
    bnd (rdMany (rdEl p false) n) fun l =>
    ret (⟨⟨.inputShape (l.map (·.1)), id, none⟩, l.map (·.2.1), []⟩, [])
  else if t = 13 then
    (if m = .real then fail else
     bnd rdU16 fun n =>
     bnd (rdMany rdNameRef n) fun l =>
     ret (⟨⟨.sqlRow (l.map (·.1)), id, none⟩, l.map (·.2), []⟩, []))
  else fail

/-- one block off the stream, wire level; `none` = the decoder raises -/
def parseFlat (m : Mode) (p : Proto) : Rd Item :=
  bnd (match p with | .v2 => rdN 4 | .v1 => ret []) fun _ =>
  bnd rdU8 fun t =>
  if 128 ≤ t then
    (match m with
     | .real => if t = 255 then fail else bnd rdStr fun _ => ret .skip
     | .doc => bnd (rdN 16) fun id => bnd rdStr fun tx => ret (.anno id tx))
  else
    bnd (rdN 16) fun id =>
    bnd (parseKind m p t id) fun x => ret (.desc x.1 x.2)

/-- `ctx.codecs_list[offset]` for each reference -/
def resolve (cl : List Desc) : List Nat → Option (List Desc)
  | [] => some []
  | r :: rs =>
    match cl[r]?, resolve cl rs with
    | some d, some ds => some (d :: ds)
    | _, _ => none

/-- decoder state: `codecs_list` and (documented-format decoder) the annotations -/
structure DSt where
  cl : List Desc := []
  an : List (Id × Bytes) := []

/-- `_parse(desc, ctx)`: read one block, append the descriptor to `codecs_list` -/
def parseBlock (m : Mode) (p : Proto) (st : DSt) : Rd DSt := fun bs =>
  match parseFlat m p bs with
  | none => none
  | some (.skip, r) => some (st, r)
  | some (.anno i t, r) => some ({ st with an := st.an ++ [(i, t)] }, r)
  | some (.desc f chk, r) =>
    match resolve st.cl f.pre, resolve st.cl f.post, resolve st.cl chk with
    | some a, some b, some _ => some ({ st with cl := st.cl ++ [.mk f.h a b] }, r)
    | _, _, _ => none

/-- the `while buf.tell() < len(typedesc)` loop of `parse`.  Every `_parse` reads at
    least the tag byte; the model checks that progress explicitly (it is what makes
    the loop terminate) instead of carrying a proof through the definition. -/
def decodeAll (m : Mode) (p : Proto) (st : DSt) (bs : Bytes) : Option DSt :=
  if bs.isEmpty then some st else
  match parseBlock m p st bs with
  | none => none
  | some (st', r) => if r.length < bs.length then decodeAll m p st' r else none
termination_by bs.length

/-- `sertypes.parse(typedesc, protocol_version)`: the last descriptor of the stream -/
def decodeReal (p : Proto) (bs : Bytes) : Option Desc :=
  match decodeAll .real p {} bs with
  | some st => st.cl.getLast?
  | none => none

/-- a client per the documented format: the last descriptor and the
    (id, type name) annotations in stream order -/
def decodeDoc (p : Proto) (bs : Bytes) : Option (Desc × List (Id × Bytes)) :=
  match decodeAll .doc p {} bs with
  | some st =>
    match st.cl.getLast? with
    | some d => some (d, st.an)
    | none => none
  | none => none

/-! ### a client that only uses the ≥2.0 length prefixes to walk the stream -/

def frames : Nat → Bytes → Option (List Bytes)
  | _, [] => some []
  | 0, _ :: _ => none
  | fuel + 1, b :: bs =>
    match rdU32 (b :: bs) with
    | none => none
    | some (n, r) =>
      match rdN n r with
      | none => none
      | some (x, r') =>
        match frames fuel r' with
        | none => none
        | some xs => some (x :: xs)

/-! ### guards of the real packers (`struct.error` when a value does not fit) -/

def elOK (e : ShEl) : Bool := e.flags < 4294967296 && cardOK e.card && e.name.length < 4294967296

def metaOK (p : Proto) (m : Option Meta) : Bool :=
  match p, m with
  | .v1, none => true
  | .v2, some m => m.name.length < 4294967296
  | _, _ => false

/-- shape of a node that the codec can carry in protocol `p`: `npre`, `npost`
    are the numbers of children -/
def hdrOK (p : Proto) (h : Hdr) (npre npost : Nat) : Bool :=
  h.id.length == 16 && npre < 65536 && npost < 65536 &&
  match h.kind with
  | .set => h.mt.isNone && npre == 1 && npost == 0
  | .baseScalar => p == .v1 && h.mt.isNone && npre == 0 && npost == 0
  | .scalar => metaOK p h.mt && npre == 0 && (p == .v2 || npost == 1)
  | .tuple => metaOK p h.mt && (p == .v2 || npost == 0)
  | .namedTuple names =>
      metaOK p h.mt && (p == .v2 || npost == 0) && names.length == npre &&
      names.all (·.length < 4294967296)
  | .array dims => metaOK p h.mt && (p == .v2 || npost == 0) && npre == 1 && dims == [-1]
  | .range => metaOK p h.mt && (p == .v2 || npost == 0) && npre == 1
  | .multirange => metaOK p h.mt && (p == .v2 || npost == 0) && npre == 1
  | .enum members =>
      metaOK p h.mt && (p == .v2 || npost == 0) && npre == 0 && members.length < 65536 &&
      members.all (·.length < 4294967296)
  | .object => p == .v2 && metaOK p h.mt && npre == 0 && npost == 0
  | .compound op => p == .v2 && metaOK p h.mt && npre == 0 && (op == 1 || op == 2)
  | .shape eph els =>
      h.mt.isNone && els.length == npre && els.all elOK &&
      (match p with
       | .v1 => !eph && npost == 0
       | .v2 => if eph then npost == 0 else npost == npre + 1)
  | .inputShape els => h.mt.isNone && els.length == npre && els.all elOK && npost == 0
  | .sqlRow names =>
      h.mt.isNone && names.length == npre && names.all (·.length < 4294967296) && npost == 0

mutual
def nodesOK (p : Proto) : Desc → Bool
  | .mk h pre post => hdrOK p h pre.length post.length && nodesOKL p pre && nodesOKL p post
def nodesOKL (p : Proto) : List Desc → Bool
  | [] => true
  | d :: ds => nodesOK p d && nodesOKL p ds
end

mutual
/-- the node and all its descendants, the node first -/
def subs : Desc → List Desc
  | .mk h pre post => .mk h pre post :: (subsL pre ++ subsL post)
def subsL : List Desc → List Desc
  | [] => []
  | d :: ds => subs d ++ subsL ds
end

mutual
def Desc.beq : Desc → Desc → Bool
  | .mk h a b, .mk h' a' b' => h == h' && Desc.beqL a a' && Desc.beqL b b'
def Desc.beqL : List Desc → List Desc → Bool
  | [], [] => true
  | x :: xs, y :: ys => Desc.beq x y && Desc.beqL xs ys
  | _, _ => false
end

/-- Ids identify descriptors: two sub-descriptors with the same id are the same
    tree.  (This is what the content-derived ids are for; it FAILS for the
    colliding ids of `C14_id_collision`.) -/
def idFaithfulB (d : Desc) : Bool :=
  (subs d).all fun u => (subs d).all fun v => !(u.id == v.id) || Desc.beq u v

/-- the encoder's own guards: every position fits `uint16` -/
def fitsB (p : Proto) (d : Desc) : Bool := (enc p none {} d).tbl.length ≤ 65536

/-- `encode` with the real packers' failure made explicit -/
def encodeChecked (p : Proto) (d : Desc) : Option Bytes :=
  if nodesOK p d && fitsB p d then some (encode p d) else none

/-! ### the strings behind the content-derived ids -/

/-- `":".join(parts)` / `"\x00".join(parts)` -/
def join (sep : Nat) (parts : List Bytes) : Bytes := [sep].intercalate parts

def asciiTrue : Bytes := [84, 114, 117, 101]
def asciiFalse : Bytes := [70, 97, 108, 115, 101]
def asciiNone : Bytes := [78, 111, 110, 101]

/-- `repr(bool)` -/
def reprBool (b : Bool) : Bytes := if b then asciiTrue else asciiFalse
/-- `repr(Optional[list[bool]])`: `None`, `[]`, `[True, False]` -/
def reprOptBools : Option (List Bool) → Bytes
  | none => asciiNone
  | some l => [91] ++ [44, 32].intercalate (l.map reprBool) ++ [93]

/-- the arguments of the three id functions.  `subs` are the `str(uuid)` texts. -/
inductive IdKey where
  /-- `_get_collection_type_id(coll_type, subtypes, element_names)` -/
  | coll (ct : Bytes) (subs : List Bytes) (names : Option (List Bytes))
  /-- `_get_object_shape_id(coll_type, subtypes, element_names, cardinalities,
      links_props=, links=, has_implicit_fields=, sources=)`; `srcs` = the `str(uuid)`
      texts of the elements' source types, given by `_describe_object_shape` only
      when some element's source differs from the shape's own type (fix d2d2129) -/
  | shape (base : Bytes) (subs : List Bytes) (names : Option (List Bytes))
      (cards : Option (List Nat)) (lp links : Option (List Bool)) (impl : Bool)
      (srcs : Option (List Bytes))
  /-- `_get_set_type_id(basetype_id)` -/
  | setOf (sub : Bytes)
deriving DecidableEq, Repr

/-- `if element_names:` – an empty list counts as absent -/
def truthy {α : Type} : Option (List α) → Option (List α)
  | some (x :: xs) => some (x :: xs)
  | _ => none

def asciiTuple : Bytes := [116, 117, 112, 108, 101]
def asciiSetOf : Bytes := [115, 101, 116, 45, 111, 102, 58, 58]

/-- an optional list of texts as one more `\x00`-separated part, joined with `:`:
    present only when the list is non-empty (`if cardinalities:`) -/
def optPart (o : Option (List Bytes)) : List Bytes :=
  match truthy o with
  | some ns => [join 58 ns]
  | none => []

/-- `n.replace('\\', '\\\\').replace(':', '\\:')`: `\` (92) and `:` (58) get a `\` in front -/
def esc : Bytes → Bytes
  | [] => []
  | c :: r => (if c = 92 ∨ c = 58 then [92, c] else [c]) ++ esc r

/-- `_join_element_names` (fix c2beb91): escape, then join with `:` -/
def joinNames (ns : List Bytes) : Bytes := join 58 (ns.map esc)

/-- the optional element-name part (`if element_names:`) -/
def optNames (o : Option (List Bytes)) : List Bytes :=
  match truthy o with
  | some ns => [joinNames ns]
  | none => []

/-- `chr(c._value_) for c in cardinalities` -/
def cardChars (cards : Option (List Nat)) : Option (List Bytes) :=
  match cards with
  | some cs => some (cs.map fun c => [c])
  | none => none

/-- the shape id string up to and including `repr(links)` (all of it before fix d2d2129) -/
def shapeCore (base : Bytes) (subs : List Bytes) (names : Option (List Bytes))
    (cards : Option (List Nat)) (lp links : Option (List Bool)) (impl : Bool) : Bytes :=
  join 0 ([base, join 58 subs] ++ optNames names ++ optPart (cardChars cards)) ++
    reprBool impl ++ [59] ++ reprOptBools lp ++ [59] ++ reprOptBools links

/-- `if sources: string_id += ';' + ":".join(map(str, sources))` -/
def srcTail (srcs : Option (List Bytes)) : Bytes :=
  match truthy srcs with
  | some l => 59 :: join 58 l
  | none => []

/-- The string handed to `uuid5(TYPE_ID_NAMESPACE, ·)`, as UTF-8 bytes; `none`
    for the empty tuple, whose id is a constant.
    `_get_collection_type_id` builds `ct + "\0" + ":".join(ids) [+ "\0" + _join_element_names(names)]`,
    `_get_object_shape_id` builds `"\0".join(parts) + repr(impl);repr(lp);repr(links)`. -/
def idPreimage : IdKey → Option Bytes
  | .coll ct subs names =>
    if ct = asciiTuple ∧ subs = [] then none else
    some (join 0 ([ct, join 58 subs] ++ optNames names))
  | .shape base subs names cards lp links impl srcs =>
    some (shapeCore base subs names cards lp links impl ++ srcTail srcs)
  | .setOf sub => some (asciiSetOf ++ sub)

/-- The id strings BEFORE fix c2beb91: element names joined with `:` as they are
    (and no source types). -/
def idPreimageBuggy : IdKey → Option Bytes
  | .coll ct subs names =>
    if ct = asciiTuple ∧ subs = [] then none else
    some (join 0 ([ct, join 58 subs] ++ optPart names))
  | .shape base subs names cards lp links impl _ =>
    some (join 0 ([base, join 58 subs] ++ optPart names ++ optPart (cardChars cards)) ++
      reprBool impl ++ [59] ++ reprOptBools lp ++ [59] ++ reprOptBools links)
  | .setOf sub => some (asciiSetOf ++ sub)

/-- The id strings BEFORE fix d2d2129: the source types of the elements are ignored. -/
def idPreimageNoSources : IdKey → Option Bytes
  | .shape base subs names cards lp links impl _ => some (shapeCore base subs names cards lp links impl)
  | k => idPreimage k

def hexDigit (n : Nat) : Nat := if n < 10 then 48 + n else 87 + n
def hexByte (b : Nat) : Bytes := [hexDigit (b / 16 % 16), hexDigit (b % 16)]
/-- `str(uuid)`: 8-4-4-4-12 lower-case hex -/
def uuidStr (i : Id) : Bytes :=
  let h := i.flatMap hexByte
  h.take 8 ++ [45] ++ (h.drop 8).take 4 ++ [45] ++ (h.drop 12).take 4 ++ [45] ++
    (h.drop 16).take 4 ++ [45] ++ h.drop 20

end EdbVerif.Desc
