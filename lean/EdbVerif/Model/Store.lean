/-
Model of `edb/schema/schema.py::FlatSchema` (C04): the six indexes and the raw
operations that maintain them, read line by line from the source, including the
order of checks and every error exit (the `KeyError`s of `immutables.Map.delete`
/ `[]` on a missing key included: they are unreachable from consistent states,
which is a theorem, not an assumption).

Representation.
* ids are `Nat` (the harness keeps the `Nat ↔ uuid` table);
* `_id_to_data`, `_id_to_type`, `_name_to_id`, `_globalname_to_id` are association
  lists read with `mget` (first match), written with `mset` (drop all, cons) and
  `merase` (drop all);
* `_shortname_to_id : Map[(cls, shortname) → frozenset[id]]` is the *edge list*
  `(cls, shortname, id)`; the real map has a key iff its set is non-empty (the
  code deletes the key when the set becomes empty), so the edge list is the same
  information;
* `_refs_to : Map[target → Map[(cls, field) → Map[referrer → None]]]` is the edge
  list `Edge = (tgt, cls, field, src)` plus `refTargets`, the set of outer keys
  (the real code never removes an outer key, it can stay behind empty);
* a class is a descriptor `Cls` carrying exactly the bits that drive the code
  paths: `isGlobal` (`not issubclass(sclass, QualifiedObject)`), `hasSn`
  (`issubclass(sclass, (Function, Operator))`), the index of the `name` field,
  the object-reference fields (`get_object_reference_fields()`; all of them are
  reducible because `ObjectContainer <: Reducible`) with their container kind
  (single object / collection or expression), and the refdict fields (owned
  children) used by the guarded command layer only;
* names are `UnqualName`, `QualName(module, name)` and specialised full names
  `QualName(module, mangle(short) ++ '@' ++ quals)` whose
  `shortname_from_fullname` is another qualified name.

Core Lean only (no Mathlib): this file is also loaded by the line-protocol
driver.
-/
namespace EdbVerif.Store

/-! ### names (edb/schema/name.py) -/

inductive Name where
  /-- `UnqualName(m<n>)` -/
  | unqual (n : Nat)
  /-- `QualName(module m, name n)`, no `@` in the name -/
  | qual (m n : Nat)
  /-- `QualName(module m, 'M<sm>|n<n>@q<q>')`: `shortname_from_fullname` is
      `QualName(M<sm>, n<n>)` -/
  | spec (m sm n q : Nat)
deriving DecidableEq, Repr

/-- `sn.shortname_from_fullname` -/
def Name.short : Name → Name
  | .spec _ sm n _ => .qual sm n
  | x => x

/-- `new_name.module` of a `QualName`; `none` for an `UnqualName` (the code's
    `assert isinstance(new_name, sn.QualName)` fails) -/
def Name.module? : Name → Option Nat
  | .unqual _ => none
  | .qual m _ => some m
  | .spec m _ _ _ => some m

/-- `name.get_module_name() in SPECIAL_MODULES`: module numbers 0,1,2 stand for
    `__derived__`, `__ext_casts__`, `__ext_index_matches__`. -/
def isSpecialModule (m : Nat) : Bool := m < 3

/-! ### values, classes -/

/-- One slot of a data tuple (already `schema_reduce`d). -/
inductive Val where
  | nil
  | name (n : Name)
  /-- reduced single object `(clsname, id)` -/
  | ref (i : Nat)
  /-- reduced `ObjectCollection` `(clsname, typeargs, ids, attrs)` or the `refs`
      of a reduced `Expression` -/
  | refs (l : List Nat)
  | atom (a : Nat)
deriving DecidableEq, Repr

def Val.name? : Val → Option Name
  | .name n => some n
  | _ => none

structure Cls where
  tag : Nat
  /-- `not issubclass(sclass, so.QualifiedObject)` -/
  isGlobal : Bool
  /-- `issubclass(sclass, (s_func.Function, s_oper.Operator))` -/
  hasSn : Bool
  nfields : Nat
  /-- `sclass.get_schema_field('name').index` -/
  nameIdx : Nat
  /-- `get_object_reference_fields()`: (index, is a collection/expression) -/
  refFields : List (Nat × Bool)
  /-- refdict attributes (owned children); command layer only -/
  ownFields : List Nat
deriving DecidableEq, Repr

def Cls.refIdxs (c : Cls) : List Nat := c.refFields.map (·.1)

def Cls.kindOf (c : Cls) (f : Nat) : Option Bool :=
  match c.refFields.find? (fun p => p.1 == f) with
  | some p => some p.2
  | none => none

/-- `field.type.schema_refs_from_data(value)`; dispatch on the field's type. -/
def refsOfVal (coll : Bool) : Val → List Nat
  | .ref i => if coll then [] else [i]
  | .refs l => if coll then l else []
  | _ => []

def slot (d : List Val) (f : Nat) : Val := d.getD f .nil

/-- ids referenced by field `f` of data tuple `d` of class `c` (`[]` for `None`
    and for non-reference fields) -/
def refsOfField (c : Cls) (f : Nat) (v : Val) : List Nat :=
  match c.kindOf f with
  | some k => refsOfVal k v
  | none => []

def refsAt (c : Cls) (f : Nat) (d : List Val) : List Nat := refsOfField c f (slot d f)

def nameOf (c : Cls) (d : List Val) : Option Name := (slot d c.nameIdx).name?

/-- `edb.schema.modules.Module` (layout checked against the real class by the
    harness on every run). `has_module` looks up `(Module, UnqualName(m))`. -/
def moduleCls : Cls :=
  { tag := 1, isGlobal := true, hasSn := false, nfields := 6, nameIdx := 2,
    refFields := [(5, true)], ownFields := [5] }

/-! ### association lists -/

abbrev Map (κ ν : Type) := List (κ × ν)

def mget {κ ν : Type} [DecidableEq κ] : Map κ ν → κ → Option ν
  | [], _ => none
  | (k', v) :: r, k => if k' = k then some v else mget r k

def merase {κ ν : Type} [DecidableEq κ] (m : Map κ ν) (k : κ) : Map κ ν :=
  m.filter (fun p => decide (p.1 ≠ k))

def mset {κ ν : Type} [DecidableEq κ] (m : Map κ ν) (k : κ) (v : ν) : Map κ ν :=
  (k, v) :: merase m k

/-! ### state -/

structure Edge where
  tgt : Nat
  cls : Cls
  field : Nat
  src : Nat
deriving DecidableEq, Repr

structure State where
  idToData : Map Nat (List Val) := []
  idToType : Map Nat Cls := []
  nameToId : Map Name Nat := []
  globalNameToId : Map (Cls × Name) Nat := []
  shortNameToId : List (Cls × Name × Nat) := []
  refsTo : List Edge := []
  refTargets : List Nat := []
deriving Repr

def State.empty : State := {}

inductive Err where
  | schemaError | unknownModule | invalidReference
  | keyError | lookupError | assertionError | attributeError | indexError
deriving DecidableEq, Repr

/-- `self.get_by_id(id)` as used on the error paths: `LookupError` when the id
    has no `_id_to_type` entry. -/
def getById (s : State) (id : Nat) : Except Err Cls :=
  match mget s.idToType id with
  | some c => .ok c
  | none => .error .lookupError

/-- `self.has_module(m)` = `get_global(Module, m, None) is not None`. -/
def hasModule (s : State) (m : Nat) : Except Err Bool :=
  match mget s.globalNameToId (moduleCls, .unqual m) with
  | none => .ok false
  | some id =>
    match getById s id with
    | .ok _ => .ok true
    | .error e => .error e

/-! ### `_update_obj_name` -/

structure NameMaps where
  n2i : Map Name Nat
  sn : List (Cls × Name × Nat)
  g : Map (Cls × Name) Nat

def State.nameMaps (s : State) : NameMaps := ⟨s.nameToId, s.shortNameToId, s.globalNameToId⟩

/-- `if old_name is not None:` — the name / global-name entry -/
def dropMain (m : NameMaps) (c : Cls) (o : Name) : Except Err NameMaps :=
  if c.isGlobal then
    (if (mget m.g (c, o)).isSome then .ok { m with g := merase m.g (c, o) } else .error .keyError)
  else
    (if (mget m.n2i o).isSome then .ok { m with n2i := merase m.n2i o } else .error .keyError)

/-- `if old_name is not None: … if has_sn_cache:` — `shortname_to_id[sn_key] - {obj_id}`;
    KeyError when the key is missing -/
def dropShort (m : NameMaps) (id : Nat) (c : Cls) (o : Name) : Except Err NameMaps :=
  if c.hasSn then
    if m.sn.any (fun e => decide (e.1 = c ∧ e.2.1 = o.short)) then
      .ok { m with sn := m.sn.filter (fun e => decide (e ≠ (c, o.short, id))) }
    else .error .keyError
  else .ok m

/-- the `if old_name is not None:` block -/
def dropName (m : NameMaps) (id : Nat) (c : Cls) (o : Name) : Except Err NameMaps :=
  match dropMain m c o with
  | .error e => .error e
  | .ok m1 => dropShort m1 id c o

/-- `if new_name is not None:` — the name / global-name entry; `s` is `self` (the
    *unmodified* schema: `has_module` and `get_by_id` read it), `m` the local maps -/
def putMain (s : State) (m : NameMaps) (id : Nat) (c : Cls) (n : Name) : Except Err NameMaps :=
  if c.isGlobal then
    match mget m.g (c, n) with
    | some other =>
      match getById s other with
      | .ok _ => .error .schemaError          -- '... already exists'
      | .error e => .error e
    | none => .ok { m with g := mset m.g (c, n) id }
  else
    match n.module? with
    | none => .error .assertionError           -- assert isinstance(new_name, sn.QualName)
    | some md =>
      match hasModule s md with
      | .error e => .error e
      | .ok hm =>
        if !hm && !isSpecialModule md then .error .unknownModule
        else
          match mget m.n2i n with
          | some other =>
            match getById s other with
            | .ok _ => .error .schemaError
            | .error e => .error e
          | none => .ok { m with n2i := mset m.n2i n id }

def putShort (m : NameMaps) (id : Nat) (c : Cls) (n : Name) : NameMaps :=
  if c.hasSn then { m with sn := m.sn.insert (c, n.short, id) } else m

/-- the `if new_name is not None:` block -/
def putName (s : State) (m : NameMaps) (id : Nat) (c : Cls) (n : Name) : Except Err NameMaps :=
  match putMain s m id c n with
  | .error e => .error e
  | .ok m1 => .ok (putShort m1 id c n)

def updateObjName (s : State) (id : Nat) (c : Cls) (old new : Option Name) : Except Err NameMaps :=
  let r1 : Except Err NameMaps :=
    match old with
    | none => .ok s.nameMaps
    | some o => dropName s.nameMaps id c o
  match r1 with
  | .error e => .error e
  | .ok m1 =>
    match new with
    | none => .ok m1
    | some n => putName s m1 id c n

/-! ### `_update_refs_to` -/

/-- One iteration of `for field in objfields:` with `orig = orig_refs.get(field)`
    and `new = new_refs.get(field)` (`[]` for a missing entry / `None`). -/
def updRefsField (id : Nat) (c : Cls) (f : Nat) (orig new : List Nat)
    (r : List Edge × List Nat) : Except Err (List Edge × List Nat) :=
  -- if not ids and not orig_ids: continue
  if new.isEmpty && orig.isEmpty then .ok r else
  let add := new.filter (fun t => !orig.contains t)      -- ids - orig_ids
  let del := orig.filter (fun t => !new.contains t)      -- orig_ids - ids
  let es1 := add.foldl (fun es t => es.insert ⟨t, c, f, id⟩) r.1
  let tg1 := add.foldl (fun ts t => ts.insert t) r.2
  -- `mm[ref_id]`, `refs[key]`, `.delete(object_id)`: KeyError unless the edge is there
  if del.all (fun t => es1.contains ⟨t, c, f, id⟩) then
    .ok (es1.filter (fun e => !(decide (e.src = id ∧ e.cls = c ∧ e.field = f) && del.contains e.tgt)), tg1)
  else .error .keyError

def updRefsFields (id : Nat) (c : Cls) (orig new : Nat → List Nat) :
    List Nat → List Edge × List Nat → Except Err (List Edge × List Nat)
  | [], r => .ok r
  | f :: fs, r =>
    match updRefsField id c f (orig f) (new f) r with
    | .error e => .error e
    | .ok r1 => updRefsFields id c orig new fs r1

def updateRefsTo (s : State) (id : Nat) (c : Cls) (orig new : Nat → List Nat) :
    Except Err (List Edge × List Nat) :=
  updRefsFields id c orig new c.refIdxs (s.refsTo, s.refTargets)

/-! ### raw operations -/

/-- `add_raw(id, sclass, data)` (and `add`, which only reduces the values first) -/
def addRaw (s : State) (id : Nat) (c : Cls) (data : List Val) : Except Err State :=
  -- name = data[name_field.index]
  if data.length ≤ c.nameIdx then .error .indexError else
  let name := nameOf c data
  -- if name in self._name_to_id: raise SchemaError('... already exists')
  let dup : Except Err Unit :=
    match name with
    | none => .ok ()
    | some n =>
      match mget s.nameToId n with
      | none => .ok ()
      | some other =>
        match getById s other with
        | .ok _ => .error .schemaError
        | .error e => .error e
  match dup with
  | .error e => .error e
  | .ok _ =>
    if (mget s.idToData id).isSome then .error .schemaError else
    -- ref_data = data[field.index] for every object-reference field
    if c.refIdxs.any (fun f => decide (data.length ≤ f)) then .error .indexError else
    match updateRefsTo s id c (fun _ => []) (fun f => refsAt c f data) with
    | .error e => .error e
    | .ok (rt, tg) =>
      match updateObjName s id c none name with
      | .error e => .error e
      | .ok nm =>
        -- late `name.module` access of the redundant module check
        if !c.isGlobal && name.isNone then .error .attributeError else
        .ok { idToData := mset s.idToData id data
              idToType := mset s.idToType id c
              nameToId := nm.n2i, shortNameToId := nm.sn, globalNameToId := nm.g
              refsTo := rt, refTargets := tg }

/-- the `for fieldname, value in updates.items()` loop of `update_obj`: the name
    maps (recomputed from `self` each time the `name` key is met) and the data -/
def updLoop (s : State) (id : Nat) (c : Cls) :
    List (Nat × Val) → List Val → Option NameMaps → Except Err (List Val × Option NameMaps)
  | [], d, nm => .ok (d, nm)
  | (f, v) :: rest, d, nm =>
    if d.length ≤ f then .error .indexError else     -- data[findex]
    let r : Except Err (Option NameMaps) :=
      if f = c.nameIdx then
        match updateObjName s id c (slot d f).name? v.name? with
        | .ok m => .ok (some m)
        | .error e => .error e
      else .ok nm
    match r with
    | .error e => .error e
    | .ok nm1 => updLoop s id c rest (d.set f v) nm1

/-- `update_obj(obj, updates)`; `c = type(obj)` -/
def updateObj (s : State) (id : Nat) (c : Cls) (ups : List (Nat × Val)) : Except Err State :=
  if ups.isEmpty then .ok s else
  let data0 := match mget s.idToData id with
    | some d => d
    | none => List.replicate c.nfields Val.nil
  match updLoop s id c ups data0 none with
  | .error e => .error e
  | .ok (data1, nm) =>
    let fields := ups.map (·.1)
    match updateRefsTo s id c
        (fun f => if fields.contains f then refsAt c f data0 else [])
        (fun f => if fields.contains f then refsAt c f data1 else []) with
    | .error e => .error e
    | .ok (rt, tg) =>
      let nm1 := nm.getD s.nameMaps
      .ok { s with idToData := mset s.idToData id data1
                   nameToId := nm1.n2i, shortNameToId := nm1.sn, globalNameToId := nm1.g
                   refsTo := rt, refTargets := tg }

/-- `set_obj_field(obj, fieldname, value)` -/
def setField (s : State) (id : Nat) (f : Nat) (v : Val) : Except Err State :=
  match mget s.idToData id with
  | none => .error .schemaError
  | some data =>
    match mget s.idToType id with
    | none => .error .keyError
    | some c =>
      let isRef := c.refIdxs.contains f
      -- `value.schema_reduce()` on None for a reducible field
      if isRef && v == Val.nil then .error .attributeError else
      if data.length ≤ f then .error .indexError else      -- data[findex] / data_list[findex] = value
      let rn : Except Err NameMaps :=
        if f = c.nameIdx then updateObjName s id c (slot data f).name? v.name? else .ok s.nameMaps
      match rn with
      | .error e => .error e
      | .ok nm =>
        let data1 := data.set f v
        let rr : Except Err (List Edge × List Nat) :=
          if isRef then
            updateRefsTo s id c (fun g => if g = f then refsAt c f data else [])
                                (fun g => if g = f then refsAt c f data1 else [])
          else .ok (s.refsTo, s.refTargets)
        match rr with
        | .error e => .error e
        | .ok (rt, tg) =>
          .ok { s with idToData := mset s.idToData id data1
                       nameToId := nm.n2i, shortNameToId := nm.sn, globalNameToId := nm.g
                       refsTo := rt, refTargets := tg }

/-- `unset_obj_field(obj, fieldname)` -/
def unsetField (s : State) (id : Nat) (f : Nat) : Except Err State :=
  match mget s.idToData id with
  | none => .ok s
  | some data =>
    match mget s.idToType id with
    | none => .error .keyError
    | some c =>
      if data.length ≤ f then .error .indexError else      -- orig_value = data[findex]
      if slot data f == Val.nil then .ok s else
      let rn : Except Err NameMaps :=
        if f = c.nameIdx then updateObjName s id c (slot data f).name? none else .ok s.nameMaps
      match rn with
      | .error e => .error e
      | .ok nm =>
        let data1 := data.set f Val.nil
        let rr : Except Err (List Edge × List Nat) :=
          if c.refIdxs.contains f then
            updateRefsTo s id c (fun g => if g = f then refsAt c f data else []) (fun _ => [])
          else .ok (s.refsTo, s.refTargets)
        match rr with
        | .error e => .error e
        | .ok (rt, tg) =>
          .ok { s with idToData := mset s.idToData id data1
                       nameToId := nm.n2i, shortNameToId := nm.sn, globalNameToId := nm.g
                       refsTo := rt, refTargets := tg }

/-- `_delete(obj)` / `delete(obj)`; `c = type(obj)` -/
def delete (s : State) (id : Nat) (c : Cls) : Except Err State :=
  match mget s.idToData id with
  | none => .error .invalidReference
  | some data =>
    if data.length ≤ c.nameIdx then .error .indexError else     -- name = data[name_field.index]
    match updateObjName s id c (nameOf c data) none with
    | .error e => .error e
    | .ok nm =>
      if c.refIdxs.any (fun f => decide (data.length ≤ f)) then .error .indexError else
      match updateRefsTo s id c (fun f => refsAt c f data) (fun _ => []) with
      | .error e => .error e
      | .ok (rt, tg) =>
        -- `self._id_to_type.delete(obj.id)`
        if (mget s.idToType id).isNone then .error .keyError else
        .ok { idToData := merase s.idToData id
              idToType := merase s.idToType id
              nameToId := nm.n2i, shortNameToId := nm.sn, globalNameToId := nm.g
              refsTo := rt, refTargets := tg }

/-- `discard(obj)` -/
def discard (s : State) (id : Nat) (c : Cls) : Except Err State :=
  if (mget s.idToData id).isSome then delete s id c else .ok s

/-- `delist(name)` -/
def delist (s : State) (n : Name) : Except Err State :=
  if (mget s.nameToId n).isSome then .ok { s with nameToId := merase s.nameToId n }
  else .error .keyError

inductive RawOp where
  | addRaw (id : Nat) (c : Cls) (data : List Val)
  | updateObj (id : Nat) (c : Cls) (ups : List (Nat × Val))
  | setField (id : Nat) (f : Nat) (v : Val)
  | unsetField (id : Nat) (f : Nat)
  | delete (id : Nat) (c : Cls)
  | discard (id : Nat) (c : Cls)
  | delist (n : Name)
deriving Repr

def step (s : State) : RawOp → Except Err State
  | .addRaw id c d => addRaw s id c d
  | .updateObj id c u => updateObj s id c u
  | .setField id f v => setField s id f v
  | .unsetField id f => unsetField s id f
  | .delete id c => delete s id c
  | .discard id c => discard s id c
  | .delist n => delist s n

/-- what the caller holds after the call: the new schema, or the old one and the
    exception -/
def apply (s : State) (op : RawOp) : State × Option Err :=
  match step s op with
  | .ok s' => (s', none)
  | .error e => (s, some e)

/-! ### public read API (what the oracle uses on the real object) -/

def present (s : State) (id : Nat) : Bool := (mget s.idToData id).isSome

/-- `get_referrers(obj)` (all classes, all fields) -/
def referrers (s : State) (id : Nat) : List Nat :=
  ((s.refsTo.filter (fun e => e.tgt = id)).map (·.src)).eraseDups

/-! ### guarded command layer (models the discipline of `delta.py`)

`create` / `alter` only with references into the current schema; `drop` deletes
the object together with its owned children (refdict members, transitively) and
is refused — `DeleteObject._delete_finalize`: "cannot drop … because other
objects in the schema depend on it" — when an object outside that set still
refers to a member. A refused or failed command leaves the schema as it was. -/

def allRefs (c : Cls) (d : List Val) : List Nat := c.refIdxs.flatMap (fun f => refsAt c f d)

def ownedChildren (s : State) (id : Nat) : List Nat :=
  match mget s.idToType id, mget s.idToData id with
  | some c, some d => c.ownFields.flatMap (fun f => refsAt c f d)
  | _, _ => []

/-- owned closure of the work list, children before nothing in particular;
    `fuel` bounds the walk (the safety theorems hold for every fuel). -/
def collect (s : State) : Nat → List Nat → List Nat → List Nat
  | 0, _, acc => acc
  | _ + 1, [], acc => acc
  | fuel + 1, x :: todo, acc =>
    if acc.contains x || !present s x then collect s fuel todo acc
    else collect s fuel (ownedChildren s x ++ todo) (x :: acc)

/-- delete the listed objects, each with the class the schema records for it -/
def deleteAll (s : State) : List Nat → Except Err State
  | [] => .ok s
  | x :: xs =>
    match mget s.idToType x with
    | none => .error .invalidReference
    | some c =>
      match delete s x c with
      | .error e => .error e
      | .ok s1 => deleteAll s1 xs

inductive Cmd where
  | create (id : Nat) (c : Cls) (data : List Val)
  | alter (id : Nat) (ups : List (Nat × Val))
  | setf (id : Nat) (f : Nat) (v : Val)
  | unsetf (id : Nat) (f : Nat)
  | drop (id : Nat)
  /-- the conditional drop (`DeleteObject(if_exists, if_unused)`) that garbage-collects
      implicit types: skipped unless nothing (but the object itself) refers to it -/
  | dropUnused (id : Nat)
deriving Repr

def dropSet (s : State) (id : Nat) : List Nat := collect s (s.idToData.length + 1) [id] []

def runCmd (s : State) : Cmd → Except Err State
  | .create id c data =>
    if (allRefs c data).all (present s) then addRaw s id c data
    else .error .invalidReference
  | .alter id ups =>
    match mget s.idToType id with
    | none => .error .invalidReference
    | some c =>
      if decide (ups.map (·.1)).Nodup && ups.all (fun p => (refsOfField c p.1 p.2).all (present s))
      then updateObj s id c ups
      else .error .invalidReference
  | .setf id f v =>
    match mget s.idToType id with
    | none => .error .invalidReference
    | some c =>
      if (refsOfField c f v).all (present s) then setField s id f v
      else .error .invalidReference
  | .unsetf id f => unsetField s id f
  | .drop id =>
    if !present s id then .error .invalidReference else
    let ds := dropSet s id
    -- _delete_finalize: a referrer that is not itself being deleted blocks the drop
    if ds.all (fun x => (referrers s x).all (fun r => ds.contains r)) then deleteAll s ds
    else .error .schemaError
  | .dropUnused id =>
    if !present s id then .ok s else                   -- if_exists: nothing to do
    -- _has_outside_references: any referrer that is not going away keeps the object
    if [id].all (fun x => (referrers s x).all (fun r => [id].contains r)) then deleteAll s [id]
    else .ok s

def applyCmd (s : State) (cmd : Cmd) : State × Option Err :=
  match runCmd s cmd with
  | .ok s' => (s', none)
  | .error e => (s, some e)

def runCmds (cmds : List Cmd) (s : State) : State :=
  cmds.foldl (fun s c => (applyCmd s c).1) s

end EdbVerif.Store
