/-
Specification vocabulary for the remote path of C17 (Model/SyncMT.lean).  Core Lean only.
-/
import EdbVerif.Model.SyncMT
import EdbVerif.Model.SyncSpec

namespace EdbVerif.SyncMT
open EdbVerif.Sync

/-- a slot of a client-schema version on the compiler server -/
def CS.get (v : CS) : Slot → Option St
  | .schema db => (v.dbs db).map (·.schema)
  | .refl db => (v.dbs db).map (·.refl)
  | .dbcfg db => (v.dbs db).map (·.dbcfg)
  | .glob => some v.glob
  | .sys => some v.sys

/-- its content -/
def CS.cont (v : CS) (σ : Slot) : Option Tok := (v.get σ).map (·.tok)

/-- a slot of what a worker process holds for a client -/
def WClient.get (x : WClient) : Slot → Option Tok
  | .schema db => (x.dbs db).map (·.schema)
  | .refl db => (x.dbs db).map (·.refl)
  | .dbcfg db => (x.dbs db).map (·.dbcfg)
  | .glob => some x.glob
  | .sys => some x.sys

/-- the worker process holds exactly (the content of) version `v`: every slot of every
    database, and no other database -/
def Holds (x : WClient) (v : CS) : Prop := ∀ σ, x.get σ = v.cont σ

/-- "the compiler server records version `v` of client `c` for worker `w` ⇒ `w` holds
    exactly `v`" -/
def RecordExact (st : MTState) : Prop :=
  ∀ w c v, cacheGet (st.wk w).cache c = some v →
    ∃ x, (st.wk w).act c = some x ∧ Holds x v

/-- tier 1 ⇒ tier 2: what the EdgeDB server of client `c` believes the compiler server
    holds is what it holds -/
def Agree1 (st : MTState) (c : Nat) : Prop :=
  ∀ σ t, (st.bel c).get σ = some t → ∃ v, st.cli c = some v ∧ v.cont σ = some t

/-- the five parts the compiler server currently holds for `(c, db)`, as contents -/
def currentOf (v : CS) (db : Nat) : Option Used :=
  match v.dbs db with
  | some d => some ⟨d.schema.tok, v.glob.tok, d.refl.tok, d.dbcfg.tok, v.sys.tok⟩
  | none => none

/-- the request was compiled against the compiler server's current state (after its own
    `_sync`) of that client and database -/
def MObs.usedCurrent (o : MObs) (st' : MTState) (q : MReq) : Prop :=
  ∀ u, o.used = some u → ∃ v, st'.cli q.c = some v ∧ currentOf v q.r.db = some u

def MObs.usedSupplied (o : MObs) (q : MReq) : Prop :=
  ∀ u, o.used = some u → u = q.r.supplied

/-- no request of the history ended in `FailedStateSync` -/
def NoFailedSync (env : Env) (st : MTState) (h : List MReq) : Prop :=
  ∀ o ∈ traceMT env st h, o.res ≠ .syncFail

/-- no request of the history ended with status 2 from the worker -/
def NoStatus2MT (h : List MReq) : Prop := ∀ q ∈ h, q.r.out ≠ .resultUnpicklable

end EdbVerif.SyncMT
