/-
Model of the compiler-pool delta-sync protocol (C17).

Code modelled (read line by line):

* `edb/server/compiler_pool/pool.py`
    - `AbstractPool._compute_compile_preargs`  → `preargs`
    - its inner `sync_worker_state_cb`          → `ack`
    - `BaseWorker.call`                         → the status dispatch in `stepCompile` / `stepTx`
    - `AbstractPool.compile`                    → `stepCompile`
    - `AbstractPool.compile_in_tx`              → `txSend`, `stepTx`
* `edb/server/compiler_pool/worker.py`
    - `__sync__`                                → `wsync`
    - `compile`, `compile_in_tx`                → worker halves of `stepCompile` / `stepTx`
* `edb/server/compiler_pool/worker_proc.py::worker` (status 0 / 1 / 2 framing)

Values are *identity tokens* (`Tok = Nat`): the server compares with `is`,
never with `==`, so two tokens are "the same" iff they are the same number.
`Env.bad t` says that unpickling the payload of `t` in the worker raises.
`Env.falsy t` says that the Python object behind `t` is falsy (an empty
`immutables.Map`, `b''`); since repair 2709780 (`old if new is None else new`
instead of `new or old`) nothing in this model depends on it — it is kept for
Model/SyncBuggy.lean, which preserves the pre-repair transitions.

Maps (`immutables.Map`) are total functions into `Option`; the set of workers
is `Nat` (every worker starts from the same init args).  Which worker serves a
request is an input of the request (the pool's queue decides in reality; the
theorems hold for every choice).

Core Lean only (no Mathlib): this file is also loaded by the line-protocol
driver.
-/
namespace EdbVerif.Sync

abbrev Tok := Nat

/-- What the model needs to know about the Python objects behind tokens. -/
structure Env where
  /-- `not bool(obj)` -/
  falsy : Tok → Bool
  /-- `pickle.loads(payload(obj))` raises in the worker -/
  bad : Tok → Bool

/-- The concrete encoding used by the driver, the harness and the concrete
    counter-histories: bit 0 of a token = falsy, bit 1 = cannot be unpickled. -/
def tokEnv : Env where
  falsy := fun t => t % 2 == 1
  bad := fun t => (t / 2) % 2 == 1

/-- `PickledDatabaseState` (server) / `DatabaseState` (worker): the three
    per-database parts. -/
structure Db3 where
  schema : Tok
  refl : Tok
  dbcfg : Tok
deriving DecidableEq, Repr

/-- One side of the protocol.  For the server (`BaseWorker`) the fields are
    `_dbs`, `_global_schema_pickle`, `_system_config`, `_last_pickled_state`;
    for the worker process they are `DBS`, `GLOBAL_SCHEMA`, `INSTANCE_CONFIG`,
    `LAST_STATE`. -/
structure Side where
  dbs : Nat → Option Db3
  glob : Tok
  sys : Tok
  /-- For the server: the identity of `_last_pickled_state`.  For the worker:
      the *content version* of the `LAST_STATE` object — the pickle `t` was made
      from version `t`; an in-place mutation of the object gives it a new
      version. -/
  last : Option Tok

/-- `Map.set` -/
def setDb (m : Nat → Option Db3) (k : Nat) (v : Db3) : Nat → Option Db3 :=
  fun i => if i = k then some v else m i

/-- A pooled worker: what the server believes (`bel`) and what the worker
    process holds (`act`). -/
structure WState where
  bel : Side
  act : Side

abbrev State := Nat → WState

def upd (st : State) (w : Nat) (ws : WState) : State :=
  fun i => if i = w then ws else st i

/-- All workers are created from the same init args (`__init_worker__`):
    belief = actual = those args, no last state. -/
def initState (s : Side) : State := fun _ => ⟨{ s with last := none }, { s with last := none }⟩

/-- The five transmitted parts (`None` = not sent); also the `to_update`
    kwargs of the callback. Field order = wire order of `compile`'s
    arguments: user_schema, reflection_cache, global_schema, database_config,
    system_config. -/
structure Parts where
  schema : Option Tok
  refl : Option Tok
  glob : Option Tok
  dbcfg : Option Tok
  sys : Option Tok
deriving DecidableEq, Repr

def Parts.isEmpty (p : Parts) : Bool :=
  p.schema.isNone && p.refl.isNone && p.glob.isNone && p.dbcfg.isNone && p.sys.isNone

/-- What the worker-side compiler entry point does with a `compile` call. -/
inductive COut where
  /-- returns `(units, cstate)` -/
  | ok
  /-- returns `(units, None)` -/
  | okNoState
  /-- raises (an ordinary compilation error) -/
  | raise
  /-- returns a `cstate` whose `pickle.dumps` raises (before `LAST_STATE` is assigned) -/
  | statePickleFail
  /-- returns `units` that cannot be pickled: `worker_proc.worker` answers status 2
      (also: any reply the server cannot read or does not wait for — `pickle.loads(data)`
      fails in `BaseWorker.call`, the call is cancelled in flight) -/
  | resultUnpicklable
  /-- the compiler is never reached, nor is `__sync__`: `worker_proc.worker` cannot
      unpickle the request (e.g. a compile argument) or `get_handler` fails; it answers
      status 1 with a `FailedStateSync` (since 3499a3b; an ordinary exception before) -/
  | requestUnreadable
deriving DecidableEq, Repr

/-- One `AbstractPool.compile(dbname, user_schema_pickle, global_schema_pickle,
    reflection_cache, database_config, system_config, …)` served by worker `w`.
    `ns` is the identity of the compiler state the compiler returns. -/
structure CReq where
  w : Nat
  db : Nat
  schema : Tok
  refl : Tok
  glob : Tok
  dbcfg : Tok
  sys : Tok
  out : COut
  ns : Tok
deriving DecidableEq, Repr

/-- `_compute_compile_preargs`: a part is sent iff the belief `is not` the
    supplied object; everything is sent when the worker is not known to have
    the database. -/
def preargs (b : Side) (r : CReq) : Parts :=
  match b.dbs r.db with
  | none => ⟨some r.schema, some r.refl, some r.glob, some r.dbcfg, some r.sys⟩
  | some d =>
    { schema := if d.schema = r.schema then none else some r.schema
      refl := if d.refl = r.refl then none else some r.refl
      glob := if b.glob = r.glob then none else some r.glob
      dbcfg := if d.dbcfg = r.dbcfg then none else some r.dbcfg
      sys := if b.sys = r.sys then none else some r.sys }

/-- `sync_worker_state_cb(worker, dbname, **to_update)`; `none` = one of its
    `assert`s fails (never happens for `to_update = preargs`, see
    `Lemmas/Sync`).  A part that is not `None` replaces the believed one
    (`old if new is None else new`). -/
def ack (b : Side) (db : Nat) (p : Parts) : Option Side :=
  match b.dbs db with
  | none =>
    match p.schema, p.refl, p.glob, p.dbcfg, p.sys with
    | some s, some r, some g, some c, some y =>
      some { b with dbs := setDb b.dbs db ⟨s, r, c⟩, glob := g, sys := y }
    | _, _, _, _, _ => none
  | some d =>
    let dbs' :=
      if p.schema.isSome || p.refl.isSome || p.dbcfg.isSome then
        setDb b.dbs db ⟨p.schema.getD d.schema, p.refl.getD d.refl, p.dbcfg.getD d.dbcfg⟩
      else b.dbs
    some { b with dbs := dbs', glob := p.glob.getD b.glob, sys := p.sys.getD b.sys }

def badO (env : Env) : Option Tok → Bool
  | none => false
  | some t => env.bad t

/-- Worker `__sync__(dbname, user_schema, reflection_cache, global_schema,
    database_config, system_config)`: everything that was sent is unpickled
    first (inside the `try`); only then `DBS`, `GLOBAL_SCHEMA`,
    `INSTANCE_CONFIG` are assigned.  Returns the new worker state and the
    `DatabaseState` it returns, or `none` for `FailedStateSync` (worker state
    untouched). -/
def wsync (env : Env) (a : Side) (db : Nat) (p : Parts) : Side × Option Db3 :=
  match a.dbs db with
  | none =>
    match p.schema, p.refl, p.dbcfg with
    | some s, some r, some c =>
      if env.bad s || env.bad r || env.bad c || badO env p.glob || badO env p.sys then (a, none) else
      ({ a with dbs := setDb a.dbs db ⟨s, r, c⟩, glob := p.glob.getD a.glob, sys := p.sys.getD a.sys },
       some ⟨s, r, c⟩)
    | _, _, _ => (a, none)     -- AssertionError inside the try → FailedStateSync
  | some d0 =>
    if badO env p.schema || badO env p.refl || badO env p.dbcfg || badO env p.glob || badO env p.sys
    then (a, none) else
    let d : Db3 := ⟨p.schema.getD d0.schema, p.refl.getD d0.refl, p.dbcfg.getD d0.dbcfg⟩
    -- `if DBS.get(dbname) is not db: DBS = DBS.set(dbname, db)`
    let dbs' := if p.schema.isSome || p.refl.isSome || p.dbcfg.isSome then setDb a.dbs db d else a.dbs
    ({ a with dbs := dbs', glob := p.glob.getD a.glob, sys := p.sys.getD a.sys }, some d)

/-- What the worker-side compiler entry point was called with
    (`user_schema, global_schema, reflection_cache, database_config,
    system_config`). -/
structure Used where
  schema : Tok
  glob : Tok
  refl : Tok
  dbcfg : Tok
  sys : Tok
deriving DecidableEq, Repr

def CReq.supplied (r : CReq) : Used := ⟨r.schema, r.glob, r.refl, r.dbcfg, r.sys⟩

/-- How a request ends on the server side. -/
inductive Res where
  | ok
  /-- `FailedStateSync` -/
  | syncFail
  /-- the compiler's own exception -/
  | compErr
  /-- exception from `pickle.dumps(cstate)` in the worker function -/
  | statePickleErr
  /-- status 2: `RuntimeError('could not serialize result in worker subprocess')` -/
  | serErr
  /-- `AssertionError` (worker `compile_in_tx`: `LAST_STATE is None`) -/
  | assertErr
  /-- `KeyError` (`DBS[dbname]`) -/
  | keyErr
  /-- unpickling the state / schema in `compile_in_tx` failed -/
  | unpickleErr
  /-- `pickle.loads(None)` -/
  | typeErr
  /-- an `assert` of `sync_worker_state_cb` failed (unreachable) -/
  | cbAssert
deriving DecidableEq, Repr

structure CObs where
  sent : Parts
  /-- `callback is not None` -/
  hasCb : Bool
  res : Res
  used : Option Used
deriving DecidableEq, Repr

/-- apply the acknowledgement callback (if any) -/
def withAck (b : Side) (db : Nat) (p : Parts) : Option Side :=
  if p.isEmpty then some b else ack b db p

/-- `worker._last_pickled_state = None` -/
def Side.forget (b : Side) : Side := { b with last := none }

/-- `AbstractPool.compile` on worker `r.w` when the worker can read the request, with `BaseWorker.call`'s status
    handling: the callback runs on status 0 and on status 1 with an exception
    that is not `FailedStateSync`; never on status 2.  The worker assigns
    `LAST_STATE` after `pickle.dumps(cstate)` succeeded; the pool forgets
    `_last_pickled_state` whenever `worker.call` raises. -/
def stepCompileRun (env : Env) (st : State) (r : CReq) : State × CObs :=
  let ws := st r.w
  let p := preargs ws.bel r
  let cb := !p.isEmpty
  match wsync env ws.act r.db p with
  | (a', none) =>
    (upd st r.w ⟨ws.bel.forget, a'⟩, ⟨p, cb, .syncFail, none⟩)
  | (a', some d) =>
    let used : Used := ⟨d.schema, a'.glob, d.refl, d.dbcfg, a'.sys⟩
    -- worker side: LAST_STATE
    let aLast : Option Tok := match r.out with
      | .ok | .resultUnpicklable => some r.ns
      | .okNoState => none
      | .raise | .statePickleFail | .requestUnreadable => a'.last
    let a'' := { a' with last := aLast }
    match r.out with
    | .resultUnpicklable =>
      (upd st r.w ⟨ws.bel.forget, a''⟩, ⟨p, cb, .serErr, some used⟩)
    | out =>
      match withAck ws.bel r.db p with
      | none => (upd st r.w ⟨ws.bel.forget, a''⟩, ⟨p, cb, .cbAssert, some used⟩)
      | some b' =>
        match out with
        | .ok => (upd st r.w ⟨{ b' with last := some r.ns }, a''⟩, ⟨p, cb, .ok, some used⟩)
        | .okNoState => (upd st r.w ⟨{ b' with last := none }, a''⟩, ⟨p, cb, .ok, some used⟩)
        | .raise => (upd st r.w ⟨b'.forget, a''⟩, ⟨p, cb, .compErr, some used⟩)
        | _ => (upd st r.w ⟨b'.forget, a''⟩, ⟨p, cb, .statePickleErr, some used⟩)

/-- The request never reaches `__sync__`: `worker_proc.worker` cannot unpickle it (or
    `get_handler` fails).  Since 3499a3b it answers status 1 with a `FailedStateSync`
    ("request not processed"): `BaseWorker.call` does not run the acknowledgement
    callback, `pool.compile` forgets `_last_pickled_state`; nothing else changes. -/
def stepCompileLost (st : State) (r : CReq) : State × CObs :=
  let ws := st r.w
  let p := preargs ws.bel r
  (upd st r.w ⟨ws.bel.forget, ws.act⟩, ⟨p, !p.isEmpty, .syncFail, none⟩)

/-- `AbstractPool.compile` on worker `r.w` -/
def stepCompile (env : Env) (st : State) (r : CReq) : State × CObs :=
  if r.out = .requestUnreadable then stepCompileLost st r else stepCompileRun env st r

/-! ### compile_in_tx -/

inductive TOut where
  | ok
  /-- the compiler raises without having touched the state it was given -/
  | raise
  /-- the compiler MUTATES the state it was given in place and then raises
      (e.g. `release savepoint a; select 1`, or `set alias …; select nonexistent`).
      With the REUSE marker that object is the worker's `LAST_STATE` itself:
      its content becomes `ns` although nothing is returned. -/
  | raiseMutated
  | statePickleFail
  | resultUnpicklable
deriving DecidableEq, Repr

/-- `AbstractPool.compile_in_tx(dbname, user_schema_pickle, txid,
    pickled_state, …)` served by worker `w`. -/
structure TReq where
  w : Nat
  db : Nat
  schema : Tok
  pstate : Option Tok
  out : TOut
  ns : Tok
deriving DecidableEq, Repr

/-- what goes on the wire as `(dbname, user_schema, cstate)` -/
inductive TxSend where
  /-- `(None, None, REUSE_LAST_STATE_MARKER)` -/
  | reuse
  /-- `(dbname, None, pickled_state)` -/
  | byName
  /-- `(None, user_schema_pickle, pickled_state)` -/
  | bySchema
deriving DecidableEq, Repr

def txSend (b : Side) (r : TReq) : TxSend :=
  if b.last = r.pstate then .reuse
  else match b.dbs r.db with
    | none => .bySchema
    | some d => if d.schema = r.schema then .byName else .bySchema

/-- what the in-transaction compiler entry point received: the compiler state
    and, when it was (re)set by this call, its root user schema. -/
structure UsedTx where
  cstate : Tok
  root : Option Tok
deriving DecidableEq, Repr

structure TObs where
  send : TxSend
  res : Res
  used : Option UsedTx
deriving DecidableEq, Repr

/-- worker `compile_in_tx` up to the compiler call -/
def wtxPrepare (env : Env) (a : Side) (r : TReq) (s : TxSend) : Except Res UsedTx :=
  match s with
  | .reuse =>
    match a.last with
    | none => .error .assertErr
    | some c => .ok ⟨c, none⟩
  | .byName =>
    match r.pstate with
    | none => .error .typeErr
    | some p =>
      if env.bad p then .error .unpickleErr else
      match a.dbs r.db with
      | none => .error .keyErr
      | some d => .ok ⟨p, some d.schema⟩
  | .bySchema =>
    match r.pstate with
    | none => .error .typeErr
    | some p =>
      if env.bad p then .error .unpickleErr else
      if env.bad r.schema then .error .unpickleErr else
      .ok ⟨p, some r.schema⟩

def stepTx (env : Env) (st : State) (r : TReq) : State × TObs :=
  let ws := st r.w
  let s := txSend ws.bel r
  match wtxPrepare env ws.act r s with
  | .error e => (upd st r.w ⟨ws.bel.forget, ws.act⟩, ⟨s, e, none⟩)
  | .ok u =>
    match r.out with
    | .raise => (upd st r.w ⟨ws.bel.forget, ws.act⟩, ⟨s, .compErr, some u⟩)
    | .raiseMutated =>
      match s with
      | .reuse =>     -- `cstate = LAST_STATE`: the in-place mutation survives the exception
        (upd st r.w ⟨ws.bel.forget, { ws.act with last := some r.ns }⟩, ⟨s, .compErr, some u⟩)
      | _ =>          -- a freshly unpickled object was mutated and is dropped
        (upd st r.w ⟨ws.bel.forget, ws.act⟩, ⟨s, .compErr, some u⟩)
    | .ok =>
      (upd st r.w ⟨{ ws.bel with last := some r.ns }, { ws.act with last := some r.ns }⟩,
       ⟨s, .ok, some u⟩)
    | .statePickleFail =>   -- `LAST_STATE` is assigned after the pickling
      (upd st r.w ⟨ws.bel.forget, ws.act⟩, ⟨s, .statePickleErr, some u⟩)
    | .resultUnpicklable =>
      (upd st r.w ⟨ws.bel.forget, { ws.act with last := some r.ns }⟩, ⟨s, .serErr, some u⟩)

/-! ### histories -/

inductive Req where
  | compile (r : CReq)
  | tx (r : TReq)
deriving DecidableEq, Repr

inductive Obs where
  | compile (o : CObs)
  | tx (o : TObs)
deriving DecidableEq, Repr

def step (env : Env) (st : State) : Req → State × Obs
  | .compile r => let (s, o) := stepCompile env st r; (s, .compile o)
  | .tx r => let (s, o) := stepTx env st r; (s, .tx o)

/-- state after a history -/
def exec (env : Env) (st : State) : List Req → State
  | [] => st
  | q :: qs => exec env (step env st q).1 qs

/-- observations of a history -/
def trace (env : Env) (st : State) : List Req → List Obs
  | [] => []
  | q :: qs => (step env st q).2 :: trace env (step env st q).1 qs

end EdbVerif.Sync
