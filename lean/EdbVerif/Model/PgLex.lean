/-
PostgreSQL lexical rules needed by C18 — a SPECIFICATION, not a model of code in
/repo.  TRUSTED: it is my transcription of the PostgreSQL documentation
(chapter 4.1 "Lexical Structure": 4.1.1 identifiers and key words, 4.1.2.1
string constants, 4.1.2.2 string constants with C-style escapes; 8.4 binary
data types: bytea hex format and escape format), for a server with
`standard_conforming_strings = on` (the default since 9.1) and a UTF-8 database.
There is no PostgreSQL in the sandbox to arbitrate; nothing ties this file to
an implementation.

Rules transcribed
  * `'…'`: no escapes; a quote inside is written `''`; the constant ends at a
    `'` that is not followed by another `'`; two constants separated only by
    white space containing at least one newline are one constant (the
    continuation rule).
  * `E'…'` (also `e'…'`): additionally `\b \f \n \r \t`, `\o \oo \ooo`,
    `\xh \xhh`, `\uxxxx`, `\Uxxxxxxxx`; any other character after a backslash
    stands for itself (so `\\` is a backslash and `\'` a quote).  Escapes that
    denote a byte ≥ 0x80 or code point 0 / a surrogate are outside this model
    (`PgErr.notModelled` / `badEscape`).
  * The NUL character cannot occur in a query string at all.
  * `"…"` delimited identifiers: `""` is a quote, never empty, no case folding,
    no key-word recognition.  Unquoted identifiers: a letter (a–z, A–Z, any
    non-ASCII character) or `_`, then letters, digits, `_`, `$`; folded to lower
    case (ASCII only in a multibyte encoding); key words are recognised after
    folding.  Names are truncated to NAMEDATALEN-1 = 63 bytes.
  * The key-word table is taken from `edb/pgsql/keywords.py`
    (`Gen/PgKeywords.lean`): ASSUMED to agree with the server's `kwlist.h`.
  * bytea input: hex format `\x` + pairs of hex digits (white space allowed
    between pairs); escape format otherwise (`\\`, `\ooo`, printable bytes).
-/
import EdbVerif.Gen.PgKeywords

namespace EdbVerif.PgLex

inductive PgErr where
  | unterminated     -- unterminated quoted string / identifier
  | nulChar          -- NUL cannot be part of a query
  | emptyIdent       -- zero-length delimited identifier
  | badEscape        -- invalid Unicode escape / byte value 0
  | badBytea         -- invalid input syntax for type bytea
  | notThisForm      -- the input does not start with the form asked for
  | stringPrefix     -- identifier directly followed by a quote: e'…', b'…', x'…', n'…', u&'…'
  | notModelled
deriving Repr, DecidableEq

abbrev R (α : Type) := Except PgErr α

/-- scan.l `space`: space, TAB, NL, CR, FF (and VT in recent versions) -/
def isSpace (c : Char) : Bool :=
  let n := c.toNat
  n = 32 || n = 9 || n = 10 || n = 13 || n = 12 || n = 11

def isNewline (c : Char) : Bool := c = '\n' || c = '\r'

def isDigit (c : Char) : Bool := 48 ≤ c.toNat && c.toNat ≤ 57
def isAsciiLetter (c : Char) : Bool :=
  (97 ≤ c.toNat && c.toNat ≤ 122) || (65 ≤ c.toNat && c.toNat ≤ 90)

/-- `ident_start`: `[A-Za-z\200-\377_]` (every non-ASCII character is made of
    bytes ≥ 0x80) -/
def isIdentStart (c : Char) : Bool := isAsciiLetter c || c = '_' || 128 ≤ c.toNat
/-- `ident_cont`: `[A-Za-z\200-\377_0-9\$]` -/
def isIdentCont (c : Char) : Bool := isIdentStart c || isDigit c || c = '$'

def asciiLower (c : Char) : Char :=
  if 65 ≤ c.toNat && c.toNat ≤ 90 then Char.ofNat (c.toNat + 32) else c

def utf8Len (s : List Char) : Nat := (s.map Char.utf8Size).sum

/-- truncation to NAMEDATALEN-1 bytes at a character boundary -/
def clip : Nat → List Char → List Char
  | _, [] => []
  | budget, c :: cs => if c.utf8Size ≤ budget then c :: clip (budget - c.utf8Size) cs else []

def nameDataLen : Nat := 64

/-! ### string constants -/

inductive St where
  | inStr
  | close (restAtClose : List Char)                       -- just read a `'` inside the constant
  | gap (sawNewline : Bool) (restAtClose : List Char)     -- white space after the closing quote

/-- `'…'` after the opening quote.  Returns (value, rest).  `close` = a quote
    was just read (it either doubles or closes); `gap` = after a closing quote,
    looking for a continuation. -/
def stdStr : St → List Char → R (List Char × List Char)
  | .inStr, [] => .error .unterminated
  | .inStr, c :: cs =>
    if c = '\'' then stdStr (.close cs) cs
    else if c.toNat = 0 then .error .nulChar
    else match stdStr .inStr cs with
      | .ok (v, r) => .ok (c :: v, r)
      | .error e => .error e
  | .close r0, [] => .ok ([], r0)
  | .close r0, c :: cs =>
    if c = '\'' then
      match stdStr .inStr cs with
      | .ok (v, r) => .ok ('\'' :: v, r)
      | .error e => .error e
    else if isSpace c then stdStr (.gap (isNewline c) r0) cs
    else .ok ([], r0)
  | .gap _ r0, [] => .ok ([], r0)
  | .gap nl r0, c :: cs =>
    if isSpace c then stdStr (.gap (nl || isNewline c) r0) cs
    else if c = '\'' ∧ nl = true then stdStr .inStr cs
    else .ok ([], r0)

/-- does `rest` (the text right after a closing quote) continue the constant? -/
def continues : Bool → List Char → Bool
  | _, [] => false
  | nl, c :: cs =>
    if isSpace c then continues (nl || isNewline c) cs
    else c = '\'' && nl

/-- a standard string constant at the head of the input -/
def lexStd (cs : List Char) : R (List Char × List Char) :=
  match cs with
  | c :: t => if c = '\'' then stdStr .inStr t else .error .notThisForm
  | [] => .error .notThisForm

def hexVal (c : Char) : Option Nat :=
  let n := c.toNat
  if 48 ≤ n && n ≤ 57 then some (n - 48)
  else if 97 ≤ n && n ≤ 102 then some (n - 87)
  else if 65 ≤ n && n ≤ 70 then some (n - 55)
  else none

def octVal (c : Char) : Option Nat :=
  if 48 ≤ c.toNat && c.toNat ≤ 55 then some (c.toNat - 48) else none

def hexAll : List Char → Nat → Option Nat
  | [], acc => some acc
  | c :: cs, acc => match hexVal c with
    | some d => hexAll cs (acc * 16 + d)
    | none => none

def codePoint? (n : Nat) : R Char :=
  if n = 0 then .error .badEscape
  else if n < 0xd800 ∨ (0xdfff < n ∧ n < 0x110000) then .ok (Char.ofNat n)
  else .error .notModelled   -- surrogate pairs

def byteChar? (n : Nat) : R Char :=
  if n = 0 then .error .badEscape
  else if n < 128 then .ok (Char.ofNat n)
  else .error .notModelled   -- raw high byte: must combine to valid UTF-8

/-- decode the escape that follows a backslash in an `E'…'` constant:
    (character, number of input characters used after the backslash) -/
def eEscapeAt (cs : List Char) : R (Char × Nat) :=
  match cs with
  | [] => .error .unterminated
  | d :: ds =>
    if d = 'b' then .ok (Char.ofNat 8, 1)
    else if d = 'f' then .ok (Char.ofNat 12, 1)
    else if d = 'n' then .ok ('\n', 1)
    else if d = 'r' then .ok ('\r', 1)
    else if d = 't' then .ok ('\t', 1)
    else if d = 'x' then
      match ds with
      | a :: b :: _ =>
        match hexVal a, hexVal b with
        | some x, some y => (byteChar? (x * 16 + y)).map (·, 3)
        | some x, none => (byteChar? x).map (·, 2)
        | none, _ => .ok ('x', 1)
      | [a] => match hexVal a with
        | some x => (byteChar? x).map (·, 2)
        | none => .ok ('x', 1)
      | [] => .ok ('x', 1)
    else if d = 'u' then
      match ds with
      | a :: b :: c :: e :: _ =>
        match hexAll [a, b, c, e] 0 with
        | some n => (codePoint? n).map (·, 5)
        | none => .error .badEscape
      | _ => .error .badEscape
    else if d = 'U' then
      match ds with
      | a :: b :: c :: e :: f :: g :: h :: i :: _ =>
        match hexAll [a, b, c, e, f, g, h, i] 0 with
        | some n => (codePoint? n).map (·, 9)
        | none => .error .badEscape
      | _ => .error .badEscape
    else match octVal d with
      | some x =>
        match ds with
        | a :: b :: _ =>
          match octVal a, octVal b with
          | some y, some z => (byteChar? ((x * 64 + y * 8 + z) % 256)).map (·, 3)
          | some y, none => (byteChar? (x * 8 + y)).map (·, 2)
          | none, _ => (byteChar? x).map (·, 1)
        | [a] => match octVal a with
          | some y => (byteChar? (x * 8 + y)).map (·, 2)
          | none => (byteChar? x).map (·, 1)
        | [] => (byteChar? x).map (·, 1)
      | none => if d.toNat = 0 then .error .nulChar else .ok (d, 1)

inductive ESt where
  | inStr (drop : Nat)
  | close (restAtClose : List Char)
  | gap (sawNewline : Bool) (restAtClose : List Char)

/-- `E'…'` after the opening quote -/
def escStr : ESt → List Char → R (List Char × List Char)
  | .inStr _, [] => .error .unterminated
  | .inStr (n + 1), _ :: cs => escStr (.inStr n) cs
  | .inStr 0, c :: cs =>
    if c = '\'' then escStr (.close cs) cs
    else if c = '\\' then
      match eEscapeAt cs with
      | .error e => .error e
      | .ok (ch, n) =>
        match escStr (.inStr n) cs with
        | .ok (v, r) => .ok (ch :: v, r)
        | .error e => .error e
    else if c.toNat = 0 then .error .nulChar
    else match escStr (.inStr 0) cs with
      | .ok (v, r) => .ok (c :: v, r)
      | .error e => .error e
  | .close r0, [] => .ok ([], r0)
  | .close r0, c :: cs =>
    if c = '\'' then
      match escStr (.inStr 0) cs with
      | .ok (v, r) => .ok ('\'' :: v, r)
      | .error e => .error e
    else if isSpace c then escStr (.gap (isNewline c) r0) cs
    else .ok ([], r0)
  | .gap _ r0, [] => .ok ([], r0)
  | .gap nl r0, c :: cs =>
    if isSpace c then escStr (.gap (nl || isNewline c) r0) cs
    else if c = '\'' ∧ nl = true then escStr (.inStr 0) cs
    else .ok ([], r0)

/-- an escape string constant `E'…'` / `e'…'` at the head of the input -/
def lexEsc (cs : List Char) : R (List Char × List Char) :=
  match cs with
  | c :: d :: t => if (c = 'E' ∨ c = 'e') ∧ d = '\'' then escStr (.inStr 0) t else .error .notThisForm
  | _ => .error .notThisForm

/-! ### identifiers -/

inductive IdTok where
  | ident (name : List Char)
  | keyword (name : List Char) (category : Nat)  -- 1 unreserved 2 reserved 3 type_func_name 4 col_name
deriving Repr, DecidableEq

/-- `"…"` after the opening quote: (raw value, rest) -/
def scanDq : List Char → R (List Char × List Char)
  | [] => .error .unterminated
  | [c] =>
    if c = '"' then .ok ([], [])
    else if c.toNat = 0 then .error .nulChar
    else .error .unterminated
  | c :: d :: ds =>
    if c = '"' then
      if d = '"' then
        match scanDq ds with
        | .ok (v, r) => .ok ('"' :: v, r)
        | .error e => .error e
      else .ok ([], d :: ds)
    else if c.toNat = 0 then .error .nulChar
    else match scanDq (d :: ds) with
      | .ok (v, r) => .ok (c :: v, r)
      | .error e => .error e

open EdbVerif.Gen in
def keywordCategory (s : List Char) : Option Nat :=
  if PgKeywords.unreserved.contains s then some 1
  else if PgKeywords.reserved.contains s then some 2
  else if PgKeywords.typeFuncName.contains s then some 3
  else if PgKeywords.colName.contains s then some 4
  else none

/-- `ident_cont*` -/
def identTail : List Char → List Char × List Char
  | [] => ([], [])
  | c :: cs => if isIdentCont c then
      match identTail cs with
      | (n, r) => (c :: n, r)
    else ([], c :: cs)

/-- an identifier or key word (quoted or not) at the head of the input -/
def lexIdent (cs : List Char) : R (IdTok × List Char) :=
  match cs with
  | [] => .error .notThisForm
  | c :: t =>
    if c = '"' then
      match scanDq t with
      | .error e => .error e
      | .ok (v, r) => if v.isEmpty then .error .emptyIdent
                      else .ok (.ident (clip (nameDataLen - 1) v), r)
    else if isIdentStart c then
      match identTail t with
      | (n, r) =>
        let name := (c :: n).map asciiLower
        -- prefixes that glue to a following quote: other token kinds
        if r.head? = some '\'' ∧ (name = ['e'] ∨ name = ['b'] ∨ name = ['x'] ∨ name = ['n']) then
          .error .stringPrefix
        else if name = ['u'] ∧ (r.take 2 = ['&', '\''] ∨ r.take 2 = ['&', '"']) then
          .error .stringPrefix
        else match keywordCategory name with
          | some k => .ok (.keyword name k, r)
          | none => .ok (.ident (clip (nameDataLen - 1) name), r)
    else .error .notThisForm

/-! ### bytea -/

/-- hex format after `\x`: pairs of hex digits, white space allowed between pairs -/
def byteaHex : List Char → R (List UInt8)
  | [] => .ok []
  | [c] => if isSpace c then .ok [] else .error .badBytea
  | c :: d :: t =>
    if isSpace c then byteaHex (d :: t)
    else match hexVal c, hexVal d with
      | some x, some y =>
        match byteaHex t with
        | .ok r => .ok (UInt8.ofNat (x * 16 + y) :: r)
        | .error e => .error e
      | _, _ => .error .badBytea

/-- escape format: `\\`, `\ooo` (000–377), other ASCII characters literally.
    Non-ASCII input is outside this model. -/
def byteaEscAt (cs : List Char) : R (UInt8 × Nat) :=
  match cs with
  | d :: e :: f :: _ =>
    if d = '\\' then .ok (92, 1)
    else match octVal d, octVal e, octVal f with
      | some x, some y, some z =>
        if x ≤ 3 then .ok (UInt8.ofNat (x * 64 + y * 8 + z), 3) else .error .badBytea
      | _, _, _ => .error .badBytea
  | d :: _ => if d = '\\' then .ok (92, 1) else .error .badBytea
  | [] => .error .badBytea

def byteaEsc : Nat → List Char → R (List UInt8)
  | _, [] => .ok []
  | n + 1, _ :: cs => byteaEsc n cs
  | 0, c :: cs =>
    if c = '\\' then
      match byteaEscAt cs with
      | .error e => .error e
      | .ok (b, n) =>
        match byteaEsc n cs with
        | .ok r => .ok (b :: r)
        | .error e => .error e
    else if 128 ≤ c.toNat then .error .notModelled
    else match byteaEsc 0 cs with
      | .ok r => .ok (UInt8.ofNat c.toNat :: r)
      | .error e => .error e

/-- `byteain` -/
def byteaIn (v : List Char) : R (List UInt8) :=
  match v with
  | c :: d :: t => if c = '\\' ∧ d = 'x' then byteaHex t else byteaEsc 0 v
  | _ => byteaEsc 0 v

/-- `'…'::bytea` at the head of the input: the string constant, the `::` token,
    the type name `bytea`; the value is what `byteain` makes of the constant. -/
def lexByteaLit (cs : List Char) : R (List UInt8 × List Char) :=
  match lexStd cs with
  | .error e => .error e
  | .ok (v, r) =>
    match r with
    | a :: b :: r' =>
      if a = ':' ∧ b = ':' then
        match lexIdent r' with
        | .ok (.ident name, r'') =>
          if name = ['b', 'y', 't', 'e', 'a'] then
            match byteaIn v with
            | .ok bs => .ok (bs, r'')
            | .error e => .error e
          else .error .notThisForm
        | .ok (_, _) => .error .notThisForm
        | .error e => .error e
      else .error .notThisForm
    | _ => .error .notThisForm

end EdbVerif.PgLex
