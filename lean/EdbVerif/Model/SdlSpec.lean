/-
Specification vocabulary for C11 (what the theorems in Props/C11.lean say).
Core Lean only.
-/
import EdbVerif.Model.Sdl
import EdbVerif.Model.TopoSpec

namespace EdbVerif.Sdl
open EdbVerif.Topo

/-- `a` has a traced hard dependency on the declared name `b` -/
def DepHard (d : Doc) (a b : Nat) : Prop :=
  ∃ it ∈ collect d, it.name = a ∧ b ∈ hardDeps (collect d) it ∧ b ∈ names d

/-- `b` is a loop-controlled member (scalar constraint) of `a` -/
def DepCtrl (d : Doc) (a b : Nat) : Prop :=
  ∃ it ∈ collect d, it.name = a ∧ b ∈ ctrlDeps (collect d) it ∧ b ∈ names d

/-- `a` has a traced weak dependency on the declared name `b` -/
def DepWeak (d : Doc) (a b : Nat) : Prop :=
  ∃ it ∈ collect d, it.name = a ∧ b ∈ weakDeps (collect d) it ∧ b ∈ names d

/-- some traced reference names nothing that is declared -/
def Dangling (d : Doc) : Prop :=
  ∃ it ∈ collect d,
    ∃ x ∈ weakDeps (collect d) it ++ hardDeps (collect d) it ++ ctrlDeps (collect d) it,
      x ∉ names d

/-- The tracer is complete for this document: whatever a declaration needs in
    order to be applied is reachable from it through traced hard dependencies. -/
def Complete (d : Doc) : Prop :=
  ∀ it ∈ collect d, ∀ r ∈ it.req, Relation.TransGen (DepHard d) it.name r

/-- neither declaration needs the other -/
def Independent (a b : Item) : Prop :=
  a.name ≠ b.name ∧ b.name ∉ a.req ∧ a.name ∉ b.req

/-- independent declarations commute under `apply` (as partial state transformers) -/
def Algebra.Commutes {σ : Type} (A : Algebra σ) : Prop :=
  ∀ s a b, Independent a b →
    (A.apply s a).bind (fun s' => A.apply s' b) = (A.apply s b).bind (fun s' => A.apply s' a)

/-! ### nested documents and nested permutations -/

/-- a declaration with its body -/
inductive Decl where
  | mk (hdr : Item) (members : List Decl)

mutual
/-- pre-order walk; `encl` is the `depstack` -/
def Decl.flatten (encl : List Nat) : Decl → List Item
  | .mk h ms => { h with encl := encl } :: flattenList (encl ++ [h.name]) ms
def flattenList (encl : List Nat) : List Decl → List Item
  | [] => []
  | m :: ms => m.flatten encl ++ flattenList encl ms
end

/-- top-level entry: a module block (possibly with nested blocks) or a declaration -/
inductive Top where
  | block (m : Nat) (entries : List Top)
  | decl (d : Decl)

mutual
def Top.toks : Top → List Tok
  | .block m es => Tok.enter m :: toksList es
  | .decl d => (d.flatten []).map Tok.item
def toksList : List Top → List Tok
  | [] => []
  | t :: ts => t.toks ++ toksList ts
end

/-- permutation of a body, and recursively of the bodies of its members -/
inductive DPerm : List Decl → List Decl → Prop where
  | refl (l : List Decl) : DPerm l l
  | cons (h : Item) {ms ms' l l' : List Decl} :
      DPerm ms ms' → DPerm l l' → DPerm (.mk h ms :: l) (.mk h ms' :: l')
  | swap (a b : Decl) (l : List Decl) : DPerm (a :: b :: l) (b :: a :: l)
  | trans {a b c : List Decl} : DPerm a b → DPerm b c → DPerm a c

/-- permutation at the three levels: top-level entries, entries of (nested) module
    blocks, type / pointer bodies -/
inductive TPerm : List Top → List Top → Prop where
  | refl (l : List Top) : TPerm l l
  | consBlock (m : Nat) {es es' l l' : List Top} :
      TPerm es es' → TPerm l l' → TPerm (.block m es :: l) (.block m es' :: l')
  | consDecl (h : Item) {ms ms' : List Decl} {l l' : List Top} :
      DPerm ms ms' → TPerm l l' → TPerm (.decl (.mk h ms) :: l) (.decl (.mk h ms') :: l')
  | swap (a b : Top) (l : List Top) : TPerm (a :: b :: l) (b :: a :: l)
  | trans {a b c : List Top} : TPerm a b → TPerm b c → TPerm a c

end EdbVerif.Sdl
