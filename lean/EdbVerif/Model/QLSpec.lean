/-
C01 — vocabulary needed to STATE the round-trip theorems about `EdbVerif.QL`.

`Safe e` is a decidable, purely syntactic predicate on ASTs:
  * the normal form the parser produces (`WF` part): no unary minus directly over a numeric
    constant (`reduce_MINUS_Expr` folds it), flattened non-empty `Indirection`, flattened
    `Path` (the base of pointer steps is not itself a path with steps), atoms are atom tokens;
  * the *parenthesisation side conditions* under which the REAL printer's output re-parses to
    the same tree.  They are not vacuous: the real printer violates them (see the
    `…_counterexample` theorems in `Props/C01.lean`, replayed on the real code):
      - the left operand of a binary / IS operator must not END in an open prefix production
        (unary `-`/`+`, `NOT (…)`, `EXISTS (…)`, `DISTINCT (…)`, `<T>…`, `DETACHED …`, a folded
        negative literal) of level ≥ the operator's lookahead level;
      - the operand of a prefix production of level p must be parsed as one unit at level p
        (an `Indirection` prints as `(arg)[i]` and is a unit only up to the level of `[`; a
        `Path` with pointer steps prints as `base.s` and is a unit only up to the level of `.`,
        which is BELOW `DETACHED`).
Core Lean only.
-/
import EdbVerif.Model.QL

namespace EdbVerif.QL
open EdbVerif.QLLex EdbVerif.Gen.Prec

def isNumE : Expr → Bool
  | .num _ _ _ => true
  | _ => false

def isIndexE : Expr → Bool
  | .index _ _ => true
  | _ => false

def isPathE : Expr → Bool
  | .path _ _ _ => true
  | _ => false

/-- levels of the prefix productions that are still open at the right end of `pp e`
    (their operand is the last thing printed, without a closing token) -/
def openLvls : Expr → List Nat
  | .num (_ + 1) _ _ => [uminusLvl]
  | .unop op e => if op.alnum then [op.lvl] else op.lvl :: openLvls e
  | .cast _ e => typecastLvl :: openLvls e
  | .detached e => detachedLvl :: openLvls e
  | _ => []

/-- a level above every precedence class -/
def topLvl : Nat := 1000

/-- the largest minimum level at which `pp e` is still consumed as ONE expression -/
def unitLvl : Expr → Nat
  | .index _ _ => bracketLvl
  | .path _ _ _ => dotLvl
  | _ => topLvl

/-- number of `[i]` / `.s` suffixes (iterations of the postfix loop) -/
def idxCount : Expr → Nat
  | .index _ idx => idx.length
  | .path _ _ ss => ss.length + 1
  | _ => 0

mutual
  def safe : Expr → Bool
    | .atom t => isAtomTok t
    | .name _ => true
    | .num _ k _ => k.isNum
    | .unop op e =>
        safe e && (op.alnum || (decide (op.lvl ≤ unitLvl e) && (op != .minus || !isNumE e)))
    | .binop op l r => safe l && safe r && (openLvls l).all (fun p => decide (op.laLvl < p))
    | .isop _ l _ => safe l && (openLvls l).all (fun p => decide (isLaLvl < p))
    | .ifelse _ c a b => safe c && safe a && safe b
    | .cast _ e => safe e && decide (typecastLvl ≤ unitLvl e)
    | .detached e => safe e && decide (detachedLvl ≤ unitLvl e)
    | .call _ args => safeList args
    | .tuple es => safeList es
    | .array es => safeList es
    | .set es => safeList es
    | .index a idx => safe a && safeList idx && !idx.isEmpty && !isIndexE a
    | .path b _ _ => safe b && !isPathE b
  def safeList : List Expr → Bool
    | [] => true
    | e :: es => safe e && safeList es
end

/-- parser normal form + the printer's parenthesisation side conditions -/
def Safe (e : Expr) : Prop := safe e = true

instance (e : Expr) : Decidable (Safe e) := inferInstanceAs (Decidable (safe e = true))

-- the parser normal form alone (what `parse` can return)
mutual
  def wf : Expr → Bool
    | .atom t => isAtomTok t
    | .name _ => true
    | .num _ k _ => k.isNum
    | .unop op e => wf e && (op != .minus || !isNumE e)
    | .binop _ l r => wf l && wf r
    | .isop _ l _ => wf l
    | .ifelse _ c a b => wf c && wf a && wf b
    | .cast _ e => wf e
    | .detached e => wf e
    | .call _ args => wfList args
    | .tuple es => wfList es
    | .array es => wfList es
    | .set es => wfList es
    | .index a idx => wf a && wfList idx && !idx.isEmpty && !isIndexE a
    | .path b _ _ => wf b && !isPathE b
  def wfList : List Expr → Bool
    | [] => true
    | e :: es => wf e && wfList es
end

def WF (e : Expr) : Prop := wf e = true

instance (e : Expr) : Decidable (WF e) := inferInstanceAs (Decidable (wf e = true))

-- recursion budget sufficient to parse `pp e`
mutual
  def need : Expr → Nat
    | .atom _ => 3
    | .name _ => 3
    | .num n _ _ => 2 * n + 3
    | .unop _ e => need e + 4
    | .binop _ l r => need l + need r + 4
    | .isop _ l _ => need l + 4
    | .ifelse _ c a b => need c + need a + need b + 5
    | .cast _ e => need e + 3
    | .detached e => need e + 3
    | .call _ args => needList args + 3
    | .tuple es => needList es + 4
    | .array es => needList es + 3
    | .set es => needList es + 3
    | .index a idx => need a + needList idx + 4
    | .path b _ ss => need b + ss.length + 4
  def needList : List Expr → Nat
    | [] => 1
    | e :: es => need e + needList es + 3
end

/-- tokens after which no expression continues -/
def isStopTok : Tok → Bool
  | .p .rparen | .p .comma | .p .rbracket | .p .rbrace => true
  | .kw .else | .kw .then => true
  | _ => false

/-- the rest of the input starts with a closing / separating token (or is empty) -/
def Stopper : List Tok → Prop
  | [] => True
  | t :: _ => isStopTok t = true

end EdbVerif.QL
