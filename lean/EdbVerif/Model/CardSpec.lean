/-
Specification vocabulary for the cardinality algebra (C06).

`γ c n` — "a result of `n` elements is allowed by the reported cardinality `c`".
Everything here is about the GENERATED definitions in `EdbVerif/Gen/Card.lean`.
Core Lean only.
-/
import EdbVerif.Gen.Card

namespace EdbVerif.Card
open EdbVerif.Gen.Card

abbrev Card := Cardinality
abbrev Bound := CardinalityBound
abbrev Mult := Multiplicity

/-- concretisation of a cardinality: the result sizes it allows -/
def γ : Card → Nat → Prop
  | .ONE, n => n = 1
  | .AT_MOST_ONE, n => n ≤ 1
  | .AT_LEAST_ONE, n => 1 ≤ n
  | .MANY, _ => True

instance (c : Card) (n : Nat) : Decidable (γ c n) := by
  cases c <;> unfold γ <;> infer_instance

/-- a lower bound in the bound arithmetic: `ZERO ↦ 0 ≤ n`, `ONE ↦ 1 ≤ n`
    (`MANY`, which the saturating sum can produce, `↦ 2 ≤ n`) -/
def LB (b : Bound) (n : Nat) : Prop := b.toNat ≤ n

/-- an upper bound in the bound arithmetic: `MANY` is "no bound" -/
def UB (b : Bound) (n : Nat) : Prop := b = .MANY ∨ n ≤ b.toNat

/-- concretisation of a multiplicity: `EMPTY ↦ []`, `UNIQUE ↦ duplicate-free` -/
def γm {α : Type} : Mult → List α → Prop
  | .EMPTY, l => l = []
  | .UNIQUE, l => l.Nodup
  | .DUPLICATE, _ => True

/-- product of a list of sizes -/
def natProd : List Nat → Nat
  | [] => 1
  | n :: ns => n * natProd ns

/-- size of `a ?? b ?? …`: the first non-empty operand (0 when all are empty) -/
def firstNonzero : List Nat → Nat
  | [] => 0
  | n :: ns => if n = 0 then firstNonzero ns else n

/-- two lists related pointwise (same length) -/
inductive All2 {α β : Type} (R : α → β → Prop) : List α → List β → Prop
  | nil : All2 R [] []
  | cons {a b as bs} : R a b → All2 R as bs → All2 R (a :: as) (b :: bs)

/-- pointwise `γ` -/
abbrev Γ (cs : List Card) (ns : List Nat) : Prop := All2 γ cs ns

end EdbVerif.Card
