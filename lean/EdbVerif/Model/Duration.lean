/-
Model of `edb/ir/statypes.py::Duration` (C19): the text parsers
(`_us_from_pg_text` = `int()` | `_pg_simple_parser` | `_parse_iso8601` |
`_pg_parser.finditer` loop) and the printer `to_iso8601`, over `Int`
microseconds and `List Char`.

Domain.  Strings are lists of characters with code < 128 (Python's `\d`, `\s`,
`int()` and `re.I` also accept non-ASCII digits / spaces / case-folds such as
`ſ`; those inputs are outside the model).  Numbers of more than 4300 digits
(Python's int/str conversion limit) are outside the model too.

No floats are involved in the real code (`ljust` + `int`), so none are here.

Core Lean only: loaded by `Driver/C19.lean`.
-/
namespace EdbVerif.Duration

/-- Python `str.isspace()` / regex `\s` on the ASCII range. -/
def isWs (c : Char) : Bool :=
  c == ' ' || c == '\t' || c == '\n' || c == '\r' || c == '\x0b' || c == '\x0c' ||
  c == '\x1c' || c == '\x1d' || c == '\x1e' || c == '\x1f'

/-- C `isspace`: what `int()` strips from an ASCII string (CPython only maps
    the wider `str.isspace()` set to blanks when the string is not pure ASCII). -/
def isCSpace (c : Char) : Bool :=
  c == ' ' || c == '\t' || c == '\n' || c == '\r' || c == '\x0b' || c == '\x0c'

def isDigit (c : Char) : Bool := '0' ≤ c && c ≤ '9'

def isAlpha (c : Char) : Bool := ('a' ≤ c && c ≤ 'z') || ('A' ≤ c && c ≤ 'Z')

def lower (c : Char) : Char :=
  if 'A' ≤ c && c ≤ 'Z' then Char.ofNat (c.toNat + 32) else c

def digitVal (c : Char) : Nat := c.toNat - '0'.toNat

/-- value of a digit string, most significant first (`int(s)` for `s` matching `\d+`). -/
def digitsToNat (l : List Char) : Nat := l.foldl (fun a c => a * 10 + digitVal c) 0

def digitChar (d : Nat) : Char := Char.ofNat ('0'.toNat + d)

/-- digits of `n`, least significant first, at least one. Fuel `n+1` suffices. -/
def natDigitsRev : Nat → Nat → List Char
  | 0, _ => []
  | fuel + 1, n => if n < 10 then [digitChar n] else digitChar (n % 10) :: natDigitsRev fuel (n / 10)

/-- Python `str(n)` for `n ≥ 0`. -/
def natDigits (n : Nat) : List Char := (natDigitsRev (n + 1) n).reverse

/-- Python `str(i)` for an int. -/
def intDigits (i : Int) : List Char :=
  if i < 0 then '-' :: natDigits i.natAbs else natDigits i.natAbs

def dropWs (s : List Char) : List Char := s.dropWhile isWs

/-- `(\+|\-)?` : returns (is '-', rest). -/
def optSign : List Char → Bool × List Char
  | '-' :: r => (true, r)
  | '+' :: r => (false, r)
  | s => (false, s)

/-- `(\+|\-)?\d+` : value and rest; `none` when there is no digit. -/
def signedDigits (s : List Char) : Option (Int × List Char) :=
  let (neg, r) := optSign s
  let ds := r.takeWhile isDigit
  if ds.isEmpty then none
  else
    let n : Int := digitsToNat ds
    some (if neg then -n else n, r.dropWhile isDigit)

/-! ### `int(input)` -/

/-- Digits with single underscores between digits (PEP 515), whole string;
    `pd` = the previous character was a digit. Returns the digits. -/
def pyIntBody : Bool → List Char → Option (List Char)
  | pd, [] => if pd then some [] else none
  | pd, c :: r =>
    if isDigit c then (pyIntBody true r).map (c :: ·)
    else if c == '_' && pd then pyIntBody false r
    else none

/-- Python `int(s)` for ASCII `s`; `none` = `ValueError`. -/
def pyInt (s : List Char) : Option Int :=
  let t := ((s.dropWhile isCSpace).reverse.dropWhile isCSpace).reverse
  let (neg, r) := optSign t
  match pyIntBody false r with
  | none => none
  | some ds => let n : Int := digitsToNat ds; some (if neg then -n else n)

/-! ### errors -/

inductive DErr where
  | invalid   -- errors.InvalidValueError
  | range     -- errors.NumericOutOfRangeError
deriving Repr, DecidableEq

/-! ### `_pg_simple_parser`:  `[sign]H:[MM[:SS[.ffffff…]]]` -/

structure Simple where
  neg : Bool
  hours : List Char
  minutes : List Char := []      -- [] = group did not participate / empty
  seconds : List Char := []
  ms : List Char := []
  us : List Char := []
  sub : List Char := []
deriving Repr

/-- `s.ljust(3, '0')` then `int`. -/
def ljust (n : Nat) (l : List Char) : List Char := l ++ List.replicate (n - l.length) '0'

/-- The regex match; `none` = no match. -/
def matchSimple (s : List Char) : Option Simple :=
  let s0 := dropWs s
  let (neg, s1) := optSign s0
  let hours := s1.takeWhile isDigit
  if hours.isEmpty then none else
  match s1.dropWhile isDigit with
  | ':' :: s2 =>
    let minutes := s2.takeWhile isDigit
    let s3 := s2.dropWhile isDigit
    -- optional `:(seconds)(\.frac)?`
    let withSec : Option (Simple × List Char) :=
      match s3 with
      | ':' :: s4 =>
        let seconds := s4.takeWhile isDigit
        if seconds.isEmpty then none   -- ':' can be consumed by nothing else
        else
          let s5 := s4.dropWhile isDigit
          match s5 with
          | '.' :: s6 =>
            let frac := s6.takeWhile isDigit
            some ({ neg, hours, minutes, seconds, ms := frac.take 3,
                    us := (frac.drop 3).take 3, sub := frac.drop 6 },
                  s6.dropWhile isDigit)
          | _ => some ({ neg, hours, minutes, seconds }, s5)
      | _ => some ({ neg, hours, minutes }, s3)
    match withSec with
    | none => none
    | some (m, rest) => if (dropWs rest).isEmpty then some m else none
  | _ => none

def evalSimple (m : Simple) : Except DErr Int :=
  let hours := digitsToNat m.hours
  if hours > 2147483647 then .error .range else
  let mins := digitsToNat m.minutes
  if !m.minutes.isEmpty && mins > 59 then .error .range else
  let secs := digitsToNat m.seconds
  if !m.seconds.isEmpty && secs > 59 then .error .range else
  let v : Nat := hours * 3600000000
    + (if m.minutes.isEmpty then 0 else mins * 60000000)
    + (if m.seconds.isEmpty then 0 else secs * 1000000)
    + (if m.ms.isEmpty then 0 else digitsToNat (ljust 3 m.ms) * 1000)
    + (if m.us.isEmpty then 0 else digitsToNat (ljust 3 m.us))
    + (match m.sub with | c :: _ => if digitVal c ≥ 5 then 1 else 0 | [] => 0)
  .ok (if m.neg then -(v : Int) else (v : Int))

/-! ### `_parse_iso8601` -/

/-- `$` (no MULTILINE): at the end or just before a final newline. -/
def atEnd : List Char → Bool
  | [] => true
  | ['\n'] => true
  | _ => false

/-- `((?P<x>(\+|\-)?\d+) U)?` : on success the value and the rest, otherwise
    the group is skipped. -/
def optComp (u : Char) (s : List Char) : Option Int × List Char :=
  match signedDigits s with
  | some (v, c :: r) => if c == u then (some v, r) else (none, s)
  | _ => (none, s)

/-- the seconds group: `((secsign)?(\d+)(\.(\d+))?)S`; value in µs. -/
def optSec (s : List Char) : Option Int × List Char :=
  let (neg, r) := optSign s
  let ds := r.takeWhile isDigit
  if ds.isEmpty then (none, s) else
  let sgn : Int := if neg then -1 else 1
  let secs : Int := digitsToNat ds
  match r.dropWhile isDigit with
  | 'S' :: r' => (some (secs * 1000000 * sgn), r')
  | '.' :: r1 =>
    let fs := r1.takeWhile isDigit
    if fs.isEmpty then (none, s) else
    match r1.dropWhile isDigit with
    | 'S' :: r' =>
      let us : Int := digitsToNat (ljust 6 (fs.take 6))
      (some (secs * 1000000 * sgn + us * sgn), r')
    | _ => (none, s)
  | _ => (none, s)

def parseIso (s : List Char) : Option Int :=
  match s with
  | 'P' :: 'T' :: r0 =>
    let (h, r1) := optComp 'H' r0
    let (m, r2) := optComp 'M' r1
    let (sec, r3) := optSec r2
    if atEnd r3 then
      -- `not (m['hours'] or m['minutes'] or m['seconds'])`: a bare "PT" is not a duration
      if h.isNone && m.isNone && sec.isNone then none
      else some (h.getD 0 * 3600000000 + m.getD 0 * 60000000 + sec.getD 0)
    else none
  | _ => none

/-! ### `_pg_parser.finditer` loop (verbose PostgreSQL form) -/

inductive Kind where
  | hours | minutes | milliseconds | microseconds | seconds
deriving Repr, DecidableEq

def unitKind (w : String) : Option Kind :=
  if w ∈ ["h", "hr", "hrs", "hour", "hours"] then some .hours
  else if w ∈ ["m", "min", "mins", "minute", "minutes"] then some .minutes
  else if w ∈ ["ms", "millisecon", "millisecons", "millisecond", "milliseconds"] then some .milliseconds
  else if w ∈ ["us", "microsecond", "microseconds"] then some .microseconds
  else if w ∈ ["s", "sec", "secs", "second", "seconds"] then some .seconds
  else none

def Kind.mult : Kind → Int
  | .hours => 3600000000 | .minutes => 60000000 | .seconds => 1000000
  | .milliseconds => 1000 | .microseconds => 1

/-- One iteration per matched component; fuel = remaining length + 1. -/
def pgLoop : Nat → List Char → List Kind → Int → Except DErr Int
  | 0, _, _, _ => .error .invalid
  | fuel + 1, s, seen, acc =>
    let s0 := dropWs s
    if s0.isEmpty then .ok acc else
    match signedDigits s0 with
    | none => .error .invalid
    | some (v, r) =>
      let r' := dropWs r
      let w := r'.takeWhile isAlpha
      let rest := r'.dropWhile isAlpha
      let kind : Option Kind :=
        if w.isEmpty then (if r'.isEmpty then some .seconds else none)
        else
          -- lookahead `(?=$ | \d | \s)` after the unit word
          match rest with
          | [] => unitKind (String.ofList (w.map lower))
          | c :: _ => if isDigit c || isWs c then unitKind (String.ofList (w.map lower)) else none
      match kind with
      | none => .error .invalid
      | some k =>
        if seen.contains k then .error .invalid
        else pgLoop fuel rest (k :: seen) (acc + v * k.mult)

/-- the `for m in _pg_parser.finditer(input)` loop. -/
def parsePg (s : List Char) : Except DErr Int :=
  if s.all isWs then
    -- either the `error` alternative matches, or (only newlines / empty) nothing matches at
    -- all and the loop body never runs: `if not seen: raise`
    .error .invalid
  else pgLoop (s.length + 1) s [] 0

/-! ### `Duration(text)` and `to_iso8601` -/

/-- `Duration._us_from_pg_text`. -/
def usFromPgText (s : List Char) : Except DErr Int :=
  match pyInt s with
  | some secs => .ok (secs * 1000 * 1000)
  | none =>
    match matchSimple s with
    | some m => evalSimple m
    | none =>
      match parseIso s with
      | some v => .ok v
      | none => parsePg s

/-- `Duration.from_iso8601`. -/
def fromIso (s : List Char) : Except DErr Int :=
  match parseIso s with
  | some v => .ok v
  | none => .error .invalid

/-- `s.rstrip('0')`. -/
def rstrip0 (s : List Char) : List Char := (s.reverse.dropWhile (· == '0')).reverse

/-- `str(n).rjust(6, '0')`. -/
def rjust6 (l : List Char) : List Char := List.replicate (6 - l.length) '0' ++ l

/-- `Duration.to_iso8601`. -/
def toIso (us : Int) : List Char :=
  let neg : List Char := if us < 0 then ['-'] else []
  let a := us.natAbs
  let seconds0 := a / 1000000
  let usecs := a % 1000000
  let minutes0 := seconds0 / 60
  let seconds := seconds0 % 60
  let hours := minutes0 / 60
  let minutes := minutes0 % 60
  let h := if hours != 0 then neg ++ natDigits hours ++ ['H'] else []
  let m := if minutes != 0 then neg ++ natDigits minutes ++ ['M'] else []
  let s :=
    if seconds != 0 || usecs != 0 then
      (if usecs != 0 then
        neg ++ natDigits seconds ++ ['.'] ++ rstrip0 ((rjust6 (natDigits usecs)).take 6)
      else neg ++ natDigits seconds) ++ ['S']
    else []
  let body := h ++ m ++ s
  if body.isEmpty then "PT0S".toList else 'P' :: 'T' :: body

end EdbVerif.Duration
