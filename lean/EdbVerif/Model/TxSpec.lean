/-
Specification vocabulary for C09: the PostgreSQL-style savepoint-stack machines the
compiler-side state (level 1) and the composed server × compiler system (level 2)
are proved to refine.  Core Lean only.
-/
import EdbVerif.Model.Tx

namespace EdbVerif.Tx

/-! ## Level 1: a transaction block with a savepoint stack -/

/-- A frame of the savepoint stack: the name and the payload saved by `SAVEPOINT name`. -/
abbrev Frame := Nat × Payload

/-- PostgreSQL-style block.  `base` is what ROLLBACK returns to and what COMMIT replaces,
    `cur` what the next statement sees, `frames` the savepoints, innermost first.
    The compiler's *implicit* transaction is an open block that has not seen START yet
    (`explicit = false`): savepoint commands and COMMIT are refused in it. -/
structure Spec where
  base     : Payload
  explicit : Bool
  cur      : Payload
  frames   : List Frame
deriving DecidableEq, Repr

def Spec.init (pl : Payload) : Spec := { base := pl, explicit := false, cur := pl, frames := [] }

/-- The innermost frame called `n`: the stack from that frame on (that frame first). -/
def findFrame (n : Nat) : List Frame → Option (List Frame)
  | [] => none
  | f :: rest => if f.1 == n then some (f :: rest) else findFrame n rest

def Spec.step (p : Spec) : Ev → Spec × M Unit
  | .start =>
    if p.explicit then (p, .error .alreadyInTx) else ({ p with explicit := true }, .ok ())
  | .commit =>
    if !p.explicit then (p, .error .notInTx)
    else ({ base := p.cur, explicit := false, cur := p.cur, frames := [] }, .ok ())
  | .rollback => ({ base := p.base, explicit := false, cur := p.base, frames := [] }, .ok ())
  | .declare n =>
    if !p.explicit then (p, .error .spOutsideBlock)
    else ({ p with frames := (n, p.cur) :: p.frames }, .ok ())
  | .release n =>
    if !p.explicit then (p, .error .spOutsideBlock)
    else match findFrame n p.frames with
      | some (_ :: rest) => ({ p with frames := rest }, .ok ())
      | _ => (p, .error .noSavepoint)
  | .rollbackTo n =>
    if !p.explicit then (p, .error .spOutsideBlock)
    else match findFrame n p.frames with
      | some (f :: rest) => ({ p with cur := f.2, frames := f :: rest }, .ok ())
      | _ => (p, .error .noSavepoint)
  | .upd u => ({ p with cur := u.apply p.cur }, .ok ())

def Spec.run (p : Spec) : List Ev → Spec × List (M Unit)
  | [] => (p, [])
  | e :: es =>
    let (p', o) := p.step e
    let (p'', os) := Spec.run p' es
    (p'', o :: os)

/-- What the spec can see of a call's result: accepted, or which rejection. -/
def cls : M Ret → M Unit
  | .ok _ => .ok ()
  | .error e => .error e

/-- The abstraction function: the current transaction object read as a block. -/
def frameOf (s : TxState) : Frame := (s.name.getD 0, s.pl)

def abs (c : ConState) : Option Spec :=
  (curTx c).map fun t =>
    { base := t.state0.pl, explicit := !t.implicit, cur := t.current.pl,
      frames := t.sps.reverse.map frameOf }

/-- States reachable from a fresh connection state by any history. -/
def Reachable (c : ConState) : Prop :=
  ∃ t0 pl h, c = (run (ConState.init t0 pl) h).1

/-! ## Level 2: what a PostgreSQL-style session exposes, statement by statement -/

/-- The session as PostgreSQL (plus the server's emulation of "the block is aborted" for
    errors PostgreSQL never saw) would have it.  Outside a block only `base` matters and the
    other fields are kept at their defaults (`PSpec.out`). -/
structure PSpec where
  base   : Payload
  inTx   : Bool
  failed : Bool
  cur    : Payload
  frames : List Frame
deriving DecidableEq, Repr

/-- not in a block, baseline `b` -/
def PSpec.out (b : Payload) : PSpec := { base := b, inTx := false, failed := false, cur := b, frames := [] }

def PSpec.init (pl : Payload) : PSpec := PSpec.out pl

/-- the payload the next statement must be compiled against -/
def PSpec.exposed (p : PSpec) : Payload := if p.inTx then p.cur else p.base

/-- a statement can run normally: not inside an aborted block -/
def PSpec.healthy (p : PSpec) : Bool := !(p.inTx && p.failed)

/-- outcome classes -/
inductive OCls where
  | ok | rejected | failed
deriving DecidableEq, Repr

def Outcome.cls : Outcome → OCls
  | .ok => .ok
  | .rejected _ => .rejected
  | .failed => .failed

/-- an error inside a block aborts it -/
def PSpec.abort (p : PSpec) : PSpec := { p with failed := true }

def PSpec.step (p : PSpec) (e : SEv) : PSpec × OCls :=
  if !p.inTx then
    match e.stmt with
    | .start =>
      if e.cf then (p, .rejected) else if e.bf then (p, .failed)
      else ({ base := p.base, inTx := true, failed := false, cur := p.base, frames := [] }, .ok)
    | .commit => (p, .rejected)
    | .declare _ => (p, .rejected)
    | .release _ => (p, .rejected)
    | .rollbackTo _ => (p, .rejected)
    | .rollback => if e.bf then (p, .failed) else (p, .ok)
    | .upd u =>
      if e.cf then (p, .rejected) else if e.bf then (p, .failed)
      else (PSpec.out (u.apply p.base), .ok)
    | .query => if e.cf then (p, .rejected) else if e.bf then (p, .failed) else (p, .ok)
  else if p.failed then
    match e.stmt with
    | .rollback => (PSpec.out p.base, .ok)
    | .rollbackTo n =>
      match findFrame n p.frames with
      | some (f :: rest) => ({ p with cur := f.2, frames := f :: rest, failed := false }, .ok)
      | _ => (p, .rejected)
    | _ => (p, .rejected)
  else
    match e.stmt with
    | .start => (p.abort, .rejected)
    | .commit =>
      if e.bf then (if e.stay then (p.abort, .failed) else (PSpec.out p.base, .failed))
      else (PSpec.out p.cur, .ok)
    | .rollback => if e.bf then (p.abort, .failed) else (PSpec.out p.base, .ok)
    | .declare n =>
      if e.bf then (p.abort, .failed) else ({ p with frames := (n, p.cur) :: p.frames }, .ok)
    | .release n =>
      match findFrame n p.frames with
      | some (_ :: rest) => if e.bf then (p.abort, .failed) else ({ p with frames := rest }, .ok)
      | _ => (p.abort, .rejected)
    | .rollbackTo n =>
      match findFrame n p.frames with
      | some (f :: rest) => ({ p with cur := f.2, frames := f :: rest }, .ok)
      | _ => (p.abort, .rejected)
    | .upd u =>
      if e.cf then (p.abort, .rejected) else if e.bf then (p.abort, .failed)
      else ({ p with cur := u.apply p.cur }, .ok)
    | .query =>
      if e.cf then (p.abort, .rejected) else if e.bf then (p.abort, .failed) else (p, .ok)

/-- What the spec says of one statement: the class of its outcome, the payload exposed to it,
    and whether it ran outside an aborted block. -/
structure POut where
  cls     : OCls
  exposed : Payload
  healthy : Bool
deriving DecidableEq, Repr

def PSpec.run (p : PSpec) : List SEv → PSpec × List POut
  | [] => (p, [])
  | e :: es =>
    let (p', o) := p.step e
    let (p'', os) := PSpec.run p' es
    (p'', { cls := o, exposed := p.exposed, healthy := p.healthy } :: os)

/-- The names a `RELEASE n` removes (innermost first) and the frames it leaves. -/
def releaseSplit (n : Nat) : List Frame → Option (List Nat × List Frame)
  | [] => none
  | f :: fs =>
    if f.1 == n then some ([f.1], fs)
    else match releaseSplit n fs with
      | none => none
      | some (g, r) => some (f.1 :: g, r)

/-- The envelope of the protocol theorem, for one statement at spec state `p`:
    * the backend fails only on payload statements, queries and COMMIT, and a failed COMMIT
      ends the block (`stay = false`; a COMMIT or ROLLBACK that fails while the backend stays
      in the block detaches the compiler's current transaction from the server's id — the
      spec says what must happen then, the harness tests it, the theorem does not cover it);
    * a RELEASE does not remove a savepoint whose name is also carried by a savepoint that
      stays (the server never pops its own savepoint stack on RELEASE; see the
      counterexamples in Props/C09.lean). -/
def PSpec.covers (p : PSpec) (e : SEv) : Bool :=
  (!e.bf || match e.stmt with | .upd _ | .query => true | .commit => !e.stay | _ => false) &&
  (match e.stmt with
   | .release n =>
     if p.inTx && !p.failed && !e.bf then
       match releaseSplit n p.frames with
       | some (gone, rest) => gone.all (fun g => rest.all (fun r => r.1 != g))
       | none => true
     else true
   | _ => true)

def PSpec.coversAll (p : PSpec) : List SEv → Bool
  | [] => true
  | e :: es => p.covers e && PSpec.coversAll (p.step e).1 es

/-- statement `o` of the implementation agrees with what the spec says of it -/
def SOut.agrees (o : SOut) (s : POut) : Prop :=
  o.outcome.cls = s.cls ∧
  (s.healthy = true → o.outcome.cls ≠ .rejected → o.against = some s.exposed)

/-- pointwise agreement of the two output lists (same length) -/
def agreesAll : List SOut → List POut → Prop
  | [], [] => True
  | o :: os, s :: ss => o.agrees s ∧ agreesAll os ss
  | _, _ => False

instance (o : SOut) (s : POut) : Decidable (o.agrees s) := by
  unfold SOut.agrees; exact inferInstance

instance instDecAgreesAll : ∀ (os : List SOut) (ss : List POut), Decidable (agreesAll os ss)
  | [], [] => isTrue trivial
  | o :: os, s :: ss =>
    have := instDecAgreesAll os ss
    inferInstanceAs (Decidable (o.agrees s ∧ agreesAll os ss))
  | [], _ :: _ => isFalse (fun h => h)
  | _ :: _, [] => isFalse (fun h => h)

/-- The client changes its session state: the statement sent along (and everything after it)
    must be compiled with these aliases / this config. -/
def PSpec.clientState (p : PSpec) (cs : Option (Nat × Nat)) : PSpec :=
  match cs with
  | none => p
  | some (a, v) =>
    if p.inTx then { p with cur := { p.cur with aliases := a, config := v } }
    else PSpec.out { p.base with aliases := a, config := v }

def PSpec.stepC (p : PSpec) (e : CEv) : PSpec × OCls := (p.clientState e.cs).step e.ev

def PSpec.runC (p : PSpec) : List CEv → PSpec × List POut
  | [] => (p, [])
  | e :: es =>
    let p0 := p.clientState e.cs
    let (p', o) := p0.step e.ev
    let (p'', os) := PSpec.runC p' es
    (p'', { cls := o, exposed := p0.exposed, healthy := p0.healthy } :: os)

end EdbVerif.Tx
