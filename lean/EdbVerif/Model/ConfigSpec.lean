/-
Vocabulary for stating the C19 theorems about `Model/Config.lean`.
Core Lean only.
-/
import EdbVerif.Model.Config
namespace EdbVerif.Config

/-- equality of results is decidable (used by the `example`s) -/
instance instDecEqExcept {ε α : Type} [DecidableEq ε] [DecidableEq α] : DecidableEq (Except ε α)
  | .ok a, .ok b => if h : a = b then isTrue (by rw [h]) else isFalse (by intro e; cases e; exact h rfl)
  | .error a, .error b => if h : a = b then isTrue (by rw [h]) else isFalse (by intro e; cases e; exact h rfl)
  | .ok _, .error _ => isFalse (by intro e; cases e)
  | .error _, .ok _ => isFalse (by intro e; cases e)

def SMap.keys (m : SMap) : List String := m.map (·.1)

/-- keys are pairwise distinct (what a Python mapping guarantees) -/
def SMap.WF (m : SMap) : Prop := m.keys.Nodup

def Obj.exclEntries (o : Obj) : List (String × String × FVal) :=
  (o.tspec.fields.map (·.name)).filterMap o.exclEntry

/-- two objects do not agree on any exclusive field at its unique site
    (`a` is the one stored earlier: Python evaluates `earlier == later`) -/
def NoClash (a b : Obj) : Prop :=
  ∀ ea ∈ a.exclEntries, ∀ eb ∈ b.exclEntries,
    ea.1 = eb.1 → ea.2.1 = eb.2.1 → ea.2.2.pyEq eb.2.2 = false

/-- value-level round trip through `value_to_json_value` / `value_from_json_value` -/
def RT (sp : Spec) (s : Setting) (v : Val) : Prop :=
  ∃ j, valueToJson s v = .ok j ∧ valueFromJson sp s j = .ok v

/-- pairwise distinct under Python `==` (a frozenset, as a list) -/
def PD (l : List Scalar) : Prop := l.Pairwise (fun a b => a.pyEq b = false)

/-- atoms that `json.dumps` writes and `json.loads` gives back unchanged -/
def Raw : Scalar → Prop
  | .none | .bool _ | .int _ | .str _ => True
  | _ => False

/-- a stored atom of a `bool` / `int` / `str` annotated slot (`True` is an `int`) -/
def ElemOK (t : STy) (x : Scalar) : Prop :=
  ∃ j, rawToJson x = .ok j ∧ instOf t j = some x

/-- stored value of a scalar setting for which JSON round-trips -/
def ScalarOK : STy → Scalar → Prop
  | .bool, x | .int, x | .str, x => Raw x      -- written and read back raw, whatever it is
  | .dur, .dur _ => True
  | .mem, .mem n => 0 ≤ n                       -- `ConfigMemory(int)` also accepts negatives: those do not round-trip
  | .enum vals _, .enum x => x ∈ vals
  | _, _ => False

/-- stored value of an object field for which JSON round-trips -/
def FieldOK (f : Field) (v : FVal) : Prop :=
  match f.ty, v with
  | .set t, .set l => (∀ x ∈ l, ElemOK t x) ∧ PD l
  | .sc .dur, .sc (.dur _) => True
  | .sc .mem, .sc (.mem n) => 0 ≤ n
  | .sc (.enum _ _), _ => False                 -- enum-typed fields are unusable in the real code
  | .sc _, .sc .none => f.default = some (.sc .none)   -- `None` comes back only through a `None` default
  | .sc t, .sc x => ElemOK t x
  | _, _ => False

/-- attributes follow the fields one by one, each with an admissible value -/
inductive Aligned : List Field → List (String × FVal) → Prop where
  | nil : Aligned [] []
  | cons {f : Field} {kv : String × FVal} {fs : List Field} {vs : List (String × FVal)} :
      kv.1 = f.name → FieldOK f kv.2 → Aligned fs vs → Aligned (f :: fs) (kv :: vs)

/-- a stored object: its type is registered in the spec under its name, field
    names are distinct and not `_tname`, attributes follow the fields -/
structure ObjOK (sp : Spec) (o : Obj) : Prop where
  registered : sp.getType o.tspec.name = some o.tspec
  nodup : (o.tspec.fields.map (·.name)).Nodup
  noTname : "_tname" ∉ o.tspec.fields.map (·.name)
  aligned : Aligned o.tspec.fields o.vals

/-- stored value of a setting for which `from_json(to_json(.))` is the identity -/
def ValOK (sp : Spec) (s : Setting) (v : Val) : Prop :=
  match s.ty, s.setOf, v with
  | .sc t, false, .sc x => ScalarOK t x
  | .sc _, true, .set l => (∀ x ∈ l, Raw x) ∧ PD l
  | .obj _, false, .sc .none => True
  | .obj _, false, .obj o => ObjOK sp o
  | .obj _, true, .objs l => (∀ o ∈ l, ObjOK sp o) ∧ l.Pairwise (fun a b => a.pyEq b = false)
  | _, _, _ => False

/-- a storage map as the server holds it -/
structure MapOK (sp : Spec) (m : SMap) : Prop where
  wf : m.WF
  entries : ∀ kv ∈ m, ∃ s, sp.get kv.1 = some s ∧ kv.2.name = kv.1 ∧ ValOK sp s kv.2.value

/-- static well-formedness of an object type, as the schema loader produces it -/
structure TSpecOK (t : TSpec) : Prop where
  nodup : (t.fields.map (·.name)).Nodup
  noTname : "_tname" ∉ t.fields.map (·.name)
  defaults : ∀ f ∈ t.fields, ∀ d, f.default = some d → FieldOK f d

/-- no negative `int` is given for a memory-typed field -/
def NoNegMem (t : TSpec) (kvs : List (String × JV)) : Prop :=
  ∀ k i, (k, JV.int i) ∈ kvs → ∀ f ∈ t.fields, f.name = k → f.ty = .sc .mem → 0 ≤ i

/-- every registered object type is well-formed -/
def TypesOK (sp : Spec) : Prop := ∀ n t, sp.getType n = some t → TSpecOK t

/-- static well-formedness of the spec (what `load_spec_from_schema` + `Setting.__post_init__` give) -/
structure SpecOK (sp : Spec) : Prop where
  types : TypesOK sp
  reg : ∀ n s t, sp.get n = some s → s.ty = .obj t → sp.getType t.name = some t
  objDefault : ∀ n s t, sp.get n = some s → s.ty = .obj t → ValOK sp s s.default
  scalarSets : ∀ n s t, sp.get n = some s → s.ty = .sc t → s.setOf = true →
    t = .bool ∨ t = .int ∨ t = .str

/-- the operation avoids the two known corners: a negative int for a memory
    slot, and SET on a single-valued object setting -/
structure OpNice (sp : Spec) (op : Op) : Prop where
  mem : ∀ s i, sp.get op.name = some s → s.ty = .sc .mem → op.value = .int i → 0 ≤ i
  single : ∀ s t, sp.get op.name = some s → s.ty = .obj t → s.setOf = false → op.code ≠ .set
  objMem : ∀ kvs, (op.value = .obj kvs ∨ ∃ l, op.value = .list l ∧ JV.obj kvs ∈ l) →
    ∀ t', NoNegMem t' kvs

end EdbVerif.Config
