/-
Specification vocabulary for C02 / C10 (what the theorems in Props/C02.lean
and Props/C10.lean say).  Core Lean only.
-/
import EdbVerif.Model.Schema

namespace EdbVerif.Schema

/-! ### planner -/

def Plan.createdX (p : Plan) : List String := p.creates.map (·.1)
def Plan.deletedY (p : Plan) : List String := p.deletes.map (·.1)
def Plan.matchedX (p : Plan) : List String := p.matched.map (·.x)
def Plan.matchedY (p : Plan) : List String := p.matched.map (·.y)

/-- a `CreateObject` is emitted for the new object `x` -/
def Created (p : Plan) (x : String) : Prop := x ∈ p.createdX
/-- some old object is altered into `x` -/
def AlteredTo (p : Plan) (x : String) : Prop := ∃ m ∈ p.matched, m.x = x ∧ m.conf.isSome = true
/-- `x` is paired with an old object at similarity 1.0: no command -/
def IdenticalNew (p : Plan) (x : String) : Prop := ∃ m ∈ p.matched, m.x = x ∧ m.conf = none
/-- `x` is unmatched and its creation is suppressed: banned by the guidance, or
    its name is the target of a rename that the context has already decided on -/
def SuppressedNew (e : Env) (old : List String) (p : Plan) (x : String) : Prop :=
  x ∉ p.matchedX ∧ (canCreate e.guidance x = false ∨ x ∈ renamesX e.renames old)

def Deleted (p : Plan) (y : String) : Prop := y ∈ p.deletedY
def AlteredFrom (p : Plan) (y : String) : Prop := ∃ m ∈ p.matched, m.y = y ∧ m.conf.isSome = true
def IdenticalOld (p : Plan) (y : String) : Prop := ∃ m ∈ p.matched, m.y = y ∧ m.conf = none
def SuppressedOld (e : Env) (old : List String) (p : Plan) (y : String) : Prop :=
  y ∉ p.matchedY ∧ (canDelete e.guidance y = false ∨ y ∈ renamesY e.renames old)

def ExactlyOne3 (a b c : Prop) : Prop :=
  (a ∧ ¬b ∧ ¬c) ∨ (¬a ∧ b ∧ ¬c) ∨ (¬a ∧ ¬b ∧ c)

def ExactlyOne4 (a b c d : Prop) : Prop :=
  (a ∧ ¬b ∧ ¬c ∧ ¬d) ∨ (¬a ∧ b ∧ ¬c ∧ ¬d) ∨ (¬a ∧ ¬b ∧ c ∧ ¬d) ∨ (¬a ∧ ¬b ∧ ¬c ∧ d)

/-- `(x, y)` is one of the pairs that `delta_objects` compares at all: the
    same name on both sides, or a name that only the new side has against a
    name that only the old side has -/
def Candidate (old new : List String) (x y : String) : Prop :=
  x ∈ new ∧ y ∈ old ∧ (x = y ∨ (x ∉ old ∧ y ∉ new))

/-! ### schema algebra -/

/-- keys are unique and every reference resolves -/
structure Valid (s : Schema) : Prop where
  nodup : (keys s).Nodup
  closed : ∀ o ∈ s, ∀ r ∈ o.refs, r ∈ keys s

/-- same finite map (the order of the association list is immaterial) -/
def Same (s t : Schema) : Prop := (keys s).Nodup ∧ ∀ k, find s k = find t k

/-- what `Object.compare` guarantees by construction: similarity 1.0 only when
    nothing differs once the context's renames are taken into account -/
def SimSound (sim : Sim) : Prop :=
  ∀ ctx y x, y.cls = x.cls → sim ctx y x = 1000 → renameObj ctx.renames y = x ∧ y.name = x.name

end EdbVerif.Schema
