/-
Model of `edb/common/ordered.py::OrderedSet` (a `MutableSet` backed by a Python
`dict`, whose iteration order is the insertion order of the keys).

`sort_ex` (C20) and every caller that builds its dependency collections
(`schema/ordering.py`, `schema/delta.py::sort_by_inheritance`,
`edgeql/declarative.py`) rely on this container for the *determinism* half of
the property: the order in which edges are consumed is the order in which the
caller inserted them.  Core Lean only.

A state is the list of keys in iteration order.  The in-place operators that
`OrderedSet` inherits from `collections.abc.MutableSet` are modelled the way
the CPython mixins are written (`__isub__`: discard each; `__iand__`: discard
every element of `self - it`; `__ixor__`: the argument is first turned into an
`OrderedSet`, then each of its elements is toggled).
-/
namespace EdbVerif.OrdSet

abbrev OSet := List Nat

/-- `self.map[item] = None`: a present key keeps its position, a new key goes last. -/
def add (s : OSet) (x : Nat) : OSet := if x ∈ s then s else s ++ [x]

/-- `self.map.pop(item, None)` -/
def discard (s : OSet) (x : Nat) : OSet := s.filter (· != x)

/-- `update(iterable)`: `add` in iteration order. -/
def update (s : OSet) (xs : List Nat) : OSet := xs.foldl add s

/-- `OrderedSet(iterable)` -/
def ofList (xs : List Nat) : OSet := update [] xs

/-- `difference_update` = `MutableSet.__isub__` (argument is not `self`). -/
def diffUpdate (s : OSet) (xs : List Nat) : OSet := xs.foldl discard s

/-- `intersection_update` = `MutableSet.__iand__`:
    `for value in (self - it): self.discard(value)`. -/
def interUpdate (s : OSet) (xs : List Nat) : OSet :=
  (ofList (s.filter (fun v => !(xs.contains v)))).foldl discard s

/-- one toggle of `MutableSet.__ixor__` -/
def toggle (s : OSet) (v : Nat) : OSet := if v ∈ s then discard s v else add s v

/-- `symmetric_difference_update` = `MutableSet.__ixor__` (argument is not `self`,
    not a `Set`: it goes through `_from_iterable` = `OrderedSet(it)` first). -/
def symUpdate (s : OSet) (xs : List Nat) : OSet := (ofList xs).foldl toggle s

inductive Op where
  | add (x : Nat)
  | discard (x : Nat)
  | update (xs : List Nat)
  | diff (xs : List Nat)
  | inter (xs : List Nat)
  | sym (xs : List Nat)
  | clear
  deriving Repr

def step (s : OSet) : Op → OSet
  | .add x => add s x
  | .discard x => discard s x
  | .update xs => update s xs
  | .diff xs => diffUpdate s xs
  | .inter xs => interUpdate s xs
  | .sym xs => symUpdate s xs
  | .clear => []

/-- every state reachable from `OrderedSet()` -/
def run (ops : List Op) : OSet := ops.foldl step []

/-- the abstract (mathematical) set an `OrderedSet` stands for, as a membership predicate -/
def specStep (P : Nat → Prop) : Op → Nat → Prop
  | .add x => fun y => P y ∨ y = x
  | .discard x => fun y => P y ∧ y ≠ x
  | .update xs => fun y => P y ∨ y ∈ xs
  | .diff xs => fun y => P y ∧ y ∉ xs
  | .inter xs => fun y => P y ∧ y ∈ xs
  | .sym xs => fun y => (P y ∧ y ∉ xs) ∨ (¬ P y ∧ y ∈ xs)
  | .clear => fun _ => False

def specRun (ops : List Op) : Nat → Prop := ops.foldl specStep (fun _ => False)

end EdbVerif.OrdSet
