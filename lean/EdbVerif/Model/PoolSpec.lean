/-
Specification vocabulary for C15 / C16 (what the theorems in Props/C15.lean and
Props/C16.lean say about `EdbVerif.Pool`).  Core Lean only.
-/
import EdbVerif.Model.Pool

namespace EdbVerif.Pool

/-! ### C15: accounting and capacity -/

/-- number of tasks satisfying `p`, as an integer -/
def cnt (p : Task → Bool) (ts : List (Nat × Task)) : Int :=
  sumInt (ts.map fun x => if p x.2 then 1 else 0)

/-- the task holds a connection that left `conns` and whose `_disconnect` has
    not finished (`cur` still counts it) -/
def Task.closing : Task → Bool
  | .disc _ _ started _ => started
  | .discAll _ _ => true
  | _ => false

/-- a connection its holder handed back as broken (`release(discard=True)`),
    scheduled for `_discard_conn` and not closed yet -/
def Task.byHolder : Task → Bool
  | .disc _ _ _ h => h
  | .dead h => h
  | _ => false

/-- the task owes its target block one `pending_conns` -/
def Task.owes (u : Nat) : Task → Bool
  | .conn b _ => b == u
  | .xfer _ _ t _ _ => t == u
  | _ => false

/-- what the blocks and the disconnects in flight add up to -/
def usage (s : State) : Int := sumInt (s.blocks.map Block.size) + cnt Task.closing s.tasks

def discByHolder (s : State) : Int := cnt Task.byHolder s.tasks

/-- well-formedness of identifiers (needed to state anything by counting) -/
structure WF (s : State) : Prop where
  uids : (s.blocks.map (·.uid)).Nodup
  uidsFresh : ∀ b ∈ s.blocks, b.uid < s.nextUid
  tids : (s.tasks.map (·.1)).Nodup
  tidsFresh : ∀ p ∈ s.tasks, p.1 < s.nextTask
  cids : ∀ b ∈ s.blocks, (b.conns.map (·.1)).Nodup
  cidsFresh : ∀ b ∈ s.blocks, ∀ p ∈ b.conns, p.1 < s.nextConn

/-- C15, numeric part.
* `acc`: the usage the pool reports (`current_capacity`) equals the number of
  connections that are open, being opened or being closed;
* `cap`: it never exceeds the maximum, not counting connections their holder
  handed back as broken. -/
structure InvNum (s : State) : Prop extends WF s where
  acc : s.cur = usage s
  cap : s.cur ≤ s.max + discByHolder s

/-! ### C15: ownership -/

def Block.ids (b : Block) : List Nat := b.conns.map (·.1)

/-- connections a not-yet-started `_discard_conn` task of block `u` will close
    (still in `conns`, neither idle nor lent) -/
def limboOf (s : State) (u : Nat) : List Nat :=
  s.tasks.filterMap fun p => match p.2 with
    | .disc b c false _ => if b == u then some c else none
    | _ => none

/-- connections sitting in the local list of a suspended `prune_inactive_connections` -/
def pruneLocalsOf (s : State) (u : Nat) : List Nat :=
  (s.prunes.filter (·.block == u)).flatMap (·.locals)

def heldOf (s : State) (name : Nat) : List Nat :=
  (s.holders.filter (·.name == name)).map (·.conn)

/-- C15, ownership part, per block: every connection of the block is in exactly
    one of: the idle stack, lent to exactly one holder, waiting for its
    scheduled discard, in a prune task's hands; lent ones are marked in use,
    the others are not; counters agree. -/
structure BlockOwn (s : State) (b : Block) : Prop where
  part : (b.stack ++ heldOf s b.name ++ limboOf s b.uid ++ pruneLocalsOf s b.uid).Perm b.ids
  inUse : ∀ c, (c, true) ∈ b.conns ↔ c ∈ heldOf s b.name
  acquired : b.acquired = (heldOf s b.name).length
  home : ∀ c ∈ b.ids, (c, b.name) ∈ s.home
  live : ∀ c ∈ b.ids, c ∈ s.live

structure InvOwn (s : State) : Prop where
  names : (s.blocks.map (·.name)).Nodup
  blocks : ∀ b ∈ s.blocks, BlockOwn s b
  /-- no holder without a block -/
  holders : ∀ h ∈ s.holders, ∃ b ∈ s.blocks, b.name = h.name
  /-- a connection is lent to at most one request -/
  single : (s.holders.map (·.conn)).Nodup
  reqs : (s.holders.map (·.req)).Nodup

/-! ### C16 -/

def wokenOf (s : State) (u : Nat) : Nat :=
  (s.waiters.filter fun w => w.block == u && w.st == .woken).length

/-- no lost wake-up: while somebody sleeps in the queue of a block, every idle
    connection of the block has a woken waiter on its way -/
def Inv₂ (s : State) : Prop :=
  ∀ b ∈ s.blocks, b.queue ≠ [] → b.stack.length ≤ wokenOf s b.uid

/-- The waiter bookkeeping (C16 safety).  Stated for histories without
    `prune_inactive_connections` / `prune_all_connections` (`noPrune`). -/
structure InvQ (s : State) : Prop where
  /-- waiting tasks have distinct identifiers -/
  wids : (s.waiters.map (·.id)).Nodup
  qnd : ∀ b ∈ s.blocks, b.queue.Nodup
  /-- the queue of a block only lists sleeping waiters of that block -/
  qmem : ∀ b ∈ s.blocks, ∀ r ∈ b.queue, ∃ w ∈ s.waiters, w.id = r ∧ w.block = b.uid ∧ w.st = .queued
  /-- every sleeping waiter is in the queue of its block (a wake-up can reach it) -/
  qall : ∀ w ∈ s.waiters, w.st = .queued → ∃ b ∈ s.blocks, b.uid = w.block ∧ w.id ∈ b.queue
  /-- a block with somebody inside `try_acquire` exists -/
  known : ∀ w ∈ s.waiters, ∃ b ∈ s.blocks, b.uid = w.block
  /-- `conn_waiters_num` counts exactly the tasks inside `try_acquire` -/
  num : ∀ b ∈ s.blocks, b.waitersNum = ((s.waiters.filter fun w => w.block == b.uid).length : Int)
  inv2 : Inv₂ s
  noPrune : s.prunes = [] ∧ ∀ w ∈ s.waiters, w.prune = false
  /-- a request is either waiting or holding, and holds at most once -/
  hdis : ∀ w ∈ s.waiters, ∀ h ∈ s.holders, h.req ≠ w.id
  hreq : (s.holders.map (·.req)).Nodup

end EdbVerif.Pool
