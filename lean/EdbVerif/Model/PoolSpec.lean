/-
Specification vocabulary for C15 / C16 (what the theorems in Props/C15.lean and
Props/C16.lean say about `EdbVerif.Pool`).  Core Lean only.
-/
import EdbVerif.Model.Pool

namespace EdbVerif.Pool

/-! ### C15: accounting and capacity -/

/-- number of tasks satisfying `p`, as an integer -/
def cnt (p : Task → Bool) (ts : List (Nat × Task)) : Int :=
  sumInt (ts.map fun x => if p x.2 then 1 else 0)

/-- the task holds a connection that left `conns` and whose `_disconnect` has
    not finished (`cur` still counts it) -/
def Task.closing : Task → Bool
  | .disc _ _ started _ => started
  | .discAll _ _ => true
  | _ => false

/-- a connection its holder handed back as broken (`release(discard=True)`),
    scheduled for `_discard_conn` and not closed yet -/
def Task.byHolder : Task → Bool
  | .disc _ _ _ h => h
  | .dead h => h
  | _ => false

/-- the task owes its target block one `pending_conns` -/
def Task.owes (u : Nat) : Task → Bool
  | .conn b _ => b == u
  | .xfer _ _ t _ _ => t == u
  | _ => false

/-- what the blocks and the disconnects in flight add up to -/
def usage (s : State) : Int := sumInt (s.blocks.map Block.size) + cnt Task.closing s.tasks

def discByHolder (s : State) : Int := cnt Task.byHolder s.tasks

/-- well-formedness of identifiers (needed to state anything by counting) -/
structure WF (s : State) : Prop where
  uids : (s.blocks.map (·.uid)).Nodup
  uidsFresh : ∀ b ∈ s.blocks, b.uid < s.nextUid
  tids : (s.tasks.map (·.1)).Nodup
  tidsFresh : ∀ p ∈ s.tasks, p.1 < s.nextTask
  cids : ∀ b ∈ s.blocks, (b.conns.map (·.1)).Nodup
  cidsFresh : ∀ b ∈ s.blocks, ∀ p ∈ b.conns, p.1 < s.nextConn

/-- C15, numeric part.
* `acc`: the usage the pool reports (`current_capacity`) equals the number of
  connections that are open, being opened or being closed;
* `cap`: it never exceeds the maximum, not counting connections their holder
  handed back as broken. -/
structure InvNum (s : State) : Prop extends WF s where
  acc : s.cur = usage s
  cap : s.cur ≤ s.max + discByHolder s

/-! ### C15: ownership -/

def Block.ids (b : Block) : List Nat := b.conns.map (·.1)

/-- `(block uid, connection)` of the `_discard_conn` tasks that have not started: the
    connection is still in `conns`, neither idle nor lent -/
def limbo (s : State) : List (Nat × Nat) :=
  s.tasks.filterMap fun p => match p.2 with
    | .disc b c false _ => some (b, c)
    | _ => none

/-- C15, ownership part.  Stated for histories without `prune_inactive_connections` /
    `prune_all_connections` (their hand-held connections are not tracked here; the oracle of
    the harness covers them). -/
structure InvOwn (s : State) : Prop where
  /-- one block per database -/
  nameInj : ∀ b1 ∈ s.blocks, ∀ b2 ∈ s.blocks, b1.name = b2.name → b1.uid = b2.uid
  /-- a connection belongs to one block -/
  disj : ∀ b1 ∈ s.blocks, ∀ b2 ∈ s.blocks, ∀ c, c ∈ b1.ids → c ∈ b2.ids → b1.uid = b2.uid
  /-- idle connections are connections of the block and are not marked in use -/
  stackIdle : ∀ b ∈ s.blocks, ∀ c ∈ b.stack, (c, false) ∈ b.conns
  stackNd : ∀ b ∈ s.blocks, b.stack.Nodup
  /-- a lent connection is a connection of the block of the database it was requested for,
      and is marked in use -/
  held : ∀ h ∈ s.holders, ∃ b ∈ s.blocks, b.name = h.name ∧ (h.conn, true) ∈ b.conns
  /-- a connection is lent to at most one request at a time -/
  single : (s.holders.map (·.conn)).Nodup
  /-- `conn_acquired_num` is the number of connections lent from the block -/
  acq : ∀ b ∈ s.blocks, b.acquired = ((s.holders.filter (·.name == b.name)).length : Int)
  /-- a connection scheduled for discard is in its block, not in use, not idle -/
  limboIdle : ∀ p ∈ limbo s, ∀ b ∈ s.blocks, b.uid = p.1 → (p.2, false) ∈ b.conns ∧ p.2 ∉ b.stack
  limboNd : (limbo s).Nodup
  /-- they name blocks that exist or existed (uids are never reused) -/
  limboUid : ∀ p ∈ limbo s, p.1 < s.nextUid

/-! ### C16 -/

def wokenOf (s : State) (u : Nat) : Nat :=
  (s.waiters.filter fun w => w.block == u && w.st == .woken).length

/-- no lost wake-up: while somebody sleeps in the queue of a block, every idle
    connection of the block has a woken waiter on its way -/
def Inv₂ (s : State) : Prop :=
  ∀ b ∈ s.blocks, b.queue ≠ [] → b.stack.length ≤ wokenOf s b.uid

/-- The waiter bookkeeping (C16 safety).  Stated for histories without
    `prune_inactive_connections` / `prune_all_connections` (`noPrune`). -/
structure InvQ (s : State) : Prop where
  /-- waiting tasks have distinct identifiers -/
  wids : (s.waiters.map (·.id)).Nodup
  qnd : ∀ b ∈ s.blocks, b.queue.Nodup
  /-- the queue of a block only lists sleeping waiters of that block -/
  qmem : ∀ b ∈ s.blocks, ∀ r ∈ b.queue, ∃ w ∈ s.waiters, w.id = r ∧ w.block = b.uid ∧ w.st = .queued
  /-- every sleeping waiter is in the queue of its block (a wake-up can reach it) -/
  qall : ∀ w ∈ s.waiters, w.st = .queued → ∃ b ∈ s.blocks, b.uid = w.block ∧ w.id ∈ b.queue
  /-- a block with somebody inside `try_acquire` exists -/
  known : ∀ w ∈ s.waiters, ∃ b ∈ s.blocks, b.uid = w.block
  /-- `conn_waiters_num` counts exactly the tasks inside `try_acquire` -/
  num : ∀ b ∈ s.blocks, b.waitersNum = ((s.waiters.filter fun w => w.block == b.uid).length : Int)
  inv2 : Inv₂ s
  noPrune : s.prunes = [] ∧ ∀ w ∈ s.waiters, w.prune = false
  /-- a request is either waiting or holding, and holds at most once -/
  hdis : ∀ w ∈ s.waiters, ∀ h ∈ s.holders, h.req ≠ w.id
  hreq : (s.holders.map (·.req)).Nodup

end EdbVerif.Pool
