/-
Vocabulary for the `populate_argmap` / `AliasGenerator` theorems of C13.
Core Lean only.
-/
import EdbVerif.Model.Argmap

namespace EdbVerif.Argmap

/-- The parameters `populate_argmap` actually numbers, in the order it numbers
    them: first the ordinary ones, then the `__edb_arg_*` extras (two passes);
    with a named-parameter prefix only decimal names are numbered. -/
def processed (namedPrefix : Bool) (params : List Param) : List Param :=
  params.filter (fun p => !skipped namedPrefix false p)
    ++ params.filter (fun p => !skipped namedPrefix true p)

/-- Numbering of an already filtered parameter list from the given counters:
    a tuple parameter (`hasSub`) does not consume a physical index, a
    sub-parameter does not consume a logical one. -/
def number : List Param → Nat → Nat → Assigns
  | [], _, _ => []
  | p :: ps, phys, logi =>
    (p.name, { index := phys, logical := logi, required := p.required })
      :: number ps (if p.hasSub then phys else phys + 1)
           (if isSubParam p.name then logi else logi + 1)

/-- number of physical slots taken by parameters -/
def realCount (ps : List Param) : Nat := (ps.filter (fun p => !p.hasSub)).length

/-- number of logical positions -/
def logicalCount (ps : List Param) : Nat := (ps.filter (fun p => !isSubParam p.name)).length

/-- slots taken by the globals (one, or two with a `present__` companion) -/
def globalSlots : List Global → Nat
  | [] => 0
  | g :: gs => (if g.hasPresent then 2 else 1) + globalSlots gs

/-- the alias `AliasGenerator.get` builds from a normalised hint and a counter value -/
def aliasOf (k : List Char) (n : Nat) : List Char := k ++ '~' :: Nat.toDigits 10 n

end EdbVerif.Argmap
