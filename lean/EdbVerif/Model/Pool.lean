/-
Model of `edb/server/connpool/pool.py` (`Block`, `BasePool`, `Pool`) for C15/C16.

A transition of the model is one *atomic section* of the real code: the code
executed by one event-loop handle between two `await`s (or one synchronous
call of `Pool.release`).  Everything the real code derives from floats or the
clock is a field of `Env`, chosen by the environment for that transition:

* `heldShort`  blocks for which `now - last_connect_timestamp < max(conntime_avg, MIN)` holds
               (`_should_free_conn`), and which keep their connection in the Mode-D tick;
* `avgNZ`      blocks whose `nwaiters_avg.avg()` is non-zero in `_tick`;
* `quotas`     the quota vector `_tick` computes in Mode C (float arithmetic);
* `abortC`     Mode C raised (`assert capacity_left > 0`);
* `gcOld`      per block, how many idle connections are older than the GC horizon.

The integer logic is modelled exactly: counters, stacks, waiter queues, block
order (`OrderedDict.move_to_end`), waitlist, over-quota list, task creation
order.  Blocks carry a `uid` because the real waitlist / over-quota list hold
`Block` *objects*, which may be stale (dropped, then re-created under the same
name).

Core Lean only (loaded by the driver).
-/
namespace EdbVerif.Pool

/-- `config.CONNECT_FAILURE_RETRIES` -/
def RETRIES : Nat := 3

structure Block where
  uid : Nat
  name : Nat
  conns : List (Nat × Bool) := []      -- conn id ↦ in_use, insertion order
  pending : Int := 0                   -- pending_conns
  stack : List Nat := []               -- conn_stack, head = bottom (`popleft` side), last = top
  queue : List Nat := []               -- conn_waiters (pending futures), head = next to wake
  acquired : Int := 0                  -- conn_acquired_num
  waitersNum : Int := 0                -- conn_waiters_num
  quota : Int := 1
  suppressed : Bool := false
  failures : Nat := 0                  -- connect_failures_num
deriving Repr, DecidableEq

/-- `count_conns()` -/
def Block.size (b : Block) : Int := (b.conns.length : Int) + b.pending
/-- `count_conns_over_quota()` -/
def Block.over (b : Block) : Int := if b.size - b.quota > 0 then b.size - b.quota else 0
/-- `count_approx_available_conns()` -/
def Block.avail (b : Block) : Int :=
  if b.size - b.acquired - b.waitersNum > 0 then b.size - b.acquired - b.waitersNum else 0

/-- Tasks the pool itself creates (`loop.create_task`). -/
inductive Task where
  /-- `_connect(block)`: created (`started = false`) / awaiting the connect callback -/
  | conn (b : Nat) (started : Bool)
  /-- `_discard_conn(block, c)`: created (c still in `conns`) / awaiting the disconnect callback.
      `byHolder`: the holder handed `c` back as broken (ghost). -/
  | disc (b : Nat) (c : Nat) (started : Bool) (byHolder : Bool)
  /-- `_transfer(from, c, to)`: phase 0 created, 1 awaiting disconnect, 2 awaiting connect -/
  | xfer (fromB : Nat) (c : Nat) (toB : Nat) (phase : Nat) (byHolder : Bool)
  /-- `_disconnect(c)` gathered by `prune_all_connections` -/
  | discAll (c : Nat) (started : Bool)
  /-- a `_discard_conn` task that died in its first section (its connection had been
      removed by `prune_all_connections`); kept for the ghost accounting only -/
  | dead (byHolder : Bool)
deriving Repr, DecidableEq

inductive WSt where
  | queued | woken | aborted
deriving Repr, DecidableEq

/-- A task suspended inside `Block.try_acquire` (a request, or a prune task). -/
structure Waiter where
  id : Nat
  block : Nat          -- uid
  st : WSt
  attempts : Nat
  prune : Bool
deriving Repr, DecidableEq

structure Holder where
  req : Nat
  name : Nat           -- database the request asked for
  conn : Nat
deriving Repr, DecidableEq

/-- `prune_inactive_connections` in progress: `locals` is its `conns` list. -/
structure Prune where
  id : Nat
  block : Nat
  locals : List Nat
  gathering : Bool
deriving Repr, DecidableEq

structure State where
  max : Nat
  cur : Int := 0
  blocks : List Block := []
  nextUid : Nat := 0
  nextConn : Nat := 0
  nextTask : Nat := 0
  starving : Bool := false
  waitlist : List Nat := []           -- `_new_blocks_waitlist` (uids)
  overQuota : List Nat := []          -- `_blocks_over_quota` (uids)
  nacq : Int := 0
  htick : Bool := false               -- `_htick is not None`
  gcReq : Nat := 0
  gcTimers : Nat := 0                 -- pending `_run_gc` timers
  tasks : List (Nat × Task) := []
  waiters : List Waiter := []
  holders : List Holder := []
  prunes : List Prune := []
  -- ghost
  home : List (Nat × Nat) := []       -- conn id ↦ name of the database it was opened for
  live : List Nat := []               -- connections the backend considers open
  err : Option String := none         -- the real code would have raised here
deriving Repr

structure Env where
  heldShort : List Nat := []
  avgNZ : List Nat := []
  quotas : List (Nat × Int) := []
  abortC : Bool := false
  gcOld : List (Nat × Nat) := []
deriving Repr

def init (max : Nat) : State := { max := max }

/-! ### block list helpers -/

def findB (bs : List Block) (u : Nat) : Option Block := bs.find? (·.uid == u)
def findName (bs : List Block) (n : Nat) : Option Block := bs.find? (·.name == n)

def modB (bs : List Block) (u : Nat) (f : Block → Block) : List Block :=
  bs.map fun b => if b.uid == u then f b else b

/-- `OrderedDict.move_to_end(name, last=True)` -/
def toEnd (bs : List Block) (u : Nat) : List Block :=
  bs.filter (·.uid != u) ++ bs.filter (·.uid == u)
/-- `OrderedDict.move_to_end(name, last=False)` -/
def toFront (bs : List Block) (u : Nat) : List Block :=
  bs.filter (·.uid == u) ++ bs.filter (·.uid != u)

def State.find (s : State) (u : Nat) : Option Block := findB s.blocks u
def State.mod (s : State) (u : Nat) (f : Block → Block) : State :=
  { s with blocks := modB s.blocks u f }
def State.fail (s : State) (msg : String) : State :=
  { s with err := some (s.err.getD msg) }

def State.addTask (s : State) (t : Task) : State :=
  { s with tasks := s.tasks ++ [(s.nextTask, t)], nextTask := s.nextTask + 1 }
def State.setTask (s : State) (tid : Nat) (t : Task) : State :=
  { s with tasks := s.tasks.map fun p => if p.1 == tid then (tid, t) else p }
def State.dropTask (s : State) (tid : Nat) : State :=
  { s with tasks := s.tasks.filter (·.1 != tid) }
def State.task (s : State) (tid : Nat) : Option Task := (s.tasks.find? (·.1 == tid)).map (·.2)

/-! ### primitives (`BasePool`) -/

/-- `_maybe_schedule_tick` -/
def maybeTick (s : State) : State :=
  if s.nacq == 0 || s.htick then s else { s with htick := true }

/-- `_schedule_new_conn(block)` -/
def schedNew (s : State) (u : Nat) : State :=
  match s.find u with
  | none => s.fail "schedNew: no block"
  | some _ =>
    let s := { s with cur := s.cur + 1 }
    let s := s.mod u fun b => { b with pending := b.pending + 1 }
    let s := if s.starving then { s with blocks := toEnd s.blocks u } else s
    s.addTask (.conn u false)

/-- `_schedule_transfer(from_block, conn, to_block)` -/
def schedXfer (s : State) (f : Nat) (c : Nat) (t : Nat) (byHolder : Bool := false) : State :=
  match s.find f, s.find t with
  | some fb, some _ =>
    match fb.conns.find? (·.1 == c) with
    | some (_, false) =>
      let s := s.mod f fun b => { b with conns := b.conns.filter (·.1 != c) }
      let s := s.mod t fun b => { b with pending := b.pending + 1 }
      let s := if s.starving then { s with blocks := toEnd (toEnd s.blocks t) f } else s
      s.addTask (.xfer f c t 0 byHolder)
    | _ => s.fail "schedXfer: conn in use or unknown"
  | _, _ => s.fail "schedXfer: no block"

/-- `_schedule_discard(block, conn)` -/
def schedDiscard (s : State) (u : Nat) (c : Nat) (byHolder : Bool := false) : State :=
  s.addTask (.disc u c false byHolder)

/-- the future of waiter `r` gets its result -/
def setWoken (r : Nat) (w : Waiter) : Waiter := if w.id == r then { w with st := .woken } else w

/-- `Block._wakeup_next_waiter` (the queue only holds pending futures) -/
def wakeNext (s : State) (u : Nat) : State :=
  match s.find u with
  | some b =>
    match b.queue with
    | [] => s
    | r :: rest =>
      { (s.mod u fun b => { b with queue := rest }) with waiters := s.waiters.map (setWoken r) }
  | none => s

/-- `Block.release(conn)` -/
def blockRelease (s : State) (u : Nat) (c : Nat) : State :=
  wakeNext (s.mod u fun b => { b with stack := b.stack ++ [c] }) u

/-- `Block.try_steal()` without time bound: the bottom of the stack -/
def steal (s : State) (u : Nat) : State × Option Nat :=
  match s.find u with
  | some b =>
    match b.stack with
    | [] => (s, none)
    | c :: rest => (s.mod u fun b => { b with stack := rest }, some c)
  | none => (s, none)

/-- `_release_unused(block, conn)` -/
def releaseUnused (s : State) (u : Nat) (c : Nat) : State :=
  let s := blockRelease s u c
  let s := { s with gcReq := s.gcReq + 1 }
  if s.gcReq == 1 then { s with gcTimers := s.gcTimers + 1 } else s

/-! ### `Pool` decision procedures -/

/-- `_should_free_conn(from_block)`; a stale (dropped) block object has size 0,
    quota 0 and no waiters. -/
def shouldFree (s : State) (env : Env) (u : Nat) : Bool :=
  if s.blocks.length ≤ 1 then false else
  let (size, quota, wn) := match s.find u with
    | some b => (b.size, b.quota, b.waitersNum)
    | none => (0, 0, 0)
  if !s.starving && size ≤ quota then false
  else if s.starving && size == 1 && wn != 0 && env.heldShort.contains u then false
  else true

/-- first loop of `_find_most_starving_block`: consume the waitlist -/
def popWaitlist (s : State) : Nat → State × Option Nat
  | 0 => (s, none)
  | fuel + 1 =>
    match s.waitlist with
    | [] => (s, none)
    | u :: rest =>
      let s := { s with waitlist := rest }
      match s.find u with
      | some b => if b.size != 0 || b.waitersNum == 0 then popWaitlist s fuel else (s, some u)
      | none => popWaitlist s fuel

/-- "the one that is starving the most": first block with the strictly largest key -/
def argmaxPos (bs : List Block) (key : Block → Option Int) : Option Nat :=
  (bs.foldl (fun (acc : Int × Option Nat) b =>
      match key b with
      | some k => if k > acc.1 then (k, some b.uid) else acc
      | none => acc) (0, none)).2

/-- `_find_most_starving_block` -/
def findStarving (s : State) : State × Option Nat :=
  match popWaitlist s (s.waitlist.length + 1) with
  | (s, some u) => (s, some u)
  | (s, none) =>
    match argmaxPos s.blocks (fun b =>
        if b.size != 0 || b.waitersNum == 0 || b.suppressed then none else some b.waitersNum) with
    | some u => (s, some u)
    | none =>
      (s, argmaxPos s.blocks (fun b =>
        if b.quota > b.size && !b.suppressed then some (b.quota - b.size) else none))

/-- `_maybe_free_into_starving_blocks(from_block, conn)` -/
def freeInto (s : State) (f : Nat) (c : Nat) (byHolder : Bool := false) : State × Bool :=
  match findStarving s with
  | (s, none) => (s, false)
  | (s, some t) => if t == f then (s, false) else (schedXfer s f c t byHolder, true)

/-- `_try_shrink_block(block)`; the loop ends at the latest when the stack is empty -/
def tryShrink (env : Env) (u : Nat) : Nat → State → State
  | 0, s => s
  | fuel + 1, s =>
    match s.find u with
    | none => s
    | some b =>
      if b.over != 0 && shouldFree s env u then
        match steal s u with
        | (s, some c) =>
          match findStarving s with
          | (s, some t) => tryShrink env u fuel (schedXfer s u c t)
          | (s, none) => tryShrink env u fuel (schedDiscard s u c)
        | (s, none) => s
      else s

/-- `_try_steal_conn(for_block)` over the remaining over-quota list -/
def tryStealConn (env : Env) (forU : Nat) : List Nat → State → State × Bool
  | [], s => (s, false)
  | u :: rest, s =>
    if u == forU || !shouldFree s env u then tryStealConn env forU rest s
    else match steal s u with
      | (s, some c) => (schedXfer s u c forU, true)
      | (s, none) => tryStealConn env forU rest s

/-- the `while count_conns() < quota and cur < max: _schedule_new_conn` loop -/
def growTo (u : Nat) (quota : Int) : Nat → State → State
  | 0, s => s
  | fuel + 1, s =>
    match s.find u with
    | some b => if b.size < quota && s.cur < s.max then growTo u quota fuel (schedNew s u) else s
    | none => s

/-- stable insertion sort, descending by `count_conns_over_quota`
    (`list.sort(key=…, reverse=True)` keeps the order of equal keys) -/
def insertDesc (key : Nat → Int) (x : Nat) : List Nat → List Nat
  | [] => [x]
  | y :: ys => if key y > key x then y :: insertDesc key x ys else x :: y :: ys

def sortDesc (key : Nat → Int) (l : List Nat) : List Nat :=
  l.foldr (fun x acc => insertDesc key x acc) []

/-- body of the `for block in self._blocks.values()` loop of `_maybe_rebalance` -/
def rebalanceOne (env : Env) (s : State) (u : Nat) : State :=
  match s.find u with
  | none => s
  | some b =>
    let nconns := b.size
    let quota := b.quota
    if nconns > quota then
      let s := tryShrink env u (b.stack.length + 1) s
      match s.find u with
      | some b' => if b'.size > quota then { s with overQuota := s.overQuota ++ [u] } else s
      | none => s
    else if nconns < quota then
      growTo u quota ((quota - nconns).toNat + 1) s
    else s

/-- `_maybe_rebalance` -/
def rebalance (env : Env) (s : State) : State :=
  if s.starving then s else
  let s := { s with overQuota := [] }
  let s := (s.blocks.map (·.uid)).foldl (rebalanceOne env) s
  { s with overQuota := sortDesc (fun u => match s.find u with | some b => b.over | none => 0) s.overQuota }


/-- the identifier already names a waiting task, a holder or a prune task -/
def idInUse (s : State) (id : Nat) : Bool :=
  s.waiters.any (·.id == id) || s.holders.any (·.req == id) || s.prunes.any (·.id == id)

/-! ### waiting in `Block.try_acquire` -/

/-- `try_acquire(attempts)` up to its first suspension point: returns the
    connection when the stack is not empty, otherwise enqueues the waiter. -/
def tryAcq (s : State) (id u attempts : Nat) (prune : Bool) : State × Option Nat :=
  match s.find u with
  | none => (s.fail "tryAcq: no block", none)
  | some b =>
    match b.stack.getLast? with
    | some c =>
      -- waiters_num += 1 … pop … finally waiters_num -= 1
      (s.mod u fun b => { b with stack := b.stack.dropLast }, some c)
    | none =>
      let s := s.mod u fun b =>
        { b with waitersNum := b.waitersNum + 1,
                 queue := if attempts > 1 then id :: b.queue else b.queue ++ [id] }
      ({ s with waiters := s.waiters ++ [⟨id, u, .queued, attempts, prune⟩] }, none)

/-- tail of `Pool.acquire` after `_acquire` returned `c` from block `u`
    (`self._blocks[dbname]` is that block: a block with a waiter is never dropped) -/
def lend (s : State) (r u c : Nat) : State :=
  let s := { s with nacq := s.nacq - 1 }
  match s.find u with
  | none => s.fail "acquire: block vanished"
  | some b =>
    match b.conns.find? (·.1 == c) with
    | some (_, false) =>
      let s := s.mod u fun b =>
        { b with acquired := b.acquired + 1,
                 conns := b.conns.map fun p => if p.1 == c then (c, true) else p }
      { s with holders := s.holders ++ [⟨r, b.name, c⟩] }
    | _ => s.fail "acquire: conn in use or unknown"

/-- the futures of the waiters in `q` get the exception -/
def setAborted (q : List Nat) (w : Waiter) : Waiter := if q.contains w.id then { w with st := .aborted } else w

/-- `Block.abort_waiters(e)` -/
def abortWaiters (s : State) (u : Nat) : State :=
  match s.find u with
  | none => s
  | some b =>
    { (s.mod u fun b => { b with queue := [] }) with waiters := s.waiters.map (setAborted b.queue) }

/-- the `while not waiters and pending: try_acquire()` loop of
    `prune_inactive_connections`, then the `gather` of the discards -/
def pruneLoop (p : Prune) : Nat → State → State
  | 0, s => s
  | fuel + 1, s =>
    match s.find p.block with
    | none => s
    | some b =>
      if b.waitersNum == 0 && b.pending != 0 then
        match tryAcq s p.id p.block 1 true with
        | (s, some c) => pruneLoop { p with locals := p.locals ++ [c] } fuel s
        | (s, none) => { s with prunes := s.prunes ++ [p] }
      else
        p.locals.foldl (fun s c => s.addTask (.disc p.block c false false)) s

/-- the waiter leaves `try_acquire` (`finally: conn_waiters_num -= 1`) -/
def leaveWait (s : State) (id u : Nat) : State :=
  { (s.mod u fun b => { b with waitersNum := b.waitersNum - 1 }) with
    waiters := s.waiters.filter (·.id != id) }

/-- `try_acquire` took the connection on top of the stack -/
def popTop (s : State) (u : Nat) : State :=
  s.mod u fun b => { b with stack := b.stack.dropLast }

/-- a prune task continues with `locals` extended by what it just got -/
def pruneCont (s : State) (id : Nat) (got : List Nat) (fuel : Nat) : State :=
  match s.prunes.find? (·.id == id) with
  | some p =>
    pruneLoop { p with locals := p.locals ++ got } fuel { s with prunes := s.prunes.filter (·.id != id) }
  | none => s.fail "resume: no prune"

/-- a task suspended in `try_acquire` resumes -/
def resume (s : State) (id : Nat) : State :=
  match s.waiters.find? (·.id == id) with
  | none => s.fail "resume: not waiting"
  | some w =>
    let u := w.block
    match s.find u with
    | none => s.fail "resume: no block"
    | some b =>
      match w.st with
      | .queued => s.fail "resume: still queued"
      | .aborted =>
        -- except branch: wake the next one if a connection is there; re-raise
        let s := leaveWait (if b.stack.isEmpty then s else wakeNext s u) id u
        if w.prune then { s with prunes := s.prunes.filter (·.id != id) }
        else { s with nacq := s.nacq - 1 }
      | .woken =>
        let s := leaveWait s id u
        match b.stack.getLast? with
        | some c =>
          let s := popTop s u
          if w.prune then pruneCont s id [c] (b.stack.length + 1)
          else lend s id u c
        | none =>
          if w.prune then pruneCont s id [] 1
          else (tryAcq s id u (w.attempts + 1) false).1

/-! ### transitions -/

/-- `_get_block` / `_new_block` -/
def getBlock (s : State) (name : Nat) : State × Nat :=
  match findName s.blocks name with
  | some b => (s, b.uid)
  | none =>
    let u := s.nextUid
    let s := { s with blocks := s.blocks ++ [({ uid := u, name := name } : Block)], nextUid := u + 1 }
    (if s.starving then { s with blocks := toFront s.blocks u } else s, u)

/-- the scheduling decision of `Pool._acquire` for block `u` (`b` = its current value) -/
def acqSched (env : Env) (s : State) (u : Nat) (b : Block) : State :=
  let nconns := b.size
  if s.cur < s.max then
    if s.blocks.length == 1 then
      if b.stack.length ≤ 1 then schedNew s u else s
    else if nconns == 0 || nconns < b.quota || b.avail == 0 then schedNew s u else s
  else if nconns == 0 then
    match tryStealConn env u s.overQuota s with
    | (s, true) => s
    | (s, false) => if s.waitlist.contains u then s else { s with waitlist := s.waitlist ++ [u] }
  else if nconns < b.quota then (tryStealConn env u s.overQuota s).1
  else s

/-- `block.acquire()` for a new request: take the top of the stack or wait -/
def acqFinish (s : State) (r u : Nat) : State :=
  match tryAcq s r u 1 false with
  | (s, some c) => lend s r u c
  | (s, none) => s

/-- first section of `Pool.acquire(dbname)` -/
def acquire (env : Env) (s : State) (r name : Nat) : State :=
  let gb := getBlock (maybeTick { s with nacq := s.nacq + 1 }) name
  let u := gb.2
  let s := gb.1.mod u fun b => { b with suppressed := false }
  match s.find u with
  | none => s.fail "acquire: no block"
  | some b =>
    let s := acqSched env s u b
    -- `r` names a new task: it is not waiting and holds nothing (checked where it matters)
    if idInUse s r then s.fail "acq: request id in use" else acqFinish s r u

/-- end of `Pool.release`: the connection stays in its block -/
def relTail (s : State) (u c : Nat) (discard : Bool) : State :=
  if discard then schedNew (schedDiscard s u c true) u else releaseUnused s u c

/-- `Pool.release` after the bookkeeping: transfer to a starving block, or `relTail` -/
def relRoute (env : Env) (s : State) (u c : Nat) (discard : Bool) : State :=
  if shouldFree s env u then
    match freeInto s u c discard with
    | (s, true) => s
    | (s, false) => relTail s u c discard
  else relTail s u c discard

/-- `release`: the holder `r` gives `c` back (`dec_acquire_counter`, `in_use = False`) -/
def unlend (s : State) (r u c : Nat) : State :=
  { (s.mod u fun b =>
      { b with acquired := b.acquired - 1,
               conns := b.conns.map fun p => if p.1 == c then (c, false) else p }) with
    holders := s.holders.filter (·.req != r) }

/-- `Pool.release(dbname, conn, discard=…)` by the holder of request `r` -/
def release (env : Env) (s : State) (r : Nat) (discard : Bool) : State :=
  match s.holders.find? (·.req == r) with
  | none => s.fail "release: not a holder"
  | some h =>
    -- (when the pool refuses the release — only possible after `prune_all_connections` — the
    --  connection stays marked as lent: nothing changes)
    match findName s.blocks h.name with
    | none => s.fail "release: database is not known to the pool"
    | some b =>
      match b.conns.find? (·.1 == h.conn) with
      | none => s.fail "release: the connection does not belong to the pool"
      | some (_, false) => s.fail "release: never acquired"
      | some (_, true) =>
        relRoute env (maybeTick (unlend s r b.uid h.conn)) b.uid h.conn discard

/-- `_connect` got a connection: it joins the block and is released to the waiters -/
def connOk (s : State) (u : Nat) (name : Nat) : State :=
  let c := s.nextConn
  let s := { (s.mod u fun b =>
      { b with failures := 0, pending := b.pending - 1, conns := b.conns ++ [(c, false)] }) with
    nextConn := c + 1, home := s.home ++ [(c, name)], live := s.live ++ [c] }
  blockRelease s u c

/-- `_connect` failed: counters (`pending_conns -= 1` of the `finally` is applied first: it
    commutes with everything in the `except` branch), then abort the waiters or retry -/
def connFail (s : State) (u : Nat) (is3D : Bool) : State :=
  let s := ({ s with cur := s.cur - 1 } : State).mod u fun b =>
    { b with pending := b.pending - 1,
             failures := if is3D && b.failures + 1 ≤ RETRIES then RETRIES + 1 else b.failures + 1 }
  match s.find u with
  | some b => if b.failures > RETRIES then abortWaiters s u else schedNew s u
  | none => s

/-- `_connect` after the connect callback answered -/
def connFin (s : State) (u : Nat) (ok is3D : Bool) : State :=
  match s.find u with
  | none => s.fail "_connect: block gone"     -- unreachable: `pending_conns > 0` keeps the block
  | some b0 => if ok then connOk s u b0.name else connFail s u is3D

def connDone (s : State) (tid : Nat) (ok : Bool) (is3D : Bool) : State :=
  match s.task tid with
  | some (.conn u true) => connFin (s.dropTask tid) u ok is3D
  | some (.xfer _ _ u 2 _) => connFin (s.dropTask tid) u ok is3D
  | _ => s.fail "connDone: no such connect in flight"

/-- first section of `_connect` / `_discard_conn` / `_transfer` / `_disconnect` -/
def taskStart (s : State) (tid : Nat) : State :=
  match s.task tid with
  | some (.conn u false) => s.setTask tid (.conn u true)
  | some (.disc u c false h) =>
    match s.find u with
    | none => (s.setTask tid (.dead h)).fail "_discard_conn: block gone"
    | some b =>
      match b.conns.find? (·.1 == c) with
      | some (_, false) =>
        (s.mod u fun b => { b with conns := b.conns.filter (·.1 != c) }).setTask tid (.disc u c true h)
      | _ => (s.setTask tid (.dead h)).fail "_discard_conn: conn in use or unknown"
  | some (.xfer f c t 0 h) => s.setTask tid (.xfer f c t 1 h)
  | some (.discAll c false) => s.setTask tid (.discAll c true)
  | _ => s.fail "taskStart: no such created task"

/-- the disconnect callback answered (`_disconnect`'s `finally: cur -= 1`) -/
def discDone (s : State) (tid : Nat) (ok : Bool) : State :=
  match s.task tid with
  | some (.disc _ c true _) =>
    { (s.dropTask tid) with cur := s.cur - 1, live := s.live.filter (· != c) }
  | some (.discAll c true) =>
    { (s.dropTask tid) with cur := s.cur - 1, live := s.live.filter (· != c) }
  | some (.xfer f c t 1 h) =>
    -- `_transfer` (since 6ff8693): a failed disconnect is logged and the transfer goes on:
    -- `cur - 1` (`_disconnect`) `+ 1`, then the connect callback is called
    { (s.setTask tid (.xfer f c t 2 h)) with live := s.live.filter (· != c) }
  | _ => s.fail "discDone: no such disconnect in flight"

/-- `for block in to_drop: _drop_block(block)`; `false` = an assertion failed -/
def dropLoop : List Nat → State → State × Bool
  | [], s => (s, true)
  | u :: rest, s =>
    match s.find u with
    | none => dropLoop rest s
    | some b =>
      if b.waitersNum != 0 || b.size != 0 || b.quota != 0 then (s, false)
      else dropLoop rest { s with blocks := s.blocks.filter (·.uid != u) }

/-- Mode D quota pass over `tuple(self._blocks.values())` -/
def modeDOne (env : Env) (s : State) (u : Nat) : State :=
  match s.find u with
  | none => s
  | some b =>
    if b.size == 1 then
      if env.heldShort.contains u then s.mod u fun b => { b with quota := 1 }
      else { (s.mod u fun b => { b with quota := 0 }) with blocks := toEnd (modB s.blocks u fun b => { b with quota := 0 }) u }
    else if b.size > 1 then
      { s with blocks := toEnd (modB s.blocks u fun b => { b with quota := 0 }) u }
    else
      { s with blocks := toEnd (modB s.blocks u fun b => { b with quota := 1 }) u }

/-- the "just entered Mode D" rescue, one block; `true` = `return` from `_tick` -/
def rescueBlock (env : Env) (u : Nat) : Nat → State → State × Bool
  | 0, s => (s, false)
  | fuel + 1, s =>
    if shouldFree s env u then
      match steal s u with
      | (s, none) => (s, false)
      | (s, some c) =>
        match freeInto s u c with
        | (s, true) => rescueBlock env u fuel s
        | (s, false) => (releaseUnused s u c, true)
    else (s, false)

def stackFuel (s : State) (u : Nat) : Nat :=
  match s.find u with | some b => b.stack.length + 1 | none => 1

def rescue (env : Env) : List Nat → State → State
  | [], s => s
  | u :: rest, s =>
    match rescueBlock env u (stackFuel s u) s with
    | (s, true) => s
    | (s, false) => rescue env rest s

def sumInt (l : List Int) : Int := l.foldr (· + ·) 0

/-- Mode C: the quota vector computed with floats is the environment's choice -/
def setQuotas (env : Env) (s : State) : State :=
  { s with blocks := s.blocks.map fun b =>
      match env.quotas.find? (·.1 == b.uid) with
      | some (_, q) => { b with quota := q }
      | none => b }

/-- `_tick` after the scan and the drops: nothing to do / Mode B / Mode C' / Mode D / Mode C -/
def tickModes (env : Env) (was : Bool) (total : Int) (s : State) : State :=
  if total == 0 then s
  else if total < s.max then
    if s.cur ≥ s.max then rebalance env s else s
  else if s.starving then
    let s := (s.blocks.map (·.uid)).foldl (modeDOne env) s
    if !was && !s.waitlist.isEmpty then rescue env (s.blocks.map (·.uid)) s else s
  else
    let s := setQuotas env s
    if env.abortC then s.fail "_tick: Mode C raised" else rebalance env s

/-- `_tick`: timer bookkeeping -/
def tickHead (s : State) : State :=
  let s := { s with htick := false }
  if s.nacq != 0 then maybeTick s else s

/-- `Pool._tick` -/
def tick (env : Env) (s0 : State) : State :=
  let s := tickHead s0
  match s.blocks with
  | [] => { s with starving := false }
  | [_] => { s with starving := false, blocks := s.blocks.map fun b => { b with quota := s.max } }
  | _ =>
    let nw := fun (b : Block) => b.waitersNum + b.acquired
    let hungry := fun (b : Block) => env.avgNZ.contains b.uid && !b.suppressed
    let total := sumInt (s.blocks.map nw)
    let need := (s.blocks.filter hungry).length
    let toDrop := (s.blocks.filter fun (b : Block) => !hungry b && b.size == 0).map (·.uid)
    let was := s.starving
    let s := { s with blocks := s.blocks.map fun (b : Block) => { b with quota := nw b },
                      starving := decide (need ≥ s.max) }
    match dropLoop toDrop s with
    | (s, false) => s.fail "_tick: _drop_block assertion"
    | (s, true) => tickModes env was total s

/-- steal up to `n` connections from the bottom of the stack and discard them -/
def gcBlock (u : Nat) : Nat → State → State
  | 0, s => s
  | n + 1, s =>
    match steal s u with
    | (s, some c) => gcBlock u n (schedDiscard s u c)
    | (s, none) => s

/-- `Pool._run_gc` (one of the pending GC timers fired) -/
def gc (env : Env) (s : State) : State :=
  let s := { s with gcTimers := s.gcTimers - 1 }
  if s.starving then { s with gcTimers := s.gcTimers + 1 } else
  let s := if s.gcReq > 1 then { s with gcReq := 1, gcTimers := s.gcTimers + 1 }
           else { s with gcReq := 0 }
  (s.blocks.map (·.uid)).foldl (fun s u =>
    match env.gcOld.find? (·.1 == u) with
    | some (_, n) => gcBlock u n s
    | none => s) s

/-- `prune_inactive_connections`: suppress the block and take its whole stack -/
def grabStack (s : State) (u : Nat) : State :=
  s.mod u fun b => { b with suppressed := true, stack := [] }

/-- first section of `prune_inactive_connections(dbname)` -/
def pruneStart (s : State) (pid name : Nat) : State :=
  match findName s.blocks name with
  | none => s
  | some b =>
    if idInUse s pid then s.fail "prune: task id in use" else
    pruneLoop ⟨pid, b.uid, b.stack, false⟩ 1 (grabStack s b.uid)

/-- `prune_all_connections()` up to the `gather` -/
def pruneAll (s : State) : State :=
  let cs := s.blocks.flatMap fun b => b.conns.map (·.1)
  let s := { s with blocks := s.blocks.map fun b => { b with stack := [], conns := [] } }
  cs.foldl (fun s c => s.addTask (.discAll c false)) s

inductive Ev where
  | acq (r name : Nat)
  | resume (id : Nat)
  | start (t : Nat)
  | cdone (t : Nat) (ok is3D : Bool)
  | ddone (t : Nat) (ok : Bool)
  | rel (r : Nat) (discard : Bool)
  | tick
  | gc
  | prune (p name : Nat)
  | pall
deriving Repr, DecidableEq

def step (s : State) (env : Env) : Ev → State
  | .acq r n => acquire env s r n
  | .resume id => resume s id
  | .start t => taskStart s t
  | .cdone t ok d => connDone s t ok d
  | .ddone t ok => discDone s t ok
  | .rel r d => release env s r d
  | .tick => tick env s
  | .gc => gc env s
  | .prune p n => pruneStart s p n
  | .pall => pruneAll s

def run (s : State) : List (Env × Ev) → State
  | [] => s
  | (env, e) :: rest => run (step s env e) rest

end EdbVerif.Pool
