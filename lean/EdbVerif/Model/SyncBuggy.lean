/-
The transitions of the compiler-pool sync protocol as they were BEFORE the
three repairs

  (A) 2709780  `sync_worker_state_cb` merged with `new or old`,
  (B) 03eafed  worker `__sync__` installed `DBS` (and `GLOBAL_SCHEMA`) before
               unpickling the later parts,
  (C) ae526a3  worker `compile` / `compile_in_tx` assigned `LAST_STATE` before
               `pickle.dumps(cstate)`, and the pool kept `_last_pickled_state`
               when `worker.call` raised.

  (D) 3499a3b  `worker_proc.worker` (and `MultiSchemaPool.handle_client_call`) answered a
               request they could not unpickle with that ordinary exception, and
               `BaseWorker.call` acknowledged a sync that never happened.

NOT the code that exists.  Kept only so that Props/C17.lean can document, on
concrete histories, what each repair changed (`…_repaired` theorems); the
harness has the same histories as regression witnesses on the real code.
Types, `preargs`, `txSend`, `wtxPrepare` are shared with Model/Sync.lean.
Core Lean only.
-/
import EdbVerif.Model.Sync
import EdbVerif.Model.SyncMT

namespace EdbVerif.Sync.Buggy
open EdbVerif.Sync

/-- `new or old` with `new` possibly `None`. -/
def orOld (env : Env) (new : Option Tok) (old : Tok) : Tok :=
  match new with
  | none => old
  | some t => if env.falsy t then old else t

/-- `sync_worker_state_cb(worker, dbname, **to_update)`; `none` = one of its
    `assert`s fails (never happens for `to_update = preargs`, see
    `Lemmas/Sync`). -/
def ack (env : Env) (b : Side) (db : Nat) (p : Parts) : Option Side :=
  match b.dbs db with
  | none =>
    match p.schema, p.refl, p.glob, p.dbcfg, p.sys with
    | some s, some r, some g, some c, some y =>
      some { b with dbs := setDb b.dbs db ⟨s, r, c⟩, glob := g, sys := y }
    | _, _, _, _, _ => none
  | some d =>
    let dbs' :=
      if p.schema.isSome || p.refl.isSome || p.dbcfg.isSome then
        setDb b.dbs db ⟨orOld env p.schema d.schema, orOld env p.refl d.refl,
                        orOld env p.dbcfg d.dbcfg⟩
      else b.dbs
    some { b with dbs := dbs', glob := p.glob.getD b.glob, sys := p.sys.getD b.sys }

/-- Second half of `__sync__`: `GLOBAL_SCHEMA`, then `INSTANCE_CONFIG`; the
    `DBS` update has already happened.  `none` = `FailedStateSync`. -/
def wsyncTail (env : Env) (a : Side) (p : Parts) (d : Db3) : Side × Option Db3 :=
  match p.glob with
  | some g =>
    if env.bad g then (a, none) else
    let a2 := { a with glob := g }
    match p.sys with
    | some y => if env.bad y then (a2, none) else ({ a2 with sys := y }, some d)
    | none => (a2, some d)
  | none =>
    match p.sys with
    | some y => if env.bad y then (a, none) else ({ a with sys := y }, some d)
    | none => (a, some d)

/-- Worker `__sync__(dbname, user_schema, reflection_cache, global_schema,
    database_config, system_config)`.  Returns the new worker state and the
    `DatabaseState` it returns, or `none` for `FailedStateSync` (state as far
    as it got). -/
def wsync (env : Env) (a : Side) (db : Nat) (p : Parts) : Side × Option Db3 :=
  match a.dbs db with
  | none =>
    match p.schema, p.refl, p.dbcfg with
    | some s, some r, some c =>
      if env.bad s || env.bad r || env.bad c then (a, none) else
      wsyncTail env { a with dbs := setDb a.dbs db ⟨s, r, c⟩ } p ⟨s, r, c⟩
    | _, _, _ => (a, none)     -- AssertionError inside the try → FailedStateSync
  | some d0 =>
    if badO env p.schema || badO env p.refl || badO env p.dbcfg then (a, none) else
    let d : Db3 := ⟨p.schema.getD d0.schema, p.refl.getD d0.refl, p.dbcfg.getD d0.dbcfg⟩
    let a1 := if p.schema.isSome || p.refl.isSome || p.dbcfg.isSome
              then { a with dbs := setDb a.dbs db d } else a
    wsyncTail env a1 p d

/-- apply the acknowledgement callback (if any), then `k` -/
def withAck (env : Env) (b : Side) (db : Nat) (p : Parts) : Option Side :=
  if p.isEmpty then some b else ack env b db p

/-- `AbstractPool.compile` on worker `r.w`, with `BaseWorker.call`'s status
    handling: the callback runs on status 0 and on status 1 with an exception
    that is not `FailedStateSync`; never on status 2. -/
def stepCompile (env : Env) (st : State) (r : CReq) : State × CObs :=
  let ws := st r.w
  let p := preargs ws.bel r
  let cb := !p.isEmpty
  match wsync env ws.act r.db p with
  | (a', none) =>
    (upd st r.w ⟨ws.bel, a'⟩, ⟨p, cb, .syncFail, none⟩)
  | (a', some d) =>
    let used : Used := ⟨d.schema, a'.glob, d.refl, d.dbcfg, a'.sys⟩
    -- worker side: LAST_STATE
    let aLast : Option Tok := match r.out with
      | .ok | .statePickleFail | .resultUnpicklable => some r.ns
      | .okNoState => none
      | .raise | .requestUnreadable => a'.last
    let a'' := { a' with last := aLast }
    match r.out with
    | .resultUnpicklable =>
      (upd st r.w ⟨ws.bel, a''⟩, ⟨p, cb, .serErr, some used⟩)
    | out =>
      match withAck env ws.bel r.db p with
      | none => (upd st r.w ⟨ws.bel, a''⟩, ⟨p, cb, .cbAssert, some used⟩)
      | some b' =>
        match out with
        | .ok => (upd st r.w ⟨{ b' with last := some r.ns }, a''⟩, ⟨p, cb, .ok, some used⟩)
        | .okNoState => (upd st r.w ⟨{ b' with last := none }, a''⟩, ⟨p, cb, .ok, some used⟩)
        | .raise => (upd st r.w ⟨b', a''⟩, ⟨p, cb, .compErr, some used⟩)
        | _ => (upd st r.w ⟨b', a''⟩, ⟨p, cb, .statePickleErr, some used⟩)

def stepTx (env : Env) (st : State) (r : TReq) : State × TObs :=
  let ws := st r.w
  let s := txSend ws.bel r
  match wtxPrepare env ws.act r s with
  | .error e => (st, ⟨s, e, none⟩)
  | .ok u =>
    match r.out with
    | .raise => (st, ⟨s, .compErr, some u⟩)
    | .raiseMutated =>
      match s with
      | .reuse =>     -- `cstate = LAST_STATE`: the in-place mutation survives the exception
        (upd st r.w ⟨ws.bel, { ws.act with last := some r.ns }⟩, ⟨s, .compErr, some u⟩)
      | _ =>          -- a freshly unpickled object was mutated and is dropped
        (st, ⟨s, .compErr, some u⟩)
    | .ok =>
      (upd st r.w ⟨{ ws.bel with last := some r.ns }, { ws.act with last := some r.ns }⟩,
       ⟨s, .ok, some u⟩)
    | .statePickleFail =>
      (upd st r.w ⟨ws.bel, { ws.act with last := some r.ns }⟩, ⟨s, .statePickleErr, some u⟩)
    | .resultUnpicklable =>
      (upd st r.w ⟨ws.bel, { ws.act with last := some r.ns }⟩, ⟨s, .serErr, some u⟩)

def step (env : Env) (st : State) : Req → State × Obs
  | .compile r => let (s, o) := stepCompile env st r; (s, .compile o)
  | .tx r => let (s, o) := stepTx env st r; (s, .tx o)

/-- state after a history -/
def exec (env : Env) (st : State) : List Req → State
  | [] => st
  | q :: qs => exec env (step env st q).1 qs

/-- observations of a history -/
def trace (env : Env) (st : State) : List Req → List Obs
  | [] => []
  | q :: qs => (step env st q).2 :: trace env (step env st q).1 qs


/-- before 3499a3b: status 1 with an ordinary exception ⇒ the callback runs -/
def stepCompileLost (st : State) (r : CReq) : State × CObs :=
  let ws := st r.w
  let p := preargs ws.bel r
  match EdbVerif.Sync.withAck ws.bel r.db p with
  | none => (upd st r.w ⟨ws.bel.forget, ws.act⟩, ⟨p, !p.isEmpty, .cbAssert, none⟩)
  | some b' => (upd st r.w ⟨b'.forget, ws.act⟩, ⟨p, !p.isEmpty, .unpickleErr, none⟩)

/-- before 3499a3b, remote path: nothing stored on the compiler server, the client acknowledges -/
def stepMTLost (st : EdbVerif.SyncMT.MTState) (q : EdbVerif.SyncMT.MReq) :
    EdbVerif.SyncMT.MTState × EdbVerif.SyncMT.MObs :=
  let p := preargs (st.bel q.c) q.r
  (EdbVerif.SyncMT.ack1 { st with clock := st.clock + 1 } q.c q.r.db p true,
   ⟨p, !p.isEmpty, false, none, none, [], .unpickleErr, none⟩)

end EdbVerif.Sync.Buggy
