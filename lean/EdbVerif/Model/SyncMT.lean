/-
Model of the REMOTE compiler path of C17: three tiers

    EdgeDB server (one per client)      compiler server                workers
    pool.RemotePool / RemoteWorker  →   server.MultiSchemaPool     →   multitenant_worker
    belief about the compiler server    `_clients`, per-worker         `clients`
                                        `Worker._cache` (LRU)

Code modelled (read line by line):

* `pool.py`: `AbstractPool.compile`, `_compute_compile_preargs` + `sync_worker_state_cb`,
  `BaseWorker.call` (shared with Model/Sync.lean: `preargs`, `withAck`);
* `server.py`: `MultiSchemaPool._call_for_client` (status handling, `set_client_schema`),
  `_sync` → `sync2`, `ClientSchema.diff` / `PickledState.diff` → `CS.diff`,
  `Worker.get_client_schema / set_client_schema / invalidate_last / flush_invalidation`
  → `cacheGet / cacheSet / invalidateLast`, `handle_client_call` (everything that is
  raised on the compiler server travels to the client as status 1);
* `multitenant_worker.py`: `__sync__` (invalidation, FULL SYNC, DIFF SYNC ADD / UPDATE / DROP)
  → `wsyncMT`, `call_for_client` + `compile` → worker part of `stepMT`.

Identities.  On the EdgeDB server a part is an identity token as in Model/Sync.lean.  On the
compiler server every transmitted part is a *fresh* bytes object: it is modelled as the pair
(token, number of the request that delivered it) — `St`.  Two parts of the compiler server are
the same object iff the pairs are equal; this is what `ClientSchema.diff` compares.  A worker
holds unpickled contents: tokens.

Which worker serves a request is an input (the theorems hold for every choice); requests are
one at a time.  Not modelled: `compile_in_tx` / state ids on this path, client disconnects,
databases with no user schema yet (`user_schema_pickle is None` in the init args).
Core Lean only.
-/
import EdbVerif.Model.Sync

namespace EdbVerif.SyncMT
open EdbVerif.Sync

/-- a part as held by the compiler server: content token + the request that delivered it -/
structure St where
  tok : Tok
  stamp : Nat
deriving DecidableEq, Repr

/-- `server.PickledState` -/
structure PS where
  schema : St
  refl : St
  dbcfg : St
deriving DecidableEq, Repr

/-- `server.ClientSchema` as stored in `MultiSchemaPool._clients`: one *version* of a
    client's schema.  `ver` is the identity of the NamedTuple object, `dom` lists the
    database names (keys of `dbs`). -/
structure CS where
  ver : Nat
  dom : List Nat
  dbs : Nat → Option PS
  glob : St
  sys : St

/-- per-database part of what is sent to a worker (`None` = not sent) -/
structure PDb where
  schema : Option Tok
  refl : Option Tok
  dbcfg : Option Tok
deriving DecidableEq, Repr

/-- the `pickled_schema` argument of `call_for_client`: a full `ClientSchema` or a diff -/
structure Diff where
  dom : List Nat
  dbs : Nat → Option PDb
  glob : Option Tok
  sys : Option Tok
  dropped : List Nat

/-- what a worker process holds for one client (`multitenant_worker.ClientSchema`) -/
structure WClient where
  dbs : Nat → Option Db3
  glob : Tok
  sys : Tok

/-- one worker of the compiler server: the server-side record (`Worker._cache`, an
    OrderedDict, most recently used first; `_invalidated_clients`) and the worker process
    (`clients`) -/
structure MTWorker where
  cache : List (Nat × CS)
  inval : List Nat
  act : Nat → Option WClient

structure MTState where
  /-- tier 1: what the EdgeDB server of client `c` believes the compiler server holds -/
  bel : Nat → Side
  /-- tier 2: `MultiSchemaPool._clients` -/
  cli : Nat → Option CS
  wk : Nat → MTWorker
  /-- number of the next request (source of stamps and version identities) -/
  clock : Nat
  /-- `client_schema_cache_size` -/
  cacheSize : Nat

/-! ### compiler server -/

def stampO (clock : Nat) (new : Option Tok) (old : St) : St :=
  match new with
  | none => old
  | some t => ⟨t, clock⟩

/-- `MultiSchemaPool._sync`: `none` = an `assert` fails (→ `FailedStateSync` raised on the
    compiler server, nothing stored); the flag is its return value `updated`. -/
def sync2 (cs : CS) (db : Nat) (p : Parts) (clock : Nat) : Option (CS × Bool) :=
  match cs.dbs db with
  | none =>
    match p.schema, p.refl, p.dbcfg with
    | some s, some r, some c =>
      some ({ ver := clock, dom := db :: cs.dom,
              dbs := fun i => if i = db then some ⟨⟨s, clock⟩, ⟨r, clock⟩, ⟨c, clock⟩⟩ else cs.dbs i,
              glob := stampO clock p.glob cs.glob, sys := stampO clock p.sys cs.sys }, true)
    | _, _, _ => none
  | some d =>
    if p.isEmpty then some (cs, false) else
    some ({ ver := clock, dom := cs.dom,
            dbs := if p.schema.isSome || p.refl.isSome || p.dbcfg.isSome then
                     fun i => if i = db then
                       some ⟨stampO clock p.schema d.schema, stampO clock p.refl d.refl,
                             stampO clock p.dbcfg d.dbcfg⟩ else cs.dbs i
                   else cs.dbs,
            glob := stampO clock p.glob cs.glob, sys := stampO clock p.sys cs.sys }, true)

def fieldDiff (a b : St) : Option Tok := if a = b then none else some a.tok

/-- `ClientSchema.diff(other)` (with `PickledState.diff` inside) -/
def CS.diff (cur other : CS) : Diff where
  dom := cur.dom
  dbs := fun db =>
    match cur.dbs db, other.dbs db with
    | none, _ => none
    | some s, none => some ⟨some s.schema.tok, some s.refl.tok, some s.dbcfg.tok⟩
    | some s, some o =>
      if s = o then none else
      some ⟨fieldDiff s.schema o.schema, fieldDiff s.refl o.refl, fieldDiff s.dbcfg o.dbcfg⟩
  glob := fieldDiff cur.glob other.glob
  sys := fieldDiff cur.sys other.sys
  dropped := other.dom.filter fun db => (cur.dbs db).isNone && (other.dbs db).isSome

/-- the whole client schema (sent when the worker is not recorded to have the client) -/
def CS.full (cur : CS) : Diff where
  dom := cur.dom
  dbs := fun db => (cur.dbs db).map fun s => ⟨some s.schema.tok, some s.refl.tok, some s.dbcfg.tok⟩
  glob := some cur.glob.tok
  sys := some cur.sys.tok
  dropped := []

def cacheGet (cache : List (Nat × CS)) (c : Nat) : Option CS :=
  (cache.find? (fun e => e.1 == c)).map (·.2)

/-- `set_client_schema`: store and move to the front -/
def cacheSet (cache : List (Nat × CS)) (c : Nat) (v : CS) : List (Nat × CS) :=
  (c, v) :: cache.filter (fun e => e.1 != c)

/-- `invalidate_last(cache_size)`: evict the least recently used client when full -/
def invalidateLast (w : MTWorker) (size : Nat) : MTWorker :=
  if w.cache.length = size then
    match w.cache.getLast? with
    | some e => { w with cache := w.cache.dropLast, inval := w.inval ++ [e.1] }
    | none => w
  else w

/-! ### worker -/

def PDb.bad (env : Env) (p : PDb) : Bool :=
  badO env p.schema || badO env p.refl || badO env p.dbcfg

/-- FULL SYNC: something cannot be unpickled (or is missing: `pickle.loads(None)`) -/
def initFails (env : Env) (d : Diff) (g y : Tok) : Bool :=
  env.bad g || env.bad y ||
  d.dom.any (fun db => match d.dbs db with
    | none => false
    | some p => p.bad env || p.schema.isNone || p.refl.isNone || p.dbcfg.isNone)

/-- FULL SYNC: the new entry -/
def initResult (d : Diff) (g y : Tok) : WClient where
  dbs := fun db => match d.dbs db with
    | some ⟨some s, some r, some c⟩ => some ⟨s, r, c⟩
    | _ => none
  glob := g
  sys := y

/-- DIFF SYNC: something cannot be unpickled, or an `assert` of DIFF SYNC ADD fails -/
def diffFails (env : Env) (x : WClient) (d : Diff) : Bool :=
  badO env d.glob || badO env d.sys ||
  d.dom.any (fun db => match d.dbs db with
    | none => false
    | some p => p.bad env ||
        ((x.dbs db).isNone && (p.schema.isNone || p.refl.isNone || p.dbcfg.isNone)))

/-- DIFF SYNC: ADD / UPDATE / DROP applied to the entry -/
def diffResult (x : WClient) (d : Diff) : WClient where
  dbs := fun db =>
    if d.dropped.contains db then none else
    match d.dbs db with
    | none => x.dbs db
    | some p =>
      match x.dbs db with
      | none =>
        match p with
        | ⟨some s, some r, some c⟩ => some ⟨s, r, c⟩      -- ADD
        | _ => none
      | some o =>                                            -- UPDATE
        some ⟨p.schema.getD o.schema, p.refl.getD o.refl, p.dbcfg.getD o.dbcfg⟩
  glob := d.glob.getD x.glob
  sys := d.sys.getD x.sys

/-- worker `__sync__(client_id, pickled_schema, invalidation)` for the client's entry,
    after the invalidated clients have been deleted.  `none` = `FailedStateSync` (the
    entry is left as it was: everything is computed before `clients` is assigned),
    `some x` = the new entry. -/
def wsyncMT (env : Env) (a : Option WClient) (d : Option Diff) : Option (Option WClient) :=
  match d, a with
  | none, none => none                    -- `assert client_schema is not None`
  | none, some x => some (some x)
  | some d, none =>                       -- FULL SYNC
    match d.glob, d.sys with
    | some g, some y => if initFails env d g y then none else some (some (initResult d g y))
    | _, _ => none                        -- `pickle.loads(None)`
  | some d, some x =>                     -- DIFF SYNC
    if diffFails env x d then none else some (some (diffResult x d))

/-! ### one `compile` request through the three tiers -/

/-- a request of client `c`; `r.w` is the worker of the compiler server that serves it -/
structure MReq where
  c : Nat
  r : CReq
deriving DecidableEq, Repr

/-- what was sent to the worker as `pickled_schema` -/
inductive DiffKind where
  /-- `None`: the worker is recorded to hold exactly the current version -/
  | insync
  /-- the whole client schema -/
  | full
  /-- `ClientSchema.diff` against the recorded version -/
  | diff
deriving DecidableEq, Repr

structure MObs where
  /-- tier 1 → tier 2 -/
  sent : Parts
  hasCb : Bool
  /-- `_sync` returned `True` -/
  updated : Bool
  kind : Option DiffKind
  /-- the `pickled_schema` sent to the worker -/
  diff : Option Diff
  /-- the `invalidation` list sent to the worker -/
  inval : List Nat
  res : Res
  used : Option Used

def updWk (st : MTState) (w : Nat) (x : MTWorker) : MTState :=
  { st with wk := fun i => if i = w then x else st.wk i }

/-- tier 1 after the call: the acknowledgement callback runs unless the exception is a
    `FailedStateSync` (there is no status 2 on this hop: the compiler server turns it into
    an ordinary `RuntimeError`) -/
def ack1 (st : MTState) (c : Nat) (db : Nat) (p : Parts) (doAck : Bool) : MTState :=
  if doAck then
    match withAck (st.bel c) db p with
    | some b' => { st with bel := fun i => if i = c then b' else st.bel i }
    | none => st
  else st

/-- compiler server, after `_sync` and before the worker call: make room if the worker is
    not recorded to have the client (`invalidate_last`), decide what to send
    (`None` / whole schema / diff), flush the invalidation list.  Returns the worker
    record, what is sent and the invalidation list. -/
def prepare (w0 : MTWorker) (c : Nat) (cs' : CS) (size : Nat) :
    MTWorker × DiffKind × Option Diff × List Nat :=
  let (w1, kind, d) : MTWorker × DiffKind × Option Diff :=
    match cacheGet w0.cache c with
    | none => (invalidateLast w0 size, .full, some cs'.full)
    | some v => if v.ver = cs'.ver then (w0, .insync, none) else (w0, .diff, some (cs'.diff v))
  ({ w1 with inval := [], cache := w1.cache.filter (fun e => !w1.inval.contains e.1) },
   kind, d, w1.inval)

/-- the worker call (`call_for_client`: invalidation, `__sync__`, `compile`) and what the
    compiler server records afterwards (`set_client_schema` on status 0 and on status 1
    with an exception other than `FailedStateSync`; not on status 2).  The Boolean says
    whether the reply makes the client run its acknowledgement callback (everything except
    `FailedStateSync`; the worker's status 2 reaches the client as an ordinary
    `RuntimeError`). -/
def serve (env : Env) (w2 : MTWorker) (inval : List Nat) (c db : Nat) (cs' : CS)
    (d : Option Diff) (out : COut) : MTWorker × Res × Option Used × Bool :=
  -- the invalidated clients are deleted first, outside the `try`
  let act1 : Nat → Option WClient := fun i => if inval.contains i then none else w2.act i
  match wsyncMT env (act1 c) d with
  | none => ({ w2 with act := act1 }, .syncFail, none, false)
  | some a' =>
    let w3 := { w2 with act := fun i => if i = c then a' else act1 i }
    let recorded := { w3 with cache := cacheSet w3.cache c cs' }
    match a' with
    | none => (recorded, .keyErr, none, true)       -- `clients[client_id]` (cannot happen)
    | some x =>
      match x.dbs db with
      | none => (recorded, .keyErr, none, true)     -- `client_schema.dbs[dbname]`
      | some d3 =>
        let used : Used := ⟨d3.schema, x.glob, d3.refl, d3.dbcfg, x.sys⟩
        match out with
        | .resultUnpicklable => (w3, .serErr, some used, true)
        | .ok | .okNoState => (recorded, .ok, some used, true)
        | .raise | .requestUnreadable => (recorded, .compErr, some used, true)
        | .statePickleFail => (recorded, .statePickleErr, some used, true)

def stepMTRun (env : Env) (st : MTState) (q : MReq) : MTState × MObs :=
  let r := q.r
  let p := preargs (st.bel q.c) r
  let cb := !p.isEmpty
  let st0 := { st with clock := st.clock + 1 }
  match st.cli q.c with
  | none =>            -- `self._clients[client_id]`: KeyError inside the try → FailedStateSync
    (st0, ⟨p, cb, false, none, none, [], .syncFail, none⟩)
  | some cs =>
    match sync2 cs r.db p st.clock with
    | none => (st0, ⟨p, cb, false, none, none, [], .syncFail, none⟩)
    | some (cs', updated) =>
      let st1 := { st0 with cli := fun i => if i = q.c then some cs' else st.cli i }
      let pr := prepare (st.wk r.w) q.c cs' st.cacheSize
      let sv := serve env pr.1 pr.2.2.2 q.c r.db cs' pr.2.2.1 r.out
      (ack1 (updWk st1 r.w sv.1) q.c r.db p sv.2.2.2,
       ⟨p, cb, updated, some pr.2.1, pr.2.2.1, pr.2.2.2, sv.2.1, sv.2.2.1⟩)

/-- The compiler server cannot unpickle the request (`handle_client_call`:
    `pickle.loads(msg)` — e.g. a compile argument): nothing is stored, no worker is
    involved; since 3499a3b the reply is a `FailedStateSync`, so the client does not run
    its acknowledgement callback. -/
def stepMTLost (st : MTState) (q : MReq) : MTState × MObs :=
  let p := preargs (st.bel q.c) q.r
  ({ st with clock := st.clock + 1 },
   ⟨p, !p.isEmpty, false, none, none, [], .syncFail, none⟩)

def stepMT (env : Env) (st : MTState) (q : MReq) : MTState × MObs :=
  if q.r.out = .requestUnreadable then stepMTLost st q else stepMTRun env st q

def execMT (env : Env) (st : MTState) : List MReq → MTState
  | [] => st
  | q :: qs => execMT env (stepMT env st q).1 qs

def traceMT (env : Env) (st : MTState) : List MReq → List MObs
  | [] => []
  | q :: qs => (stepMT env st q).2 :: traceMT env (stepMT env st q).1 qs

/-! ### initial state -/

/-- `_init_server` for one client from its init args (stamp / version 0) -/
def initCS (s : Side) (dom : List Nat) : CS where
  ver := 0
  dom := dom
  dbs := fun db => (s.dbs db).map fun d => ⟨⟨d.schema, 0⟩, ⟨d.refl, 0⟩, ⟨d.dbcfg, 0⟩⟩
  glob := ⟨s.glob, 0⟩
  sys := ⟨s.sys, 0⟩

/-- every client starts from init args `init c` with databases `dom c`; workers are empty -/
def initMT (init : Nat → Side) (dom : Nat → List Nat) (cacheSize : Nat) : MTState where
  bel := init
  cli := fun c => some (initCS (init c) (dom c))
  wk := fun _ => ⟨[], [], fun _ => none⟩
  clock := 1
  cacheSize := cacheSize

end EdbVerif.SyncMT
