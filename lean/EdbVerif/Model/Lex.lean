/-
Model of the EdgeQL tokenizer: `edb/edgeql-parser/src/tokenizer.rs`
(`Tokenizer::peek_token_inner`, `parse_string`, `skip_whitespace`,
`check_prohibited`, `as_keyword`) followed by the per-token part of
`validation.rs` (`parse_value`, `remap_kind`) with
`helpers/strings.rs::unquote_string` and `helpers/bytes.rs::unquote_bytes`.

Written for C18 (quoted forms cannot be broken out of) and meant to be
extended by C01.  Self-contained: core Lean + the generated keyword tables.

What is modelled, line by line:
  * string literals `'…'` `"…"` (escape table of `_unquote_string`, including the
    `\xHH` ASCII-only rule, `\uHHHH`, `\UHHHHHHHH`, line continuation, the
    `u8/u32::from_str_radix` quirk that a leading `+` is accepted), raw strings
    `r'…'`, dollar strings `$$…$$` / `$tag$…$tag$`, string interpolation start
    `'…\(` (token kind only; the interpolation *stack* is state of the token
    stream and is left to C01),
  * bytes literals `b'…'`, `br'…'`, `rb'…'`,
  * back-quoted names, plain identifiers, keywords (tables generated from
    `keywords.rs`), the double-underscore rules,
  * parameters `$name`, `$1`, `` $`name` ``, substitutions `\(name)`,
  * all punctuation / operator tokens,
  * `check_prohibited` (NUL and the bidi controls U+202A–202E, U+2066–2069),
  * whitespace and comments (`skipWs`).
NOT modelled (returns `LexErr.notModelled`, never a made-up token): numeric
literals (`parse_number`, tuple-index integers after a dot).  Not modelled at
all: positions (line/column), the multi-word keyword merge of the `Validator`
(`order by`, `named only`, …), the string-interpolation stack (a `)` is always
`CloseParen` here).

Unicode: Rust's `char::is_alphabetic` / `is_alphanumeric` are compiled-in
tables.  On ASCII they are hard-wired here; outside ASCII they are the parameter
`UClass` (the drivers instantiate it with what the real tokenizer answers for
the characters in play).  `char::is_whitespace` (White_Space, a closed stable
set) is written out.

Offsets: the real tokenizer works on UTF-8 bytes; the model on code points.
`memmem::find` of an ASCII marker on bytes and `findSub` on code points agree
because UTF-8 is self-synchronising.  `as_keyword`'s 16-*byte* limit uses
`utf8Len`.
-/
import EdbVerif.Gen.Keywords

namespace EdbVerif.Lex

/-! ### character classes -/

/-- Rust's Unicode tables outside ASCII (`char::is_alphabetic`,
    `char::is_alphanumeric`).  Only consulted for code points ≥ 128. -/
structure UClass where
  alpha : Char → Bool
  alnum : Char → Bool

/-- the class table that knows no non-ASCII letters (used in examples) -/
def UClass.ascii : UClass := ⟨fun _ => false, fun _ => false⟩

def isAsciiLetter (c : Char) : Bool :=
  (97 ≤ c.toNat && c.toNat ≤ 122) || (65 ≤ c.toNat && c.toNat ≤ 90)

/-- `'0'..='9'` -/
def isDigit (c : Char) : Bool := 48 ≤ c.toNat && c.toNat ≤ 57

/-- `char::is_alphabetic` -/
def isAlpha (U : UClass) (c : Char) : Bool :=
  if c.toNat < 128 then isAsciiLetter c else U.alpha c

/-- `char::is_alphanumeric` -/
def isAlnum (U : UClass) (c : Char) : Bool :=
  if c.toNat < 128 then isAsciiLetter c || isDigit c else U.alnum c

/-- `char::is_whitespace` (Unicode White_Space) -/
def isWhitespace (c : Char) : Bool :=
  let n := c.toNat
  (9 ≤ n && n ≤ 13) || n = 32 || n = 0x85 || n = 0xA0 || n = 0x1680 ||
  (0x2000 ≤ n && n ≤ 0x200A) || n = 0x2028 || n = 0x2029 || n = 0x202F ||
  n = 0x205F || n = 0x3000

/-- `u8::is_ascii_whitespace`: space, TAB, LF, FF, CR -/
def isAsciiWhitespace (c : Char) : Bool :=
  let n := c.toNat
  n = 32 || n = 9 || n = 10 || n = 12 || n = 13

/-- the bidirectional controls singled out by `check_prohibited` -/
def isBidi (c : Char) : Bool :=
  let n := c.toNat
  (0x202A ≤ n && n ≤ 0x202E) || (0x2066 ≤ n && n ≤ 0x2069)

/-- `u8::make_ascii_lowercase` on one char -/
def asciiLower (c : Char) : Char :=
  if 65 ≤ c.toNat && c.toNat ≤ 90 then Char.ofNat (c.toNat + 32) else c

def utf8Len (s : List Char) : Nat := (s.map Char.utf8Size).sum

/-! ### tokens and errors -/

/-- Error classes.  One constructor per family of messages of the real
    tokenizer; the harness maps the real messages to these names. -/
inductive LexErr where
  | unterminatedString      -- "unterminated string, quoted by …"
  | unterminatedBacktick    -- "unterminated backtick name" / "… argument"
  | unterminatedDollar      -- "unterminated string started with …"
  | nulChar                 -- "character U+0000 is not allowed"
  | prohibitedChar          -- "character U+202A is not allowed …"
  | badPrefix               -- "prefix … is not allowed for strings"
  | badFieldPrefix          -- "prefix … is not allowed for field names"
  | backtickAt | backtickDollar | backtickNamespace | backtickDunder | backtickEmpty
  | identDunder             -- "identifiers surrounded by double underscores are forbidden"
  | bareDollar | dollarDigit | dollarNonAscii | badArgument
  | badEscape               -- "invalid string literal: invalid escape sequence" / bytes
  | endInSlash              -- "quoted string cannot end in slash"
  | bytesNonAscii           -- "invalid bytes literal: character … is unexpected"
  | bareOp                  -- "Bare `?` …", "Bare `!` …", "`?!` is not an operator"
  | badSubstitution         -- `\(name)` errors
  | unexpectedChar          -- "unexpected character …"
  | notModelled             -- numeric literals: outside this model
deriving Repr, DecidableEq

inductive Kind where
  | str            -- Kind::Str
  | binStr         -- Kind::BinStr
  | strInterpStart -- Kind::StrInterpStart
  | ident          -- Kind::Ident (also BacktickName after `remap_kind`)
  | keyword (k : List Char)   -- Kind::Keyword(k), k is the lower-case table entry
  | parameter      -- Kind::Parameter
  | substitution   -- Kind::Substitution
  | punct (p : List Char)     -- every operator / punctuation kind, by its text
  | eoi            -- end of input
deriving Repr, DecidableEq

inductive Val where
  | none
  | str (s : List Char)
  | bytes (b : List UInt8)
deriving Repr, DecidableEq

structure Tok where
  kind : Kind
  val  : Val
deriving Repr, DecidableEq

abbrev R (α : Type) := Except LexErr α

/-- `check_prohibited(c, escape)` -/
def checkProhibited (c : Char) (escape : Bool) : Option LexErr :=
  if c.toNat = 0 then (if escape then some .nulChar else some .prohibitedChar)
  else if isBidi c then some .prohibitedChar
  else none

/-- first prohibited character of a dollar-string body / comment -/
def firstProhibited (escape : Bool) : List Char → Option LexErr
  | [] => none
  | c :: cs => match checkProhibited c escape with
    | some e => some e
    | none => firstProhibited escape cs

/-! ### hexadecimal (`from_str_radix(_, 16)`) -/

def hexVal (c : Char) : Option Nat :=
  let n := c.toNat
  if 48 ≤ n && n ≤ 57 then some (n - 48)
  else if 97 ≤ n && n ≤ 102 then some (n - 87)
  else if 65 ≤ n && n ≤ 70 then some (n - 55)
  else none

def hexDigits : List Char → Nat → Option Nat
  | [], acc => some acc
  | c :: cs, acc => match hexVal c with
    | some d => hexDigits cs (acc * 16 + d)
    | none => none

/-- `uN::from_str_radix(s, 16)` for a fixed-width window: an optional leading
    `+`, then at least one hex digit (either case).  Overflow cannot happen for
    the window widths used (2, 4, 8 digits into u8 / u32). -/
def parseHex (cs : List Char) : Option Nat :=
  match cs with
  | [] => none
  | c :: t =>
    if c = '+' then (if t.isEmpty then none else hexDigits t 0)
    else hexDigits (c :: t) 0

/-- `char::from_u32` then the `c == '\0'` rejection of `\u` / `\U` -/
def escChar? (n : Nat) : Option Char :=
  if n = 0 then none
  else if n < 0xd800 ∨ (0xdfff < n ∧ n < 0x110000) then some (Char.ofNat n)
  else none

/-! ### `_unquote_string` -/

/-- What follows a backslash in a non-raw string.  `cs` are the characters
    after the backslash.  Result: (characters produced, how many characters of
    `cs` belong to the escape, whether a line continuation starts). -/
def strEscape (cs : List Char) : R (List Char × Nat × Bool) :=
  match cs with
  | [] => .error .endInSlash
  | d :: ds =>
    if d = '"' ∨ d = '\\' ∨ d = '/' ∨ d = '\'' then .ok ([d], 1, false)
    else if d = 'b' then .ok ([Char.ofNat 8], 1, false)
    else if d = 'f' then .ok ([Char.ofNat 12], 1, false)
    else if d = 'n' then .ok (['\n'], 1, false)
    else if d = 'r' then .ok (['\r'], 1, false)
    else if d = 't' then .ok (['\t'], 1, false)
    else if d = 'x' then
      match ds with
      | a :: b :: _ =>
        match parseHex [a, b] with
        | some n => if n > 0x7f ∨ n = 0 then .error .badEscape
                    else .ok ([Char.ofNat n], 3, false)
        | none => .error .badEscape
      | _ => .error .badEscape
    else if d = 'u' then
      match ds with
      | a :: b :: c :: e :: _ =>
        match (parseHex [a, b, c, e]).bind escChar? with
        | some ch => .ok ([ch], 5, false)
        | none => .error .badEscape
      | _ => .error .badEscape
    else if d = 'U' then
      match ds with
      | a :: b :: c :: e :: f :: g :: h :: i :: _ =>
        match (parseHex [a, b, c, e, f, g, h, i]).bind escChar? with
        | some ch => .ok ([ch], 9, false)
        | none => .error .badEscape
      | _ => .error .badEscape
    else if d = '\r' ∨ d = '\n' then .ok ([], 1, true)
    else .error .badEscape

/-- `_unquote_string`.  `drop` = characters still to be skipped because they
    belong to the escape sequence just decoded; `ws` = a line continuation is in
    progress (`trim_start`: Unicode white space is skipped).  Start with
    `unqStr 0 false`. -/
def unqStr : Nat → Bool → List Char → R (List Char)
  | _, _, [] => .ok []
  | n + 1, ws, _ :: cs => unqStr n ws cs
  | 0, ws, c :: cs =>
    if ws && isWhitespace c then unqStr 0 true cs
    else if c = '\\' then
      match strEscape cs with
      | .error e => .error e
      | .ok (out, n, ws') =>
        match unqStr n ws' cs with
        | .ok r => .ok (out ++ r)
        | .error e => .error e
    else
      match unqStr 0 false cs with
      | .ok r => .ok (c :: r)
      | .error e => .error e

/-! ### `unquote_bytes_inner` -/

def byteOf (c : Char) : UInt8 := UInt8.ofNat c.toNat

def bytesEscape (cs : List Char) : R (List UInt8 × Nat × Bool) :=
  match cs with
  | [] => .error .endInSlash
  | d :: ds =>
    if d = '"' ∨ d = '\\' ∨ d = '/' ∨ d = '\'' then .ok ([byteOf d], 1, false)
    else if d = 'b' then .ok ([8], 1, false)
    else if d = 'f' then .ok ([12], 1, false)
    else if d = 'n' then .ok ([10], 1, false)
    else if d = 'r' then .ok ([13], 1, false)
    else if d = 't' then .ok ([9], 1, false)
    else if d = 'x' then
      match ds with
      | a :: b :: _ =>
        match parseHex [a, b] with
        | some n => .ok ([UInt8.ofNat n], 3, false)
        | none => .error .badEscape
      | _ => .error .badEscape
    else if d = '\r' ∨ d = '\n' then .ok ([], 1, true)
    else .error .badEscape

/-- `unquote_bytes_inner` on the (ASCII) body of a `b'…'` literal.  A non-ASCII
    character can only follow a backslash (the tokenizer rejects the others) and
    is then an invalid escape; the `bytesNonAscii` arm is unreachable after
    `scanBytes` and is there to keep the function honest. -/
def unqBytes : Nat → Bool → List Char → R (List UInt8)
  | _, _, [] => .ok []
  | n + 1, ws, _ :: cs => unqBytes n ws cs
  | 0, ws, c :: cs =>
    if ws && isAsciiWhitespace c then unqBytes 0 true cs
    else if c = '\\' then
      match bytesEscape cs with
      | .error e => .error e
      | .ok (out, n, ws') =>
        match unqBytes n ws' cs with
        | .ok r => .ok (out ++ r)
        | .error e => .error e
    else if 128 ≤ c.toNat then .error .bytesNonAscii
    else
      match unqBytes 0 false cs with
      | .ok r => .ok (byteOf c :: r)
      | .error e => .error e

/-! ### `parse_string` -/

inductive StrEnd where
  | closed   -- closing quote found
  | interp   -- `\(` found: StrInterpStart
deriving Repr, DecidableEq

/-- The non-binary loop of `parse_string`, after the opening quote `q`.
    Returns the body (text between the quotes, escapes untouched), how the
    token ended and the remaining input. -/
def scanStr (raw : Bool) (q : Char) : List Char → R (List Char × StrEnd × List Char)
  | [] => .error .unterminatedString
  | [c] =>
    if c = '\\' ∧ raw = false then .error .unterminatedString
    else if c = q then .ok ([], .closed, [])
    else match checkProhibited c true with
      | some e => .error e
      | none => .error .unterminatedString
  | c :: d :: ds =>
    if c = '\\' ∧ raw = false then
      if d = '(' then .ok ([], .interp, ds)
      else match scanStr raw q ds with
        | .ok (b, e, r) => .ok (c :: d :: b, e, r)
        | .error e => .error e
    else if c = q then .ok ([], .closed, d :: ds)
    else match checkProhibited c true with
      | some e => .error e
      | none => match scanStr raw q (d :: ds) with
        | .ok (b, e, r) => .ok (c :: b, e, r)
        | .error e => .error e

/-- The binary loop of `parse_string`. -/
def scanBytes (raw : Bool) (q : Char) : List Char → R (List Char × List Char)
  | [] => .error .unterminatedString
  | [c] =>
    if c = '\\' ∧ raw = false then .error .unterminatedString
    else if 0x7f < c.toNat then .error .bytesNonAscii
    else if c = q then .ok ([], [])
    else .error .unterminatedString
  | c :: d :: ds =>
    if c = '\\' ∧ raw = false then
      match scanBytes raw q ds with
      | .ok (b, r) => .ok (c :: d :: b, r)
      | .error e => .error e
    else if 0x7f < c.toNat then .error .bytesNonAscii
    else if c = q then .ok ([], d :: ds)
    else match scanBytes raw q (d :: ds) with
      | .ok (b, r) => .ok (c :: b, r)
      | .error e => .error e

/-- `parse_string(quote_off, raw, binary)` + `parse_value` for the resulting
    token; `cs` starts right after the opening quote `q`. -/
def lexString (raw binary : Bool) (q : Char) (cs : List Char) : R (Tok × List Char) :=
  if binary then
    match scanBytes raw q cs with
    | .error e => .error e
    | .ok (body, rest) =>
      if raw then
        -- `value[3..len-1].as_bytes()`: the body is ASCII here
        .ok (⟨.binStr, .bytes (body.map byteOf)⟩, rest)
      else match unqBytes 0 false body with
        | .ok b => .ok (⟨.binStr, .bytes b⟩, rest)
        | .error e => .error e
  else
    match scanStr raw q cs with
    | .error e => .error e
    | .ok (body, e, rest) =>
      let kind := match e with | .closed => Kind.str | .interp => Kind.strInterpStart
      if raw then .ok (⟨kind, .str body⟩, rest)
      else match unqStr 0 false body with
        | .ok v => .ok (⟨kind, .str v⟩, rest)
        | .error e => .error e

/-! ### back-quoted names -/

/-- The loop shared by `` `name` `` and `` $`name` ``: returns the raw body
    (back-quotes still doubled) and the rest after the closing back-quote. -/
def scanBacktick : List Char → R (List Char × List Char)
  | [] => .error .unterminatedBacktick
  | [c] =>
    if c = '`' then .ok ([], [])
    else match checkProhibited c false with
      | some e => .error e
      | none => .error .unterminatedBacktick
  | c :: d :: ds =>
    if c = '`' then
      if d = '`' then
        match scanBacktick ds with
        | .ok (b, r) => .ok ('`' :: '`' :: b, r)
        | .error e => .error e
      else .ok ([], d :: ds)
    else match checkProhibited c false with
      | some e => .error e
      | none => match scanBacktick (d :: ds) with
        | .ok (b, r) => .ok (c :: b, r)
        | .error e => .error e

/-- `str::replace("``", "`")` -/
def undoubleBacktick : List Char → List Char
  | [] => []
  | [c] => [c]
  | c :: d :: cs =>
    if c = '`' ∧ d = '`' then '`' :: undoubleBacktick cs
    else c :: undoubleBacktick (d :: cs)

/-- `str::contains("::")` -/
def hasNamespaceSep : List Char → Bool
  | [] => false
  | [_] => false
  | c :: d :: cs => (c = ':' && d = ':') || hasNamespaceSep (d :: cs)

/-- `s.starts_with("__") && s.ends_with("__")` -/
def isDunder (s : List Char) : Bool :=
  ['_', '_'].isPrefixOf s && ['_', '_'].isSuffixOf s

def lexBacktick (cs : List Char) : R (Tok × List Char) :=
  match scanBacktick cs with
  | .error e => .error e
  | .ok (body, rest) =>
    if body.head? = some '@' then .error .backtickAt
    else if body.head? = some '$' then .error .backtickDollar
    else if hasNamespaceSep body then .error .backtickNamespace
    else if isDunder body then .error .backtickDunder
    else if body.isEmpty then .error .backtickEmpty
    else .ok (⟨.ident, .str (undoubleBacktick body)⟩, rest)

/-! ### identifiers and keywords -/

open EdbVerif.Gen in
/-- `keywords::lookup_all` (on an already lower-cased string) -/
def isKeyword (s : List Char) : Bool :=
  Keywords.partialReserved.contains s || Keywords.futureReserved.contains s ||
  Keywords.currentReserved.contains s || Keywords.combined.contains s ||
  Keywords.unreserved.contains s

/-- `MAX_KEYWORD_LENGTH` -/
def maxKeywordLength : Nat := 16

/-- `Tokenizer::as_keyword` -/
def asKeyword (s : List Char) : Option (List Char) :=
  if utf8Len s > maxKeywordLength then none
  else
    let l := s.map asciiLower
    if isKeyword l then some l else none

inductive IdentStop where
  | quote (q : Char)   -- `'` or `"`: a string prefix
  | backtick
  | other              -- any other char (left in the input) or end of input
deriving Repr, DecidableEq

/-- the `loop` of the identifier arm, from the second character on -/
def identLoop (U : UClass) : List Char → List Char × IdentStop × List Char
  | [] => ([], .other, [])
  | c :: cs =>
    if c = '"' ∨ c = '\'' then ([], .quote c, cs)
    else if c = '`' then ([], .backtick, cs)
    else if c = '_' ∨ isAlnum U c = true then
      match identLoop U cs with
      | (n, s, r) => (c :: n, s, r)
    else ([], .other, c :: cs)

/-- the identifier arm; `c` is the first character (`_` or alphabetic) -/
def lexIdent (U : UClass) (c : Char) (cs : List Char) : R (Tok × List Char) :=
  match identLoop U cs with
  | (n, .quote q, rest) =>
    let prefix_ := c :: n
    if prefix_ = ['r'] then lexString true false q rest
    else if prefix_ = ['b'] then lexString false true q rest
    else if prefix_ = ['r', 'b'] ∨ prefix_ = ['b', 'r'] then lexString true true q rest
    else .error .badPrefix
  | (_, .backtick, _) => .error .badFieldPrefix
  | (n, .other, rest) =>
    let val := c :: n
    match asKeyword val with
    | some k => .ok (⟨.keyword k, .str val⟩, rest)
    | none =>
      if isDunder val then .error .identDunder
      else .ok (⟨.ident, .str val⟩, rest)

/-! ### `$…`: dollar strings and parameters -/

/-- First occurrence of `m` (non-empty) in `l`: (text before, text after). -/
def findSub (m : List Char) : List Char → Option (List Char × List Char)
  | [] => if m.isEmpty then some ([], []) else none
  | c :: cs =>
    if m.isPrefixOf (c :: cs) then some ([], (c :: cs).drop m.length)
    else match findSub m cs with
      | some (a, b) => some (c :: a, b)
      | none => none

def isTagChar (U : UClass) (c : Char) : Bool := isDigit c || isAlpha U c || c = '_'

/-- the longest prefix of tag / parameter-name characters, and what follows -/
def spanTag (U : UClass) : List Char → List Char × List Char
  | [] => ([], [])
  | c :: cs =>
    if isTagChar U c then
      match spanTag U cs with
      | (n, r) => (c :: n, r)
    else ([], c :: cs)

/-- `cs` = input after the first `$`. -/
def lexDollar (U : UClass) (cs : List Char) : R (Tok × List Char) :=
  match cs with
  | [] => .error .bareDollar
  | c :: rest =>
    if c = '$' then
      match findSub ['$', '$'] rest with
      | none => .error .unterminatedDollar
      | some (body, r) =>
        match firstProhibited false body with
        | some e => .error e
        | none => .ok (⟨.str, .str body⟩, r)
    else if c = '`' then
      match scanBacktick rest with
      | .error e => .error e
      | .ok (body, r) =>
        if body.head? = some '@' then .error .backtickAt
        else if hasNamespaceSep body then .error .backtickNamespace
        else if isDunder body then .error .backtickDunder
        else if body.isEmpty then .error .backtickEmpty
        else .ok (⟨.parameter, .str (undoubleBacktick body)⟩, r)
    else if isTagChar U c then
      match spanTag U (c :: rest) with
      | (name, r) =>
        match r with
        | d :: r' =>
          if d = '$' then
            let marker := '$' :: name ++ ['$']
            if isDigit c then .error .dollarDigit
            else if marker.any (fun x => 128 ≤ x.toNat) then .error .dollarNonAscii
            else match findSub marker r' with
              | none => .error .unterminatedDollar
              | some (body, r'') =>
                match firstProhibited false body with
                | some e => .error e
                | none => .ok (⟨.str, .str body⟩, r'')
          else if name.any (fun x => isAlpha U x || x = '_') && isDigit c then .error .badArgument
          else .ok (⟨.parameter, .str name⟩, r)
        | [] =>
          if name.any (fun x => isAlpha U x || x = '_') && isDigit c then .error .badArgument
          else .ok (⟨.parameter, .str name⟩, r)
    else .error .bareDollar

/-! ### `\(name)` -/

def scanSubst (U : UClass) : List Char → R (List Char × List Char)
  | [] => .error .badSubstitution
  | c :: cs =>
    if c = '_' ∨ isAlnum U c = true then
      match scanSubst U cs with
      | .ok (n, r) => .ok (c :: n, r)
      | .error e => .error e
    else if c = ')' then .ok ([], cs)
    else .error .badSubstitution

/-! ### one token -/

def punct (p : String) (rest : List Char) : R (Tok × List Char) :=
  .ok (⟨.punct p.toList, .none⟩, rest)

/-- One token at the head of the input (`peek_token_inner` + `parse_value` +
    `remap_kind`), with an empty interpolation stack and `dot = false`.
    No white space is skipped (see `skipWs`).  On success returns the token and
    the remaining input. -/
def lexOne (U : UClass) : List Char → R (Tok × List Char)
  | [] => .ok (⟨.eoi, .none⟩, [])
  | c :: cs =>
    if c = ':' then
      match cs with
      | d :: ds => if d = '=' then punct ":=" ds else if d = ':' then punct "::" ds else punct ":" cs
      | [] => punct ":" cs
    else if c = '-' then
      match cs with
      | d :: ds => if d = '>' then punct "->" ds else if d = '=' then punct "-=" ds else punct "-" cs
      | [] => punct "-" cs
    else if c = '>' then
      match cs with
      | d :: ds => if d = '=' then punct ">=" ds else punct ">" cs
      | [] => punct ">" cs
    else if c = '<' then
      match cs with
      | d :: ds => if d = '=' then punct "<=" ds else punct "<" cs
      | [] => punct "<" cs
    else if c = '+' then
      match cs with
      | d :: ds => if d = '=' then punct "+=" ds else if d = '+' then punct "++" ds else punct "+" cs
      | [] => punct "+" cs
    else if c = '/' then
      match cs with
      | d :: ds => if d = '/' then punct "//" ds else punct "/" cs
      | [] => punct "/" cs
    else if c = '.' then
      match cs with
      | d :: ds => if d = '<' then punct ".<" ds else punct "." cs
      | [] => punct "." cs
    else if c = '?' then
      match cs with
      | d :: ds =>
        if d = '?' then punct "??" ds
        else if d = '=' then punct "?=" ds
        else if d = '!' then
          match ds with
          | e :: es => if e = '=' then punct "?!=" es else .error .bareOp
          | [] => .error .bareOp
        else .error .bareOp
      | [] => .error .bareOp
    else if c = '!' then
      match cs with
      | d :: ds => if d = '=' then punct "!=" ds else .error .bareOp
      | [] => .error .bareOp
    else if c = '"' ∨ c = '\'' then lexString false false c cs
    else if c = '`' then lexBacktick cs
    else if c = '=' then punct "=" cs
    else if c = ',' then punct "," cs
    else if c = '(' then punct "(" cs
    else if c = ')' then punct ")" cs
    else if c = '[' then punct "[" cs
    else if c = ']' then punct "]" cs
    else if c = '{' then punct "{" cs
    else if c = '}' then punct "}" cs
    else if c = ';' then punct ";" cs
    else if c = '*' then
      match cs with
      | d :: ds => if d = '*' then punct "**" ds else punct "*" cs
      | [] => punct "*" cs
    else if c = '%' then punct "%" cs
    else if c = '^' then punct "^" cs
    else if c = '&' then punct "&" cs
    else if c = '|' then punct "|" cs
    else if c = '@' then punct "@" cs
    else if c = '_' ∨ isAlpha U c = true then lexIdent U c cs
    else if isDigit c then .error .notModelled
    else if c = '$' then lexDollar U cs
    else if c = '\\' then
      match cs with
      | d :: ds =>
        if d = '(' then
          match scanSubst U ds with
          | .ok (n, r) => .ok (⟨.substitution, .str n⟩, r)
          | .error e => .error e
        else .error .unexpectedChar
      | [] => .error .unexpectedChar
    else .error .unexpectedChar

/-! ### white space, comments, token stream -/

/-- `skip_whitespace`.  `inComment` = inside a `#` comment.  A prohibited
    character inside a comment stops the skipping right there (the next
    `lexOne` then fails on it). -/
def skipWsAux : Bool → List Char → List Char
  | _, [] => []
  | true, c :: cs =>
    if (checkProhibited c false).isSome then c :: cs
    else if c = '\r' ∨ c = '\n' then skipWsAux false cs
    else skipWsAux true cs
  | false, c :: cs =>
    if c = Char.ofNat 0xfeff ∨ c = '\r' ∨ c = '\t' ∨ c = '\n' ∨ c = ' ' then skipWsAux false cs
    else if c = '#' then skipWsAux true cs
    else c :: cs

def skipWs (cs : List Char) : List Char := skipWsAux false cs

/-- The token stream (without the Validator's multi-word keyword merge and
    without interpolation state): tokens up to and excluding EOI, and the error
    that stopped it, if any.  `fuel` ≥ input length + 1 is never exhausted. -/
def lexAllAux (U : UClass) : Nat → List Char → List Tok × Option LexErr
  | 0, _ => ([], none)
  | fuel + 1, cs =>
    match lexOne U cs with
    | .error e => ([], some e)
    | .ok (t, rest) =>
      if t.kind = .eoi then ([], none)
      else match lexAllAux U fuel (skipWs rest) with
        | (ts, e) => (t :: ts, e)

def lexAll (U : UClass) (cs : List Char) : List Tok × Option LexErr :=
  lexAllAux U (cs.length + 1) (skipWs cs)

end EdbVerif.Lex
