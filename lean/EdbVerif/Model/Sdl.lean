/-
Model of the SDL loader's ordering logic (C11):
`edb/schema/ddl.py::apply_sdl` (module grouping, application loop) and
`edb/edgeql/declarative.py::sdl_to_ddl` (`trace_layout` / `trace_dependencies`
/ `_register_item`, the `DepGraphEntry` map handed to `topological.sort`).

What is modelled
* a document is the stream of module-block entries and declarations in textual
  (pre-order) order; every (sub)declaration that `_register_item` turns into a
  node of the DDL graph is one `Item` (its `encl` is the `depstack`);
* `collect` is `apply_sdl.collect`: declarations grouped per module, modules in
  first-appearance order with `default` (module 0) first;
* `entry` is `_register_item`: which names end up in `deps`, `weak_deps` and
  `loop_control` of the node — depstack, bases, inherited members of ancestors,
  abstract constraints / annotations used by children, and the closure rules
  applied to the names the tracer found in expressions (`_get_pointer_deps`,
  `defdeps` for aliases/globals, `constraints` for computables/policies);
* `order = Topo.sortEx (graph d)`, the real `topological.sort`, modelled and
  proved in C20;
* `build` applies the ordered declarations to an abstract schema algebra in
  which applying a declaration requires its semantic requirements `req` to be
  present.

What is NOT modelled (input of the model): the expression tracer
(`tracer.py`) — an item carries the set of names the tracer reports
(`erefs`, `wrefs`, `direct`); the harness predicts them for generated
documents and compares the resulting graph with the one the real tracer built.

Core Lean only: this file is loaded by the line-protocol driver.
-/
import EdbVerif.Model.Topo

namespace EdbVerif.Sdl
open EdbVerif.Topo

/-- A name found by the tracer inside an expression. -/
inductive Ref where
  /-- a type / function / global / alias / abstract item: used as is -/
  | obj (n : Nat)
  /-- a pointer name `owner@l₁@…@lₙ` (`owner` is the top-level type; the pointer
      need not be declared on `owner` itself): expanded by `_get_pointer_deps` -/
  | ptr (owner : Nat) (path : List Nat)
deriving Repr, DecidableEq

/-- One node of the DDL graph (`_register_item` is called once per item). -/
structure Item where
  /-- fully-qualified name (graph key) -/
  name : Nat
  /-- opaque token of the DDL operation -/
  body : Nat := 0
  /-- module the top-level declaration lives in (0 = `default`) -/
  mod : Nat := 0
  /-- `depstack`: names of the enclosing declarations, outermost first -/
  encl : List Nat := []
  /-- local name (last component), incl. the `@@extra` part -/
  loc : Nat := 0
  /-- local name used to look the item up in ancestors (`name` without `@@extra`) -/
  qloc : Nat := 0
  /-- `SetField` node -/
  isField : Bool := false
  /-- alias / global: depends on `defdeps` of what it mentions -/
  isView : Bool := false
  /-- computable pointer / computable global / access policy / trigger:
      depends on the `constraints` of what it mentions -/
  isComp : Bool := false
  /-- concrete pointer (member of `defdeps[owner]`) -/
  isPtr : Bool := false
  /-- concrete constraint (member of `constraints[owner]`) -/
  isCon : Bool := false
  /-- concrete constraint of a scalar type: `loop_control` of the owner,
      owner dropped from its own deps -/
  ctrl : Bool := false
  /-- non-std bases (`ctx.parents[name]`) -/
  bases : List Nat := []
  /-- names added to `deps` as they are (types of targets/signatures, the abstract
      constraint of a concrete constraint, refs of non-default `SetField`s) -/
  direct : List Nat := []
  /-- names this item makes its owner depend on (abstract constraint / annotation) -/
  up : List Nat := []
  /-- strong references traced in the item's expressions -/
  erefs : List Ref := []
  /-- weak references traced in the item's expressions -/
  wrefs : List Ref := []
  /-- what applying the declaration really needs to be present -/
  req : List Nat := []
deriving Repr, DecidableEq

/-- Document token: a module block is entered, or a (sub)declaration. -/
inductive Tok where
  | enter (m : Nat)
  | item (it : Item)
deriving Repr, DecidableEq

abbrev Doc := List Tok

def Tok.mod : Tok → Nat
  | .enter m => m
  | .item it => it.mod

def Tok.item? : Tok → Option Item
  | .enter _ => none
  | .item it => some it

/-- all declarations in textual order -/
def items (d : Doc) : List Item := d.filterMap Tok.item?

/-- key order of the `documents` dict of `apply_sdl`: `default` first, then
    modules in the order their first block / first declaration is met -/
def modOrder (d : Doc) : List Nat := dedup (0 :: d.map Tok.mod)

/-- the order in which `sdl_to_ddl` walks the declarations -/
def collect (d : Doc) : List Item :=
  (modOrder d).flatMap fun m => (items d).filter (·.mod == m)

/-! ### layout queries (`trace_layout` pass) -/

def Item.owner (it : Item) : Option Nat := it.encl.getLast?

def find (its : List Item) (k : Nat) : Option Item := its.find? (·.name == k)

/-- `ctx.parents[x]` -/
def parents (its : List Item) (x : Nat) : List Nat :=
  (its.filter (·.name == x)).flatMap (·.bases)

def ancN (its : List Item) : Nat → Nat → List Nat
  | 0, _ => []
  | n + 1, x => dedup (parents its x ++ (parents its x).flatMap (ancN its n))

/-- `ctx.ancestors[x]` (`get_ancestors`): transitive closure of `parents` -/
def ancestors (its : List Item) (x : Nat) : List Nat := ancN its its.length x

/-- direct members of `x` -/
def children (its : List Item) (x : Nat) : List Item :=
  its.filter fun j => j.owner == some x

/-- everything nested below `x` (names with prefix `x@`) -/
def descendants (its : List Item) (x : Nat) : List Item :=
  its.filter fun j => j.encl.contains x

/-- members called `l` declared directly on `o` -/
def membersNamed (its : List Item) (o l : Nat) : List Item :=
  (children its o).filter (·.loc == l)

/-- `ctx.defdeps[x]` -/
def defdeps (its : List Item) (x : Nat) : List Nat :=
  ((children its x).filter (·.isPtr)).map (·.name)

/-- `ctx.constraints[x]` -/
def constrs (its : List Item) (x : Nat) : List Nat :=
  ((children its x).filter (·.isCon)).map (·.name)

/-! ### `_register_item` -/

/-- depstack names, minus the loop-controlled owner -/
def stackDeps (it : Item) : List Nat :=
  if it.ctrl then it.encl.filter (fun n => some n != it.owner) else it.encl

/-- "all ancestors should be seen as dependencies": the same-named member of
    every ancestor of the owner, when declared -/
def inherited (its : List Item) (it : Item) : List Nat :=
  match it.owner with
  | none => []
  | some o => (ancestors its o).flatMap fun a => (membersNamed its a it.qloc).map (·.name)

/-- abstract constraints / annotations used by the direct members -/
def childUp (its : List Item) (it : Item) : List Nat :=
  (children its it.name).flatMap (·.up)

/-- names of the declared items reached from `o` by the local-name path `p` -/
def namesAt (its : List Item) (o : Nat) : List Nat → List Nat
  | [] => [o]
  | l :: ls => (membersNamed its o l).flatMap fun m => namesAt its m.name ls

/-- `_get_pointer_deps(owner@path)`: the same path below every ancestor of the
    owner type, the pointer itself, and everything nested below the pointer
    except `SetField`s -/
def pointerDeps (its : List Item) (o : Nat) (p : List Nat) : List Nat :=
  ((ancestors its o).flatMap fun a => namesAt its a p)
  ++ namesAt its o p
  ++ (namesAt its o p).flatMap fun x =>
       ((descendants its x).filter (fun j => !j.isField)).map (·.name)

def expand (its : List Item) : Ref → List Nat
  | .obj n => [n]
  | .ptr o p => pointerDeps its o p

/-- what one pre-processed dependency `dep` drags along for item `it` -/
def closure (its : List Item) (it : Item) (dep : Nat) : List Nat :=
  dep ::
    ((if it.isView then (dep :: ancestors its dep).flatMap (defdeps its) else [])
     ++ (if it.isComp then (dep :: ancestors its dep).flatMap (constrs its) else []))

def exprDeps (its : List Item) (it : Item) (rs : List Ref) : List Nat :=
  (rs.flatMap (expand its)).flatMap (closure its it)

/-- everything that ends up in `node.deps` -/
def hardDeps (its : List Item) (it : Item) : List Nat :=
  stackDeps it ++ it.direct ++ it.bases ++ inherited its it ++ childUp its it
    ++ exprDeps its it it.erefs

/-- everything that ends up in `node.weak_deps` -/
def weakDeps (its : List Item) (it : Item) : List Nat :=
  (exprDeps its it it.wrefs).filter (· != it.name)

/-- `node.loop_control` -/
def ctrlDeps (its : List Item) (it : Item) : List Nat :=
  ((children its it.name).filter (·.ctrl)).map (·.name)

/-- insertion into a sorted list -/
def ins (x : Nat) : List Nat → List Nat
  | [] => [x]
  | y :: ys => if x ≤ y then x :: y :: ys else y :: ins x ys

/-- `sorted(...)` (insertion sort: structurally recursive, so it also runs in the kernel) -/
def isort (l : List Nat) : List Nat := l.foldr ins []

/-- `OrderedSet(sorted(deps))` -/
def norm (l : List Nat) : List Nat := isort (dedup l)

def entry (its : List Item) (it : Item) : Entry :=
  { key := it.name
    deps := norm (hardDeps its it)
    weak := norm (weakDeps its it)
    merge := []
    ctrl := ctrlDeps its it }

/-- the `ddlgraph` handed to `topological.sort` -/
def graph (d : Doc) : Graph := (collect d).map (entry (collect d))

def names (d : Doc) : List Nat := (collect d).map (·.name)

/-! ### schema algebra and `build` -/

/-- What `apply_sdl.process` does with one DDL statement, abstractly: a partial
    state transformer (`none` = the statement is rejected). -/
structure Algebra (σ : Type) where
  empty : σ
  apply : σ → Item → Option σ

inductive Result (σ : Type) where
  | ok (s : σ)
  | cycle
  | unresolved
  | duplicate
  | applyError

/-- apply the declarations named by `o`, in that order -/
def applyAll {σ : Type} (A : Algebra σ) (its : List Item) (s : σ) (o : List Nat) : Option σ :=
  o.foldlM (fun s k => (find its k).bind (A.apply s)) s

def buildWith {σ : Type} (A : Algebra σ) (d : Doc) : Result σ :=
  if (names d).Nodup then
    match sortEx (graph d) false with
    | .unresolved _ _ => .unresolved
    | .cycle _ _ => .cycle
    | .ok o =>
      match applyAll A (collect d) A.empty o with
      | some s => .ok s
      | none => .applyError
  else .duplicate

/-- The minimal concrete algebra: a schema is a finite map name ↦ body; a
    declaration can be applied when its name is new and all of `req` is present. -/
abbrev Schema := Nat → Option Nat

def Schema.apply (s : Schema) (it : Item) : Option Schema :=
  if (s it.name).isSome then none
  else if it.req.all (fun r => (s r).isSome) then
    some fun k => if k = it.name then some it.body else s k
  else none

def mapAlgebra : Algebra Schema := { empty := fun _ => none, apply := Schema.apply }

def build (d : Doc) : Result Schema := buildWith mapAlgebra d

/-- close a set of names under "has a hard dependency on (a declared name)" -/
def reachN (g : Graph) : Nat → List Nat → List Nat
  | 0, S => S
  | n + 1, S => reachN g n (dedup (S ++ S.flatMap (adj g)))

/-- every semantic requirement of every declaration is reachable through traced
    hard dependencies (decision procedure for `Complete`, see `Lemmas/SdlAlg`) -/
def completeB (d : Doc) : Bool :=
  let g := graph d
  (collect d).all fun it => it.req.all fun r => (reachN g g.length (adj g it.name)).contains r

end EdbVerif.Sdl
