/-
Vocabulary for the C05 theorems: well-formed schemas, the invariant, the
"live storage" notion used by the no-drop corollary.  Core Lean only.
-/
import EdbVerif.Model.Storage

namespace EdbVerif.Storage

/-- What the real schema engine guarantees about identities (uuids are unique,
    a source has one pointer per name, sources exist) and what the guard on link property
    names maintains (no user link property is named `source` / `target`). -/
structure WF (s : Schema) : Prop where
  ids : s.ptrIds.Nodup
  names : ∀ p ∈ s.ptrs, ∀ q ∈ s.ptrs, p.src = q.src → p.name = q.name → p.id = q.id
  srcs : ∀ p ∈ s.ptrs, ∀ t, p.src = some t → t ∈ s.typeIds
  lpids : ∀ p ∈ s.ptrs, (p.lprops.map (·.id)).Nodup
  lpnames : ∀ p ∈ s.ptrs, ∀ lp ∈ p.lprops, lp.implicitName = false

/-- the invariant of the machine -/
def Inv (st : State) : Prop :=
  WF st.schema ∧ st.catalog.Equiv (layout st.schema)

/-- an operation removes storage -/
def Op.drops (o : Op) (x : TName × CName) : Prop :=
  match o with
  | .dropTable t _ => x.1 = t
  | .dropCol t c => x = (t, c)
  | _ => False

def Op.dropsTable (o : Op) (t : TName) : Prop :=
  match o with
  | .dropTable u _ => u = t
  | _ => False

end EdbVerif.Storage
