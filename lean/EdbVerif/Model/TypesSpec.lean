/-
C12 — vocabulary needed to STATE the theorems: the implicit-cast order and least upper bounds,
the executable table obligations discharged by `decide +kernel`, the promotion semantics of
arithmetic, the minimality order of overload resolution.  Core Lean only.
-/
import EdbVerif.Model.TypesQL

namespace EdbVerif.Types
open EdbVerif.Gen.Types

/-! ## the implicit-cast order -/

/-- `a` is implicitly castable to `b` -/
def Le (a b : Ty) : Prop := implCastable a b = true

def IsUB (a b u : Ty) : Prop := Le a u ∧ Le b u

/-- `c` is the least upper bound of `a` and `b` in the implicit-cast order -/
def IsLUB (a b c : Ty) : Prop := IsUB a b c ∧ ∀ u, IsUB a b u → Le c u

/-- `a` and `b` are implicitly castable to each other.  With user-defined scalars the implicit-cast
    relation is only a preorder: a derived scalar and its concrete base are equivalent. -/
def Equiv (a b : Ty) : Prop := Le a b ∧ Le b a

/-- `a` converts to `b` without a run-time check (value inclusion): the order in which a derived
    scalar is BELOW its base and a base is not below its derivations. -/
def Conv (a b : Ty) : Prop := convertible a b = true

mutual
/-- no user-defined scalar occurs in the type -/
def plain : Ty → Bool
  | .scalar (.derived _ _) => false
  | .scalar _ => true
  | .obj _ => true
  | .tuple ts => plainL ts
  | .array t => plain t
def plainL : List Ty → Bool
  | [] => true
  | t :: ts => plain t && plainL ts
end

/-! ## table obligations on the scalar cast graph (all finite, all generated) -/

def lubB (a b c : Scalar) : Bool :=
  castableS a c && castableS b c &&
  Scalar.all.all fun u => !(castableS a u && castableS b u) || castableS c u

/-- every result `find_common_castable_type` can produce (any set order) is THE least upper
    bound, and it produces one whenever an upper bound exists -/
def commonOK (a b : Scalar) : Bool :=
  match commonS a b with
  | [] => Scalar.all.all fun u => !(castableS a u && castableS b u)
  | [c] => lubB a b c
  | _ => false

/-- implicit casts stay inside one kind of value -/
def kindOK (a b : Scalar) : Bool :=
  !castableS a b ||
  (isNumeric a == isNumeric b && isOpaque a == isOpaque b && ((a == .str) == (b == .str)) &&
   ((a == .bool) == (b == .bool)))

def scalarTableOK : Bool :=
  Scalar.all.all fun a =>
    castableS a a &&
    Scalar.all.all fun b =>
      (!(castableS a b && castableS b a) || a == b) &&
      commonOK a b && kindOK a b &&
      Scalar.all.all fun c => !(castableS a b && castableS b c) || castableS a c

/-- `castDistS` is the shortest-path metric of the implicit-cast graph: 0 on the diagonal, 1 on an
    edge, triangle inequality, every positive distance is realised through a predecessor; and one
    more unit of fuel never changes the answer (the recursion bound is not the reason for it). -/
def distTableOK : Bool :=
  Scalar.all.all fun a =>
    castDistS a a == some 0 &&
    Scalar.all.all fun b =>
      (!(implicitEdges.contains (a, b)) || a == b || castDistS a b == some 1) &&
      reach (scalarFuel + 1) a b == castDistS a b &&
      (match castDistS a b with
       | some (d + 1) => (preds b).any fun p => castDistS a p == some d
       | _ => true) &&
      Scalar.all.all fun c =>
        match castDistS a b, castDistS b c with
        | some d1, some d2 =>
          (match castDistS a c with
           | some d => decide (d ≤ d1 + d2)
           | none => false)
        | _, _ => true

/-! ## arithmetic: promotion semantics of the typed evaluator -/

/-- the numeric types on which the primitive of `f` is defined (hand-written `arithResult`) -/
def carriers (f : Fn) : List Scalar := numeric.filter fun t => (arithResult f t).isSome

/-- the carrier nearest to `j` in cast distance, if there is exactly one nearest -/
def nearestCarrier (f : Fn) (j : Scalar) : Option Scalar :=
  let cs := (carriers f).filterMap fun t => (castDistS j t).map fun d => (d, t)
  match keepMin (fun p => (p.1 : Int)) cs with
  | [p] => some p.2
  | _ => none

/-- Promotion semantics: both operands are converted to the least type both are implicitly
    castable to, then to the nearest type the operator is implemented on; the result has the
    type the primitive produces there.  This is the type `evalArith` gives its result. -/
def promote (f : Fn) (a b : Scalar) : Option Scalar :=
  match commonScalar a b with
  | some j => match nearestCarrier f j with
    | some c => arithResult f c
    | none => none
  | none => none

def isScalarRet (r : Res) (s : Option Scalar) : Bool :=
  match r, s with
  | .ok bd, some x => bd.ret == .scalar (.base x)
  | .noMatch, none => true
  | _, _ => false

/-- the declared signature of a numeric arithmetic overload is what its primitive computes -/
def arithOverloadOK (f : Fn) (c : Callable) : Bool :=
  match c.params, c.ret with
  | [(_, .scalar x), (_, .scalar y)], .scalar r =>
    !(isNumeric x || isNumeric y) || (x == y && arithResult f x == some r)
  | [(_, .scalar x), (_, .scalar y)], _ => !(isNumeric x || isNumeric y)
  | [(_, .scalar x)], .scalar r => !isNumeric x || x == r
  | [(_, .scalar x)], _ => !isNumeric x
  | _, _ => true

/-- the side condition `inCalc` puts on a call node, for one resolution -/
def callOK (f : Fn) (ts : List Ty) : Bool :=
  match resolve f ts with
  | .ok bd =>
    (match primRet f bd.ptys with
     | some r => r == bd.ret
     | none => false) && convertibleL ts bd.ptys
  | _ => true

def numericTableOK : Bool :=
  arith.all fun f =>
    (operOverloads f).all (arithOverloadOK f) &&
    numeric.all fun a =>
      ((f != .op_plus && f != .op_minus) ||
        isScalarRet (resolve f [.scalar (.base a)]) (some a)) &&
      numeric.all fun b =>
        isScalarRet (resolve f [.scalar (.base a), .scalar (.base b)]) (promote f a b) &&
        callOK f [.scalar (.base a), .scalar (.base b)]

def compareTableOK : Bool :=
  compare.all fun f =>
    numeric.all fun a => numeric.all fun b =>
      callOK f [.scalar (.base a), .scalar (.base b)] &&
      match resolve f [.scalar (.base a), .scalar (.base b)] with
      | .ok bd => bd.ret == .scalar (.base .bool) && (commonScalar a b).isSome
      | .noMatch => (commonScalar a b).isNone
      | .ambiguous _ => false

def sameRecursive (l : List Callable) : Bool :=
  match l with
  | [] => true
  | c :: _ => l.all fun d => d.recursive == c.recursive

def recursiveTableOK : Bool :=
  Fn.all.all fun f =>
    sameRecursive ((operOverloads f).filter fun o => o.params.all fun p => pIsTuple p.2) &&
    sameRecursive ((operOverloads f).filter fun o => o.params.all fun p => pIsArray p.2)

/-! ## overload resolution: the order candidates are compared in -/

/-- `b` is at least as good a match as `b'`: smaller total implicit-cast distance, ties broken by
    the total distance to the common parent types -/
def Better (b b' : Bound) : Prop :=
  b.dist < b'.dist ∨ (b.dist = b'.dist ∧ b.tdist ≤ b'.tdist)

/-- the successfully bound overloads -/
def boundCands (cands : List Callable) (args : List Ty) : List Bound :=
  cands.filterMap (bindCand · args)

/-! ## typing of environments -/

def EnvOK (env : List Val) (Γ : List Ty) : Prop := hasTypeL env Γ = true

end EdbVerif.Types
