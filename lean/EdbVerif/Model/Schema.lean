/-
Schema algebra shared by C02 / C10 (and usable by C03 / C11).

Part 1 (`planObjs`) is a line-by-line model of
`edb/schema/delta.py::delta_objects`, the planner that decides for one schema
class which new objects are created, which old ones are deleted and which
(old, new) pairs are altered / left alone.  Objects are identified by their
names (the real function keys its dictionaries by `get_name`), everything the
real function obtains by calling *into* the objects is an input of the model:

* `sim y x`       – `y.compare(x, …)` in units of 1/1000 (an ARBITRARY function),
* `subconf y x`   – min of the `confidence` annotations of the subcommands of
                    `y.as_alter_delta(x, …)` (1000 when there are none),
* `renames`       – the entries of `context.renames` whose key is `(type(y), y_name)`
                    for an old object `y`:  old name ↦ new name,
* `guidance`      – `context.guidance` (banned creations / alters / deletions),
* `parentConf`    – `parent_confidence`,
* `inheriting`, `ancNew`, `ancOld` – `issubclass(sclass, InheritingObject)` and
                    `get_ancestors` (used by `sort_by_inheritance`).

Part 2 is the flat schema algebra: objects keyed by (class, name) with an
opaque payload and references, commands create / rename / alter / delete with
the checks a schema engine makes, `diff` (planner per class, iterated to a
fixed point of the comparison context, commands ordered by the C20 model of
`topological.sort_ex` over the reference dependencies) and `migrate`.

Core Lean only.
-/
import EdbVerif.Model.Topo

namespace EdbVerif.Schema

/-! ## Part 1 — `delta_objects` -/

/-- `so.DeltaGuidance` restricted to one schema class. -/
structure Guidance where
  bannedCreate : List String := []
  /-- (old name, new name) -/
  bannedAlter  : List (String × String) := []
  bannedDelete : List String := []
deriving Repr, DecidableEq

def canCreate (g : Option Guidance) (x : String) : Bool :=
  match g with
  | none => true
  | some g => !g.bannedCreate.contains x

def canAlter (g : Option Guidance) (y x : String) : Bool :=
  match g with
  | none => true
  | some g => !g.bannedAlter.contains (y, x)

def canDelete (g : Option Guidance) (y : String) : Bool :=
  match g with
  | none => true
  | some g => !g.bannedDelete.contains y

/-- Everything `delta_objects` reads besides the two object collections. -/
structure Env where
  /-- `sim y x` = `y.compare(x)` × 1000 -/
  sim : String → String → Nat
  /-- `subconf y x`: min confidence of the subcommands of the alter (×1000; 1000 = none) -/
  subconf : String → String → Nat := fun _ _ => 1000
  renames : List (String × String) := []
  guidance : Option Guidance := none
  parentConf : Option Nat := none
  inheriting : Bool := false
  ancNew : String → List String := fun _ => []
  ancOld : String → List String := fun _ => []

/-- One row of `full_matrix`: `(x, y, similarity)`; `x` new, `y` old. -/
structure Cell where
  x : String
  y : String
  s : Nat
deriving Repr, DecidableEq

/-- `pairs`: same-name pairs in the order of `old`, then the cross product of
    the new-only names with the old-only names. -/
def candidates (old new : List String) : List (String × String) :=
  ((old.filter (fun k => new.contains k)).map (fun k => (k, k))) ++
  ((new.filter (fun k => !old.contains k)).flatMap fun x =>
      (old.filter (fun k => !new.contains k)).map (fun y => (x, y)))

/-- similarity after the `can_alter` override -/
def effSim (e : Env) (x y : String) : Nat :=
  let s := e.sim y x
  if s < 1000 && !canAlter e.guidance y x then 0 else s

def matrix (e : Env) (old new : List String) : List Cell :=
  (candidates old new).map fun p => ⟨p.1, p.2, effSim e p.1 p.2⟩

/-- sort key `(1.0 - sim, str(x_name), str(y_name))`, as `a ≤ b` -/
def Cell.le (a b : Cell) : Bool :=
  let ka := 1000 - a.s
  let kb := 1000 - b.s
  decide (ka < kb) ||
    (ka == kb && (decide (a.x < b.x) || (a.x == b.x && (decide (a.y < b.y) || a.y == b.y))))

def insertCell (a : Cell) : List Cell → List Cell
  | [] => [a]
  | b :: bs => if a.le b then a :: b :: bs else b :: insertCell a bs

/-- stable sort (`list.sort`) -/
def sortCells : List Cell → List Cell
  | [] => []
  | a :: as => insertCell a (sortCells as)

/-- "Find the top similarity pairs": greedy one-to-one matching in sorted
    order; the result is `comparison_map` in insertion order. -/
def greedy : List Cell → List Cell → List Cell
  | [], acc => acc
  | c :: cs, acc =>
    if acc.any (fun d => d.x == c.x) || acc.any (fun d => d.y == c.y) then greedy cs acc
    else greedy cs (acc ++ [c])

/-- `full_matrix_x[x][0]` -/
def bestX (m : List Cell) (x : String) : Option Nat := (m.find? (fun c => c.x == x)).map (·.s)
/-- `full_matrix_y[y][0]` -/
def bestY (m : List Cell) (y : String) : Option Nat := (m.find? (fun c => c.y == y)).map (·.s)

/-- the rows that bump `x_alter_variants` / `y_alter_variants` -/
def variantRow (g : Option Guidance) (m : List Cell) (c : Cell) : Bool :=
  canAlter g c.y c.x && bestX m c.x != some 1000 && bestY m c.y != some 1000

def variantsX (g : Option Guidance) (m : List Cell) (x : String) : Nat :=
  (m.filter fun c => c.x == x && variantRow g m c).length
def variantsY (g : Option Guidance) (m : List Cell) (y : String) : Nat :=
  (m.filter fun c => c.y == y && variantRow g m c).length

/-- graph handed to `topological.sort` by `sort_by_inheritance`: keys are the
    positions in `l`, deps the positions of the ancestors (an ancestor that is
    not in `l` gets the non-key `l.length` and is ignored: `allow_unresolved`). -/
def inhGraphAux (anc : String → List String) (l : List String) : Nat → List String → Topo.Graph
  | _, [] => []
  | i, n :: ns => { key := i, deps := (anc n).map (fun a => l.idxOf a) } :: inhGraphAux anc l (i + 1) ns

def inhGraph (anc : String → List String) (l : List String) : Topo.Graph := inhGraphAux anc l 0 l

inductive PlanErr where
  /-- `sort_by_inheritance` raised `CycleError` -/
  | inhCycle
deriving Repr, DecidableEq

/-- `sort_by_inheritance(schema, l)` -/
def sortByInheritance (anc : String → List String) (l : List String) : Except PlanErr (List String) :=
  match Topo.sortEx (inhGraph anc l) true with
  | .ok o => .ok (o.filterMap (fun i => l[i]?))
  | _ => .error .inhCycle

/-- an element of `alter_pairs`; `conf = none`: similarity 1.0, no command -/
structure Match where
  x : String
  y : String
  conf : Option Nat
deriving Repr, DecidableEq

structure Plan where
  /-- `(x, confidence)` in the order the `CreateObject`s are added -/
  creates : List (String × Nat)
  /-- `alter_pairs` in order; those with `conf = some c` are the `AlterObject`s, in order -/
  matched : List Match
  /-- `(y, confidence)` in the order the `DeleteObject`s are added -/
  deletes : List (String × Nat)
deriving Repr, DecidableEq

def renamesX (renames : List (String × String)) (old : List String) : List String :=
  (renames.filter (fun r => old.contains r.1)).map (·.2)
def renamesY (renames : List (String × String)) (old : List String) : List String :=
  (renames.filter (fun r => old.contains r.1)).map (·.1)

/-- the decision taken for one entry of `comparison_map` -/
def decide1 (e : Env) (old : List String) (m : List Cell) (c : Cell) : Option Match :=
  let g := e.guidance
  let rx := renamesX e.renames old
  let alreadyHas := c.x == c.y && !rx.contains c.x
  if ((600 < c.s && c.s < 1000) && canAlter g c.y c.x)
      || ((!canCreate g c.x || !canDelete g c.y) && canAlter g c.y c.x)
      || rx.contains c.x then
    let certain := !((decide (variantsX g m c.x > 1) || (!alreadyHas && canCreate g c.x))
                      && e.parentConf != some 1000)
    some ⟨c.x, c.y, some (if certain then min 1000 (e.subconf c.y c.x) else c.s)⟩
  else if c.s == 1000 then some ⟨c.x, c.y, none⟩
  else none

/-- `order_x`: `comparison_map` in insertion order, or sorted by inheritance -/
def orderNew (e : Env) (cmap : List Cell) : Except PlanErr (List Cell) :=
  if e.inheriting then
    match sortByInheritance e.ancNew (cmap.map (·.x)) with
    | .ok o => .ok (o.filterMap fun x => cmap.find? (fun c => c.x == x))
    | .error err => .error err
  else .ok cmap

/-- `deleted_order` -/
def orderOld (e : Env) (deleted : List String) : Except PlanErr (List String) :=
  if e.inheriting then sortByInheritance e.ancOld deleted else .ok deleted

def matchedOf (e : Env) (old : List String) (m orderX : List Cell) : List Match :=
  orderX.filterMap (decide1 e old m)

def createsOf (e : Env) (old new : List String) (m : List Cell) (matched : List Match) : List (String × Nat) :=
  let created := new.filter fun x => !matched.any (fun p => p.x == x)
  (created.filter fun x => canCreate e.guidance x && !(renamesX e.renames old).contains x).map fun x =>
    (x, if variantsX e.guidance m x > 0 && e.parentConf != some 1000 then (bestX m x).getD 1000 else 1000)

def deletedOf (old : List String) (matched : List Match) : List String :=
  old.filter fun y => !matched.any (fun p => p.y == y)

def deletesOf (e : Env) (old : List String) (m : List Cell) (deletedOrder : List String) : List (String × Nat) :=
  (deletedOrder.filter fun y => canDelete e.guidance y && !(renamesY e.renames old).contains y).map fun y =>
    (y, if variantsY e.guidance m y > 0 && e.parentConf != some 1000 then (bestY m y).getD 1000 else 1000)

def planObjs (e : Env) (old new : List String) : Except PlanErr Plan :=
  let m := sortCells (matrix e old new)
  let cmap := greedy m []
  match orderNew e cmap with
  | .error err => .error err
  | .ok orderX =>
    let matched := matchedOf e old m orderX
    match orderOld e (deletedOf old matched) with
    | .error err => .error err
    | .ok deletedOrder =>
      .ok { creates := createsOf e old new m matched, matched := matched,
            deletes := deletesOf e old m deletedOrder }

/-! ## Part 2 — flat schema algebra

Objects are keyed by (class, name) — the planner runs per class, so a name
only has to be unique inside its class here (the real engine's single
namespace for qualified names is outside this model).  `data` stands for all
non-reference field values, `refs` for the references (bases, source, target,
subject, …).  References are by key; `rename` rewrites them, which is the
name-based image of the real engine's id-based references. -/

abbrev Key := Nat × String

structure Obj where
  cls : Nat
  name : String
  data : Nat
  refs : List Key
deriving Repr, DecidableEq

def Obj.key (o : Obj) : Key := (o.cls, o.name)

abbrev Schema := List Obj

def keys (s : Schema) : List Key := s.map Obj.key
def find (s : Schema) (k : Key) : Option Obj := s.find? (fun o => o.key == k)

inductive Cmd where
  | create (o : Obj)
  | rename (cls : Nat) (old new : String)
  | alter (cls : Nat) (name : String) (data : Nat) (refs : List Key)
  | delete (cls : Nat) (name : String)
deriving Repr, DecidableEq

inductive Err where
  | exists_ (k : Key)
  | missing (k : Key)
  | dangling (k r : Key)
  | referenced (k by_ : Key)
  /-- the commands cannot be ordered (`linearize_delta` raises) -/
  | cycle
  /-- an object that is kept unchanged refers to an object that is dropped -/
  | blocked (k : Key)
  /-- the comparison context did not reach a fixed point -/
  | unstable
  | plan (e : PlanErr)
deriving Repr, DecidableEq

def renameKey (c : Nat) (o n : String) (k : Key) : Key := if k == (c, o) then (c, n) else k

def firstMissing (s : Schema) (rs : List Key) : Option Key := rs.find? (fun r => !(keys s).contains r)

/-- one DDL command with the checks of the engine -/
def apply (s : Schema) : Cmd → Except Err Schema
  | .create o =>
    if (keys s).contains o.key then .error (.exists_ o.key) else
    match firstMissing s o.refs with
    | some r => .error (.dangling o.key r)
    | none => .ok (s ++ [o])
  | .rename c o n =>
    if !(keys s).contains (c, o) then .error (.missing (c, o)) else
    if (keys s).contains (c, n) then .error (.exists_ (c, n)) else
    .ok (s.map fun ob => { ob with name := (renameKey c o n ob.key).2, refs := ob.refs.map (renameKey c o n) })
  | .alter c n d rs =>
    if !(keys s).contains (c, n) then .error (.missing (c, n)) else
    match firstMissing s rs with
    | some r => .error (.dangling (c, n) r)
    | none => .ok (s.map fun ob => if ob.key == (c, n) then { ob with data := d, refs := rs } else ob)
  | .delete c n =>
    if !(keys s).contains (c, n) then .error (.missing (c, n)) else
    match s.find? (fun ob => ob.refs.contains (c, n)) with
    | some ob => .error (.referenced (c, n) ob.key)
    | none => .ok (s.filter fun ob => ob.key != (c, n))

def applyAll (s : Schema) : List Cmd → Except Err Schema
  | [] => .ok s
  | c :: cs => match apply s c with
    | .ok s' => applyAll s' cs
    | .error e => .error e

/-- `ComparisonContext.renames` / `.deletions` -/
structure Ctx where
  /-- old key ↦ new name -/
  renames : List (Key × String) := []
  deletions : List Key := []
deriving Repr, DecidableEq

/-- `Object.compare`: similarity of an old and a new object under a context, ×1000 -/
abbrev Sim := Ctx → Obj → Obj → Nat

/-- name of `k` after the renames (`ComparisonContext.get_obj_name`) -/
def rn (ρ : List (Key × String)) (k : Key) : Key :=
  match ρ.find? (fun r => r.1 == k) with
  | some r => (k.1, r.2)
  | none => k

def renameObj (ρ : List (Key × String)) (o : Obj) : Obj :=
  { o with name := (rn ρ o.key).2, refs := o.refs.map (rn ρ) }

def renameAll (ρ : List (Key × String)) (s : Schema) : Schema := s.map (renameObj ρ)

def insertNew (c : Nat) (l : List Nat) : List Nat := if l.contains c then l else l ++ [c]

/-- the schema classes present, in order of first occurrence -/
def classList (s : Schema) : List Nat := s.foldl (fun acc o => insertNew o.cls acc) []

def classNames (s : Schema) (c : Nat) : List String := (s.filter fun o => o.cls == c).map (·.name)

def envFor (sim : Sim) (ctx : Ctx) (A B : Schema) (c : Nat) : Env :=
  { sim := fun yn xn => match find A (c, yn), find B (c, xn) with
      | some y, some x => sim ctx y x
      | _, _ => 0
    renames := ctx.renames.filterMap fun r => if r.1.1 == c then some (r.1.2, r.2) else none }

/-- one pass of the `for sclass in schemaclasses` loop -/
def planRound (sim : Sim) (ctx : Ctx) (A B : Schema) : List Nat → Except Err (List (Nat × Plan))
  | [] => .ok []
  | c :: cs =>
    match planObjs (envFor sim ctx A B c) (classNames A c) (classNames B c) with
    | .error e => .error (.plan e)
    | .ok p => match planRound sim ctx A B cs with
      | .ok ps => .ok ((c, p) :: ps)
      | .error e => .error e

/-- what the alters / deletes of a pass record in the context -/
def ctxOf (ps : List (Nat × Plan)) : Ctx :=
  { renames := ps.flatMap fun cp => cp.2.matched.filterMap fun m =>
      if m.conf.isSome && m.x != m.y then some ((cp.1, m.y), m.x) else none
    deletions := ps.flatMap fun cp => cp.2.deletes.map fun d => (cp.1, d.1) }

/-- "retry performing the diff until we stop finding new renames and deletions" -/
def planFix (sim : Sim) (A B : Schema) (cl : List Nat) : Nat → Ctx → Except Err (List (Nat × Plan) × Ctx)
  | 0, _ => .error .unstable
  | fuel + 1, ctx =>
    match planRound sim ctx A B cl with
    | .error e => .error e
    | .ok ps => if ctxOf ps = ctx then .ok (ps, ctx) else planFix sim A B cl fuel (ctxOf ps)

/-- the `AlterObject` of a matched pair, unless nothing is left to change after the renames -/
def alterCmd (A' B : Schema) (c : Nat) (m : Match) : Option Cmd :=
  match m.conf, find B (c, m.x) with
  | some _, some x => if find A' (c, m.x) = some x then none else some (Cmd.alter c m.x x.data x.refs)
  | _, _ => none

/-- the create / alter / delete commands of one class, in the order of `delta_objects` -/
def classCmds (A' B : Schema) (c : Nat) (p : Plan) : List Cmd :=
  (p.creates.filterMap fun x => (find B (c, x.1)).map Cmd.create) ++
  (p.matched.filterMap (alterCmd A' B c)) ++
  (p.deletes.map fun y => Cmd.delete c y.1)

/-- `a` can only run after `b` -/
def needs (A' : Schema) : Cmd → Cmd → Bool
  | .create c, .create c' => c.refs.contains c'.key
  | .create c, .delete cl n => c.key == (cl, n)
  | .alter _ _ _ rs, .create c' => rs.contains c'.key
  | .delete cl n, .alter cl' n' _ _ =>
    match find A' (cl', n') with
    | some y => y.refs.contains (cl, n)
    | none => false
  | .delete cl n, .delete cl' n' =>
    match find A' (cl', n') with
    | some y => y.refs.contains (cl, n)
    | none => false
  | _, _ => false

def depsOf (A' : Schema) (cmds : List Cmd) (a : Cmd) : List Nat :=
  (List.range cmds.length).filter fun j => match cmds[j]? with
    | some b => needs A' a b
    | none => false

def depGraphAux (A' : Schema) (cmds : List Cmd) : Nat → List Cmd → Topo.Graph
  | _, [] => []
  | i, a :: as => { key := i, deps := depsOf A' cmds a } :: depGraphAux A' cmds (i + 1) as

def depGraph (A' : Schema) (cmds : List Cmd) : Topo.Graph := depGraphAux A' cmds 0 cmds

/-- the object with key `k` is touched (altered or deleted) by `cmds` -/
def touches (cmds : List Cmd) (k : Key) : Bool :=
  cmds.any fun
    | .alter c n _ _ => (c, n) == k
    | .delete c n => (c, n) == k
    | _ => false

/-- a deleted key that an untouched object still refers to -/
def firstBlocked (A' : Schema) (cmds : List Cmd) : Option Key :=
  cmds.findSome? fun
    | .delete c n => if A'.any (fun o => o.refs.contains (c, n) && !touches cmds o.key) then some (c, n) else none
    | _ => none

/-- `delta_schemas`: plan per class to a fixed point, renames first, the rest
    ordered by `sort_ex` over the dependency graph (model of `linearize_delta`). -/
def diff (sim : Sim) (A B : Schema) : Except Err (List Cmd) :=
  match planFix sim A B (classList (A ++ B)) (A.length + B.length + 2) {} with
  | .error e => .error e
  | .ok (ps, ctx) =>
    let A' := renameAll ctx.renames A
    let cmds := ps.flatMap fun cp => classCmds A' B cp.1 cp.2
    match firstBlocked A' cmds with
    | some k => .error (.blocked k)
    | none =>
      match Topo.sortEx (depGraph A' cmds) false with
      | .ok o => .ok ((ctx.renames.map fun r => Cmd.rename r.1.1 r.1.2 r.2) ++ o.filterMap (fun i => cmds[i]?))
      | _ => .error .cycle

/-- START MIGRATION TO B; POPULATE MIGRATION; COMMIT MIGRATION -/
def migrate (sim : Sim) (A B : Schema) : Except Err Schema :=
  match diff sim A B with
  | .ok cmds => applyAll A cmds
  | .error e => .error e

/-- a chain of migrations -/
def migrateChain (sim : Sim) : Schema → List Schema → Except Err Schema
  | a, [] => .ok a
  | a, s :: ss => match migrate sim a s with
    | .ok a' => migrateChain sim a' ss
    | .error e => .error e

end EdbVerif.Schema
