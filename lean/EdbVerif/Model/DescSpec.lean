/-
Vocabulary for the C14 theorems (core Lean only).
-/
import EdbVerif.Model.Desc

namespace EdbVerif.Desc

/-- Ids identify descriptors inside `d`: two sub-descriptors with the same id are
    the same tree.  This is the purpose of the content-derived ids; it is exactly
    what `C14_id_collision` shows to fail when an element name contains `:`. -/
def IdFaithful (d : Desc) : Prop := ∀ u ∈ subs d, ∀ v ∈ subs d, u.id = v.id → u = v

/-- no `SQL_ROW` descriptor inside (the real decoder has no arm for it) -/
def Decodable (d : Desc) : Prop := ∀ u ∈ subs d, ∀ n, u.hdr.kind ≠ .sqlRow n

/-- A descriptor tree the encoder of protocol family `p` can emit without a
    packer overflowing and whose ids are faithful.  (`Decodable` is asked for in
    addition where the REAL decoder is concerned.) -/
structure WFDesc (p : Proto) (d : Desc) : Prop where
  /-- per node: the kind exists in `p`, counts fit `uint16`, strings `uint32`,
      cardinalities are members of the enum, arrays are one unbounded dimension -/
  nodes : nodesOK p d = true
  /-- every position fits `uint16` -/
  fits : (enc p none {} d).tbl.length ≤ 65536
  faithful : IdFaithful d

/-- the arguments of an id function as the callers in `sertypes` build them -/
def IdKey.callerShaped : IdKey → Prop
  | .coll _ subs names => ∀ ns, names = some ns → ns.length = subs.length
  | .shape _ subs names cards lp links _ srcs =>
      (∀ ns, names = some ns → ns.length = subs.length) ∧
      (∀ cs, cards = some cs → cs.length = subs.length ∧ names.isSome) ∧
      (∀ l, lp = some l → l.length = subs.length) ∧ (∀ l, links = some l → l.length = subs.length) ∧
      (∀ l, srcs = some l → l.length = subs.length)
  | .setOf _ => True

/-- no `\x00` and no `:` inside (the texts `str(uuid)`) -/
def sepFree (b : Bytes) : Prop := 0 ∉ b ∧ 58 ∉ b

/-- the text of a `str(uuid)`: non-empty, lower-case hex digits and `-` -/
def uuidText (s : Bytes) : Prop :=
  s ≠ [] ∧ ∀ c ∈ s, (48 ≤ c ∧ c ≤ 57) ∨ (97 ≤ c ∧ c ≤ 102) ∨ c = 45

/-- What the id strings still rely on after fix c2beb91: the type name, the id
    texts and the element NAMES contain no NUL (the part separator; the EdgeQL
    tokenizer rejects U+0000, so no name can contain it), id texts are non-empty
    and `:`-free, cardinality characters are neither NUL nor `:`.  Element names
    may contain `:` and `\`. -/
def IdKey.NoSep : IdKey → Prop
  | .coll ct subs names =>
      0 ∉ ct ∧ (∀ s ∈ subs, sepFree s ∧ s ≠ []) ∧ ∀ ns, names = some ns → ∀ n ∈ ns, 0 ∉ n
  | .shape base subs names cards _ _ _ srcs =>
      0 ∉ base ∧ (∀ s ∈ subs, sepFree s ∧ s ≠ []) ∧ (∀ ns, names = some ns → ∀ n ∈ ns, 0 ∉ n) ∧
      (∀ cs, cards = some cs → ∀ c ∈ cs, c ≠ 0 ∧ c ≠ 58) ∧
      -- the source type ids are `str(uuid)` texts (the `;sources` tail must not be
      -- mistaken for `repr(links)`, which starts with `N` or `[`)
      ∀ l, srcs = some l → ∀ s ∈ l, uuidText s
  | .setOf s => 0 ∉ s

/-- the hypothesis the PRE-fix strings needed in addition: no `:` in a name -/
def IdKey.NoColonNames : IdKey → Prop
  | .coll _ _ names => ∀ ns, names = some ns → ∀ n ∈ ns, 58 ∉ n
  | .shape _ _ names _ _ _ _ _ => ∀ ns, names = some ns → ∀ n ∈ ns, 58 ∉ n
  | .setOf _ => True

/-- which of the three id functions -/
def IdKey.fn : IdKey → Nat
  | .coll .. => 0 | .shape .. => 1 | .setOf _ => 2

/-- the key with "falsy" optional lists (`if element_names:`) normalised away -/
def IdKey.norm : IdKey → IdKey
  | .coll ct subs names => .coll ct subs (truthy names)
  | .shape base subs names cards lp links impl srcs =>
      .shape base subs (truthy names) (truthy cards) lp links impl (truthy srcs)
  | .setOf s => .setOf s

/-- The key `_describe_object_shape` builds (fix d2d2129): the source type ids are
    passed only when some element's source differs from the shape's own type `mt`. -/
def shapeKeyOf (base : Bytes) (mt : Bytes) (subs names : List Bytes) (cards : List Nat)
    (lp links : List Bool) (impl : Bool) (sources : List Bytes) : IdKey :=
  .shape base subs (some names) (some cards) (some lp) (some links) impl
    (if sources.any (· != mt) then some sources else none)

/-! ### vocabulary of the framing theorem (`C14_frames`, `C14_skip`) -/

/-- `_finish_typedesc` (protocol ≥ 2.0) for an arbitrary body: `uint32(len(desc)) + desc` -/
def frame (b : Bytes) : Bytes := u32 b.length ++ b

/-- `len(desc)` in `_finish_typedesc` for a node with header `h` and `npre` + `npost`
    children (the positions written into the body do not change its length:
    `Desc.body_length`) -/
def bodySize (p : Proto) (h : Hdr) (npre npost : Nat) : Nat :=
  (body p ⟨h, List.replicate npre 0, List.replicate npost 0⟩).length

/-- the one guard of `_finish_typedesc` that `nodesOK` does not imply
    (`_uint32_packer(len(desc))` raises `struct.error` otherwise): every body is
    shorter than 2^32 bytes -/
def BlocksFit (p : Proto) (d : Desc) : Prop :=
  ∀ u ∈ subs d, bodySize p u.hdr u.pre.length u.post.length < 4294967296

instance (p : Proto) (d : Desc) : Decidable (BlocksFit p d) := by unfold BlocksFit; infer_instance

/-- the block boundaries the STRUCTURAL reader visits: `parseFlat` (which reads and
    ignores the length prefix) block after block; each chunk = the bytes it consumed.
    `frames` (Model/Desc.lean) is the reader that looks at the prefixes ONLY. -/
def structWalk (m : Mode) (p : Proto) : Nat → Bytes → Option (List Bytes)
  | _, [] => some []
  | 0, _ :: _ => none
  | fuel + 1, b :: bs =>
    match parseFlat m p (b :: bs) with
    | none => none
    | some (_, r) =>
      match structWalk m p fuel r with
      | none => none
      | some xs => some ((b :: bs).take ((b :: bs).length - r.length) :: xs)

end EdbVerif.Desc
