/-
Model for C13 (generated SQL is well-scoped): the fragment of `edb/pgsql/ast.py`
that `edb/pgsql/codegen.py` can print as a query, and an executable scope
checker `check` for it.

What is modelled is the *printed SQL*, not the compiler-internal maps
(`path_rvar_map`, `path_outputs`, … are never printed): the harness exporter
(`harness/props/c13.py`) walks a real `pgast` tree exactly the way
`SQLSourceGenerator` does and emits one term of `Query` per statement.

Names are compared by equality only (the exporter interns every identifier
after truncating it to PostgreSQL's 63 bytes).  `none` as a column list means
"unknown" (a catalog table whose columns the exporter could not determine, a
function without column aliases, or a `*` in a target list): any column is
accepted there.  For tables of the user schema the exporter supplies the column
list computed from the schema by the real `get_pointer_storage_info`.

The declarative counterpart (`WellScoped`) is in `PgAstSpec.lean`; the
equivalence `check q = true ↔ WellScoped q` is `Lemmas/PgScope.lean`.

Core Lean only: the line-protocol driver loads this file.
-/
namespace EdbVerif.PgAst

abbrev Name := String

/-- `JoinClause.type` as printed by `visit_JoinExpr` (a join without quals and
    without USING is printed as CROSS JOIN). -/
inductive JoinKind | inner | left | right | full | cross
deriving DecidableEq, Repr

mutual
/-- Expressions.  Every pgast expression node that is not a column reference,
    a parameter or a sub-query is a `node` with its printed children in order
    (operators, function calls with FILTER / ORDER BY / OVER parts, casts,
    CASE, rows, arrays, indirections …); constants are `leaf`. -/
inductive Expr
  | col (parts : List Name)           -- `ColumnRef`, 1–3 parts
  | star (qual : List Name)           -- `ColumnRef` ending in `Star`: `*`, `a.*`, `s.t.*`
  | param (n : Nat)                   -- `ParamRef`
  | leaf
  | node (args : List Expr)
  | sub (q : Query)                   -- `SubLink.expr` / a query in expression position
/-- `ResTarget` -/
inductive Target
  | mk (name : Option Name) (val : Expr)
/-- FROM items (`BaseRangeVar`). -/
inductive FromItem
  /-- `RelRangeVar` over a `Relation`: `[schema.]name [AS alias[(cols)]]`; `tcols`: the table's
      columns when the exporter knows them from the schema (`none`: unknown) -/
  | rel (schema : Option Name) (name : Name) (alias : Option Name) (cols : List Name)
      (tcols : Option (List Name))
  /-- `RelRangeVar` over a `CommonTableExpr`: printed as the bare CTE name -/
  | cref (name : Name) (alias : Option Name) (cols : List Name)
  /-- `RangeSubselect` (and `RelRangeVar` over a `NullRelation`) -/
  | subq (lateral : Bool) (q : Query) (alias : Name) (cols : List Name)
  /-- `RangeFunction`; `cols = none`: the column names are not given by the alias -/
  | func (lateral : Bool) (fns : List Expr) (alias : Name) (cols : Option (List Name))
  /-- one step of the n-ary `JoinExpr` (left associated, as printed) -/
  | join (l : FromItem) (k : JoinKind) (r : FromItem) (on : List Expr) (usingCols : List Name)
/-- `CommonTableExpr` -/
inductive Cte
  | mk (name : Name) (cols : List Name) (q : Query)
inductive Query
  /-- `WITH [RECURSIVE] ctes body` (`recursive` = what `gen_ctes` prints: the flag of the first CTE) -/
  | withq (recursive : Bool) (ctes : List Cte) (body : Query)
  /-- plain SELECT.  `exprs` = WHERE, HAVING, WINDOW definitions; `byItems` =
      DISTINCT ON, GROUP BY, ORDER BY items; `limits` = OFFSET, LIMIT. -/
  | select (targets : List Target) (frm : List FromItem) (exprs : List Expr)
      (byItems : List Expr) (limits : List Expr)
  /-- `VALUES rows` with `ncols` columns (`rows` = all cells) -/
  | values (ncols : Nat) (rows : List Expr)
  /-- `larg op rarg [ORDER BY …] [OFFSET/LIMIT …]` -/
  | setop (l r : Query) (order : List Expr) (limits : List Expr)
  /-- `INSERT INTO [schema.]name [AS alias] src [ON CONFLICT (inferExprs) DO UPDATE SET updExprs] RETURNING`;
      `tcols`: the target table's columns if known -/
  | insert (schema : Option Name) (name : Name) (alias : Option Name) (tcols : Option (List Name))
      (src : Query)
      (inferExprs : List Expr) (updExprs : List Expr) (returning : List Target)
  /-- `UPDATE tgt SET … FROM frm WHERE … RETURNING`; `exprs` = SET values and WHERE -/
  | update (schema : Option Name) (name : Name) (alias : Option Name) (tcols : Option (List Name))
      (frm : List FromItem)
      (exprs : List Expr) (returning : List Target)
  /-- `DELETE FROM tgt USING frm WHERE … RETURNING` -/
  | delete (schema : Option Name) (name : Name) (alias : Option Name) (tcols : Option (List Name))
      (frm : List FromItem)
      (exprs : List Expr) (returning : List Target)
end

def Target.name : Target → Option Name | .mk n _ => n
def Target.val : Target → Expr | .mk _ v => v
def Cte.name : Cte → Name | .mk n _ _ => n
def Cte.cols : Cte → List Name | .mk _ c _ => c
def Cte.query : Cte → Query | .mk _ _ q => q

/-! ### Output column names -/

/-- Name of an output column (`FigureColname`, restricted to what matters here:
    an unnamed column reference is named after its last part; every other
    unnamed expression gets a name the exporter passes explicitly, so `none`
    only remains for `*`). -/
def targetName : Target → Option Name
  | .mk (some n) _ => some n
  | .mk none (.col parts) => parts.getLast?
  | .mk none (.star _) => none
  | .mk none _ => some "?column?"

def targetNames (ts : List Target) : Option (List Name) := ts.mapM targetName

def valuesCols (n : Nat) : List Name := (List.range n).map fun i => s!"column{i + 1}"

/-- Output column names of a query; `none` = unknown (`*` in the target list). -/
def outCols : Query → Option (List Name)
  | .withq _ _ b => outCols b
  | .select ts _ _ _ _ => targetNames ts
  | .values n _ => some (valuesCols n)
  | .setop l _ _ _ => outCols l
  | .insert _ _ _ _ _ _ _ ret => targetNames ret
  | .update _ _ _ _ _ _ ret => targetNames ret
  | .delete _ _ _ _ _ _ ret => targetNames ret

/-- Column aliases rename the first columns. -/
def applyAliases (al : List Name) : Option (List Name) → Option (List Name)
  | none => none
  | some cs => some (al ++ cs.drop al.length)

/-- There may not be more column aliases than columns. -/
def colAliasesOk (al : List Name) : Option (List Name) → Bool
  | none => true
  | some cs => al.length ≤ cs.length

/-! ### Environments -/

/-- A range-table entry as seen by name resolution (`ParseNamespaceItem`). -/
structure RVar where
  alias  : Name
  /-- `some s` iff this is an un-aliased schema-qualified table `s.alias` -/
  schema : Option Name := none
  cols   : Option (List Name)
  /-- columns not visible without qualification (right arm of JOIN … USING) -/
  hidden : List Name := []
  relVis : Bool := true      -- `p_rel_visible`
  colVis : Bool := true      -- `p_cols_visible`
  ok     : Bool := true      -- `p_lateral_ok`
deriving Repr, DecidableEq

abbrev Level := List RVar

structure CteDef where
  name : Name
  cols : Option (List Name)
deriving Repr, DecidableEq

/-- What a (sub-)query can see: the namespaces of the enclosing query levels
    (innermost first) and the CTE names in scope (innermost first). -/
structure Env where
  levels : List Level := []
  ctes   : List CteDef := []
deriving Repr

def Env.push (env : Env) (l : Level) : Env := { env with levels := l :: env.levels }

def lookupCte (ctes : List CteDef) (n : Name) : Option CteDef := ctes.find? (·.name == n)

def cteDef (c : Cte) : CteDef := ⟨c.name, applyAliases c.cols (outCols c.query)⟩

def Env.withCtes (env : Env) (cs : List Cte) : Env :=
  { env with ctes := (cs.map cteDef).reverse ++ env.ctes }

def RVar.hasCol (r : RVar) (c : Name) : Bool :=
  match r.cols with
  | none => true
  | some cs => cs.contains c

def RVar.known (r : RVar) : Bool := r.cols.isSome

/-- visible for an unqualified column reference `c` -/
def RVar.offers (r : RVar) (c : Name) : Bool :=
  r.colVis && !r.hidden.contains c && r.hasCol c

def RVar.matchRel (a : Name) (r : RVar) : Bool := r.relVis && r.alias == a
def RVar.matchRel3 (s t : Name) (r : RVar) : Bool := r.relVis && r.alias == t && r.schema == some s

def leftLateralOk : JoinKind → Bool
  | .inner | .left | .cross => true
  | .right | .full => false

def hideCols (cs : List Name) (r : RVar) : RVar := { r with hidden := cs ++ r.hidden }
def setOk (b : Bool) (r : RVar) : RVar := { r with ok := r.ok && b }

/-- The range-table entries a FROM item contributes. -/
def rvarsOf (ctes : List CteDef) : FromItem → List RVar
  | .rel s n none al tc => [{ alias := n, schema := s, cols := applyAliases al tc }]
  | .rel _ _ (some a) al tc => [{ alias := a, cols := applyAliases al tc }]
  | .cref n a al =>
      [{ alias := a.getD n,
         cols := match lookupCte ctes n with
                 | some d => applyAliases al d.cols
                 | none => none }]
  | .subq _ q a al => [{ alias := a, cols := applyAliases al (outCols q) }]
  | .func _ _ a cols => [{ alias := a, cols := cols }]
  | .join l _ r _ us => rvarsOf ctes l ++ (rvarsOf ctes r).map (hideCols us)

def fromRVars (ctes : List CteDef) (items : List FromItem) : List RVar :=
  items.flatMap (rvarsOf ctes)

/-- Two entries of one FROM level may not share a name (`checkNameSpaceConflicts`);
    two un-aliased tables of different schemas do not conflict. -/
def conflict (a b : RVar) : Bool :=
  a.alias == b.alias && !(a.schema.isSome && b.schema.isSome && a.schema != b.schema)

def noConflicts : List RVar → Bool
  | [] => true
  | r :: rs => rs.all (fun r' => !conflict r r') && noConflicts rs

def nodupNames : List Name → Bool
  | [] => true
  | n :: ns => !ns.contains n && nodupNames ns

/-- Target relation of a DML statement. -/
def targetRVar (schema : Option Name) (name : Name) (alias : Option Name)
    (tcols : Option (List Name)) : RVar :=
  match alias with
  | some a => { alias := a, cols := tcols }
  | none => { alias := name, schema := schema, cols := tcols }

/-- the pseudo-relation of ON CONFLICT DO UPDATE: same columns as the target,
    visible by name only -/
def excludedRVar (tcols : Option (List Name)) : RVar :=
  { alias := "excluded", cols := tcols, colVis := false }

/-- An unqualified relation name must not be captured by a CTE in scope (the
    exporter emits `rel` only for real tables). -/
def tableNotCaptured (ctes : List CteDef) (schema : Option Name) (name : Name) : Bool :=
  schema.isSome || (lookupCte ctes name).isNone

/-! ### Name resolution (executable) -/

/-- `a.c` -/
def resolveQual (a c : Name) : List Level → Bool
  | [] => false
  | l :: ls =>
    match l.filter (RVar.matchRel a) with
    | [] => resolveQual a c ls
    | [r] => r.ok && r.hasCol c
    | _ => false

/-- `s.t.c` -/
def resolveQual3 (s t c : Name) : List Level → Bool
  | [] => false
  | l :: ls =>
    match l.filter (RVar.matchRel3 s t) with
    | [] => resolveQual3 s t c ls
    | [r] => r.ok && r.hasCol c
    | _ => false

/-- a relation name alone (`a.*`, whole-row reference) -/
def resolveRel (a : Name) : List Level → Bool
  | [] => false
  | l :: ls =>
    match l.filter (RVar.matchRel a) with
    | [] => resolveRel a ls
    | [r] => r.ok
    | _ => false

def resolveRel3 (s t : Name) : List Level → Bool
  | [] => false
  | l :: ls =>
    match l.filter (RVar.matchRel3 s t) with
    | [] => resolveRel3 s t ls
    | [r] => r.ok
    | _ => false

/-- unqualified `c`: the innermost level that offers `c` decides (`colNameToVar`);
    `none`: no level offers it. -/
def resolveCol (c : Name) : List Level → Option Bool
  | [] => none
  | l :: ls =>
    match l.filter (·.offers c) with
    | [] => resolveCol c ls
    | ks => some (ks.all (·.ok) && decide ((ks.filter (·.known)).length ≤ 1))

def resolves (levels : List Level) : List Name → Bool
  | [c] =>
    match resolveCol c levels with
    | some b => b
    | none => resolveRel c levels          -- whole-row reference
  | [a, c] => resolveQual a c levels
  | [s, t, c] => resolveQual3 s t c levels
  | _ => false

def resolvesStar (levels : List Level) : List Name → Bool
  | [] => true
  | [a] => resolveRel a levels
  | [s, t] => resolveRel3 s t levels
  | _ => false

/-- A bare name in ORDER BY / GROUP BY / DISTINCT ON may denote an output column
    (`findTargetlistEntrySQL92`); `outs = none`: unknown output names. -/
def isOutRef (outs : Option (List Name)) : Expr → Bool
  | .col [c] => match outs with
                | none => true
                | some os => os.contains c
  | _ => false

/-- ORDER BY of a set operation: output column names (or constants) only. -/
def isSetOrderItem (outs : Option (List Name)) : Expr → Bool
  | .leaf => true
  | e => isOutRef outs e

/-! ### The checker -/

mutual
def checkExpr (env : Env) : Expr → Bool
  | .col parts => resolves env.levels parts
  | .star qual => resolvesStar env.levels qual
  | .param _ => true
  | .leaf => true
  | .node args => checkExprs env args
  | .sub q => checkQuery env q

def checkExprs (env : Env) : List Expr → Bool
  | [] => true
  | e :: es => checkExpr env e && checkExprs env es

/-- like `checkExprs`, but bare output-column names are accepted -/
def checkByItems (env : Env) (outs : Option (List Name)) : List Expr → Bool
  | [] => true
  | e :: es => (isOutRef outs e || checkExpr env e) && checkByItems env outs es

def checkTargets (env : Env) : List Target → Bool
  | [] => true
  | .mk _ v :: ts => checkExpr env v && checkTargets env ts

/-- `lat`: what a LATERAL item (or a function) at this place can see of its own
    query level: earlier FROM siblings and the left arms of enclosing joins. -/
def checkFrom (env : Env) (lat : Level) : FromItem → Bool
  | .rel s n _ al tc => tableNotCaptured env.ctes s n && colAliasesOk al tc
  | .cref n _ al =>
    match lookupCte env.ctes n with
    | some d => colAliasesOk al d.cols
    | none => false
  | .subq lateral q _ al =>
    checkQuery (if lateral then env.push lat else env) q && colAliasesOk al (outCols q)
  | .func _ fns _ _ => checkExprs (env.push lat) fns
  | .join l k r on us =>
    checkFrom env lat l
    && checkFrom env (lat ++ (rvarsOf env.ctes l).map (setOk (leftLateralOk k))) r
    && checkExprs (env.push (rvarsOf env.ctes l ++ rvarsOf env.ctes r)) on
    && us.all (fun c => (rvarsOf env.ctes l).any (·.offers c) && (rvarsOf env.ctes r).any (·.offers c))

def checkFroms (env : Env) (acc : Level) : List FromItem → Bool
  | [] => true
  | f :: fs => checkFrom env acc f && checkFroms env (acc ++ rvarsOf env.ctes f) fs

/-- `all`: the whole WITH list, `pre`: the CTEs before the current one. -/
def checkCtes (env : Env) (recursive : Bool) (all pre : List Cte) : List Cte → Bool
  | [] => true
  | .mk n cols q :: rest =>
    checkQuery (env.withCtes (if recursive then all else pre)) q
    && colAliasesOk cols (outCols q)
    && checkCtes env recursive all (pre ++ [.mk n cols q]) rest

def checkQuery (env : Env) : Query → Bool
  | .withq recursive ctes body =>
    nodupNames (ctes.map Cte.name)
    && checkCtes env recursive ctes [] ctes
    && checkQuery (env.withCtes ctes) body
  | .select targets frm exprs byItems limits =>
    let rv := fromRVars env.ctes frm
    noConflicts rv
    && checkFroms env [] frm
    && checkTargets (env.push rv) targets
    && checkExprs (env.push rv) exprs
    && checkByItems (env.push rv) (targetNames targets) byItems
    && checkExprs env limits
  | .values _ rows => checkExprs env rows
  | .setop l r order limits =>
    checkQuery env l && checkQuery env r
    && order.all (isSetOrderItem (outCols l))
    && checkExprs env limits
  | .insert s n a tc src inferExprs updExprs returning =>
    let tv := targetRVar s n a tc
    tableNotCaptured env.ctes s n
    && checkQuery env src
    && checkExprs (env.push [{ tv with relVis := false }]) inferExprs
    && noConflicts [tv, excludedRVar tc]
    && checkExprs (env.push [tv, excludedRVar tc]) updExprs
    && checkTargets (env.push [tv]) returning
  | .update s n a tc frm exprs returning =>
    let tv := targetRVar s n a tc
    let rv := tv :: fromRVars env.ctes frm
    tableNotCaptured env.ctes s n
    && noConflicts rv
    && checkFroms env [{ tv with ok := false }] frm
    && checkExprs (env.push rv) exprs
    && checkTargets (env.push rv) returning
  | .delete s n a tc frm exprs returning =>
    let tv := targetRVar s n a tc
    let rv := tv :: fromRVars env.ctes frm
    tableNotCaptured env.ctes s n
    && noConflicts rv
    && checkFroms env [{ tv with ok := false }] frm
    && checkExprs (env.push rv) exprs
    && checkTargets (env.push rv) returning
end

/-- The scope checker for a top-level statement. -/
def check (q : Query) : Bool := checkQuery {} q

/-! ### Parameters occurring in a statement (for the argmap consistency check) -/

mutual
def paramsExpr : Expr → List Nat
  | .param n => [n]
  | .node args => paramsExprs args
  | .sub q => paramsQuery q
  | _ => []
def paramsExprs : List Expr → List Nat
  | [] => []
  | e :: es => paramsExpr e ++ paramsExprs es
def paramsTargets : List Target → List Nat
  | [] => []
  | .mk _ v :: ts => paramsExpr v ++ paramsTargets ts
def paramsFrom : FromItem → List Nat
  | .rel .. => []
  | .cref .. => []
  | .subq _ q _ _ => paramsQuery q
  | .func _ fns _ _ => paramsExprs fns
  | .join l _ r on _ => paramsFrom l ++ paramsFrom r ++ paramsExprs on
def paramsFroms : List FromItem → List Nat
  | [] => []
  | f :: fs => paramsFrom f ++ paramsFroms fs
def paramsCtes : List Cte → List Nat
  | [] => []
  | .mk _ _ q :: cs => paramsQuery q ++ paramsCtes cs
def paramsQuery : Query → List Nat
  | .withq _ ctes b => paramsCtes ctes ++ paramsQuery b
  | .select ts frm es bys ls =>
    paramsTargets ts ++ paramsFroms frm ++ paramsExprs es ++ paramsExprs bys ++ paramsExprs ls
  | .values _ rows => paramsExprs rows
  | .setop l r o ls => paramsQuery l ++ paramsQuery r ++ paramsExprs o ++ paramsExprs ls
  | .insert _ _ _ _ src i u ret => paramsQuery src ++ paramsExprs i ++ paramsExprs u ++ paramsTargets ret
  | .update _ _ _ _ frm es ret => paramsFroms frm ++ paramsExprs es ++ paramsTargets ret
  | .delete _ _ _ _ frm es ret => paramsFroms frm ++ paramsExprs es ++ paramsTargets ret
end

end EdbVerif.PgAst
