/-
Specification vocabulary for C20 (what the theorems in Props/C20.lean say).
Core Lean only.
-/
import EdbVerif.Model.Topo

namespace EdbVerif.Topo

/-- keys are distinct (the input is a Python `Mapping`) -/
def WF (g : Graph) : Prop := g.keys.Nodup

/-- hard dependency `a → b` (deps ∪ merge), `b` present in the graph -/
def Hard (g : Graph) (a b : Nat) : Prop :=
  ∃ e ∈ g, e.key = a ∧ (b ∈ e.merge ∨ b ∈ e.deps) ∧ b ∈ g.keys
/-- loop-control edge -/
def Ctrl (g : Graph) (a b : Nat) : Prop :=
  ∃ e ∈ g, e.key = a ∧ b ∈ e.ctrl ∧ b ∈ g.keys
/-- soft (weak) dependency -/
def Weak (g : Graph) (a b : Nat) : Prop :=
  ∃ e ∈ g, e.key = a ∧ b ∈ e.weak ∧ b ∈ g.keys

/-- the relation has a cycle (self-loops included) -/
def Cyclic (R : Nat → Nat → Prop) : Prop := ∃ a, Relation.TransGen R a a

/-- no `UnresolvedReferenceError` is raised up front -/
def Resolved (g : Graph) (allow : Bool) : Prop := allow = true ∨ firstUnresolved g = none

/-- position in the output -/
abbrev pos (o : List Nat) (k : Nat) : Nat := o.idxOf k

end EdbVerif.Topo
