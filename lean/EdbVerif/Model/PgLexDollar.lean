/-
PostgreSQL dollar-quoted string constants (documentation 4.1.2.4) — SPECIFICATION,
trusted like `Model/PgLex.lean`: "`$tag$` … `$tag$`, the tag is empty or follows
the rules of an unquoted identifier except that it cannot contain a dollar
sign; the content is taken literally up to the first matching `$tag$`."
Used for the fixed tags `$__$` (dbops `PLTopBlock`) and `$____funcbody____$`
(dbops `CreateFunction`).  The substring search is `Lex.findSub`.
-/
import EdbVerif.Model.Lex
import EdbVerif.Model.PgLex

namespace EdbVerif.PgLex

/-- the tag characters after the opening `$`, up to the next `$` -/
def dollarTagChars : List Char → Option (List Char × List Char)
  | [] => none
  | c :: cs =>
    if c = '$' then some ([], cs)
    else if isIdentCont c then
      match dollarTagChars cs with
      | some (t, r) => some (c :: t, r)
      | none => none
    else none

/-- a dollar-quoted constant at the head of the input: (content, rest) -/
def lexDollarStr (cs : List Char) : R (List Char × List Char) :=
  match cs with
  | c :: t =>
    if c = '$' then
      match dollarTagChars t with
      | none => .error .notThisForm
      | some (tag, body) =>
        if (match tag with | d :: _ => isDigit d | [] => false) then .error .notThisForm
        else match Lex.findSub ('$' :: tag ++ ['$']) body with
          | some (content, rest) => .ok (content, rest)
          | none => .error .unterminated
    else .error .notThisForm
  | [] => .error .notThisForm

end EdbVerif.PgLex
