/-
Model of the compiler-side transaction state (C09).

Transcribed from `edb/server/compiler/dbstate.py` (classes `TransactionState`,
`Transaction`, `CompilerConnectionState`), the transaction part of
`edb/server/compiler/compiler.py` (`Compiler.compile`, `Compiler.compile_in_tx`,
`_compile_ql_transaction`, the `TxControlQuery` / `DDLQuery` /
`SessionStateQuery` branches of `_make_query_unit`) and the server's use of the
resulting unit fields in `edb/server/dbview/dbview.pyx`, `protocol/execute.pyx`
and `protocol/binary.pyx`.

Conventions
* A *payload* is the part of a `TransactionState` a statement is compiled
  against: `user_schema` (with `local_user_schema is None ⇒ root schema`
  folded in), `global_schema`, `modaliases`, `session_config`; the values are
  opaque tokens (`Nat`).  The remaining fields of the real tuple
  (`database_config`, `system_config`, `cached_reflection`, migration states)
  are carried and replaced by `_replace` in exactly the same way as
  `session_config` and are not modelled separately.
* `Transaction` objects are mutable and shared (`TransactionState.tx`), so the
  model keeps a heap of transactions keyed by their creation id;
  `TxState.tx` is the key.  A write to a transaction conses a new binding in
  front (lookups see the newest binding).
* `_savepoints` / `_savepoints_log` are insertion-ordered dicts keyed by the
  savepoint id: lists of `TxState` in insertion order, the key is `.id`.
* `_tx_count` starts at `time.monotonic_ns()`: the start value is a parameter.

Core Lean only (loaded by the line-protocol driver).
-/
namespace EdbVerif.Tx

/-- What a statement is compiled against. -/
structure Payload where
  uschema : Nat
  gschema : Nat
  aliases : Nat
  config  : Nat
deriving DecidableEq, Repr, Inhabited

/-- `TransactionState` (a NamedTuple, immutable). `name = none` for the state of
    the transaction itself, `some n` for a savepoint. -/
structure TxState where
  id   : Nat
  name : Option Nat
  pl   : Payload
  tx   : Nat
deriving DecidableEq, Repr

/-- `Transaction` (mutable object). `id` is `_id` (changed only by
    `sync_to_savepoint`), `sps` is `_savepoints` in insertion order. -/
structure Txn where
  id       : Nat
  implicit : Bool
  current  : TxState
  state0   : TxState
  sps      : List TxState
deriving DecidableEq, Repr

/-- `CompilerConnectionState`. -/
structure ConState where
  heap  : List (Nat × Txn)
  log   : List TxState
  cur   : Nat
  count : Nat
deriving DecidableEq, Repr

/-- Error classes. The first four are the `TransactionError`s raised by
    `dbstate.py` itself. -/
inductive Err where
  | alreadyInTx        -- "already in transaction"
  | notInTx            -- "cannot commit: not in transaction"
  | spOutsideBlock     -- "savepoints can only be used in transaction blocks"
  | noSavepoint        -- "there is no {name!r} savepoint"
  | syncFail           -- InternalServerError "failed to lookup transaction or savepoint"
  | noSpId             -- RuntimeError "failed to lookup savepoint with id="
  | expectedRollback   -- "expected a ROLLBACK or ROLLBACK TO SAVEPOINT command"
  | compileError       -- environment-chosen failure of the statement's own compilation
  | txInScript         -- "Explicit transaction control commands cannot be executed in an implicit transaction block"
  | inTxError          -- server: "current transaction is aborted, commands ignored ..."
  | dangling           -- model only: a heap key without binding (never produced from `init`)
deriving DecidableEq, Repr

abbrev M := Except Err

deriving instance DecidableEq for Except

/-! ### dict helpers -/

/-- `d[s.id] = s` on an insertion-ordered dict. -/
def dictSet (d : List TxState) (s : TxState) : List TxState :=
  if d.any (·.id == s.id) then d.map (fun x => if x.id == s.id then s else x) else d ++ [s]

/-- `d.pop(i)` -/
def dictPop (d : List TxState) (i : Nat) : List TxState := d.filter (·.id != i)

/-- `for i in ids: d.pop(i)` -/
def popAll (d : List TxState) (ids : List Nat) : List TxState := ids.foldl dictPop d

def dictGet (d : List TxState) (i : Nat) : Option TxState := d.find? (·.id == i)

def dictHas (d : List TxState) (i : Nat) : Bool := d.any (·.id == i)

/-! ### heap -/

def getTx (c : ConState) (k : Nat) : Option Txn := c.heap.lookup k

def curTx (c : ConState) : Option Txn := getTx c c.cur

def setTx (c : ConState) (k : Nat) (t : Txn) : ConState := { c with heap := (k, t) :: c.heap }

/-! ### `Transaction.__init__` / `_init_current_tx` / `CompilerConnectionState.__init__` -/

/-- `_init_current_tx`: a new implicit `Transaction` whose `_id`, and the id of
    its `_current = _state0`, is `_new_txid()`. -/
def initCurrentTx (c : ConState) (pl : Payload) : ConState :=
  let id := c.count + 1
  let st : TxState := { id := id, name := none, pl := pl, tx := id }
  { c with count := id, cur := id,
           heap := (id, { id := id, implicit := true, current := st, state0 := st, sps := [] }) :: c.heap }

/-- `CompilerConnectionState(...)`; `t0 = time.monotonic_ns()`. -/
def ConState.init (t0 : Nat) (pl : Payload) : ConState :=
  initCurrentTx { heap := [], log := [], cur := 0, count := t0 } pl

/-! ### `CompilerConnectionState` transaction control -/

/-- `start_tx` -/
def startTx (c : ConState) : M ConState :=
  match curTx c with
  | none => .error .dangling
  | some t => if t.implicit then .ok (setTx c c.cur { t with implicit := false })
              else .error .alreadyInTx

/-- `rollback_tx`; returns `prior_state` too. -/
def rollbackTx (c : ConState) : M (ConState × TxState) :=
  match curTx c with
  | none => .error .dangling
  | some t => .ok (initCurrentTx c t.state0.pl, t.state0)

/-- `commit_tx`; returns `latest_state` too. -/
def commitTx (c : ConState) : M (ConState × TxState) :=
  match curTx c with
  | none => .error .dangling
  | some t => if t.implicit then .error .notInTx
              else .ok (initCurrentTx c t.current.pl, t.current)

/-! ### `Transaction` savepoints -/

/-- `declare_savepoint(name)`; returns the new savepoint id. -/
def declareSavepoint (c : ConState) (name : Nat) : M (ConState × Nat) :=
  match curTx c with
  | none => .error .dangling
  | some t =>
    if t.implicit then .error .spOutsideBlock
    else
      let spid := c.count + 1
      let sp : TxState := { t.current with id := spid, name := some name }
      let c' := setTx { c with count := spid } c.cur { t with sps := dictSet t.sps sp }
      .ok ({ c' with log := dictSet c.log sp }, spid)

/-- The loop of `_rollback_to_savepoint` over `reversed(self._savepoints.values())`:
    the state found and `sp_ids_to_erase`; `none` is the `for … else`. -/
def scanRollback (name : Nat) : List TxState → Option (TxState × List Nat)
  | [] => none
  | sp :: rest =>
    if sp.name == some name then some (sp, [])
    else match scanRollback name rest with
      | none => none
      | some (f, ids) => some (f, sp.id :: ids)

/-- The loop of `_release_savepoint`: `sp_ids_to_erase` (the found one included). -/
def scanRelease (name : Nat) : List TxState → Option (List Nat)
  | [] => none
  | sp :: rest =>
    if sp.name == some name then some [sp.id]
    else match scanRelease name rest with
      | none => none
      | some ids => some (sp.id :: ids)

/-- `rollback_to_savepoint(name)`; returns the savepoint state too. -/
def rollbackToSavepoint (c : ConState) (name : Nat) : M (ConState × TxState) :=
  match curTx c with
  | none => .error .dangling
  | some t =>
    if t.implicit then .error .spOutsideBlock
    else match scanRollback name t.sps.reverse with
      | none => .error .noSavepoint
      | some (sp, ids) =>
        .ok (setTx c c.cur { t with current := sp, sps := popAll t.sps ids }, sp)

/-- `release_savepoint(name)` -/
def releaseSavepoint (c : ConState) (name : Nat) : M ConState :=
  match curTx c with
  | none => .error .dangling
  | some t =>
    if t.implicit then .error .spOutsideBlock
    else match scanRelease name t.sps.reverse with
      | none => .error .noSavepoint
      | some ids => .ok (setTx c c.cur { t with sps := popAll t.sps ids })

/-! ### payload updates (`update_schema`, `update_modaliases`, `update_session_config`) -/

inductive Upd where
  | schema (u g : Nat)
  | aliases (a : Nat)
  | config (v : Nat)
deriving DecidableEq, Repr

def Upd.apply : Upd → Payload → Payload
  | .schema u g, p => { p with uschema := u, gschema := g }
  | .aliases a, p => { p with aliases := a }
  | .config v, p => { p with config := v }

/-- `self._current = self._current._replace(...)` on the current transaction -/
def update (c : ConState) (u : Upd) : M ConState :=
  match curTx c with
  | none => .error .dangling
  | some t => .ok (setTx c c.cur { t with current := { t.current with pl := u.apply t.current.pl } })

/-! ### re-synchronisation -/

/-- `sync_to_savepoint(spid)` -/
def syncToSavepoint (c : ConState) (spid : Nat) : M ConState :=
  match dictGet c.log spid with
  | none => .error .noSpId
  | some sp =>
    match getTx c sp.tx with
    | none => .error .dangling
    | some t =>
      let t' : Txn := { t with current := sp, id := spid, sps := t.sps.filter (fun x => !(x.id > spid)) }
      .ok { setTx c sp.tx t' with cur := sp.tx, log := c.log.filter (fun x => !(x.id > spid)) }

/-- `sync_tx(txid)` -/
def syncTx (c : ConState) (txid : Nat) : M ConState :=
  match curTx c with
  | none => .error .dangling
  | some t =>
    if t.id == txid then .ok c
    else if dictHas c.log txid then syncToSavepoint c txid
    else .error .syncFail

/-! ## Level 1: the state machine driven by events -/

inductive Ev where
  | start | commit | rollback
  | declare (n : Nat) | release (n : Nat) | rollbackTo (n : Nat)
  | upd (u : Upd)
deriving DecidableEq, Repr

/-- What a call returns: nothing, or the new savepoint id. -/
inductive Ret where
  | unit
  | spid (i : Nat)
deriving DecidableEq, Repr

def exec (c : ConState) : Ev → M (ConState × Ret)
  | .start => (startTx c).map (·, .unit)
  | .commit => (commitTx c).map (fun r => (r.1, .unit))
  | .rollback => (rollbackTx c).map (fun r => (r.1, .unit))
  | .declare n => (declareSavepoint c n).map (fun r => (r.1, .spid r.2))
  | .release n => (releaseSavepoint c n).map (·, .unit)
  | .rollbackTo n => (rollbackToSavepoint c n).map (fun r => (r.1, .unit))
  | .upd u => (update c u).map (·, .unit)

/-- One event: every rejection in `dbstate.py` is raised before the first write
    (read off the source; the differential run compares the whole object graph
    before/after each rejected real call), so a rejected call leaves `c`. -/
def step (c : ConState) (e : Ev) : ConState × M Ret :=
  match exec c e with
  | .ok (c', r) => (c', .ok r)
  | .error err => (c, .error err)

def run (c : ConState) : List Ev → ConState × List (M Ret)
  | [] => (c, [])
  | e :: es =>
    let (c', o) := step c e
    let (c'', os) := run c' es
    (c'', o :: os)

/-! ## Level 2: compilation of one statement, the worker transport and the server -/

inductive Stmt where
  | start | commit | rollback
  | declare (n : Nat) | release (n : Nat) | rollbackTo (n : Nat)
  | upd (u : Upd)            -- DDL / SET ALIAS / CONFIGURE SESSION
  | query                    -- no effect on the session state
deriving DecidableEq, Repr

/-- The `QueryUnit` fields the server reads. -/
structure QUnit where
  txId       : Option Nat := none
  txCommit   : Bool := false
  txRollback : Bool := false
  spRollback : Bool := false
  spDeclare  : Bool := false
  spName     : Option Nat := none
  spId       : Option Nat := none
  aliases    : Option Nat := none      -- `unit.modaliases`
  uschema    : Option Nat := none      -- `unit.user_schema`
  gschema    : Option Nat := none      -- `unit.global_schema`
  config     : Option Nat := none      -- `unit.config_ops` (session scope)
deriving DecidableEq, Repr

def curPayload (c : ConState) : Option Payload := (curTx c).map (·.current.pl)

/-- `_try_compile_ast` for a single statement (`_compile_dispatch_ql` +
    `_make_query_unit`), *in place*: the first component is the state object
    after the call, also when the call raises.  `cf` is the environment's
    choice that the statement's own compilation fails (unknown name in a DDL
    command, unsupported isolation level in START, …): for START that error is
    raised after `start_tx()`, for the others before any write. -/
def compileStmt (c : ConState) (er : Bool) (cf : Bool) : Stmt → ConState × M QUnit
  | .start =>
    if er then (c, .error .expectedRollback) else
    match startTx c with
    | .error e => (c, .error e)
    | .ok c' =>
      if cf then (c', .error .compileError) else
      match curTx c' with
      | none => (c', .error .dangling)
      | some t => (c', .ok { txId := some t.id })
  | .commit =>
    if er then (c, .error .expectedRollback) else
    match curTx c with
    | none => (c, .error .dangling)
    | some t =>
      match commitTx c with
      | .error e => (c, .error e)
      | .ok (c', latest) =>
        (c', .ok { txCommit := true, aliases := some latest.pl.aliases,
                   uschema := if t.current.pl.uschema == t.state0.pl.uschema then none
                              else some t.current.pl.uschema,
                   gschema := if t.current.pl.gschema == t.state0.pl.gschema then none
                              else some t.current.pl.gschema })
  | .rollback =>
    match rollbackTx c with
    | .error e => (c, .error e)
    | .ok (c', prior) => (c', .ok { txRollback := true, aliases := some prior.pl.aliases })
  | .declare n =>
    if er then (c, .error .expectedRollback) else
    match declareSavepoint c n with
    | .error e => (c, .error e)
    | .ok (c', spid) => (c', .ok { spDeclare := true, spName := some n, spId := some spid })
  | .release n =>
    if er then (c, .error .expectedRollback) else
    match releaseSavepoint c n with
    | .error e => (c, .error e)
    | .ok c' => (c', .ok {})
  | .rollbackTo n =>
    match rollbackToSavepoint c n with
    | .error e => (c, .error e)
    | .ok (c', sp) => (c', .ok { spRollback := true, spName := some n, aliases := some sp.pl.aliases })
  | .upd u =>
    if cf then (c, .error .compileError) else
    match update c u with
    | .error e => (c, .error e)
    | .ok c' =>
      match curPayload c' with
      | none => (c', .error .dangling)
      | some p =>
        match u with
        | .schema us gs => (c', .ok { uschema := some us, gschema := some gs })
        | .aliases _ => (c', .ok { aliases := some p.aliases })
        | .config v => (c', .ok { aliases := some p.aliases, config := some v })
  | .query =>
    if cf then (c, .error .compileError) else (c, .ok {})

/-- `Compiler._try_compile_rollback` (the "COMMIT MIGRATION failed" escape):
    does not touch the state. -/
def tryCompileRollback : Stmt → M QUnit
  | .rollback => .ok { txRollback := true }
  | .rollbackTo n => .ok { spRollback := true, spName := some n }
  | _ => .error .expectedRollback

/-- Result of one compile call: the state object after the call, the payload the
    statement was compiled against (`none` when the call stopped before the
    statement was looked at, or took the `_try_compile_rollback` escape), and
    the unit(s) or the error. -/
structure CompRes (α : Type) where
  st      : ConState
  against : Option Payload
  res     : M α
deriving Repr

/-- "Apply session differences if any" at the top of `compile_in_tx`. -/
def applySession (c : ConState) (ra rc : Nat) : M ConState :=
  match curTx c with
  | none => .error .dangling
  | some t =>
    let c1 := if t.current.pl.aliases != ra then
                setTx c c.cur { t with current := { t.current with pl := { t.current.pl with aliases := ra } } }
              else c
    match curTx c1 with
    | none => .error .dangling
    | some t1 =>
      .ok (if t1.current.pl.config != rc then
             setTx c1 c1.cur { t1 with current := { t1.current with pl := { t1.current.pl with config := rc } } }
           else c1)

/-- `Compiler.compile_in_tx(state, txid, request, expect_rollback)` in place; `body` is
    `compile(ctx, source)` on the synchronised state, `esc` the `_try_compile_rollback` escape. -/
def compileInTxWith {α : Type} (c : ConState) (txid ra rc : Nat) (er : Bool)
    (body : ConState → ConState × M α) (esc : M α) : CompRes α :=
  match applySession c ra rc with
  | .error e => { st := c, against := none, res := .error e }
  | .ok c1 =>
    match curTx c1 with
    | none => { st := c1, against := none, res := .error .dangling }
    | some t =>
      if er && t.id != txid && !dictHas c1.log txid then
        { st := c1, against := none, res := esc }
      else
        match syncTx c1 txid with
        | .error e => { st := c1, against := none, res := .error e }
        | .ok c2 =>
          let (c3, r) := body c2
          { st := c3, against := curPayload c2, res := r }

/-- a single statement -/
def compileInTx (c : ConState) (txid ra rc : Nat) (er cf : Bool) (s : Stmt) : CompRes QUnit :=
  compileInTxWith c txid ra rc er (fun c2 => compileStmt c2 er cf s) (tryCompileRollback s)

def Stmt.isTxControl : Stmt → Bool
  | .upd _ => false
  | .query => false
  | _ => true

/-- The statement loop of `_try_compile_ast` for a script (two or more statements): each
    statement is dispatched (and writes to the state), then `_make_query_unit` refuses
    transaction control inside a script. -/
def compileScriptLoop (c : ConState) : List Stmt → ConState × M (List QUnit)
  | [] => (c, .ok [])
  | s :: rest =>
    match compileStmt c false false s with
    | (c', .error e) => (c', .error e)
    | (c', .ok u) =>
      if s.isTxControl then (c', .error .txInScript)
      else match compileScriptLoop c' rest with
        | (c'', .error e) => (c'', .error e)
        | (c'', .ok us) => (c'', .ok (u :: us))

/-- a script inside a transaction -/
def compileScriptInTx (c : ConState) (txid ra rc : Nat) (er : Bool) (ss : List Stmt) :
    CompRes (List QUnit) :=
  compileInTxWith c txid ra rc er
    (fun c2 => if er then (c2, .error .expectedRollback) else compileScriptLoop c2 ss)
    (match ss with | s :: _ => (tryCompileRollback s).map ([·]) | [] => .error .expectedRollback)

/-- `Compiler.compile(...)`: a fresh state; the state is returned to the server
    only when a unit started a transaction. -/
def compileFresh (t0 : Nat) (pl : Payload) (cf : Bool) (s : Stmt) : CompRes QUnit :=
  let c := ConState.init t0 pl
  let (c', r) := compileStmt c false cf s
  { st := c', against := some pl, res := r }

/-! ### the server (`DatabaseConnectionView` + `execute` + the binary protocol's error handling) -/

/-- an entry of `_in_tx_savepoints`: `(name, spid, (modaliases, config, …))` -/
structure SrvSp where
  name    : Nat
  spid    : Nat
  aliases : Nat
  config  : Nat
deriving DecidableEq, Repr

structure Server where
  uschema   : Nat                  -- `_db.user_schema_pickle`
  gschema   : Nat                  -- `_db._index._global_schema_pickle`
  aliases   : Nat                  -- `_modaliases`
  config    : Nat                  -- `_config`
  inTx      : Bool := false
  txid      : Nat := 0             -- `_txid` (meaningful only in a transaction)
  txErr     : Bool := false
  txAliases : Nat := 0             -- `_in_tx_modaliases`
  txConfig  : Nat := 0             -- `_in_tx_config`
  sps       : List SrvSp := []     -- `_in_tx_savepoints`, append order
  last      : Option ConState := none   -- `_last_comp_state` (pickled)
deriving DecidableEq, Repr

def Server.viewAliases (s : Server) : Nat := if s.inTx then s.txAliases else s.aliases
def Server.viewConfig (s : Server) : Nat := if s.inTx then s.txConfig else s.config
def Server.setAliases (s : Server) (a : Nat) : Server :=
  if s.inTx then { s with txAliases := a } else { s with aliases := a }
def Server.setConfig (s : Server) (v : Nat) : Server :=
  if s.inTx then { s with txConfig := v } else { s with config := v }

/-- `_reset_tx_state` (`_last_comp_state` is not reset) -/
def Server.resetTx (s : Server) : Server :=
  { s with inTx := false, txid := 0, txErr := false, txAliases := 0, txConfig := 0, sps := [] }

/-- the `while … pop()` loop of `rollback_tx_to_savepoint`, on the reversed list -/
def popTo (name : Nat) : List SrvSp → Option (List SrvSp)
  | [] => none
  | sp :: rest => if sp.name == name then some (sp :: rest) else popTo name rest

/-- `rollback_tx_to_savepoint(name)`; `none` = `RuntimeError('savepoint … not found')` -/
def Server.rollbackToSp (s : Server) (name : Nat) : Option Server :=
  match popTo name s.sps.reverse with
  | none => none
  | some [] => none
  | some (sp :: rest) =>
    some { s with txErr := false, sps := (sp :: rest).reverse, txid := sp.spid,
                  txAliases := sp.aliases, txConfig := sp.config }

/-- One client statement with the environment's choices. -/
structure SEv where
  stmt : Stmt
  cf   : Bool := false      -- the statement's own compilation fails
  bf   : Bool := false      -- the backend fails executing the compiled unit
  stay : Bool := false      -- … and is still inside the transaction block afterwards (read for a
                            --   failing COMMIT only: `be_conn.in_tx()` in `execute()`'s handler)
  t0   : Nat := 0           -- `time.monotonic_ns()` should a fresh compiler state be created
deriving DecidableEq, Repr

inductive Outcome where
  | ok
  | rejected (e : Err)       -- no SQL reached the backend
  | failed                   -- compiled, the backend raised
deriving DecidableEq, Repr

/-- What is observable of one statement: outcome, the payload it was compiled
    against, the compiled unit. -/
structure SOut where
  outcome : Outcome
  against : Option Payload := none
  unit    : Option QUnit := none
deriving DecidableEq, Repr

/-- `dbview.start(unit)`; `_apply_in_tx` only records schema pickles that are not
    used for compilation and is omitted. -/
def Server.start (s : Server) (u : QUnit) : Server :=
  match u.txId with
  | some id => { s with txid := id, inTx := true, txAliases := s.aliases, txConfig := s.config }
  | none => s

/-- `on_success(unit)` (after `declare_savepoint` / `apply_config_ops`) -/
def Server.onSuccess (s : Server) (u : QUnit) : Server :=
  let s1 := if s.inTx then s else
    { s with uschema := u.uschema.getD s.uschema, gschema := u.gschema.getD s.gschema }
  let s2 := match u.aliases with | some a => s1.setAliases a | none => s1
  if u.txCommit then
    -- (`"commit" outside of a transaction` cannot happen: the compiler rejects it)
    let s3 := { s2 with config := s2.txConfig, aliases := s2.txAliases,
                        uschema := u.uschema.getD s2.uschema, gschema := u.gschema.getD s2.gschema }
    s3.resetTx
  else if u.txRollback then s2.resetTx
  else s2

/-- `execute()` for one unit (not the `_execute_rollback` path). -/
def Server.execute (s : Server) (u : QUnit) (bf stay : Bool) : Server × Outcome :=
  let s1 := s.start u
  if bf then
    -- `on_error()`; `if query_unit.tx_commit and not be_conn.in_tx() and dbv.in_tx(): abort_tx()`
    let s2 := if s1.inTx then { s1 with txErr := true } else s1
    (if u.txCommit && !stay && s2.inTx then s2.resetTx else s2, .failed)
  else
    let s2 := if u.spDeclare then
        match u.spName, u.spId with
        | some n, some i => { s1 with sps := s1.sps ++ [⟨n, i, s1.viewAliases, s1.viewConfig⟩] }
        | _, _ => s1
      else s1
    let s3 := match u.config with | some v => s2.setConfig v | none => s2
    (s3.onSuccess u, .ok)

/-- After a successful compile: `_check_in_tx_error`, then `_execute_rollback` or `execute`. -/
def Server.run (s : Server) (u : QUnit) (bf stay : Bool) : Server × Outcome :=
  if s.txErr && !(u.txRollback || u.spRollback) then (s, .rejected .inTxError)
  else if s.txErr || u.spRollback then
    -- `_execute_rollback` (a backend failure here is outside the model)
    if u.spRollback then
      match u.spName.bind s.rollbackToSp with
      | some s' => (s', .ok)
      | none =>
        -- the `while … pop()` loop has emptied the stack before `RuntimeError` is raised;
        -- `_tx_error = False` was set first, the message loop's handler sets it again
        ({ s with sps := [], txErr := s.inTx }, .rejected .dangling)
    else (s.resetTx, .ok)
  else s.execute u bf stay

/-- `parse()`: in an aborted block every `EdgeDBError` of the compiler other than a syntax
    error / `InternalServerError` is replaced by the "current transaction is aborted" error. -/
def Server.relabel (s : Server) (e : Err) : Err :=
  if s.inTx && s.txErr && e != .syncFail && e != .noSpId && e != .dangling then .inTxError else e

/-- A compile call raised: the message loop calls `dbview.tx_error()`; `_last_comp_state` is
    only ever assigned from the result of a call that returned. -/
def Server.compileFailed (s : Server) : Server :=
  if s.inTx then { s with txErr := true } else s

/-- `dbview._compile`, with the compiler state object the worker works on made explicit
    (`cin`): `compile_in_tx` on it inside a transaction, `compile` on a fresh state built from
    the server's view otherwise. -/
def Server.compileOn (s : Server) (cin : Option ConState) (e : SEv) : CompRes QUnit :=
  if s.inTx then
    match cin with
    | some c => compileInTx c s.txid s.txAliases s.txConfig s.txErr e.cf e.stmt
    | none => { st := ConState.init e.t0 default, against := none, res := .error .dangling }
  else compileFresh e.t0 ⟨s.uschema, s.gschema, s.aliases, s.config⟩ e.cf e.stmt

/-- What one client statement leaves behind: the server, what is observable of the statement,
    the compiler state *object* after the call (also when the call raised), and whether the
    compile call returned. -/
structure StepRes where
  srv      : Server
  out      : SOut
  st       : ConState
  compiled : Bool
deriving Repr

/-- One client statement through `parse` (compile, on the state object `cin`) and `execute`. -/
def Server.stepOn (s : Server) (cin : Option ConState) (e : SEv) : StepRes :=
  let r := s.compileOn cin e
  match r.res with
  | .error err =>
    { srv := s.compileFailed, out := { outcome := .rejected (s.relabel err), against := r.against },
      st := r.st, compiled := false }
  | .ok u =>
    let keep : Option ConState :=
      if s.inTx then some r.st else if u.txId.isSome then some r.st else none
    let (s', o) := ({ s with last := keep } : Server).run u e.bf e.stay
    { srv := s', out := { outcome := o, against := r.against, unit := some u }, st := r.st, compiled := true }

/-- Pickle transport: every call works on a private unpickled copy of the bytes the server
    holds in `_last_comp_state`. -/
def Server.step (s : Server) (e : SEv) : Server × SOut :=
  let r := s.stepOn s.last e
  (r.srv, r.out)

def Server.runAll (s : Server) : List SEv → Server × List SOut
  | [] => (s, [])
  | e :: es =>
    let (s', o) := s.step e
    let (s'', os) := Server.runAll s' es
    (s'', o :: os)

def Server.init (p : Payload) : Server :=
  { uschema := p.uschema, gschema := p.gschema, aliases := p.aliases, config := p.config }

/-- A script (≥ 2 statements) sent inside a transaction, compiled on the state object `c`.
    Only the case that the compiler rejects it is modelled (`none` otherwise: accepted scripts
    run through `execute_script`, which is outside this model).  Second component: the state
    object after the call. -/
def Server.stepScriptOn (s : Server) (cin : Option ConState) (ss : List Stmt) :
    Option (Server × SOut × ConState) :=
  if !s.inTx then none else
  match cin with
  | none => none
  | some c =>
    let r := compileScriptInTx c s.txid s.txAliases s.txConfig s.txErr ss
    match r.res with
    | .ok _ => none
    | .error err =>
      some (s.compileFailed, { outcome := .rejected (s.relabel err), against := r.against }, r.st)

/-! ### the compiler pool: one worker and `REUSE_LAST_STATE_MARKER`

`pool.compile_in_tx` sends the marker instead of the pickled state when the chosen worker's
`_last_pickled_state` *is* (object identity) the bytes object the caller holds; the worker then
compiles on its `LAST_STATE` object in place.  Identity of bytes objects is modelled by
tokens: every successful call returns a fresh one. -/

/-- `fixed`: the pool forgets `worker._last_pickled_state` when a call raises (and the worker
    assigns `LAST_STATE` only after pickling succeeded) — the code as it is now.
    `buggy`: the pool before that change. -/
inductive PoolVer where
  | fixed | buggy
deriving DecidableEq, Repr

structure Sys where
  srv   : Server
  stok  : Nat := 0                    -- identity of the bytes in `_last_comp_state`
  wobj  : Option ConState := none     -- the worker's `LAST_STATE`
  wtok  : Option Nat := none          -- the pool's `worker._last_pickled_state` (`none` = `None`)
  fresh : Nat := 1
deriving Repr

def Sys.init (p : Payload) : Sys := { srv := Server.init p }

/-- does the pool send the marker? -/
def Sys.reuse (y : Sys) : Bool := y.srv.inTx && y.srv.last.isSome && y.wtok == some y.stok

/-- the state object the next `compile_in_tx` works on -/
def Sys.cin (y : Sys) : Option ConState := if y.reuse then y.wobj else y.srv.last

/-- what the pool and the worker remember after a call -/
def Sys.after (v : PoolVer) (y : Sys) (srv' : Server) (st : ConState) (compiled : Bool) : Sys :=
  if compiled then
    -- `LAST_STATE = cstate`; `_last_pickled_state` = the new bytes object (`None` if no state)
    { srv := srv', stok := y.fresh, wobj := srv'.last,
      wtok := if srv'.last.isSome then some y.fresh else none, fresh := y.fresh + 1 }
  else
    let wobj' := if y.reuse then some st else y.wobj     -- written to in place under the marker
    match v with
    | .fixed => { y with srv := srv', wobj := wobj', wtok := none }
    | .buggy => { y with srv := srv', wobj := wobj' }

def Sys.step (v : PoolVer) (y : Sys) (e : SEv) : Sys × SOut :=
  let r := y.srv.stepOn y.cin e
  (y.after v r.srv r.st r.compiled, r.out)

def Sys.stepScript (v : PoolVer) (y : Sys) (ss : List Stmt) : Option (Sys × SOut) :=
  match y.srv.stepScriptOn y.cin ss with
  | none => none
  | some (srv', o, st) => some (y.after v srv' st false, o)

def Sys.runAll (v : PoolVer) (y : Sys) : List SEv → Sys × List SOut
  | [] => (y, [])
  | e :: es =>
    let (y', o) := y.step v e
    let (y'', os) := Sys.runAll v y' es
    (y'', o :: os)

/-! ### session state sent by the client

Every Execute message carries the client's session state; `dbview.decode_state` installs its
module aliases / session config into the view (the in-transaction copies inside a block) before
the statement is parsed — also inside a transaction, also in an aborted one.  `none` = the client
echoes what the server last reported (the assumption of `Server.step`). -/

def Server.clientState (s : Server) (cs : Option (Nat × Nat)) : Server :=
  match cs with
  | none => s
  | some (a, v) => (s.setAliases a).setConfig v

/-- a statement together with the session state the client sends along -/
structure CEv where
  cs : Option (Nat × Nat) := none
  ev : SEv
deriving DecidableEq, Repr

def Server.stepC (s : Server) (e : CEv) : Server × SOut := (s.clientState e.cs).step e.ev

def Server.runAllC (s : Server) : List CEv → Server × List SOut
  | [] => (s, [])
  | e :: es =>
    let (s', o) := s.stepC e
    let (s'', os) := Server.runAllC s' es
    (s'', o :: os)

def Sys.stepC (v : PoolVer) (y : Sys) (e : CEv) : Sys × SOut :=
  ({ y with srv := y.srv.clientState e.cs } : Sys).step v e.ev

end EdbVerif.Tx
