/-
The quoting functions AS THEY WERE before the fixes 269eaeb (dollar quoting),
6e967b8 (bytes: backslash), 1c83ec0 (control / bidi characters), 878e057
(identifiers starting with a non-decimal numeric).  Kept only to state, in
`Props/C18.lean` section "what the fixes repaired", the counterexamples that
were true of the old code.  Nothing in the harness executes or replays these:
the differential ties `Model/Quote.lean` (current code) only.
-/
import EdbVerif.Model.Quote

namespace EdbVerif.QuoteOld
open EdbVerif.Quote EdbVerif.Lex

/-- `escape_string` before 1c83ec0: the seven replacements only -/
def escapeString (s : List Char) : List Char :=
  let r := replaceChar '\\' ['\\', '\\'] s
  let r := replaceChar '\'' ['\\', '\''] r
  let r := replaceChar (Char.ofNat 8) ['\\', 'b'] r
  let r := replaceChar (Char.ofNat 12) ['\\', 'f'] r
  let r := replaceChar '\n' ['\\', 'n'] r
  let r := replaceChar '\r' ['\\', 'r'] r
  replaceChar '\t' ['\\', 't'] r

def quoteLiteral (s : List Char) : List Char := '\'' :: escapeString s ++ ['\'']

/-- the loop before 269eaeb: `while quote in text` -/
def dollarLoop (text : List Char) : Nat → List Char → Nat → Option (List Char)
  | 0, _, _ => none
  | f + 1, quote, qq =>
    if Quote.contains quote text then
      let qq1 := if qq % 16 < 10 then qq + (10 - qq % 16) else qq
      dollarLoop text f (tagOf qq1) (qq1 + 1)
    else some quote

def dollarQuoteLiteral (text : List Char) : Option (List Char) :=
  (dollarLoop text (text.length + 2) ['$', '$'] 0).map (fun q => q ++ text ++ q)

/-- `_NON_PRINTABLE_RE` before 1c83ec0 (no bidi controls) -/
def isNonPrintableRE (c : Char) : Bool :=
  let n := c.toNat
  n ≤ 8 || n = 0xB || n = 0xC || (0xE ≤ n && n ≤ 0x1F) || n = 0x7F || (0x80 ≤ n && n ≤ 0x9F) || n = 10

/-- `visit_Constant` before 269eaeb / 1c83ec0, for strings WITHOUT a character
    of the old `_NON_PRINTABLE_RE` (those went through Python's `repr`, which is
    not reproduced here: `none`) -/
def ppStr (s : List Char) : Option (List Char) :=
  if s.any isNonPrintableRE then none
  else if !s.contains '\'' then
    (if s.contains '\\' then some ('r' :: '\'' :: s ++ ['\'']) else some ('\'' :: s ++ ['\'']))
  else if !s.contains '"' then
    (if s.contains '\\' then some ('r' :: '"' :: s ++ ['"']) else some ('"' :: s ++ ['"']))
  else if !Quote.contains ['$', '$'] s then some ('$' :: '$' :: s ++ ['$', '$'])
  else dollarQuoteLiteral s

/-- `_bytes_escape` before 6e967b8: the class of the non-raw pattern lacked the backslash -/
def escByte (b : UInt8) : List Char :=
  let n := b.toNat
  if n = 39 then ['\\', '\'']
  else if n = 9 then ['\\', 't']
  else if n = 10 then ['\\', 'n']
  else if n ≤ 0x1f ∨ 0x7e ≤ n then '\\' :: 'x' :: hex2 n
  else [Char.ofNat n]

def ppBytes (b : List UInt8) : List Char := 'b' :: '\'' :: b.flatMap escByte ++ ['\'']

/-- `needs_quoting` before 878e057 (default flags): no check of the first character -/
def needsQuoting (P : PyUnicode) (s : List Char) : Bool :=
  if s.isEmpty || s.head? = some '@' || Quote.hasNamespaceSep s then false
  else
    let l := pyLower P s
    let isReserved := l ≠ dunderType && l ≠ dunderStd && isReservedKw l
    !matchIdent P s || isReserved

def quoteIdent (P : PyUnicode) (s : List Char) : List Char :=
  if needsQuoting P s then quoteIdentRaw s else s

end EdbVerif.QuoteOld
