/-
Executable (Bool) versions of the ownership / waiter invariants, evaluated by
the driver on every state of the correspondence runs (a test that the
invariants stated in PoolSpec are the right ones before/besides proving them).
Core Lean only.
-/
import EdbVerif.Model.Pool

namespace EdbVerif.Pool

def nodupB (l : List Nat) : Bool :=
  match l with
  | [] => true
  | x :: xs => !xs.contains x && nodupB xs

def limboB (s : State) (u : Nat) : List Nat :=
  s.tasks.filterMap fun p => match p.2 with
    | .disc b c false _ => if b == u then some c else none
    | _ => none

def localsB (s : State) (u : Nat) : List Nat :=
  (s.prunes.filter (·.block == u)).flatMap (·.locals)

/-- ownership (C15): returns the list of violated clause names -/
def checkOwn (s : State) : List String :=
  let per := s.blocks.flatMap fun b =>
    let ids := b.conns.map (·.1)
    let held := (s.holders.filter (·.name == b.name)).map (·.conn)
    let limbo := limboB s b.uid ++ localsB s b.uid
    (if b.stack.all (fun c => b.conns.contains (c, false)) then [] else ["O1"]) ++
    (if nodupB b.stack then [] else ["O2"]) ++
    (if held.all (fun c => b.conns.contains (c, true)) then [] else ["O3"]) ++
    (if b.conns.all (fun p => !p.2 || held.contains p.1) then [] else ["O4"]) ++
    (if b.acquired == (held.length : Int) then [] else ["O6"]) ++
    (if limbo.all (fun c => b.conns.contains (c, false) && !b.stack.contains c) && nodupB limbo then [] else ["O7"]) ++
    (if ids.all (fun c => s.home.contains (c, b.name) && s.live.contains c) then [] else ["O9"]) ++
    (if s.blocks.all (fun b2 => b2.uid == b.uid || ids.all (fun c => !(b2.conns.map (·.1)).contains c)) then [] else ["O10"])
    -- (not checked: "every connection that is not lent is idle or owned by a scheduled discard / a prune
    --  task" — false when a prune task dies with the abort error: finding task-exception:prune_…)
  per ++
  (if nodupB (s.holders.map (·.conn)) then [] else ["O5"]) ++
  (if nodupB (s.blocks.map (·.name)) then [] else ["O8a"]) ++
  (if s.holders.all (fun h => s.blocks.any (·.name == h.name)) then [] else ["O8b"])

/-- waiters (C16) -/
def checkQ (s : State) : List String :=
  (if nodupB (s.waiters.map (·.id)) then [] else ["W1"]) ++
  (s.blocks.flatMap fun b =>
    let ws := s.waiters.filter (·.block == b.uid)
    (if nodupB b.queue then [] else ["W2"]) ++
    (if b.queue.all (fun r => ws.any (fun w => w.id == r && w.st == .queued)) then [] else ["W3"]) ++
    (if (ws.filter (·.st == .queued)).all (fun w => b.queue.contains w.id) then [] else ["W3b"]) ++
    (if b.queue.isEmpty || b.stack.length ≤ (ws.filter (·.st == .woken)).length then [] else ["Inv2"]) ++
    (if b.waitersNum == (ws.length : Int) then [] else ["W5"])) ++
  (if s.waiters.all (fun w => s.blocks.any (·.uid == w.block)) then [] else ["W6"])

end EdbVerif.Pool
