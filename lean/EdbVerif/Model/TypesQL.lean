/-
C12 — MiniQL: typed values, a query calculus, the static `inferType` (built on the
resolution model of `Model/Types.lean`) and a reference evaluator `eval`.

The evaluator is the SPECIFICATION side of C12 (DESIGN §3: "EdgeQL bag semantics as
written in the Lean MiniQL evaluator").  What it fixes:

* values carry their run-time type tag (`Val.num s …`, `Val.array elt …`);
* a call evaluates its arguments, converts them to the parameter types of the overload
  selected for the STATIC argument types (this is what `finalize_args` makes the backend
  do) and applies a primitive; the tag of the primitive's result is decided by the
  primitive alone (`arithResult`, `sumResult`, `primRet`: hand-written, independent of the
  generated signature table), not by the declared return type;
* numbers are exact rationals `n/(d+1)`; overflow, rounding and precision are not modelled;
  a run-time error (division by zero …) produces no value.

Core Lean only.
-/
import EdbVerif.Model.Types

namespace EdbVerif.Types
open EdbVerif.Gen.Types

/-! ## Values -/

inductive Val where
  | num (s : Scalar) (n : Int) (d : Nat)     -- the rational n/(d+1) tagged with its scalar type
  | str (s : String)
  | bool (b : Bool)
  | opaque (s : Scalar) (k : Nat)            -- json / bytes / uuid / date-time …: uninterpreted
  | obj (t : Nat) (id : Nat)
  | tuple (vs : List Val)
  | array (elt : Ty) (vs : List Val)
  | derived (chain : List Nat) (s : Scalar) (v : Val)  -- a value of a user scalar: tag + base value
  | enumv (n : Nat) (k : Nat)                          -- k-th label of enum n
  deriving Repr, Inhabited

def isNumeric (s : Scalar) : Bool := numeric.contains s

def isOpaque (s : Scalar) : Bool := !isNumeric s && s != .str && s != .bool

mutual
/-- `v` inhabits `t` -/
def hasTypeB : Val → Ty → Bool
  | .num s _ _, .scalar s' => s' == .base s && isNumeric s
  | .str _, .scalar s' => s' == .base .str
  | .bool _, .scalar s' => s' == .base .bool
  | .opaque s _, .scalar s' => s' == .base s && isOpaque s
  | .derived c s v, .scalar s' => s' == .derived c s && hasTypeB v (.scalar (.base s))
  | .enumv n _, .scalar s' => s' == .enum n
  | .obj t _, .obj t' => t == t'
  | .tuple vs, .tuple ts => hasTypeL vs ts
  | .array e vs, .array t => e == t && allHaveType vs t
  | _, _ => false
def hasTypeL : List Val → List Ty → Bool
  | [], [] => true
  | v :: vs, t :: ts => hasTypeB v t && hasTypeL vs ts
  | _, _ => false
def allHaveType : List Val → Ty → Bool
  | [], _ => true
  | v :: vs, t => hasTypeB v t && allHaveType vs t
end

/-- typed values: `hasType v τ` -/
def hasType (v : Val) (t : Ty) : Prop := hasTypeB v t = true

mutual
/-- the run-time type tag of a value -/
def typeOf : Val → Ty
  | .num s _ _ => .scalar (.base s)
  | .str _ => .scalar (.base .str)
  | .bool _ => .scalar (.base .bool)
  | .opaque s _ => .scalar (.base s)
  | .derived c s _ => .scalar (.derived c s)
  | .enumv n _ => .scalar (.enum n)
  | .obj t _ => .obj t
  | .tuple vs => .tuple (typeOfL vs)
  | .array e _ => .array e
def typeOfL : List Val → List Ty
  | [] => []
  | v :: vs => typeOf v :: typeOfL vs
end

mutual
def Val.beq : Val → Val → Bool
  | .num _ n d, .num _ n' d' => n * ((d' : Int) + 1) == n' * ((d : Int) + 1)
  | .str a, .str b => a == b
  | .bool a, .bool b => a == b
  | .opaque _ a, .opaque _ b => a == b
  | .obj _ a, .obj _ b => a == b
  | .tuple as, .tuple bs => Val.beqL as bs
  | .array _ as, .array _ bs => Val.beqL as bs
  | .derived _ _ a, .derived _ _ b => Val.beq a b
  | .enumv _ a, .enumv _ b => a == b
  | _, _ => false
def Val.beqL : List Val → List Val → Bool
  | [], [] => true
  | a :: as, b :: bs => Val.beq a b && Val.beqL as bs
  | _, _ => false
end

/-- a (partial) strict order used by `<`, `min`, `max`; incomparable values are "not less" -/
def Val.lt : Val → Val → Bool
  | .num _ n d, .num _ n' d' => n * ((d' : Int) + 1) < n' * ((d : Int) + 1)
  | .str a, .str b => a < b
  | .bool a, .bool b => !a && b
  | .opaque _ a, .opaque _ b => a < b
  | .obj _ a, .obj _ b => a < b
  | .enumv _ a, .enumv _ b => a < b
  | _, _ => false

/-! ## Conversions (implicit and explicit casts) -/

/-- the base value under the user-scalar tags -/
def unwrap : Val → Val
  | .derived _ _ v => unwrap v
  | v => v

/-- conversion of a base scalar value to the std scalar `s` (retagging; the payload is kept) -/
def convScalar (s : Scalar) : Val → Val
  | .num s0 n d =>
    if isNumeric s then .num s n d
    else if s == .str then .str (toString n ++ "/" ++ toString (d + 1))
    else .num s0 n d
  | .bool b => if s == .str then .str (toString b) else .bool b
  | .opaque s0 k => if isOpaque s then .opaque s k else .opaque s0 k
  | v => v

mutual
/-- value-level cast to type `t`.  To a std scalar: drop the user-scalar tags and convert.  To a
    user scalar (explicit casts only): a value that already has that type is kept, anything else is
    converted to the base and tagged (the constraint check is a run-time failure, not modelled). -/
def convVal : Ty → Val → Val
  | .scalar (.base s), v => convScalar s (unwrap v)
  | .scalar (.derived c s), v =>
    if hasTypeB v (.scalar (.derived c s)) then v else .derived c s (convScalar s (unwrap v))
  | .tuple ts, .tuple vs => .tuple (convValL ts vs)
  | .array t, .array _ vs => .array t (convAll t vs)
  | _, v => v
def convValL : List Ty → List Val → List Val
  | t :: ts, v :: vs => convVal t v :: convValL ts vs
  | _, vs => vs
def convAll : Ty → List Val → List Val
  | _, [] => []
  | t, v :: vs => convVal t v :: convAll t vs
end

/-- the casts into `t`, wrapped as callables `(from, to)` like `casts.py::CastCallableWrapper` -/
def castCands (t : Scalar) : List Callable :=
  (allCasts.filter fun e => e.2 == t).map fun e =>
    { fn := .op_eq, kind := "cast", params := [(.singleton, .scalar e.1), (.singleton, .scalar e.2)],
      retMod := .singleton, ret := .scalar e.2, abstract := false, recursive := false }

/-- `<b>e` is accepted for `e : a` (`casts.py::_find_cast`: overload resolution over the casts
    into `b`, so the source may first be implicitly cast to the cast's declared source type) -/
def castableAnyS (a b : Scalar) : Bool :=
  a == b || (findCallable (castCands b) [.scalar (.base a), .scalar (.base b)]).length == 1

/-- the conversions `convVal` implements without a run-time failure -/
def safeCastS (a b : Scalar) : Bool :=
  a == b || castableS a b || (isNumeric a && isNumeric b) ||
  (b == .str && (isNumeric a || a == .bool))

/-- `a` converts to `b` without a run-time check: identical, or `b` is a std scalar the topmost
    concrete base of `a` is implicitly castable to.  (A std scalar does NOT convert to a user scalar
    derived from it, although `implicitly_castable_to` says yes: that needs the constraint check.) -/
def convertibleSc (a b : Sc) : Bool :=
  a == b || match a.top, b with
    | some x, .base y => castableS x y
    | _, _ => false

mutual
/-- the conversions the evaluator performs on arguments: element-wise `convertibleSc` -/
def convertible : Ty → Ty → Bool
  | .scalar a, .scalar b => convertibleSc a b
  | .obj a, .obj b => a == b
  | .tuple as, .tuple bs => convertibleL as bs
  | .array a, .array b => convertible a b
  | _, _ => false
def convertibleL : List Ty → List Ty → Bool
  | [], [] => true
  | a :: as, b :: bs => convertible a b && convertibleL as bs
  | _, _ => false
end

mutual
/-- `<t>e` is accepted for `e : a` and is inside the calculus -/
def canCast : Ty → Ty → Bool
  | .scalar a, .scalar b =>
    a == b || match a.top, b.top with
      | some x, some y => castableAnyS x y && safeCastS x y
      | _, _ => false
  | .obj a, .obj b => a == b
  | .tuple as, .tuple bs => canCastL as bs
  | .array a, .array b => canCast a b
  | _, _ => false
def canCastL : List Ty → List Ty → Bool
  | [], [] => true
  | a :: as, b :: bs => canCast a b && canCastL as bs
  | _, _ => false
end

/-! ## Schema and database -/

/-- an object type: the target type of each of its pointers -/
structure ObjDecl where
  ptrs : List Ty
  deriving Repr, Inhabited

abbrev Schema := List ObjDecl

structure Obj where
  t : Nat
  id : Nat
  fields : List (List Val)      -- values of pointer i
  deriving Repr, Inhabited

abbrev DB := List Obj

def ptrType (sch : Schema) (t p : Nat) : Option Ty :=
  match sch[t]? with
  | some d => d.ptrs[p]?
  | none => none

/-- the stored values have the declared pointer types -/
def Conforms (sch : Schema) (db : DB) : Prop :=
  ∀ o ∈ db, ∀ p vs, o.fields[p]? = some vs →
    ∃ ty, ptrType sch o.t p = some ty ∧ ∀ v ∈ vs, hasType v ty

mutual
/-- every object type mentioned exists -/
def wfTy (sch : Schema) : Ty → Bool
  | .scalar _ => true
  | .obj n => n < sch.length
  | .tuple ts => wfTyL sch ts
  | .array t => wfTy sch t
def wfTyL (sch : Schema) : List Ty → Bool
  | [] => true
  | t :: ts => wfTy sch t && wfTyL sch ts
end

/-! ## Queries -/

inductive Lit where
  | int64 (n : Int)
  | float64 (n : Int) (d : Nat)
  | str (s : String)
  | bool (b : Bool)
  | bigint (n : Int)
  | decimal (n : Int) (d : Nat)
  deriving Repr, Inhabited

def Lit.ty : Lit → Ty
  | .int64 _ => .scalar (.base .int64)
  | .float64 _ _ => .scalar (.base .float64)
  | .str _ => .scalar (.base .str)
  | .bool _ => .scalar (.base .bool)
  | .bigint _ => .scalar (.base .bigint)
  | .decimal _ _ => .scalar (.base .decimal)

def Lit.val : Lit → Val
  | .int64 n => .num .int64 n 0
  | .float64 n d => .num .float64 n d
  | .str s => .str s
  | .bool b => .bool b
  | .bigint n => .num .bigint n 0
  | .decimal n d => .num .decimal n d

/-- MiniQL.  Variables are de Bruijn indices bound by `for_` / `filter` / `shape`
    (the iterated element, the filtered element, the shape's subject). -/
inductive Q where
  | lit (l : Lit)
  | empty (t : Ty)                       -- `<t>{}`
  | tuple (qs : List Q)
  | array (qs : List Q)                  -- non-empty array literal
  | call (f : Fn) (args : List Q)        -- operator or function from the generated table
  | cast (t : Ty) (q : Q)
  | var (i : Nat)
  | for_ (src body : Q)                  -- `for x in src union body`
  | filter (src cond : Q)                -- `select src filter cond`
  | objs (t : Nat)                       -- `select T`
  | path (q : Q) (p : Nat)               -- `q.p`
  | shape (q : Q) (els : List Q)         -- `q { e0 := …, e1 := … }`
  deriving Repr, Inhabited

/-! ## Primitive result types (hand-written semantics, NOT read from the signature table) -/

/-- carrier on which an arithmetic operator computes ⟶ type of its result -/
def arithResult (f : Fn) (t : Scalar) : Option Scalar :=
  if !isNumeric t then none else
  match f with
  | .op_plus | .op_minus | .op_times | .op_mod | .op_floordiv => some t
  | .op_div => match t with
    | .int64 => some .float64
    | .float32 => some .float32
    | .float64 => some .float64
    | .decimal => some .decimal
    | _ => none
  | .op_pow => match t with
    | .int64 => some .float64
    | .float32 => some .float32
    | .float64 => some .float64
    | .decimal => some .decimal
    | .bigint => some .decimal
    | _ => none
  | _ => none

def sumResult : Scalar → Option Scalar
  | .int32 => some .int64
  | .int64 => some .int64
  | .float32 => some .float32
  | .float64 => some .float64
  | .bigint => some .bigint
  | .decimal => some .decimal
  | _ => none

def meanResult : Scalar → Option Scalar
  | .int64 => some .float64
  | .float64 => some .float64
  | .decimal => some .decimal
  | _ => none

/-- callables that have an evaluator -/
def modelled : List Fn :=
  [.op_plus, .op_minus, .op_times, .op_div, .op_floordiv, .op_mod, .op_pow,
   .op_eq, .op_ne, .op_lt, .op_le, .op_gt, .op_ge, .op_opteq, .op_optne,
   .op_and, .op_or, .op_not, .op_concat, .op_union, .op_coalesce, .op_if,
   .op_in, .op_not_in, .op_exists, .op_distinct, .op_except, .op_intersect,
   .fn_count, .fn_sum, .fn_len, .fn_min, .fn_max, .fn_array_agg, .fn_array_unpack,
   .fn_enumerate, .fn_all, .fn_any, .fn_str_lower, .fn_str_upper, .fn_math_abs, .fn_math_mean]

/-- the type of the values the primitive of `f` produces, as a function of the types its
    arguments have been converted to -/
def primRet (f : Fn) (ptys : List Ty) : Option Ty :=
  match f, ptys with
  | .op_plus, [.scalar (.base a), .scalar (.base b)] | .op_minus, [.scalar (.base a), .scalar (.base b)]
  | .op_times, [.scalar (.base a), .scalar (.base b)] | .op_div, [.scalar (.base a), .scalar (.base b)]
  | .op_floordiv, [.scalar (.base a), .scalar (.base b)] | .op_mod, [.scalar (.base a), .scalar (.base b)]
  | .op_pow, [.scalar (.base a), .scalar (.base b)] =>
    if a == b then (arithResult f a).map fun r => .scalar (.base r) else none
  | .op_plus, [.scalar (.base a)] | .op_minus, [.scalar (.base a)] =>
    if isNumeric a then some (.scalar (.base a)) else none
  | .op_eq, [_, _] | .op_ne, [_, _] | .op_lt, [_, _] | .op_le, [_, _] | .op_gt, [_, _]
  | .op_ge, [_, _] | .op_opteq, [_, _] | .op_optne, [_, _] | .op_and, [_, _] | .op_or, [_, _]
  | .op_in, [_, _] | .op_not_in, [_, _] | .op_not, [_] | .op_exists, [_]
  | .fn_all, [_] | .fn_any, [_] => some (.scalar (.base .bool))
  | .op_concat, [a, b] | .op_union, [a, b] | .op_coalesce, [a, b] =>
    if a == b then some a else none
  | .op_except, [a, _] | .op_intersect, [a, _] => some a
  | .op_if, [a, _, b] => if a == b then some a else none
  | .op_distinct, [a] | .fn_min, [a] | .fn_max, [a] | .fn_math_abs, [a] => some a
  | .fn_count, [_] | .fn_len, [_] => some (.scalar (.base .int64))
  | .fn_sum, [.scalar (.base a)] => (sumResult a).map fun r => .scalar (.base r)
  | .fn_math_mean, [.scalar (.base a)] => (meanResult a).map fun r => .scalar (.base r)
  | .fn_array_agg, [a] => if a.isArray then none else some (.array a)
  | .fn_array_unpack, [.array a] => some a
  | .fn_enumerate, [a] => some (.tuple [.scalar (.base .int64), a])
  | .fn_str_lower, [_] | .fn_str_upper, [_] => some (.scalar (.base .str))
  | _, _ => none

/-! ## Type inference -/

def foldCommon : Ty → List Ty → Option Ty
  | c, [] => some c
  | c, t :: ts => match commonType c t with
    | some c' => foldCommon c' ts
    | none => none

mutual
/-- the statically inferred result type (`none`: rejected, or outside the calculus) -/
def inferType (sch : Schema) : List Ty → Q → Option Ty
  | _, .lit l => some l.ty
  | _, .empty t => if wfTy sch t then some t else none
  | Γ, .tuple qs => (inferTypes sch Γ qs).map .tuple
  | Γ, .array qs =>
    match inferTypes sch Γ qs with
    | some (t :: ts) =>
      if (t :: ts).any Ty.isArray then none
      else (foldCommon t ts).map .array
    | _ => none
  | Γ, .call f args =>
    if modelled.contains f then
      match inferTypes sch Γ args with
      | some ts => (resolve f ts).ret?
      | none => none
    else none
  | Γ, .cast t q =>
    match inferType sch Γ q with
    | some a => if wfTy sch t && canCast a t then some t else none
    | none => none
  | Γ, .var i => Γ[i]?
  | Γ, .for_ src body =>
    match inferType sch Γ src with
    | some τ => inferType sch (τ :: Γ) body
    | none => none
  | Γ, .filter src cond =>
    match inferType sch Γ src with
    | some τ =>
      match inferType sch (τ :: Γ) cond with
      | some (.scalar (.base .bool)) => some τ
      | _ => none
    | none => none
  | _, .objs t => if t < sch.length then some (.obj t) else none
  | Γ, .path q p =>
    match inferType sch Γ q with
    | some (.obj t) => ptrType sch t p
    | _ => none
  | Γ, .shape q els =>
    match inferType sch Γ q with
    | some (.obj t) =>
      match inferTypes sch (.obj t :: Γ) els with
      | some _ => some (.obj t)
      | none => none
    | _ => none
def inferTypes (sch : Schema) : List Ty → List Q → Option (List Ty)
  | _, [] => some []
  | Γ, q :: qs =>
    match inferType sch Γ q, inferTypes sch Γ qs with
    | some t, some ts => some (t :: ts)
    | _, _ => none
end

mutual
/-- The calculus proper: every call node resolves to an overload whose declared return type is the
    type of the values the primitive produces (`primRet`), and whose parameter types the arguments
    are implicitly castable to.  Both conditions are properties of the signature table, checked here
    per call; the differential run reports every accepted real query for which they fail. -/
def inCalc (sch : Schema) : List Ty → Q → Bool
  | _, .lit _ => true
  | _, .empty _ => true
  | Γ, .tuple qs => inCalcL sch Γ qs
  | Γ, .array qs => inCalcL sch Γ qs
  | Γ, .call f args =>
    inCalcL sch Γ args &&
    match inferTypes sch Γ args with
    | some ts =>
      match resolve f ts with
      | .ok bd =>
        (match primRet f bd.ptys with
         | some r => r == bd.ret
         | none => false) && convertibleL ts bd.ptys
      | _ => true
    | none => true
  | Γ, .cast _ q => inCalc sch Γ q
  | _, .var _ => true
  | Γ, .for_ src body =>
    inCalc sch Γ src &&
    match inferType sch Γ src with
    | some τ => inCalc sch (τ :: Γ) body
    | none => true
  | Γ, .filter src cond =>
    inCalc sch Γ src &&
    match inferType sch Γ src with
    | some τ => inCalc sch (τ :: Γ) cond
    | none => true
  | _, .objs _ => true
  | Γ, .path q _ => inCalc sch Γ q
  | Γ, .shape q els =>
    inCalc sch Γ q &&
    match inferType sch Γ q with
    | some (.obj t) => inCalcL sch (.obj t :: Γ) els
    | _ => true
def inCalcL (sch : Schema) : List Ty → List Q → Bool
  | _, [] => true
  | Γ, q :: qs => inCalc sch Γ q && inCalcL sch Γ qs
end

/-- the types of the elements of a shape (what the output descriptor reports) -/
def inferShape (sch : Schema) (Γ : List Ty) : Q → Option (List Ty)
  | .shape q els =>
    match inferType sch Γ q with
    | some (.obj t) => inferTypes sch (.obj t :: Γ) els
    | _ => none
  | _ => none

/-! ## Evaluation -/

/-- all ways of picking one element from each bag -/
def product : List (List Val) → List (List Val)
  | [] => [[]]
  | b :: bs => b.flatMap fun v => (product bs).map fun r => v :: r

structure Rat' where
  n : Int
  d : Nat

def ratOf : Val → Option Rat'
  | .num _ n d => some ⟨n, d⟩
  | _ => none

def mkRat (num den : Int) : Option Rat' :=
  if den = 0 then none
  else if den < 0 then some ⟨-num, (-den).toNat - 1⟩
  else some ⟨num, den.toNat - 1⟩

def ratArith (f : Fn) (a b : Rat') : Option Rat' :=
  let da : Int := a.d + 1
  let db : Int := b.d + 1
  match f with
  | .op_plus => mkRat (a.n * db + b.n * da) (da * db)
  | .op_minus => mkRat (a.n * db - b.n * da) (da * db)
  | .op_times => mkRat (a.n * b.n) (da * db)
  | .op_div => mkRat (a.n * db) (b.n * da)
  | .op_floordiv => if b.n = 0 then none else mkRat (Int.fdiv (a.n * db) (b.n * da)) 1
  | .op_mod =>
    if b.n = 0 then none
    else mkRat (a.n * db - b.n * da * Int.fdiv (a.n * db) (b.n * da)) (da * db)
  | .op_pow =>
    if b.d = 0 && b.n ≥ 0 && b.n ≤ 64 then mkRat (a.n ^ b.n.toNat) (da ^ b.n.toNat) else none
  | _ => none

def boolOf : Val → Option Bool
  | .bool b => some b
  | _ => none

/-- element-wise primitives (every parameter is a singleton) -/
def prim1 (f : Fn) (vs : List Val) : Option Val :=
  match f, vs with
  | .op_plus, [.num s n d] => some (.num s n d)
  | .op_minus, [.num s n d] => some (.num s (-n) d)
  | .op_plus, [.num s a b, .num s' c d] | .op_minus, [.num s a b, .num s' c d]
  | .op_times, [.num s a b, .num s' c d] | .op_div, [.num s a b, .num s' c d]
  | .op_floordiv, [.num s a b, .num s' c d] | .op_mod, [.num s a b, .num s' c d]
  | .op_pow, [.num s a b, .num s' c d] =>
    if s == s' then
      match arithResult f s, ratArith f ⟨a, b⟩ ⟨c, d⟩ with
      | some r, some x => some (.num r x.n x.d)
      | _, _ => none
    else none
  | .op_eq, [a, b] => some (.bool (Val.beq a b))
  | .op_ne, [a, b] => some (.bool (!Val.beq a b))
  | .op_lt, [a, b] => some (.bool (Val.lt a b))
  | .op_le, [a, b] => some (.bool (Val.lt a b || Val.beq a b))
  | .op_gt, [a, b] => some (.bool (Val.lt b a))
  | .op_ge, [a, b] => some (.bool (Val.lt b a || Val.beq a b))
  | .op_and, [.bool a, .bool b] => some (.bool (a && b))
  | .op_or, [.bool a, .bool b] => some (.bool (a || b))
  | .op_not, [.bool a] => some (.bool (!a))
  | .op_concat, [.str a, .str b] => some (.str (a ++ b))
  | .op_concat, [.array e a, .array _ b] => some (.array e (a ++ b))
  | .op_concat, [.opaque s a, .opaque _ b] => some (.opaque s (a + b))
  | .fn_len, [.str a] => some (.num .int64 a.length 0)
  | .fn_len, [.array _ a] => some (.num .int64 a.length 0)
  | .fn_len, [.opaque _ a] => some (.num .int64 a 0)
  | .fn_str_lower, [.str a] => some (.str a.toLower)
  | .fn_str_upper, [.str a] => some (.str a.toUpper)
  | .fn_math_abs, [.num s n d] => some (.num s n.natAbs d)
  | _, _ => none

def elementwise : List Fn :=
  [.op_plus, .op_minus, .op_times, .op_div, .op_floordiv, .op_mod, .op_pow,
   .op_eq, .op_ne, .op_lt, .op_le, .op_gt, .op_ge, .op_and, .op_or, .op_not, .op_concat,
   .fn_len, .fn_str_lower, .fn_str_upper, .fn_math_abs]

def minBy (lt : Val → Val → Bool) : List Val → Option Val
  | [] => none
  | v :: vs => match minBy lt vs with
    | none => some v
    | some m => if lt m v then some m else some v

def sumRat : List Val → Rat'
  | [] => ⟨0, 0⟩
  | v :: vs =>
    let r := sumRat vs
    match ratOf v with
    | some a => (ratArith .op_plus a r).getD r
    | none => r

def enumFrom : Nat → List Val → List Val
  | _, [] => []
  | i, v :: vs => .tuple [.num .int64 i 0, v] :: enumFrom (i + 1) vs

/-- the primitive of `f` on argument bags already converted to `ptys` -/
def prim (f : Fn) (ptys : List Ty) (bags : List (List Val)) : List Val :=
  if elementwise.contains f then (product bags).filterMap (prim1 f)
  else
  match f, bags with
  | .op_union, [a, b] => a ++ b
  | .op_coalesce, [a, b] => if a.isEmpty then b else a
  | .op_if, [a, c, b] => c.flatMap fun cv => match cv with
    | .bool true => a
    | .bool false => b
    | _ => []
  | .op_distinct, [a] => a.foldr (fun v acc => if acc.any (Val.beq v) then acc else v :: acc) []
  | .op_except, [a, b] => a.filter fun v => !b.any (Val.beq v)
  | .op_intersect, [a, b] => a.filter fun v => b.any (Val.beq v)
  | .op_exists, [a] => [.bool (!a.isEmpty)]
  | .op_in, [a, b] => a.map fun v => .bool (b.any (Val.beq v))
  | .op_not_in, [a, b] => a.map fun v => .bool (!b.any (Val.beq v))
  | .op_opteq, [a, b] =>
    if a.isEmpty || b.isEmpty then [.bool (a.isEmpty && b.isEmpty)]
    else a.flatMap fun x => b.map fun y => .bool (Val.beq x y)
  | .op_optne, [a, b] =>
    if a.isEmpty || b.isEmpty then [.bool (!(a.isEmpty && b.isEmpty))]
    else a.flatMap fun x => b.map fun y => .bool (!Val.beq x y)
  | .fn_count, [a] => [.num .int64 a.length 0]
  | .fn_all, [a] => [.bool (a.all fun v => boolOf v == some true)]
  | .fn_any, [a] => [.bool (a.any fun v => boolOf v == some true)]
  | .fn_min, [a] => (minBy Val.lt a).toList
  | .fn_max, [a] => (minBy (fun x y => Val.lt y x) a).toList
  | .fn_array_agg, [a] => match ptys with
    | [t] => [.array t a]
    | _ => []
  | .fn_array_unpack, [a] => a.flatMap fun v => match v with
    | .array _ vs => vs
    | _ => []
  | .fn_enumerate, [a] => enumFrom 0 a
  | .fn_sum, [a] => match ptys with
    | [.scalar (.base s)] => match sumResult s with
      | some r => let x := sumRat a; [.num r x.n x.d]
      | none => []
    | _ => []
  | .fn_math_mean, [a] => match ptys with
    | [.scalar (.base s)] => match meanResult s, a with
      | some r, _ :: _ =>
        let x := sumRat a
        match mkRat x.n ((x.d + 1 : Int) * a.length) with
        | some m => [.num r m.n m.d]
        | none => []
      | _, _ => []
    | _ => []
  | _, _ => []

def convBags : List Ty → List (List Val) → List (List Val)
  | t :: ts, b :: bs => b.map (convVal t) :: convBags ts bs
  | _, _ => []

def lookupObj (db : DB) (t id : Nat) : Option Obj :=
  db.find? fun o => o.t == t && o.id == id

mutual
/-- reference evaluator: the bag of values of `q` (environment = values of the bound variables) -/
def eval (sch : Schema) (db : DB) : List Val → Q → List Val
  | _, .lit l => [l.val]
  | _, .empty _ => []
  | env, .tuple qs => (product (evalL sch db env qs)).map .tuple
  | env, .array qs =>
    match inferType sch (typeOfL env) (.array qs) with
    | some (.array c) => (product (evalL sch db env qs)).map fun vs => .array c (convAll c vs)
    | _ => []
  | env, .call f args =>
    match inferTypes sch (typeOfL env) args with
    | some ts =>
      if modelled.contains f then
        match resolve f ts with
        | .ok bd => prim f bd.ptys (convBags bd.ptys (evalL sch db env args))
        | _ => []
      else []
    | none => []
  | env, .cast t q => (eval sch db env q).map (convVal t)
  | env, .var i => match env[i]? with
    | some v => [v]
    | none => []
  | env, .for_ src body => (eval sch db env src).flatMap fun v => eval sch db (v :: env) body
  | env, .filter src cond =>
    (eval sch db env src).filter fun v =>
      (eval sch db (v :: env) cond).any fun c => boolOf c == some true
  | _, .objs t => (db.filter fun o => o.t == t).map fun o => .obj o.t o.id
  | env, .path q p =>
    (eval sch db env q).flatMap fun v => match v with
      | .obj t id => match lookupObj db t id with
        | some o => (o.fields[p]?).getD []
        | none => []
      | _ => []
  | env, .shape q _ => eval sch db env q
def evalL (sch : Schema) (db : DB) : List Val → List Q → List (List Val)
  | _, [] => []
  | env, q :: qs => eval sch db env q :: evalL sch db env qs
end

end EdbVerif.Types
