/-
Declarative statement of PostgreSQL's name-scoping rules for the query fragment
of `Model/PgAst.lean` (C13).  This file is the SPECIFICATION: it is part of the
trusted base (no PostgreSQL server exists in the sandbox to arbitrate; the rules
are transcribed from the PostgreSQL documentation – "7.2.1 The FROM Clause",
"7.2.1.5 LATERAL Subqueries", "7.8 WITH Queries", SELECT / INSERT / UPDATE /
DELETE reference pages – and from `parse_relation.c`, `parse_clause.c`,
`parse_cte.c`, `analyze.c`).

The rules, informally:

* R1  a column reference is looked up level by level, innermost query level
      first; the first level having a visible range-table entry of that name
      (for `c` alone: offering such a column) decides; two candidates in one
      level are an ambiguity error; an entry that is visible only as
      "lateral-not-allowed" (left arm of a RIGHT/FULL join, the target of
      UPDATE/DELETE inside its own FROM/USING list) is an error.
* R2  while a FROM item is analysed, of its own query level it sees nothing,
      unless it is a LATERAL sub-select or a function call (functions are
      implicitly LATERAL): then it sees the FROM items to its left and the left
      arms of the joins it is a right arm of.  Enclosing query levels are
      always visible (correlation).
* R3  a JOIN's ON condition sees exactly the two arms (plus enclosing levels).
* R4  target list, WHERE, GROUP BY, HAVING, windows, ORDER BY, DISTINCT ON see
      the whole FROM clause; a bare name in GROUP BY / ORDER BY / DISTINCT ON
      may also be an output column name; OFFSET / LIMIT see no variable of
      their own level.
* R5  names of range-table entries of one FROM clause (including the target of
      UPDATE/DELETE) are pairwise different.
* R6  `WITH`: a CTE sees the enclosing CTEs and the earlier CTEs of its list
      (all CTEs of the list, itself included, under `RECURSIVE`); the body sees
      all of them; names in a list are distinct; a CTE reference exports the
      CTE's output column names (renamed by column aliases).
* R7  a sub-select in FROM exports the output column names of its query; a set
      operation those of its left-most arm; `VALUES` exports `column1…`.
* R8  arms of a set operation are independent query levels; its ORDER BY may
      only name output columns.
* R9  INSERT: the source query does not see the target; ON CONFLICT's arbiter
      sees the target's columns only; DO UPDATE sees the target and `excluded`;
      RETURNING sees the target.  UPDATE … FROM / DELETE … USING: SET, WHERE and
      RETURNING see the target and the FROM items; the FROM items see the
      target only as "lateral-not-allowed".

Core Lean only.
-/
import EdbVerif.Model.PgAst

namespace EdbVerif.PgAst

/-! ### R1: resolution, as inductive relations -/

/-- `a.c` resolves in the given stack of levels (innermost first). -/
inductive ResolvesQual (a c : Name) : List Level → Prop
  | here {l ls r} : l.filter (RVar.matchRel a) = [r] → r.ok = true → r.hasCol c = true →
      ResolvesQual a c (l :: ls)
  | there {l ls} : l.filter (RVar.matchRel a) = [] → ResolvesQual a c ls → ResolvesQual a c (l :: ls)

inductive ResolvesQual3 (s t c : Name) : List Level → Prop
  | here {l ls r} : l.filter (RVar.matchRel3 s t) = [r] → r.ok = true → r.hasCol c = true →
      ResolvesQual3 s t c (l :: ls)
  | there {l ls} : l.filter (RVar.matchRel3 s t) = [] → ResolvesQual3 s t c ls →
      ResolvesQual3 s t c (l :: ls)

/-- a relation name alone (whole-row reference, `a.*`) -/
inductive ResolvesRel (a : Name) : List Level → Prop
  | here {l ls r} : l.filter (RVar.matchRel a) = [r] → r.ok = true → ResolvesRel a (l :: ls)
  | there {l ls} : l.filter (RVar.matchRel a) = [] → ResolvesRel a ls → ResolvesRel a (l :: ls)

inductive ResolvesRel3 (s t : Name) : List Level → Prop
  | here {l ls r} : l.filter (RVar.matchRel3 s t) = [r] → r.ok = true → ResolvesRel3 s t (l :: ls)
  | there {l ls} : l.filter (RVar.matchRel3 s t) = [] → ResolvesRel3 s t ls →
      ResolvesRel3 s t (l :: ls)

/-- no level offers the unqualified column `c` -/
def NoLevelOffers (c : Name) (levels : List Level) : Prop :=
  ∀ l ∈ levels, ∀ r ∈ l, r.offers c = false

/-- unqualified `c`: the innermost level offering `c` decides; every candidate
    must be allowed and at most one candidate with known columns may have it
    (tables of unknown shape are given the benefit of the doubt). -/
inductive ResolvesCol (c : Name) : List Level → Prop
  | here {l ls} : l.filter (·.offers c) ≠ [] → (∀ r ∈ l, r.offers c = true → r.ok = true) →
      ((l.filter (·.offers c)).filter (·.known)).length ≤ 1 → ResolvesCol c (l :: ls)
  | there {l ls} : (∀ r ∈ l, r.offers c = false) → ResolvesCol c ls → ResolvesCol c (l :: ls)

def Resolves (levels : List Level) : List Name → Prop
  | [c] => ResolvesCol c levels ∨ (NoLevelOffers c levels ∧ ResolvesRel c levels)
  | [a, c] => ResolvesQual a c levels
  | [s, t, c] => ResolvesQual3 s t c levels
  | _ => False

def ResolvesStar (levels : List Level) : List Name → Prop
  | [] => True
  | [a] => ResolvesRel a levels
  | [s, t] => ResolvesRel3 s t levels
  | _ => False

/-- R5 -/
def NoConflicts (rv : List RVar) : Prop := rv.Pairwise fun a b => conflict a b = false

/-! ### The rules -/

mutual
inductive WSExpr : Env → Expr → Prop
  | col {env parts} : Resolves env.levels parts → WSExpr env (.col parts)
  | star {env qual} : ResolvesStar env.levels qual → WSExpr env (.star qual)
  | param {env n} : WSExpr env (.param n)
  | leaf {env} : WSExpr env .leaf
  | node {env args} : (∀ a ∈ args, WSExpr env a) → WSExpr env (.node args)
  /-- a sub-query in an expression sees everything the expression sees -/
  | sub {env q} : WSQuery env q → WSExpr env (.sub q)

/-- `WSFrom env lat item`: `env` is what the enclosing query sees from outside,
    `lat` the lateral view of its own level at this item (R2). -/
inductive WSFrom : Env → Level → FromItem → Prop
  | rel {env lat s n a al tc} : tableNotCaptured env.ctes s n = true →
      colAliasesOk al tc = true → WSFrom env lat (.rel s n a al tc)
  | cref {env lat n a al d} : lookupCte env.ctes n = some d → colAliasesOk al d.cols = true →
      WSFrom env lat (.cref n a al)
  | subq {env lat lateral q a al} :
      WSQuery (if lateral then env.push lat else env) q →
      colAliasesOk al (outCols q) = true →
      WSFrom env lat (.subq lateral q a al)
  /-- functions in FROM are implicitly LATERAL -/
  | func {env lat lateral fns a cols} : (∀ f ∈ fns, WSExpr (env.push lat) f) →
      WSFrom env lat (.func lateral fns a cols)
  | join {env lat l k r on us} :
      WSFrom env lat l →
      WSFrom env (lat ++ (rvarsOf env.ctes l).map (setOk (leftLateralOk k))) r →
      (∀ e ∈ on, WSExpr (env.push (rvarsOf env.ctes l ++ rvarsOf env.ctes r)) e) →
      (∀ c ∈ us, (∃ x ∈ rvarsOf env.ctes l, x.offers c = true) ∧
                 (∃ y ∈ rvarsOf env.ctes r, y.offers c = true)) →
      WSFrom env lat (.join l k r on us)

inductive WSQuery : Env → Query → Prop
  /-- R6 -/
  | withq {env recursive ctes body} :
      (ctes.map Cte.name).Nodup →
      (∀ pre c post, ctes = pre ++ c :: post →
          WSQuery (env.withCtes (if recursive then ctes else pre)) c.query) →
      (∀ c ∈ ctes, colAliasesOk c.cols (outCols c.query) = true) →
      WSQuery (env.withCtes ctes) body →
      WSQuery env (.withq recursive ctes body)
  /-- R2, R4, R5 -/
  | select {env targets frm exprs byItems limits} :
      NoConflicts (fromRVars env.ctes frm) →
      (∀ pre it post, frm = pre ++ it :: post → WSFrom env (fromRVars env.ctes pre) it) →
      (∀ t ∈ targets, WSExpr (env.push (fromRVars env.ctes frm)) t.val) →
      (∀ e ∈ exprs, WSExpr (env.push (fromRVars env.ctes frm)) e) →
      (∀ e ∈ byItems, isOutRef (targetNames targets) e = false →
          WSExpr (env.push (fromRVars env.ctes frm)) e) →
      (∀ e ∈ limits, WSExpr env e) →
      WSQuery env (.select targets frm exprs byItems limits)
  | values {env n rows} : (∀ e ∈ rows, WSExpr env e) → WSQuery env (.values n rows)
  /-- R8 -/
  | setop {env l r order limits} :
      WSQuery env l → WSQuery env r →
      (∀ e ∈ order, isSetOrderItem (outCols l) e = true) →
      (∀ e ∈ limits, WSExpr env e) →
      WSQuery env (.setop l r order limits)
  /-- R9 -/
  | insert {env s n a tc src inferExprs updExprs returning} :
      tableNotCaptured env.ctes s n = true →
      WSQuery env src →
      (∀ e ∈ inferExprs, WSExpr (env.push [{ targetRVar s n a tc with relVis := false }]) e) →
      NoConflicts [targetRVar s n a tc, excludedRVar tc] →
      (∀ e ∈ updExprs, WSExpr (env.push [targetRVar s n a tc, excludedRVar tc]) e) →
      (∀ t ∈ returning, WSExpr (env.push [targetRVar s n a tc]) t.val) →
      WSQuery env (.insert s n a tc src inferExprs updExprs returning)
  | update {env s n a tc frm exprs returning} :
      tableNotCaptured env.ctes s n = true →
      NoConflicts (targetRVar s n a tc :: fromRVars env.ctes frm) →
      (∀ pre it post, frm = pre ++ it :: post →
          WSFrom env ({ targetRVar s n a tc with ok := false } :: fromRVars env.ctes pre) it) →
      (∀ e ∈ exprs, WSExpr (env.push (targetRVar s n a tc :: fromRVars env.ctes frm)) e) →
      (∀ t ∈ returning, WSExpr (env.push (targetRVar s n a tc :: fromRVars env.ctes frm)) t.val) →
      WSQuery env (.update s n a tc frm exprs returning)
  | delete {env s n a tc frm exprs returning} :
      tableNotCaptured env.ctes s n = true →
      NoConflicts (targetRVar s n a tc :: fromRVars env.ctes frm) →
      (∀ pre it post, frm = pre ++ it :: post →
          WSFrom env ({ targetRVar s n a tc with ok := false } :: fromRVars env.ctes pre) it) →
      (∀ e ∈ exprs, WSExpr (env.push (targetRVar s n a tc :: fromRVars env.ctes frm)) e) →
      (∀ t ∈ returning, WSExpr (env.push (targetRVar s n a tc :: fromRVars env.ctes frm)) t.val) →
      WSQuery env (.delete s n a tc frm exprs returning)
end

/-- A top-level statement is well-scoped: nothing is visible from outside. -/
def WellScoped (q : Query) : Prop := WSQuery {} q

end EdbVerif.PgAst
