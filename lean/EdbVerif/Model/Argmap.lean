/-
Models for the two small deterministic helpers of C13:

* `populateArgmap` — `edb/pgsql/compiler/clauses.py::populate_argmap`
  (EdgeQL parameter / global → PostgreSQL parameter index),
* `AliasGen.get`   — `edb/common/compiler.py::AliasGenerator.get`.

Strings are `List Char` here (the proofs are about characters); the driver
converts.  Core Lean only.
-/
namespace EdbVerif.Argmap

/-! ### Python's `str.isdecimal` / regex `\d` (Unicode category Nd)

`pyDecimalRanges` lists the maximal code-point ranges of category Nd of the
Unicode database shipped with the sandbox's Python; the harness re-checks the
table against `str.isdecimal` for every code point on every run. -/
def pyDecimalRanges : List (Nat × Nat) :=
  [ (48, 57), (1632, 1641), (1776, 1785), (1984, 1993), (2406, 2415), (2534, 2543),
    (2662, 2671), (2790, 2799), (2918, 2927), (3046, 3055), (3174, 3183), (3302, 3311),
    (3430, 3439), (3558, 3567), (3664, 3673), (3792, 3801), (3872, 3881), (4160, 4169),
    (4240, 4249), (6112, 6121), (6160, 6169), (6470, 6479), (6608, 6617), (6784, 6793),
    (6800, 6809), (6992, 7001), (7088, 7097), (7232, 7241), (7248, 7257), (42528, 42537),
    (43216, 43225), (43264, 43273), (43472, 43481), (43504, 43513), (43600, 43609),
    (44016, 44025), (65296, 65305), (66720, 66729), (68912, 68921), (69734, 69743),
    (69872, 69881), (69942, 69951), (70096, 70105), (70384, 70393), (70736, 70745),
    (70864, 70873), (71248, 71257), (71360, 71369), (71472, 71481), (71904, 71913),
    (72016, 72025), (72784, 72793), (73040, 73049), (73120, 73129), (73552, 73561),
    (92768, 92777), (92864, 92873), (93008, 93017), (120782, 120831), (123200, 123209),
    (123632, 123641), (124144, 124153), (125264, 125273), (130032, 130041) ]

def isPyDecimal (c : Char) : Bool := pyDecimalRanges.any fun (lo, hi) => lo ≤ c.toNat && c.toNat ≤ hi

/-- `str.isdecimal()` -/
def isDecimalStr (s : List Char) : Bool := !s.isEmpty && s.all isPyDecimal

/-! ### populate_argmap -/

/-- `irast.Param` as far as `populate_argmap` looks at it. -/
structure Param where
  name     : List Char
  required : Bool
  hasSub   : Bool          -- `bool(param.sub_params)`
deriving Repr, DecidableEq

/-- `irast.Global` -/
structure Global where
  name       : List Char
  required   : Bool
  hasPresent : Bool        -- `has_present_arg`
deriving Repr, DecidableEq

/-- `pgast.Param`; `logical = -1` for globals. -/
structure Entry where
  index    : Nat
  logical  : Int
  required : Bool
deriving Repr, DecidableEq

def isPrefix (p s : List Char) : Bool := p.isPrefixOf s
def isSuffix (p s : List Char) : Bool := p.reverse.isPrefixOf s.reverse

/-- `Param.is_sub_param` -/
def isSubParam (n : List Char) : Bool :=
  isPrefix "__edb_decoded_".toList n && isSuffix "__".toList n
/-- `name.startswith('__edb_arg_')` -/
def isExtra (n : List Char) : Bool := isPrefix "__edb_arg_".toList n

/-- the `continue` guards of the loop body, for the pass `mapExtra` -/
def skipped (namedPrefix mapExtra : Bool) (p : Param) : Bool :=
  (namedPrefix && !isDecimalStr p.name) || (isExtra p.name != mapExtra)

/-- The sequence of dict assignments `ctx.argmap[k] = v`, in execution order. -/
abbrev Assigns := List (List Char × Entry)

/-- one pass over `params`; state = (physical_index, logical_index) -/
def paramPass (namedPrefix mapExtra : Bool) : List Param → Nat → Nat → Assigns × Nat × Nat
  | [], phys, logi => ([], phys, logi)
  | p :: ps, phys, logi =>
    if skipped namedPrefix mapExtra p then paramPass namedPrefix mapExtra ps phys logi
    else
      let e : Entry := { index := phys, logical := logi, required := p.required }
      let phys' := if p.hasSub then phys else phys + 1
      let logi' := if isSubParam p.name then logi else logi + 1
      let (rest, ph, lo) := paramPass namedPrefix mapExtra ps phys' logi'
      ((p.name, e) :: rest, ph, lo)

def globalPass : List Global → Nat → Assigns
  | [], _ => []
  | g :: gs, phys =>
    let e : Entry := { index := phys, logical := -1, required := g.required }
    if g.hasPresent then
      (g.name, e) :: (g.name ++ "present__".toList, { index := phys + 1, logical := -1, required := true })
        :: globalPass gs (phys + 2)
    else (g.name, e) :: globalPass gs (phys + 1)

/-- all assignments of `populate_argmap`, in order -/
def assigns (namedPrefix : Bool) (params : List Param) (globals : List Global) : Assigns :=
  let (a1, ph1, lo1) := paramPass namedPrefix false params 1 1
  let (a2, ph2, _) := paramPass namedPrefix true params ph1 lo1
  a1 ++ a2 ++ globalPass globals ph2

/-- `OrderedDict` assignment: an existing key keeps its place and gets the new value. -/
def dictSet (d : Assigns) (k : List Char) (v : Entry) : Assigns :=
  if d.any (·.1 == k) then d.map (fun kv => if kv.1 == k then (k, v) else kv) else d ++ [(k, v)]

/-- the resulting `ctx.argmap` (insertion-ordered) -/
def populateArgmap (namedPrefix : Bool) (params : List Param) (globals : List Global) : Assigns :=
  (assigns namedPrefix params globals).foldl (fun d kv => dictSet d kv.1 kv.2) []

/-! ### AliasGenerator -/

/-- `re.search(r'~\d+$', hint)`: start of the match, if any.  `$` also matches
    just before one trailing newline; `search` returns the leftmost match. -/
def matchesAt (s : List Char) : Bool :=
  -- s = '~' digits+ ('\n')? end
  match s with
  | '~' :: rest =>
    let ds := rest.takeWhile isPyDecimal
    let tl := rest.dropWhile isPyDecimal
    !ds.isEmpty && (tl == [] || tl == ['\n'])
  | _ => false

/-- `hint[:m.start()]` for the leftmost match, else `hint` -/
def stripSuffix : List Char → List Char
  | [] => []
  | c :: cs => if matchesAt (c :: cs) then [] else c :: stripSuffix cs

/-- `SimpleCounter.counts` -/
abbrev Counts := List (List Char × Nat)

def Counts.get (cs : Counts) (k : List Char) : Nat :=
  match cs.find? (·.1 == k) with
  | some kv => kv.2
  | none => 0

def Counts.set (cs : Counts) (k : List Char) (v : Nat) : Counts :=
  (k, v) :: cs.filter (·.1 != k)

/-- the normalised hint `AliasGenerator.get` counts under -/
def hintKey (hint : List Char) : List Char :=
  stripSuffix (if hint.isEmpty then ['v'] else hint)

/-- `AliasGenerator.get(hint)`: (alias, new state) -/
def aliasGet (cs : Counts) (hint : List Char) : List Char × Counts :=
  let h := hintKey hint
  let idx := cs.get h + 1
  (h ++ '~' :: Nat.toDigits 10 idx, cs.set h idx)

/-- successive `get`s -/
def aliasRun : Counts → List (List Char) → List (List Char)
  | _, [] => []
  | cs, h :: hs => (aliasGet cs h).1 :: aliasRun (aliasGet cs h).2 hs

/-! ### The SQL compiler's subclass (`edb/pgsql/compiler/aliases.py`)

`AliasGenerator.get` there is `edgedb_name_to_pg_name(super().get(hint))`: an
alias longer than `MAX_NAME_LENGTH` (= 51 in this tree: 63 − tenant-id budget)
is replaced by `base64(md5(alias)) + ':' + alias[-(51 − 1 − 22):]`.  The digest
is abstracted as a parameter `hash`. -/

def maxNameLength : Nat := 51

/-- `name[-k:]` for `k > 0` -/
def lastN (k : Nat) (l : List Char) : List Char := l.drop (l.length - k)

/-- `edb/pgsql/common.py::edgedb_name_to_pg_name` (prefix_length = 0) -/
def pgName (hash : List Char → List Char) (name : List Char) : List Char :=
  if name.length ≤ maxNameLength then name
  else hash name ++ ':' :: lastN (maxNameLength - 1 - (hash name).length) name

def pgAliasGet (hash : List Char → List Char) (cs : Counts) (hint : List Char) :
    List Char × Counts :=
  (pgName hash (aliasGet cs hint).1, (aliasGet cs hint).2)

def pgAliasRun (hash : List Char → List Char) : Counts → List (List Char) → List (List Char)
  | _, [] => []
  | cs, h :: hs => (pgAliasGet hash cs h).1 :: pgAliasRun hash (pgAliasGet hash cs h).2 hs

end EdbVerif.Argmap
