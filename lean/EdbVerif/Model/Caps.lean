/-
C08 — model of how the server compiler derives the capability flags of a statement.

Sources modelled (read line by line):
* `edb/server/compiler/enums.py`      `Capability`, `make_error`                      → `Gen/Caps.lean` (generated) + `makeError`
* `edb/server/compiler/dbstate.py`    `QueryUnitGroup.append` (`capabilities |= …`)   → `Group.append`, `groupCaps`
* `edb/server/dbview/dbview.pyx`      `check_capabilities` (`caps & ~allowed`)        → `exceeds`
* `edb/server/compiler/compiler.py`   `_compile_dispatch_ql` (kind → capability)      → `Gen.table` (generated), `Kind`, `kindCaps`, `stmtCaps`
                                      `_compile_ql_query` (`has_dml = bool(ir.dml_exprs)`) → `hasDml`
* `edb/edgeql/compiler/stmt.py`       `compile_InsertQuery/UpdateQuery/DeleteQuery`
                                      (`disallow_dml` check, `dml_exprs.append`, `init_stmt` shape check)
  `edb/edgeql/compiler/func.py`       `compile_FunctionCall` (modifying ⇒ inlined, `dml_exprs.append`, shape check)
  `edb/edgeql/compiler/clauses.py`    FILTER / ORDER BY set `disallow_dml`
  `edb/edgeql/compiler/viewgen.py`    shape computeds set `defining_view`
  `edb/schema/functions.py`           volatility = declared, else inferred; declared < inferred is an error
                                                                                         → `record`, `recordL`, `declare`

Core Lean only.
-/
import EdbVerif.Gen.Caps

namespace EdbVerif.Caps
open EdbVerif.Gen.Caps

/-! ## capability sets (`enums.Capability`, an IntFlag inside the 64-bit mask `ALL`) -/

/-- `c ⊆ a` on flag sets -/
def sub (c a : Caps) : Prop := c &&& a = c

instance (c a : Caps) : Decidable (sub c a) := inferInstanceAs (Decidable (c &&& a = c))

/-- `QueryUnitGroup.append`: `self.capabilities |= query_unit.capabilities` -/
def Group.append (g u : Caps) : Caps := g ||| u

/-- capabilities of a group after appending the units in order (initial value `Capability(0)`) -/
def groupCaps (us : List Caps) : Caps := us.foldl Group.append 0#64

/-- the test made by `dbview.check_capabilities`: `query_capabilities & ~allowed_capabilities` is truthy -/
def exceeds (c allowed : Caps) : Bool := c &&& ~~~allowed != 0#64

/-- `Capability.make_error`: title of the first named flag (iteration order of the enum) that is not
allowed and present; `none` = the trailing `raise AssertionError`. -/
def makeError (self allowed : Caps) : Option String :=
  (items.find? fun it => !(it.2.1 &&& allowed != 0#64) && (self &&& it.2.1 != 0#64)).map (·.2.2)

/-! ## statement kinds (`_compile_dispatch_ql`) -/

/-- statement kinds by what the dispatcher looks at -/
inductive Kind where
  /-- START / POPULATE / COMMIT / ABORT MIGRATION, … compiled to a `MigrationControlQuery`;
      `tx` = the command also starts / ends the wrapping transaction -/
  | migrationControl (tx : Bool)
  /-- CREATE MIGRATION, RESET SCHEMA, … compiled to a `DDLQuery` -/
  | migrationDDL
  /-- DESCRIBE CURRENT MIGRATION -/
  | migrationDescribe
  /-- every other DDL command -/
  | schemaCommand
  /-- START TRANSACTION, COMMIT, ROLLBACK, savepoint commands -/
  | txControl
  /-- SET MODULE / SET ALIAS / RESET … -/
  | sessionAlias
  /-- CONFIGURE <scope> / SET GLOBAL (scope GLOBAL); `notebook` = `ctx.notebook` -/
  | configure (scope : Scope) (notebook : Bool)
  /-- ANALYZE <query> -/
  | analyze (hasDml : Bool)
  /-- ADMINISTER … -/
  | administer
  /-- queries and DESCRIBE -/
  | query (hasDml : Bool)
  deriving DecidableEq, Repr

/-- the path through the dispatcher taken by a kind: class tested + conditions looked at.
`notebook` is only looked at for scope GLOBAL. -/
def Kind.key : Kind → StmtClass × List Cond
  | .migrationControl tx => (.MigrationCommand, [.result .migrationControlQuery, .txAction tx])
  | .migrationDDL => (.MigrationCommand, [.result .dDLQuery])
  | .migrationDescribe => (.MigrationCommand, [.result .other])
  | .schemaCommand => (.DDLCommand, [])
  | .txControl => (.Transaction, [])
  | .sessionAlias => (.SessionCommand_tuple, [])
  | .configure .Global nb => (.ConfigOp, [.scope .Global, .notebook nb])
  | .configure s _ => (.ConfigOp, [.scope s])
  | .analyze d => (.ExplainStmt, [.hasDml d])
  | .administer => (.AdministerStmt, [])
  | .query d => (.QueryOrCommand, [.hasDml d])

/-- capability the dispatcher returns for a kind: the row of the GENERATED table -/
def kindCaps (k : Kind) : Option Caps := lookup k.key.1 k.key.2

/-! ## MiniQL: queries with DML nodes in every nesting context -/

mutual
/-- query expressions.  `QList` arguments are clause slots holding 0..n expressions. -/
inductive Q where
  | lit (n : Nat)
  | var (x : Nat)
  /-- all objects of a type (reads the DB) -/
  | objs (ty : Nat)
  /-- operator / set / tuple / array constructor, cast, path step …: evaluates all operands -/
  | op (args : QList)
  /-- call of schema function `f` -/
  | call (f : Nat) (args : QList)
  | ifElse (c t e : Q)
  /-- `select subj { shape computeds } filter … order by … offset/limit …` (shape on an object type) -/
  | select (subj : Q) (shape filter order offlim : QList)
  /-- `with x := b select/… body` -/
  | withB (x : Nat) (b body : Q)
  /-- `for x in iter union body` -/
  | forQ (x : Nat) (iter body : Q)
  /-- `insert T { shape } unless conflict on … else …` -/
  | insert (ty : Nat) (shape onConflict elseQ : QList)
  /-- `update subj filter … set { shape }` -/
  | update (subj : Q) (filter shape : QList)
  /-- `delete subj filter … order by … offset/limit …` -/
  | delete (subj : Q) (filter order offlim : QList)
  /-- free-object shape `{ a := e₁, b := e₂, … }` (the one SELECT shape in which DML is accepted) -/
  | free (shape : QList)
inductive QList where
  | nil
  | cons (q : Q) (qs : QList)
end

def QList.isNil : QList → Bool
  | .nil => true
  | .cons _ _ => false

def QList.ofList : List Q → QList
  | [] => .nil
  | q :: qs => .cons q (QList.ofList qs)

inductive DmlKind where
  | insert | update | delete
  deriving DecidableEq, Repr

/-- an entry of `ctx.env.dml_exprs` -/
inductive Rec where
  /-- an INSERT / UPDATE / DELETE statement node -/
  | stmt (k : DmlKind)
  /-- a call of a function with volatility Modifying; `inner` = the inlined body contains a DML statement -/
  | call (f : Nat) (inner : Bool)
  deriving DecidableEq, Repr

def Rec.isStmt : Rec → Bool
  | .stmt _ => true
  | .call _ inner => inner

/-- why the EdgeQL compiler rejects a query (the rejections that concern DML placement) -/
inductive Reject where
  /-- "INSERT/UPDATE/DELETE statements cannot be used in a FILTER / ORDER BY clause" -/
  | clause
  /-- "mutations are invalid in a shape's computed expression" -/
  | shape
  /-- unknown function -/
  | unknownFn
  /-- "volatility mismatch in function declared as …" -/
  | volatility
  /-- the generated dispatch table has no row for this kind -/
  | noRow
  deriving DecidableEq, Repr

abbrev Val := List Nat
/-- stored objects: (type, value) -/
abbrev DB := List (Nat × Nat)
abbrev VEnv := List (Nat × Val)

/-- a schema function as the query compiler sees it -/
structure FnDecl where
  /-- `func.get_volatility(schema) == Modifying` -/
  modifying : Bool
  /-- the body (which is inlined at the call site when `modifying`) contains a DML statement node -/
  dmlStmt : Bool
  /-- effect of a call -/
  sem : DB → List Val → DB × Val

abbrev FnEnv := List FnDecl

/-- what `ctx.defining_view` / `ctx.partial_path_prefix` say about the shape we are in -/
inductive ShapeK where
  /-- not inside a shape computed (or inside an INSERT / UPDATE shape, where DML is fine) -/
  | none
  /-- inside a computed of a SELECT shape on an object: `defining_view` is a Select view -/
  | sel
  /-- inside a computed of a free-object shape; `ok` = the free object was written where the
      enclosing context was `Exposure.EXPOSED` (and `partial_path_prefix` is still that object) -/
  | free (ok : Bool)
  deriving DecidableEq, Repr

/-- the part of the compiler context that decides whether DML is accepted -/
structure Cx where
  /-- `ctx.disallow_dml`: inside a FILTER or ORDER BY clause -/
  disallow : Bool
  /-- `ctx.defining_view` / `ctx.partial_path_prefix` -/
  shape : ShapeK
  /-- `ctx.expr_exposed == EXPOSED` (false in WITH bindings, FOR iterators, UPDATE/DELETE subjects,
      OFFSET/LIMIT, subjects of shaped SELECTs; true again in INSERT/UPDATE shape elements) -/
  exposed : Bool
  deriving DecidableEq, Repr

def Cx.top : Cx := ⟨false, .none, true⟩

/-- context of an OFFSET/LIMIT clause: unexposed, `partial_path_prefix` cleared -/
def Cx.offlim (cx : Cx) : Cx :=
  { cx with exposed := false, shape := match cx.shape with | .free _ => .free false | k => k }

def appendR : Except Reject (List Rec) → Except Reject (List Rec) → Except Reject (List Rec)
  | .error e, _ => .error e
  | .ok _, .error e => .error e
  | .ok a, .ok b => .ok (a ++ b)

/-- common entry check of `compile_InsertQuery/UpdateQuery/DeleteQuery` + `init_stmt` -/
def dmlGuard (cx : Cx) : Except Reject Unit :=
  if cx.disallow then .error .clause
  else match cx.shape with
    | .sel => .error .shape
    | .free false => .error .shape
    | _ => .ok ()

/-- what `compile_FunctionCall` does for a resolved callee `d` (numbered `f`) in context `cx`:
a Modifying callee is inlined (its body is compiled in the current context, so a DML statement in
it hits `dmlGuard`; inside a free-object shape the inlined statement is never acceptable), then the
call is recorded and the shape check of func.py is made -/
def callRec (cx : Cx) (f : Nat) (d : FnDecl) : Except Reject (List Rec) :=
  if d.modifying then
    if d.dmlStmt && cx.disallow then .error .clause
    else match cx.shape with
      | .sel => .error .shape
      | .free ok => if d.dmlStmt || !ok then .error .shape else .ok [.call f d.dmlStmt]
      | .none => .ok [.call f d.dmlStmt]
  else .ok []

mutual
/-- what the EdgeQL compiler appends to `ctx.env.dml_exprs` while compiling `q` in context `cx`
(the compiler's traversal order), or the rejection it raises. -/
def record (fe : FnEnv) (cx : Cx) : Q → Except Reject (List Rec)
  | .lit _ => .ok []
  | .var _ => .ok []
  | .objs _ => .ok []
  | .op args => recordL fe cx args
  | .call f args =>
    -- arguments are compiled first, then the callee is resolved, a Modifying callee is inlined
    -- (its body is compiled in the current context), then the call is recorded and the shape
    -- check is made
    appendR (recordL fe cx args)
      (match fe[f]? with
       | none => .error .unknownFn
       | some d => callRec cx f d)
  | .ifElse c t e => appendR (record fe cx c) (appendR (record fe cx t) (record fe cx e))
  | .select subj shape filter order offlim =>
    appendR (record fe { cx with exposed := cx.exposed && shape.isNil } subj)
      (appendR (recordL fe { cx with shape := .sel } shape)
        (appendR (recordL fe { cx with disallow := true } filter)
          (appendR (recordL fe { cx with disallow := true } order) (recordL fe cx.offlim offlim))))
  | .withB _ b body => appendR (record fe { cx with exposed := false } b) (record fe cx body)
  | .forQ _ iter body => appendR (record fe { cx with exposed := false } iter) (record fe cx body)
  | .insert _ shape onC els =>
    match dmlGuard cx with
    | .error e => .error e
    | .ok () =>
      appendR (.ok [.stmt .insert])
        (appendR (recordL fe { cx with shape := .none, exposed := true } shape)
          (appendR (recordL fe cx onC) (recordL fe cx els)))
  | .update subj filter shape =>
    match dmlGuard cx with
    | .error e => .error e
    | .ok () =>
      appendR (.ok [.stmt .update])
        (appendR (record fe { cx with exposed := false } subj)
          (appendR (recordL fe { cx with disallow := true } filter)
            (recordL fe { cx with shape := .none, exposed := true } shape)))
  | .delete subj filter order offlim =>
    match dmlGuard cx with
    | .error e => .error e
    | .ok () =>
      appendR (.ok [.stmt .delete])
        (appendR (record fe { cx with exposed := false } subj)
          (appendR (recordL fe { cx with disallow := true } filter)
            (appendR (recordL fe { cx with disallow := true } order) (recordL fe cx.offlim offlim))))
  | .free shape =>
    -- acceptable only when written in an exposed position that is not itself inside a shape computed
    recordL fe { cx with shape := .free (cx.exposed && cx.shape == .none) } shape
def recordL (fe : FnEnv) (cx : Cx) : QList → Except Reject (List Rec)
  | .nil => .ok []
  | .cons q qs => appendR (record fe cx q) (recordL fe cx qs)
end

/-- `has_dml = bool(ir.dml_exprs)` -/
def hasDml (l : List Rec) : Bool := !l.isEmpty

/-! ## effect semantics: only DML nodes (and calls of functions) touch the DB -/

def truthy (v : Val) : Bool := v.any (· != 0)

mutual
def run (fe : FnEnv) (ρ : VEnv) (db : DB) : Q → DB × Val
  | .lit n => (db, [n])
  | .var x => (db, (ρ.lookup x).getD [])
  | .objs ty => (db, (db.filter (·.1 == ty)).map (·.2))
  | .op args => let r := runL fe ρ db args; (r.1, r.2.flatten)
  | .call f args =>
    let r := runL fe ρ db args
    match fe[f]? with
    | none => (r.1, [])
    | some d => d.sem r.1 r.2
  | .ifElse c t e =>
    let r := run fe ρ db c
    if truthy r.2 then run fe ρ r.1 t else run fe ρ r.1 e
  | .select subj shape filter order offlim =>
    let r1 := run fe ρ db subj
    let r2 := runL fe ρ r1.1 shape
    let r3 := runL fe ρ r2.1 filter
    let r4 := runL fe ρ r3.1 order
    let r5 := runL fe ρ r4.1 offlim
    (r5.1, if r3.2.all truthy then r1.2 else [])
  | .withB x b body =>
    let r := run fe ρ db b
    run fe ((x, r.2) :: ρ) r.1 body
  | .forQ x iter body =>
    let r := run fe ρ db iter
    r.2.foldl (fun acc v => let s := run fe ((x, [v]) :: ρ) acc.1 body; (s.1, acc.2 ++ s.2)) (r.1, [])
  | .insert ty shape onC els =>
    let r1 := runL fe ρ db shape
    let n := r1.2.flatten.sum
    let r2 := runL fe ρ r1.1 onC
    if !onC.isNil && r2.1.contains (ty, n) then
      let r3 := runL fe ρ r2.1 els
      (r3.1, r3.2.flatten)
    else (r2.1 ++ [(ty, n)], [n])
  | .update subj filter shape =>
    let r1 := run fe ρ db subj
    let r2 := runL fe ρ r1.1 filter
    let r3 := runL fe ρ r2.1 shape
    let n := r3.2.flatten.sum
    (r3.1.map fun row => if r1.2.contains row.2 && r2.2.all truthy then (row.1, n) else row, r1.2)
  | .delete subj filter order offlim =>
    let r1 := run fe ρ db subj
    let r2 := runL fe ρ r1.1 filter
    let r3 := runL fe ρ r2.1 order
    let r4 := runL fe ρ r3.1 offlim
    (r4.1.filter fun row => !(r1.2.contains row.2 && r2.2.all truthy), r1.2)
  | .free shape => let r := runL fe ρ db shape; (r.1, r.2.flatten)
def runL (fe : FnEnv) (ρ : VEnv) (db : DB) : QList → DB × List Val
  | .nil => (db, [])
  | .cons q qs =>
    let r := run fe ρ db q
    let rs := runL fe ρ r.1 qs
    (rs.1, r.2 :: rs.2)
end

/-! ## schema functions: `create function` (edb/schema/functions.py) -/

/-- declare function number `fe.length`.  `decl` = the volatility written in the DDL:
`none` (inferred), `some true` (Modifying), `some false` (anything lower). -/
def declare (fe : FnEnv) (decl : Option Bool) (params : List Nat) (body : Q) : Except Reject FnEnv :=
  match record fe Cx.top body with
  | .error e => .error e
  | .ok l =>
    -- inference/volatility.py: a call of an inlined (Modifying) function has the volatility of its
    -- BODY, so the body is Modifying iff a DML statement is reached (directly or through inlining);
    -- a call of a declared-Modifying function whose body is pure does not make the caller Modifying
    let inferred := l.any Rec.isStmt
    if decl == some false && inferred then .error .volatility
    else .ok (fe ++ [{ modifying := decl == some true || inferred
                       dmlStmt := inferred
                       sem := fun db vs => run fe (params.zip vs) db body }])

/-! ## statements and scripts -/

inductive Stmt where
  | query (q : Q)
  | analyze (q : Q)
  /-- every kind that carries no query -/
  | command (k : Kind)

def kindCapsE (k : Kind) : Except Reject Caps :=
  match kindCaps k with
  | some c => .ok c
  | none => .error .noRow

/-- capabilities `_compile_dispatch_ql` attaches to a statement -/
def stmtCaps (fe : FnEnv) : Stmt → Except Reject Caps
  | .query q =>
    match record fe Cx.top q with
    | .error e => .error e
    | .ok l => kindCapsE (.query (hasDml l))
  | .analyze q =>
    match record fe Cx.top q with
    | .error e => .error e
    | .ok l => kindCapsE (.analyze (hasDml l))
  | .command k => kindCapsE k

def mapE (f : α → Except ε β) : List α → Except ε (List β)
  | [] => .ok []
  | a :: as =>
    match f a with
    | .error e => .error e
    | .ok b =>
      match mapE f as with
      | .error e => .error e
      | .ok bs => .ok (b :: bs)

/-- `_try_compile_ast`: one unit per statement, appended to the group -/
def scriptCaps (fe : FnEnv) (ss : List Stmt) : Except Reject Caps :=
  match mapE (stmtCaps fe) ss with
  | .error e => .error e
  | .ok cs => .ok (groupCaps cs)

/-- effect of executing a statement on the stored data (ANALYZE … executes the query when
`execute := true`; commands do not touch object data) -/
def runStmt (fe : FnEnv) (db : DB) : Stmt → DB
  | .query q => (run fe [] db q).1
  | .analyze q => (run fe [] db q).1
  | .command _ => db

def runScript (fe : FnEnv) (db : DB) (ss : List Stmt) : DB := ss.foldl (runStmt fe) db

end EdbVerif.Caps
