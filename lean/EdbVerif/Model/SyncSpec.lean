/-
Specification vocabulary for C17 (what the theorems in Props/C17.lean say).
Core Lean only.
-/
import EdbVerif.Model.Sync

namespace EdbVerif.Sync

/-- The places where a worker keeps one of the five parts: three per database,
    two per worker. -/
inductive Slot where
  | schema (db : Nat)
  | refl (db : Nat)
  | dbcfg (db : Nat)
  | glob
  | sys
deriving DecidableEq, Repr

/-- content of a slot on one side (`none`: the database is not there) -/
def Side.get (s : Side) : Slot → Option Tok
  | .schema db => (s.dbs db).map (·.schema)
  | .refl db => (s.dbs db).map (·.refl)
  | .dbcfg db => (s.dbs db).map (·.dbcfg)
  | .glob => some s.glob
  | .sys => some s.sys

/-- "belief says x ⇒ the worker holds x", for one slot -/
def AgreeAt (ws : WState) (σ : Slot) : Prop :=
  ∀ x, ws.bel.get σ = some x → ws.act.get σ = some x

/-- … for all slots of a worker -/
def Agree (ws : WState) : Prop := ∀ σ, AgreeAt ws σ

/-- `_last_pickled_state` denotes the worker's `LAST_STATE` -/
def LastAgree (ws : WState) : Prop := ws.bel.last = ws.act.last

/-- the slots a `compile` request supplies a value for -/
def CReq.slots (r : CReq) : List (Slot × Tok) :=
  [(.schema r.db, r.schema), (.refl r.db, r.refl), (.glob, r.glob),
   (.dbcfg r.db, r.dbcfg), (.sys, r.sys)]

/-- Exact condition under which a `compile` request is served with the
    supplied state: no part is elided (belief `is` supplied) while the worker
    holds something else. Everything is sent when the belief does not have the
    database. -/
def Safe (ws : WState) (r : CReq) : Prop :=
  ws.bel.dbs r.db ≠ none → ∀ p ∈ r.slots, ws.bel.get p.1 = some p.2 → ws.act.get p.1 = some p.2

/-! ### hypotheses on histories -/

/-- No failure after the worker has started to overwrite its state: the global
    schema and the system config always unpickle, and the result can always be
    sent back (no status 2). -/
def CReq.noLateFail (env : Env) (r : CReq) : Prop :=
  env.bad r.glob = false ∧ env.bad r.sys = false ∧ r.out ≠ .resultUnpicklable

/-- What `new or old` needs for slot `σ`: a supplied reflection cache /
    database config is truthy; a falsy schema pickle (`b''`) cannot be
    unpickled. -/
def CReq.falsyOK (env : Env) (r : CReq) : Slot → Prop
  | .schema db => db = r.db → env.falsy r.schema = true → env.bad r.schema = true
  | .refl db => db = r.db → env.falsy r.refl = false
  | .dbcfg db => db = r.db → env.falsy r.dbcfg = false
  | .glob => True
  | .sys => True

def Req.noLateFail (env : Env) : Req → Prop
  | .compile r => r.noLateFail env
  | .tx _ => True

def Req.falsyOK (env : Env) (σ : Slot) : Req → Prop
  | .compile r => r.falsyOK env σ
  | .tx _ => True

/-- Nothing goes wrong after the worker-side compiler state was touched: the
    state returned by the compiler can always be pickled and sent back, and a
    failing in-transaction compilation does not mutate the state it was given. -/
def Req.noStateLoss : Req → Prop
  | .compile r => r.out ≠ .statePickleFail ∧ r.out ≠ .resultUnpicklable
  | .tx r => r.out ≠ .statePickleFail ∧ r.out ≠ .resultUnpicklable ∧ r.out ≠ .raiseMutated

def NoLateFail (env : Env) (h : List Req) : Prop := ∀ q ∈ h, q.noLateFail env
def FalsyOK (env : Env) (σ : Slot) (h : List Req) : Prop := ∀ q ∈ h, q.falsyOK env σ
def NoStateLoss (h : List Req) : Prop := ∀ q ∈ h, q.noStateLoss

/-! ### "identities never come back"

Ghost bookkeeping over a history: per slot the identity supplied last
(`cur`) and the identities that have been superseded (`ret`).  `NoReturn`
says that no request supplies a superseded identity. -/

structure Ghost where
  cur : Slot → Option Tok
  ret : Slot → List Tok

def Ghost.supply (g : Ghost) (σ : Slot) (t : Tok) : Ghost where
  cur := fun x => if x = σ then some t else g.cur x
  ret := fun x =>
    if x = σ then
      match g.cur σ with
      | some c => if c = t then g.ret σ else c :: g.ret σ
      | none => g.ret σ
    else g.ret x

def Ghost.supplyAll (g : Ghost) : List (Slot × Tok) → Ghost
  | [] => g
  | p :: ps => (g.supply p.1 p.2).supplyAll ps

def Ghost.init (s : Side) : Ghost where
  cur := s.get
  ret := fun _ => []

def NoReturnFrom (g : Ghost) : List Req → Prop
  | [] => True
  | .compile r :: rest =>
    (∀ p ∈ r.slots, p.2 ∉ g.ret p.1) ∧ NoReturnFrom (g.supplyAll r.slots) rest
  | .tx r :: rest => r.schema ∉ g.ret (.schema r.db) ∧ NoReturnFrom g rest

/-- No `compile` request supplies, for any of its five slots, an identity that
    an earlier request had already replaced by another one; no `compile_in_tx`
    request supplies a superseded schema identity. -/
def NoReturn (init : Side) (h : List Req) : Prop := NoReturnFrom (Ghost.init init) h

instance (g : Ghost) : (h : List Req) → Decidable (NoReturnFrom g h)
  | [] => inferInstanceAs (Decidable True)
  | .compile r :: rest =>
    have := instDecidableNoReturnFrom (g.supplyAll r.slots) rest
    inferInstanceAs (Decidable (_ ∧ _))
  | .tx _ :: rest =>
    have := instDecidableNoReturnFrom g rest
    inferInstanceAs (Decidable (_ ∧ _))

instance (init : Side) (h : List Req) : Decidable (NoReturn init h) := by
  unfold NoReturn; infer_instance

/-! ### what "compiled against the supplied state" means -/

/-- a `compile` request was served with exactly the supplied five parts
    (vacuous when the compiler was not reached) -/
def CObs.usedSupplied (o : CObs) (r : CReq) : Prop :=
  ∀ u, o.used = some u → u = r.supplied

/-- a `compile_in_tx` request used the supplied compiler state … -/
def TObs.usedState (o : TObs) (r : TReq) : Prop :=
  ∀ u, o.used = some u → some u.cstate = r.pstate

/-- … and, when it (re)set the root user schema, set it to the supplied one -/
def TObs.usedRoot (o : TObs) (r : TReq) : Prop :=
  ∀ u, o.used = some u → ∀ s, u.root = some s → s = r.schema

/-! ### a candidate repair (NOT the code that exists)

`pool.py`: when `worker.call(…)` raises, set `worker._last_pickled_state = None`
before re-raising — in `compile_in_tx` (`stepTxFixed`) and, optionally, in
`compile` (`stepCompileFixed`). -/

/-- `worker._last_pickled_state = None` unless the call returned normally -/
def clearLastUnlessOk (st : State) (w : Nat) (res : Res) : State :=
  if res = .ok then st else upd st w ⟨{ (st w).bel with last := none }, (st w).act⟩

def stepTxFixed (env : Env) (st : State) (r : TReq) : State × TObs :=
  (clearLastUnlessOk (stepTx env st r).1 r.w (stepTx env st r).2.res, (stepTx env st r).2)

def stepCompileFixed (env : Env) (st : State) (r : CReq) : State × CObs :=
  (clearLastUnlessOk (stepCompile env st r).1 r.w (stepCompile env st r).2.res,
   (stepCompile env st r).2)

/-- one request of the repaired pool; `fixCompile` says whether `compile` is repaired too -/
def stepFix (fixCompile : Bool) (env : Env) (st : State) : Req → State
  | .compile r => if fixCompile then (stepCompileFixed env st r).1 else (stepCompile env st r).1
  | .tx r => (stepTxFixed env st r).1

def execFix (fixCompile : Bool) (env : Env) (st : State) : List Req → State
  | [] => st
  | q :: qs => execFix fixCompile env (stepFix fixCompile env st q) qs

/-- hypothesis left when only `compile_in_tx` is repaired: `compile` never loses a state -/
def CompileNoStateLoss (h : List Req) : Prop :=
  ∀ r, Req.compile r ∈ h → r.out ≠ .statePickleFail ∧ r.out ≠ .resultUnpicklable

/-- a non-`None` `_last_pickled_state` denotes the worker's `LAST_STATE` -/
def LastLe (ws : WState) : Prop := ∀ x, ws.bel.last = some x → ws.act.last = some x

end EdbVerif.Sync
