/-
Specification vocabulary for C17 (what the theorems in Props/C17.lean say).
Core Lean only.
-/
import EdbVerif.Model.Sync

namespace EdbVerif.Sync

/-- The places where a worker keeps one of the five parts: three per database,
    two per worker. -/
inductive Slot where
  | schema (db : Nat)
  | refl (db : Nat)
  | dbcfg (db : Nat)
  | glob
  | sys
deriving DecidableEq, Repr

/-- content of a slot on one side (`none`: the database is not there) -/
def Side.get (s : Side) : Slot → Option Tok
  | .schema db => (s.dbs db).map (·.schema)
  | .refl db => (s.dbs db).map (·.refl)
  | .dbcfg db => (s.dbs db).map (·.dbcfg)
  | .glob => some s.glob
  | .sys => some s.sys

/-- "belief says x ⇒ the worker holds x", for one slot -/
def AgreeAt (ws : WState) (σ : Slot) : Prop :=
  ∀ x, ws.bel.get σ = some x → ws.act.get σ = some x

/-- … for all slots of a worker -/
def Agree (ws : WState) : Prop := ∀ σ, AgreeAt ws σ

/-- a non-`None` `_last_pickled_state` denotes the worker's `LAST_STATE` -/
def LastLe (ws : WState) : Prop := ∀ x, ws.bel.last = some x → ws.act.last = some x

/-- the slots a `compile` request supplies a value for -/
def CReq.slots (r : CReq) : List (Slot × Tok) :=
  [(.schema r.db, r.schema), (.refl r.db, r.refl), (.glob, r.glob),
   (.dbcfg r.db, r.dbcfg), (.sys, r.sys)]

/-- Exact condition under which a `compile` request is served with the
    supplied state: no part is elided (belief `is` supplied) while the worker
    holds something else. Everything is sent when the belief does not have the
    database. -/
def Safe (ws : WState) (r : CReq) : Prop :=
  ws.bel.dbs r.db ≠ none → ∀ p ∈ r.slots, ws.bel.get p.1 = some p.2 → ws.act.get p.1 = some p.2

/-! ### the one hypothesis on histories that is left

Status 2 (`could not serialize result in worker subprocess`): the worker has
synced and compiled, but `BaseWorker.call` gets no exception object and no
result, and does not run the acknowledgement callback. -/

def Req.noStatus2 : Req → Prop
  | .compile r => r.out ≠ .resultUnpicklable
  | .tx _ => True

/-- no `compile` request of the history ended with status 2 -/
def NoStatus2 (h : List Req) : Prop := ∀ q ∈ h, q.noStatus2


/-! ### "identities never come back"

Ghost bookkeeping over a history: per slot the identity supplied last
(`cur`) and the identities that have been superseded (`ret`).  `NoReturn`
says that no request supplies a superseded identity. -/

structure Ghost where
  cur : Slot → Option Tok
  ret : Slot → List Tok

def Ghost.supply (g : Ghost) (σ : Slot) (t : Tok) : Ghost where
  cur := fun x => if x = σ then some t else g.cur x
  ret := fun x =>
    if x = σ then
      match g.cur σ with
      | some c => if c = t then g.ret σ else c :: g.ret σ
      | none => g.ret σ
    else g.ret x

def Ghost.supplyAll (g : Ghost) : List (Slot × Tok) → Ghost
  | [] => g
  | p :: ps => (g.supply p.1 p.2).supplyAll ps

def Ghost.init (s : Side) : Ghost where
  cur := s.get
  ret := fun _ => []

def NoReturnFrom (g : Ghost) : List Req → Prop
  | [] => True
  | .compile r :: rest =>
    (∀ p ∈ r.slots, p.2 ∉ g.ret p.1) ∧ NoReturnFrom (g.supplyAll r.slots) rest
  | .tx r :: rest => r.schema ∉ g.ret (.schema r.db) ∧ NoReturnFrom g rest

/-- No `compile` request supplies, for any of its five slots, an identity that
    an earlier request had already replaced by another one; no `compile_in_tx`
    request supplies a superseded schema identity. -/
def NoReturn (init : Side) (h : List Req) : Prop := NoReturnFrom (Ghost.init init) h

instance (g : Ghost) : (h : List Req) → Decidable (NoReturnFrom g h)
  | [] => inferInstanceAs (Decidable True)
  | .compile r :: rest =>
    have := instDecidableNoReturnFrom (g.supplyAll r.slots) rest
    inferInstanceAs (Decidable (_ ∧ _))
  | .tx _ :: rest =>
    have := instDecidableNoReturnFrom g rest
    inferInstanceAs (Decidable (_ ∧ _))

instance (init : Side) (h : List Req) : Decidable (NoReturn init h) := by
  unfold NoReturn; infer_instance

/-! ### what "compiled against the supplied state" means -/

/-- a `compile` request was served with exactly the supplied five parts
    (vacuous when the compiler was not reached) -/
def CObs.usedSupplied (o : CObs) (r : CReq) : Prop :=
  ∀ u, o.used = some u → u = r.supplied

/-- a `compile_in_tx` request used the supplied compiler state … -/
def TObs.usedState (o : TObs) (r : TReq) : Prop :=
  ∀ u, o.used = some u → some u.cstate = r.pstate

/-- … and, when it (re)set the root user schema, set it to the supplied one -/
def TObs.usedRoot (o : TObs) (r : TReq) : Prop :=
  ∀ u, o.used = some u → ∀ s, u.root = some s → s = r.schema

/-! ### `_pickle_memoized` and the absence of address reuse

The model sends, for an object with identity token `t`, the pickle *of that object*: a
token denotes one object for ever.  The code obtains the bytes of a reflection cache /
database config / system config from `_pickle_memoized(obj)`.  That is the pickle of `obj`
as long as a memo entry can never be hit by a *different* object — true for
`functools.lru_cache`, which holds a strong reference to its keys (a memoized object
cannot be freed, so nothing else can get its address, while the entry lives), false for
any memo keyed by `id(obj)`.  `memo t` below is "the object whose pickle the memo returns
when asked for `t`"; every theorem of Props/C17.lean is about `memo = id`
(`MemoFaithful`), and `stepCompileMemo` shows what happens otherwise.  The harness tests
the assumption on the real code with its "churn" stream (objects are freed, addresses are
reused, the oracle compares values). -/

/-- the memo returns, for every object, the pickle of that very object -/
def MemoFaithful (memo : Tok → Tok) : Prop := ∀ t, memo t = t

/-- what is put on the wire when the three memoized parts go through `memo` -/
def Parts.viaMemo (memo : Tok → Tok) (p : Parts) : Parts :=
  { p with refl := p.refl.map memo, dbcfg := p.dbcfg.map memo, sys := p.sys.map memo }

/-- `stepCompile` with an explicit memo: the worker receives `viaMemo`, the callback
    records the objects themselves (`to_update` holds the objects, not the bytes) -/
def stepCompileRunMemo (memo : Tok → Tok) (env : Env) (st : State) (r : CReq) : State × CObs :=
  let ws := st r.w
  let p := preargs ws.bel r
  let cb := !p.isEmpty
  match wsync env ws.act r.db (p.viaMemo memo) with
  | (a', none) =>
    (upd st r.w ⟨ws.bel.forget, a'⟩, ⟨p, cb, .syncFail, none⟩)
  | (a', some d) =>
    let used : Used := ⟨d.schema, a'.glob, d.refl, d.dbcfg, a'.sys⟩
    let aLast : Option Tok := match r.out with
      | .ok | .resultUnpicklable => some r.ns
      | .okNoState => none
      | .raise | .statePickleFail | .requestUnreadable => a'.last
    let a'' := { a' with last := aLast }
    match r.out with
    | .resultUnpicklable =>
      (upd st r.w ⟨ws.bel.forget, a''⟩, ⟨p, cb, .serErr, some used⟩)
    | out =>
      match withAck ws.bel r.db p with
      | none => (upd st r.w ⟨ws.bel.forget, a''⟩, ⟨p, cb, .cbAssert, some used⟩)
      | some b' =>
        match out with
        | .ok => (upd st r.w ⟨{ b' with last := some r.ns }, a''⟩, ⟨p, cb, .ok, some used⟩)
        | .okNoState => (upd st r.w ⟨{ b' with last := none }, a''⟩, ⟨p, cb, .ok, some used⟩)
        | .raise => (upd st r.w ⟨b'.forget, a''⟩, ⟨p, cb, .compErr, some used⟩)
        | _ => (upd st r.w ⟨b'.forget, a''⟩, ⟨p, cb, .statePickleErr, some used⟩)

def stepCompileMemo (memo : Tok → Tok) (env : Env) (st : State) (r : CReq) : State × CObs :=
  if r.out = .requestUnreadable then stepCompileLost st r else stepCompileRunMemo memo env st r

end EdbVerif.Sync
