/-
Vocabulary for the C07 theorems: the invariants of the stored schema data the
model reads (`WF`), well-formed databases, and the spec-level subtype relation.
Core Lean only.
-/
import EdbVerif.Model.Policy

namespace EdbVerif.Policy

/-- The listing is topological: every base is declared earlier and is a
    material type (nobody extends the view type of an alias). -/
def TopoFrom : List TypeDecl → List TypeDecl → Prop
  | _, [] => True
  | pre, d :: rest =>
    (∀ b ∈ d.bases, ∃ e ∈ pre, e.id = b ∧ e.material = true) ∧ TopoFrom (pre ++ [d]) rest

instance decTopoFrom : (pre l : List TypeDecl) → Decidable (TopoFrom pre l)
  | _, [] => isTrue trivial
  | pre, d :: rest => by
    unfold TopoFrom
    exact @instDecidableAnd _ _ _ (decTopoFrom (pre ++ [d]) rest)

/-- Invariants of the stored schema data (every finite inheritance DAG has such
    a listing; the harness checks each of them on every real schema it loads). -/
structure WF (sch : Schema) : Prop where
  /-- type ids are distinct -/
  nodup : (sch.map (·.id)).Nodup
  /-- bases are declared earlier (the inheritance graph is a DAG) -/
  topo : TopoFrom [] sch
  /-- stored ancestors are the closure of bases: nothing else … -/
  anc_sound : ∀ d ∈ sch, ∀ a ∈ d.ancestors, ∃ b ∈ d.bases, a = b ∨ a ∈ ancestorsOf sch b
  /-- … and everything -/
  anc_complete : ∀ d ∈ sch, ∀ b ∈ d.bases, b ∈ d.ancestors ∧ ∀ a ∈ ancestorsOf sch b, a ∈ d.ancestors
  /-- a material type inherits every policy of each of its bases -/
  inherit : ∀ d ∈ sch, d.material = true → ∀ b ∈ d.bases, ∀ p ∈ polRefs sch b, ∃ q ∈ d.pols, q.pol = p.pol
  /-- a policy object that records base subject `s` is a policy of `s` -/
  subj : ∀ d ∈ sch, ∀ q ∈ d.pols, ∀ s ∈ q.subjects, ∃ p ∈ polRefs sch s, p.pol = q.pol
  /-- view types carry no policy objects -/
  view_nopols : ∀ d ∈ sch, d.material = false → d.pols = []

instance (sch : Schema) : Decidable (WF sch) :=
  decidable_of_iff
    ((sch.map (·.id)).Nodup ∧ TopoFrom [] sch ∧
     (∀ d ∈ sch, ∀ a ∈ d.ancestors, ∃ b ∈ d.bases, a = b ∨ a ∈ ancestorsOf sch b) ∧
     (∀ d ∈ sch, ∀ b ∈ d.bases, b ∈ d.ancestors ∧ ∀ a ∈ ancestorsOf sch b, a ∈ d.ancestors) ∧
     (∀ d ∈ sch, d.material = true → ∀ b ∈ d.bases, ∀ p ∈ polRefs sch b, ∃ q ∈ d.pols, q.pol = p.pol) ∧
     (∀ d ∈ sch, ∀ q ∈ d.pols, ∀ s ∈ q.subjects, ∃ p ∈ polRefs sch s, p.pol = q.pol) ∧
     (∀ d ∈ sch, d.material = false → d.pols = []))
    ⟨fun ⟨a, b, c, d, e, f, g⟩ => ⟨a, b, c, d, e, f, g⟩,
     fun h => ⟨h.nodup, h.topo, h.anc_sound, h.anc_complete, h.inherit, h.subj, h.view_nopols⟩⟩

/-- Objects live in declared, material, non-abstract types. -/
def WFDB (sch : Schema) (db : DB) : Prop :=
  ∀ o ∈ db, (∃ d ∈ sch, d.id = o.ty) ∧ isMaterial sch o.ty = true ∧ isAbstract sch o.ty = false

/-- Spec-level subtyping: `Sub sch d t` — `d` is `t` or reaches `t` through
    declared bases. -/
inductive Sub (sch : Schema) : TypeId → TypeId → Prop
  | refl (t : TypeId) : Sub sch t t
  | step {d b t : TypeId} : d ∈ children sch b → Sub sch b t → Sub sch d t

/-- position of a type in the listing (`sch.length` when absent) -/
def rank (sch : Schema) (t : TypeId) : Nat := sch.findIdx (·.id == t)

/-- The cone of a type: itself and everything below it (by stored ancestors). -/
def inCone (sch : Schema) (t d : TypeId) : Bool := d == t || (ancestorsOf sch d).contains t

/-- Below `t` the hierarchy is a forest: two different children of the same
    type never have a type in common below them. -/
def TreeBelow (sch : Schema) (t : TypeId) : Prop :=
  ∀ s, inCone sch t s = true → ∀ c₁ ∈ children sch s, ∀ c₂ ∈ children sch s, ∀ d,
    inCone sch c₁ d = true → inCone sch c₂ d = true → c₁ = c₂

end EdbVerif.Policy
