/-
C01 — model of the EdgeQL expression core: AST, the printer at TOKEN level and a
precedence-climbing parser parameterised by the generated table `Gen/Prec.lean`.

What is modelled (read line by line from the sources):

* `pp` mirrors `edb/edgeql/codegen.py::EdgeQLSourceGenerator` for the node classes below
  (`visit_BinOp/IsOp` always parenthesise; `visit_UnaryOp` writes `OP` + operand, with
  ` (`…`)` around the operand only for alphabetic operators; `visit_TypeCast` writes `<T>`
  + operand; `visit_IfElse` parenthesises; `visit_Indirection` writes `(`arg`)` + `[i]`…;
  `visit_Tuple` writes a trailing comma for 1-tuples; `visit_Constant` writes the stored
  text — for a folded negative number that text starts with `-`, i.e. the tokens `-`,`-`,…,n).
  Whitespace is immaterial at token level.
* `parse` is what the LR parser generated from `grammar/expressions.py` does on these token
  sequences, under yacc precedence semantics: in a state where a production of level `r`
  is complete and the lookahead operator has level `l`, reduce if `r > l`, shift if `r < l`,
  and for `r = l` use the associativity (left: reduce, right: shift, nonassoc: error).
  A precedence-climbing parser with a minimum level implements exactly that rule; the levels
  are the generated ones (`BOp.laLvl` for the lookahead token, `BOp.ruleLvl` for the
  production: they differ for `NOT IN`/`NOT LIKE`/`NOT ILIKE`, whose first token is `NOT`).
  The reductions build the AST as the real reduce methods do: `reduce_MINUS_Expr` folds a
  minus into a numeric constant, `reduce_Expr_IndirectionEl` appends to an existing
  `Indirection`, `reduce_Expr_PathStep` appends a `Ptr` to an existing `Path` (`ensure_path`),
  `ParenExpr` is dropped.
* `visit_Path` writes the first step bare when it is an `ObjectRef`/`Set`/`Tuple`/`Parameter` and
  as `(`expr`)` otherwise, then `.name` for every outbound `Ptr` step.
Core Lean only.
-/
import EdbVerif.Gen.Prec

namespace EdbVerif.QL
open EdbVerif.QLLex EdbVerif.Gen.Prec

inductive UOp | minus | plus | not | exists | distinct
  deriving DecidableEq, Repr

/-- expression core of `qlast` -/
inductive Expr
  /-- single-token primary: string / bytes literal, `true`/`false`, `$param` -/
  | atom (t : Tok)
  /-- `Path(steps=[ObjectRef(name=s)])` -/
  | name (s : String)
  /-- numeric `Constant`: `negs` minus signs folded into the stored text by `reduce_MINUS_Expr` -/
  | num (negs : Nat) (k : LitKind) (s : String)
  | unop (op : UOp) (e : Expr)
  | binop (op : BOp) (l r : Expr)
  | isop (neg : Bool) (l : Expr) (ty : String)
  /-- `py = true`: `a IF c ELSE b`; `py = false`: `IF c THEN a ELSE b` -/
  | ifelse (py : Bool) (c a b : Expr)
  | cast (ty : String) (e : Expr)
  | detached (e : Expr)
  | call (f : String) (args : List Expr)
  | tuple (es : List Expr)
  | array (es : List Expr)
  | set (es : List Expr)
  /-- `Indirection(arg, [Index i, …])` -/
  | index (arg : Expr) (idx : List Expr)
  /-- `Path(steps=[base, Ptr s, Ptr ss…])`: one or more outbound pointer steps `.s` on a base
      (`x.y` has base `.name "x"`, i.e. the `ObjectRef`; any other base is the expression itself) -/
  | path (base : Expr) (s : String) (ss : List String)
  deriving Repr, Inhabited

def isAtomTok : Tok → Bool
  | .lit .str _ | .lit .bytes _ => true
  | .kw .true | .kw .false => true
  | .param _ => true
  | _ => false

def UOp.tok : UOp → Tok
  | .minus => .p .minus | .plus => .p .plus | .not => .kw .not
  | .exists => .kw .exists | .distinct => .kw .distinct

/-- `str(op).isalnum()` in `visit_UnaryOp` -/
def UOp.alnum : UOp → Bool
  | .minus | .plus => false
  | _ => true

def UOp.lvl : UOp → Nat
  | .minus => uminusLvl | .plus => uplusLvl | .not => notLvl
  | .exists => existsLvl | .distinct => distinctLvl

/-! ### printer -/

/-- `visit_Path`, first step: an `ObjectRef` / `Set` / `Tuple` / `Parameter` base is written bare,
    every other base expression is wrapped in parentheses -/
def bareBase : Expr → Bool
  | .name _ | .set _ | .tuple _ => true
  | .atom (.param _) => true
  | _ => false

/-- `visit_Path`, further steps: `.` + `visit_Ptr` (outbound link pointer: just the name) -/
def ppSteps : List String → List Tok
  | [] => []
  | s :: ss => .p .dot :: .id s :: ppSteps ss

/-- `visit_Tuple`: a 1-tuple gets a trailing comma -/
def tupleTail {α : Type} : List α → List Tok
  | [_] => [.p .comma]
  | _ => []

mutual
  def pp : Expr → List Tok
    | .atom t => [t]
    | .name s => [.id s]
    | .num n k s => List.replicate n (.p .minus) ++ [.lit k s]
    | .unop op e =>
        if op.alnum then op.tok :: .p .lparen :: (pp e ++ [.p .rparen]) else op.tok :: pp e
    | .binop op l r => .p .lparen :: (pp l ++ (op.toks ++ (pp r ++ [.p .rparen])))
    | .isop neg l ty =>
        .p .lparen :: (pp l ++ (.kw .is :: ((if neg then [.kw .not] else []) ++ [.id ty, .p .rparen])))
    | .ifelse true c a b =>
        .p .lparen :: (pp a ++ (.kw .if :: (pp c ++ (.kw .else :: (pp b ++ [.p .rparen])))))
    | .ifelse false c a b =>
        .p .lparen :: .kw .if :: (pp c ++ (.kw .then :: (pp a ++ (.kw .else :: (pp b ++ [.p .rparen])))))
    | .cast ty e => .p .langbracket :: .id ty :: .p .rangbracket :: pp e
    | .detached e => .kw .detached :: pp e
    | .call f args => .id f :: .p .lparen :: (ppList args ++ [.p .rparen])
    | .tuple es => .p .lparen :: (ppList es ++ (tupleTail es ++ [.p .rparen]))
    | .array es => .p .lbracket :: (ppList es ++ [.p .rbracket])
    | .set es => .p .lbrace :: (ppList es ++ [.p .rbrace])
    | .index arg idx => .p .lparen :: (pp arg ++ (.p .rparen :: ppIdx idx))
    | .path b s ss =>
        (if bareBase b then pp b else .p .lparen :: (pp b ++ [.p .rparen])) ++ ppSteps (s :: ss)
  /-- comma-separated -/
  def ppList : List Expr → List Tok
    | [] => []
    | [e] => pp e
    | e :: es => pp e ++ (.p .comma :: ppList es)
  def ppIdx : List Expr → List Tok
    | [] => []
    | e :: es => .p .lbracket :: (pp e ++ (.p .rbracket :: ppIdx es))
end

/-! ### parser -/

/-- `reduce_MINUS_Expr` -/
def negate : Expr → Expr
  | .num n k s => .num (n + 1) k s
  | e => .unop .minus e

/-- `reduce_Expr_IndirectionEl` -/
def mkIndex : Expr → Expr → Expr
  | .index a is, i => .index a (is ++ [i])
  | e, i => .index e [i]

/-- `reduce_Expr_PathStep` (`ensure_path` + append): a step on a `Path` extends it -/
def mkPath : Expr → String → Expr
  | .path b s ss, y => .path b s (ss ++ [y])
  | e, y => .path e y []

/-- minimum level of the right operand of a binary production of level `l` -/
def rhsMin (l : Nat) : Assoc → Nat
  | .right => l
  | _ => l + 1

/-- level remembered for the non-associativity check (0 = none) -/
def naOf (l : Nat) : Assoc → Nat
  | .nonassoc => l
  | _ => 0

abbrev Res := Option (Expr × List Tok)

mutual
  /-- an expression all of whose *pending* productions have level ≥ `m` -/
  def parseE : Nat → Nat → List Tok → Res
    | 0, _, _ => none
    | f + 1, m, ts =>
      match parseOperand f ts with
      | some (lhs, r) => loop f m 0 lhs r
      | none => none

  /-- prefix operators and primaries -/
  def parseOperand : Nat → List Tok → Res
    | 0, _ => none
    | f + 1, ts =>
      match ts with
      | .p .minus :: r =>
          match parseE f uminusLvl r with
          | some (e, r') => some (negate e, r')
          | none => none
      | .p .plus :: r =>
          match parseE f uplusLvl r with
          | some (e, r') => some (.unop .plus e, r')
          | none => none
      | .kw .not :: r =>
          match parseE f notLvl r with
          | some (e, r') => some (.unop .not e, r')
          | none => none
      | .kw .exists :: r =>
          match parseE f existsLvl r with
          | some (e, r') => some (.unop .exists e, r')
          | none => none
      | .kw .distinct :: r =>
          match parseE f distinctLvl r with
          | some (e, r') => some (.unop .distinct e, r')
          | none => none
      | .kw .detached :: r =>
          match parseE f detachedLvl r with
          | some (e, r') => some (.detached e, r')
          | none => none
      | .p .langbracket :: .id ty :: .p .rangbracket :: r =>
          match parseE f typecastLvl r with
          | some (e, r') => some (.cast ty e, r')
          | none => none
      | .kw .if :: r =>
          match parseE f 0 r with
          | some (c, .kw .then :: r1) =>
            match parseE f 0 r1 with
            | some (a, .kw .else :: r2) =>
              match parseE f ifThenRuleLvl r2 with
              | some (b, r3) => some (.ifelse false c a b, r3)
              | none => none
            | _ => none
          | _ => none
      | .p .lparen :: .p .rparen :: r => some (.tuple [], r)
      | .p .lparen :: r =>
          match parseE f 0 r with
          | some (e, .p .rparen :: r') => some (e, r')
          | some (e, .p .comma :: r') =>
            match parseArgs f .rparen r' with
            | some (es, r'') => some (.tuple (e :: es), r'')
            | none => none
          | _ => none
      | .p .lbracket :: r =>
          match parseArgs f .rbracket r with
          | some (es, r') => some (.array es, r')
          | none => none
      | .p .lbrace :: r =>
          match parseArgs f .rbrace r with
          | some (es, r') => some (.set es, r')
          | none => none
      | .id g :: .p .lparen :: r =>
          match parseArgs f .rparen r with
          | some (es, r') => some (.call g es, r')
          | none => none
      | .id s :: r => some (.name s, r)
      | .lit k s :: r => if k.isNum then some (.num 0 k s, r) else some (.atom (.lit k s), r)
      | t :: r => if isAtomTok t then some (.atom t, r) else none
      | [] => none

  /-- infix / postfix continuation.  `na` = level of the non-associative production just
      reduced at this nesting (0: none): a lookahead of the same level is a syntax error. -/
  def loop : Nat → Nat → Nat → Expr → List Tok → Res
    | 0, _, _, _, _ => none
    | f + 1, m, na, lhs, ts =>
      match matchBin ts with
      | some (op, r) =>
          if op.laLvl < m then some (lhs, ts)
          else if op.laLvl = na then none
          else
            match parseE f (rhsMin op.ruleLvl op.assoc) r with
            | some (rhs, r') => loop f m (naOf op.ruleLvl op.assoc) (.binop op lhs rhs) r'
            | none => none
      | none =>
        match ts with
        | .kw .is :: r =>
            if isLaLvl < m then some (lhs, ts)
            else if isLaLvl = na then none
            else
              match r with
              -- the right operand of IS is a TypeExpr: after it only the reduction is possible, so the
              -- non-associativity of P_IS never produces an error (`a IS T IS U` = `(a IS T) IS U`)
              | .kw .not :: .id ty :: r' => loop f m 0 (.isop true lhs ty) r'
              | .id ty :: r' => loop f m 0 (.isop false lhs ty) r'
              | _ => none
        | .kw .if :: r =>
            if ifLaLvl < m then some (lhs, ts)
            else
              match parseE f 0 r with
              | some (c, .kw .else :: r1) =>
                match parseE f (rhsMin ifRuleLvl ifAssoc) r1 with
                | some (b, r2) => loop f m 0 (.ifelse true c lhs b) r2
                | none => none
              | _ => none
        | .p .lbracket :: r =>
            if bracketLvl < m then some (lhs, ts)
            else
              match parseE f 0 r with
              | some (i, .p .rbracket :: r') => loop f m 0 (mkIndex lhs i) r'
              | _ => none
        | .p .dot :: .id s :: r =>
            -- `Expr PathStep` [P_DOT], `PathStep: DOT PathStepName`
            if dotLvl < m then some (lhs, ts)
            else loop f m 0 (mkPath lhs s) r
        | _ => some (lhs, ts)

  /-- comma-separated expressions up to `close` (trailing comma allowed) -/
  def parseArgs : Nat → P → List Tok → Option (List Expr × List Tok)
    | 0, _, _ => none
    | f + 1, close, ts =>
      match ts with
      | .p c :: r =>
          if c = close then some ([], r)
          else parseArgs1 f close ts
      | _ => parseArgs1 f close ts

  def parseArgs1 : Nat → P → List Tok → Option (List Expr × List Tok)
    | 0, _, _ => none
    | f + 1, close, ts =>
      match parseE f 0 ts with
      | some (e, .p c :: r) =>
          if c = close then some ([e], r)
          else if c = .comma then
            match parseArgs f close r with
            | some (es, r') => some (e :: es, r')
            | none => none
          else none
      | _ => none
end

/-- fuel: every recursive call consumes one unit; `4 * length + 8` is always enough for the
    output of `pp` (see `Lemmas/QLRound.lean`) -/
def fuelFor (ts : List Tok) : Nat := 4 * ts.length + 8

/-- whole-input parse (entry point `parse_fragment`) -/
def parse (ts : List Tok) : Option Expr :=
  match parseE (fuelFor ts) 0 ts with
  | some (e, []) => some e
  | _ => none

end EdbVerif.QL
