/-
Model for C03 — "DESCRIBE output rebuilds the same schema".

Three layers, all executable, core Lean only (the line-protocol driver loads
this file):

1. **Names.**  `resolveRef` is a line-by-line model of
   `edb/schema/schema.py::FlatSchema._search_with_getter` +
   `apply_module_aliases` (how a *reference* written in DDL text / inside an
   expression is resolved under the session's `modaliases`), `classname` models
   `edb/schema/delta.py::QualifiedObjectCommand._classname_from_ast` (how the
   name of the object being *defined* is computed) and `resolveTracer` models
   `edb/edgeql/tracer.py::resolve_name` (SDL loading).  A session context
   `Ctx` is the `modaliases` mapping: `cur = modaliases.get(None)` and the
   named aliases.

2. **Schema algebra and statements.**  A schema is a finite map
   qualified-name → object (`Top`) with a class tag, opaque fields (lists of
   atoms: opaque symbols and *names*), and owned children (`Kid`, whose own
   sub-tree is kept in pre-order as `Item.enter … Item.leave`, exactly the shape
   of the printed block).  `describeDDL` prints every module, then the object
   "shells" in dependency order (the C20 model `Topo.sortEx` over the
   shell→shell references), then every child as `alter … { create … }`; all
   names fully qualified.  `execStmts` replays statements on top of the
   standard library under a `Ctx`.  `describeSDL` / `loadSDL` are the SDL pair
   (`apply_sdl`: module blocks, declaration names qualified by the block,
   references resolved by the tracer rule, ordering by the same graph; then the
   migration DDL is applied under the session `Ctx`).

3. **Tokens.**  `printStmts`/`parseStmts` (and the SDL pair) turn statements
   into flat token lists and back; `loadDDL`/`loadSDL` start from tokens.

Which fields of an object are printed is decided by a table
`printedFields : class → field names`; the harness re-extracts that table from
the real `Field.allow_ddl_set` / `get_ast_attr_for_field` on every run.
-/
import EdbVerif.Model.Topo

namespace EdbVerif.Describe

/-! ## 1. Names -/

/-- `"a::b"` is `["a","b"]`. -/
abbrev ModName := List String

structure QName where
  mod : ModName
  name : String
deriving DecidableEq, Repr

/-- A name as written in text: `mod = none` is an unqualified name. -/
structure Ref where
  mod : Option ModName
  name : String
deriving DecidableEq, Repr

def QName.toRef (q : QName) : Ref := { mod := some q.mod, name := q.name }

/-- The session's `modaliases`: `cur = modaliases.get(None)`, `aliases` the
    other keys (a key is one identifier: `SET ALIAS <Identifier> AS MODULE …`). -/
structure Ctx where
  cur : Option ModName := none
  aliases : List (String × ModName) := []
deriving Repr

/-- What a lookup can see: the qualified names and the modules that exist. -/
structure Env where
  names : List QName := []
  modules : List ModName := []
deriving Repr

def Env.has (e : Env) (q : QName) : Bool := e.names.contains q
def Env.hasModule (e : Env) (m : ModName) : Bool := e.modules.contains m

def stdMod : ModName := ["std"]

/-- `apply_module_aliases(module, module_aliases, current_module)`.
    `noneAlias = module_aliases.get(None)`.  Returns `(is_current, module)`. -/
def applyAliasesG (current noneAlias : Option ModName) (aliases : List (String × ModName)) :
    Option ModName → Bool × Option ModName
  | none => (false, noneAlias)
  | some [] => (false, some [])
  | some (first :: rest) =>
    if first = "__current__" ∧ rest ≠ [] then
      (true, current.map (· ++ rest))
    else match aliases.lookup first with
      | some fq => (false, some (fq ++ rest))
      | none => (false, some (first :: rest))

def applyAliases (c : Ctx) (m : Option ModName) : Bool × Option ModName :=
  applyAliasesG c.cur c.cur c.aliases m

def tryName (e : Env) (m : ModName) (n : String) : Option QName :=
  if e.has ⟨m, n⟩ then some ⟨m, n⟩ else none

/-- `FlatSchema._search_with_getter` with `getter = get_by_name`, `default = None`
    (no `disallow_module`: no caller passes one). -/
def resolveRef (e : Env) (c : Ctx) (r : Ref) : Option QName :=
  if r.mod = some ["__std__"] then tryName e stdMod r.name
  else
    let am := applyAliases c r.mod
    if am.1 && c.cur.isNone then none
    else
      let r1 := match am.2 with
        | some m => tryName e m r.name
        | none => none
      if r1.isSome then r1
      else if am.1 then none
      else
        let r2 := if r.mod.isNone then tryName e stdMod r.name else none
        if r2.isSome then r2
        else match am.2 with
          | some (f :: rest) =>
            if e.hasModule [f] then none else tryName e ("std" :: f :: rest) r.name
          | _ => none

inductive Err where
  | unresolved (r : Ref)
  | exists_ (q : QName)
  | noModule (m : ModName)
  | noObject (q : QName)
  | noCurrent
  | cycle
  | parse
deriving DecidableEq, Repr

/-- `QualifiedObjectCommand._classname_from_ast`:
    `module = context.modaliases.get(objref.module, objref.module)` — the WHOLE
    module string is the key (so only one-component modules can be hit). -/
def classname (c : Ctx) (r : Ref) : Except Err QName :=
  match r.mod with
  | none => match c.cur with
    | some m => .ok ⟨m, r.name⟩
    | none => .error .noCurrent
  | some [k] => match c.aliases.lookup k with
    | some fq => .ok ⟨fq, r.name⟩
    | none => .ok ⟨[k], r.name⟩
  | some m => .ok ⟨m, r.name⟩

/-- A name in a DDL position (`utils.ast_objref_to_object_shell` →
    `utils.resolve_name`): first `schema.get(name, module_aliases=…)`; when that
    finds nothing the shell keeps `modaliases.get(module, module)::name` (whole
    module string as the key, like `classname`) and is resolved later by a plain
    `schema.get(name)`. -/
def resolveShell (e : Env) (c : Ctx) (r : Ref) : Option QName :=
  match resolveRef e c r with
  | some q => some q
  | none =>
    match classname c r with
    | .ok q => resolveRef e {} q.toRef
    | .error _ => none

/-- the `exists` helper of `tracer.resolve_name`: a declared (SDL-local) object,
    or whatever `schema.get(name, default=None)` finds — which applies the
    `std`/`std::<module>` fallbacks of `_search_with_getter` itself -/
def existsT (e : Env) (objects : List QName) (q : QName) : Bool :=
  objects.contains q || (resolveRef e {} q.toRef).isSome

def tryNameT (e : Env) (objects : List QName) (m : ModName) (n : String) : Option QName :=
  if existsT e objects ⟨m, n⟩ then some ⟨m, n⟩ else none

/-- `edb/edgeql/tracer.py::resolve_name`; never fails, returns the "best" name.
    `e` is the schema, `objects` the names declared by the SDL document. -/
def resolveTracer (e : Env) (objects : List QName) (localMods : List ModName) (c : Ctx)
    (curMod : ModName) (declaration : Bool) (r : Ref) : QName :=
  let am := applyAliasesG (some curMod) c.cur c.aliases r.mod
  let noStd := declaration || am.1
  let r1 := match am.2 with
    | some m => tryNameT e objects m r.name
    | none => if r.mod.isNone then tryNameT e objects curMod r.name else none
  match r1 with
  | some q => q
  | none =>
    let r2 := if !noStd && r.mod.isNone then tryNameT e objects stdMod r.name else none
    match r2 with
    | some q => q
    | none =>
      let r3 := match am.2 with
        | some (f :: rest) =>
          if !noStd && !localMods.contains (f :: rest) then
            tryNameT e objects ("std" :: f :: rest) r.name
          else none
        | _ => none
      match r3 with
      | some q => q
      | none => ⟨(am.2.orElse fun _ => r.mod).getD curMod, r.name⟩

/-! ## 2. Schema algebra -/

/-- A field value is a list of atoms: opaque symbols and names.  `name` is a
    name inside a stored expression (resolved by the EdgeQL compiler, i.e.
    `FlatSchema.get` with the session aliases); `tname` is a name in a DDL
    position — base, target, parameter type, the abstract constraint/annotation
    a concrete one is named after — resolved through an object shell
    (`utils.resolve_name`, which has one more fallback, see `resolveShell`).
    Names inside a *function body* follow the `tname` rule as well: the body is
    normalised under the session aliases (same fallback) and then compiled
    without them (`compile_function` passes no `modaliases`); every other
    stored expression is compiled with the session aliases (`name`). -/
inductive Atom (ν : Type) where
  | sym (s : String)
  | name (n : ν)
  | tname (n : ν)
deriving DecidableEq, Repr

abbrev Fields (ν : Type) := List (String × List (Atom ν))

/-- class tag, name (a local identifier `sym`, or a reference — a concrete
    constraint / annotation value is named by its abstract object), fields -/
structure Head (ν : Type) where
  cls : String
  name : Atom ν
  fields : Fields ν
deriving DecidableEq, Repr

inductive Item (ν : Type) where
  | enter (h : Head ν)
  | leave
deriving DecidableEq, Repr

/-- An owned child of a top-level object with its own sub-tree in pre-order. -/
structure Kid (ν : Type) where
  head : Head ν
  body : List (Item ν)
deriving DecidableEq, Repr

structure Top (ν : Type) where
  cls : String
  name : ν
  fields : Fields ν
  kids : List (Kid ν)
deriving DecidableEq, Repr

structure Schema where
  modules : List ModName := []
  objs : List (Top QName) := []
deriving DecidableEq, Repr

def Schema.names (S : Schema) : List QName := S.objs.map (·.name)

/-- Statements of the DDL text (names as written). -/
inductive Stmt where
  | createModule (m : ModName)                               -- `create module m if not exists`
  | create (cls : String) (name : Ref) (fields : Fields Ref) -- `create <cls> <name> { set … }`
  | alterAdd (cls : String) (name : Ref) (kid : Kid Ref)     -- `alter <cls> <name> { create … }`
deriving DecidableEq, Repr

/-! ### traversals -/

def travE {α β : Type} (f : α → Except Err β) : List α → Except Err (List β)
  | [] => .ok []
  | a :: as =>
    match f a with
    | .error e => .error e
    | .ok b =>
      match travE f as with
      | .error e => .error e
      | .ok bs => .ok (b :: bs)

def Atom.map {ν μ : Type} (f : ν → μ) : Atom ν → Atom μ
  | .sym s => .sym s
  | .name n => .name (f n)
  | .tname n => .tname (f n)

/-- `f shell n`: `shell = true` for `tname` positions -/
def Atom.mapE {ν μ : Type} (f : Bool → ν → Except Err μ) : Atom ν → Except Err (Atom μ)
  | .sym s => .ok (.sym s)
  | .name n => match f false n with
    | .error e => .error e
    | .ok m => .ok (.name m)
  | .tname n => match f true n with
    | .error e => .error e
    | .ok m => .ok (.tname m)

def fieldMap {ν μ : Type} (f : ν → μ) (x : String × List (Atom ν)) : String × List (Atom μ) :=
  (x.1, x.2.map (Atom.map f))

def fieldMapE {ν μ : Type} (f : Bool → ν → Except Err μ) (x : String × List (Atom ν)) :
    Except Err (String × List (Atom μ)) :=
  match travE (Atom.mapE f) x.2 with
  | .error e => .error e
  | .ok as => .ok (x.1, as)

def Head.map {ν μ : Type} (f : ν → μ) (h : Head ν) : Head μ :=
  { cls := h.cls, name := h.name.map f, fields := h.fields.map (fieldMap f) }

def Head.mapE {ν μ : Type} (f : Bool → ν → Except Err μ) (h : Head ν) : Except Err (Head μ) :=
  match h.name.mapE f with
  | .error e => .error e
  | .ok n =>
    match travE (fieldMapE f) h.fields with
    | .error e => .error e
    | .ok fs => .ok { cls := h.cls, name := n, fields := fs }

def Item.map {ν μ : Type} (f : ν → μ) : Item ν → Item μ
  | .enter h => .enter (h.map f)
  | .leave => .leave

def Item.mapE {ν μ : Type} (f : Bool → ν → Except Err μ) : Item ν → Except Err (Item μ)
  | .enter h => match h.mapE f with
    | .error e => .error e
    | .ok h' => .ok (.enter h')
  | .leave => .ok .leave

def Kid.map {ν μ : Type} (f : ν → μ) (k : Kid ν) : Kid μ :=
  { head := k.head.map f, body := k.body.map (Item.map f) }

def Kid.mapE {ν μ : Type} (f : Bool → ν → Except Err μ) (k : Kid ν) : Except Err (Kid μ) :=
  match k.head.mapE f with
  | .error e => .error e
  | .ok h =>
    match travE (Item.mapE f) k.body with
    | .error e => .error e
    | .ok b => .ok { head := h, body := b }

/-! ### names mentioned by an object -/

def atomNames {ν : Type} : List (Atom ν) → List ν
  | [] => []
  | .sym _ :: as => atomNames as
  | .name n :: as => n :: atomNames as
  | .tname n :: as => n :: atomNames as

def fieldsNames {ν : Type} (fs : Fields ν) : List ν := fs.flatMap (fun f => atomNames f.2)

def Head.names {ν : Type} (h : Head ν) : List ν := atomNames [h.name] ++ fieldsNames h.fields

def Item.names {ν : Type} : Item ν → List ν
  | .enter h => h.names
  | .leave => []

def Kid.names {ν : Type} (k : Kid ν) : List ν := k.head.names ++ k.body.flatMap Item.names

/-- names the *shell* of a top-level object refers to (its own fields) -/
def Top.shellNames {ν : Type} (o : Top ν) : List ν := fieldsNames o.fields

def Top.kidNames {ν : Type} (o : Top ν) : List ν := o.kids.flatMap Kid.names

/-! ### which fields are printed -/

/-- The printed-field table the model assumes, per schema class: the fields
    for which a `CREATE` of that class emits text — the generic printer
    (`AlterObjectProperty._get_ast`: `allow_ddl_set`, or `expr`, or an AST
    attribute given by `get_ast_attr_for_field`), the `ddl_identity` fields and
    the fields special-cased by an `_apply_field_ast` override.  Re-extracted
    from the real classes by the harness on every run (`F` op of the driver). -/
def printedFields : List (String × List String) := [
  ("AccessPolicy", ["abstract", "access_kinds", "action", "bases", "condition", "errmessage", "expr"]),
  ("Alias", ["expr"]),
  ("Annotation", ["abstract", "inheritable"]),
  ("AnnotationValue", ["abstract", "annotation", "bases", "value"]),
  ("Constraint", ["abstract", "args", "bases", "delegated", "errmessage", "except_expr", "expr", "subjectexpr"]),
  ("Function", ["code", "from_expr", "from_function", "language", "nativecode", "return_type", "return_typemod", "volatility"]),
  ("Global", ["cardinality", "default", "expr", "required", "target"]),
  ("Index", ["abstract", "bases", "code", "deferrability", "deferred", "except_expr", "expr", "kwargs"]),
  ("Link", ["abstract", "bases", "cardinality", "default", "expr", "on_source_delete", "on_target_delete", "readonly", "required", "target"]),
  ("Module", []),
  ("ObjectType", ["abstract", "bases", "expr"]),
  ("Parameter", []),
  ("Property", ["abstract", "bases", "cardinality", "default", "expr", "readonly", "required", "target"]),
  ("Rewrite", ["abstract", "bases", "expr", "kind"]),
  ("ScalarType", ["abstract", "bases", "default", "expr"]),
  ("Trigger", ["abstract", "bases", "condition", "expr", "kinds", "scope", "timing"])
]

/-- Fields printed by class-specific code outside the generic machinery
    (`CreateFunction._get_ast` params, enum values inside `extending enum<…>`,
    `overloaded`): pinned by hand, checked only by the rebuild oracle. -/
def customFields : List (String × List String) := [
  ("Function", ["params"]),
  ("ScalarType", ["enum_values"]),
  ("Constraint", ["params"]),
  ("Property", ["declared_overloaded"]),
  ("Link", ["declared_overloaded"])
]

abbrev FieldTable := String → Option (List String)

def tableOf (t : List (String × List String)) : FieldTable := fun cls => t.lookup cls

/-- the table the model uses: extracted ∪ pinned -/
def modelTable : FieldTable := fun cls =>
  match printedFields.lookup cls with
  | some l => some (l ++ (customFields.lookup cls).getD [])
  | none => none

/-- `none` = class not in the table: everything is printed. -/
def keepField (tbl : FieldTable) (cls : String) (f : String) : Bool :=
  match tbl cls with
  | some l => l.contains f
  | none => true

def filterFields {ν : Type} (tbl : FieldTable) (cls : String) (fs : Fields ν) : Fields ν :=
  fs.filter (fun f => keepField tbl cls f.1)

def Head.printed {ν : Type} (tbl : FieldTable) (h : Head ν) : Head ν :=
  { h with fields := filterFields tbl h.cls h.fields }

def Item.printed {ν : Type} (tbl : FieldTable) : Item ν → Item ν
  | .enter h => .enter (h.printed tbl)
  | .leave => .leave

def Kid.printed {ν : Type} (tbl : FieldTable) (k : Kid ν) : Kid ν :=
  { head := k.head.printed tbl, body := k.body.map (Item.printed tbl) }

/-! ### describe (DDL) -/

/-- index of the object called `q` -/
def idxOfName (objs : List (Top QName)) (q : QName) : Option Nat :=
  let i := (objs.map (·.name)).idxOf q
  if i < objs.length then some i else none

/-- The shell→shell dependency graph for `Topo.sortEx`: key = position in
    `objs`, `deps` = positions of the user objects named in the shell's fields. -/
def shellGraph (objs : List (Top QName)) : Topo.Graph :=
  objs.zipIdx.map fun (o, i) =>
    { key := i, deps := o.shellNames.filterMap (idxOfName objs) }

/-- shells in dependency order -/
def sortShells (objs : List (Top QName)) : Except Err (List (Top QName)) :=
  match Topo.sortEx (shellGraph objs) true with
  | .ok order => .ok (order.filterMap (objs[·]?))
  | _ => .error .cycle

def shellStmt (tbl : FieldTable) (o : Top QName) : Stmt :=
  .create o.cls o.name.toRef ((filterFields tbl o.cls o.fields).map (fieldMap QName.toRef))

def kidStmts (tbl : FieldTable) (o : Top QName) : List Stmt :=
  o.kids.map fun k => .alterAdd o.cls o.name.toRef ((k.printed tbl).map QName.toRef)

/-- insertion sort of modules by number of components (parents first) -/
def insertMod (m : ModName) : List ModName → List ModName
  | [] => [m]
  | x :: xs => if m.length < x.length then m :: x :: xs else x :: insertMod m xs

def sortMods : List ModName → List ModName
  | [] => []
  | m :: ms => insertMod m (sortMods ms)

def describeStmts (tbl : FieldTable) (S : Schema) : Except Err (List Stmt) :=
  match sortShells S.objs with
  | .error e => .error e
  | .ok shells =>
    .ok ((sortMods S.modules).map .createModule
          ++ shells.map (shellStmt tbl)
          ++ shells.flatMap (kidStmts tbl))

/-! ### replay (DDL) -/

def envOf (std : Env) (S : Schema) : Env :=
  { names := std.names ++ S.names, modules := std.modules ++ S.modules }

def resolveE (e : Env) (c : Ctx) (shell : Bool) (r : Ref) : Except Err QName :=
  match (if shell then resolveShell e c r else resolveRef e c r) with
  | some q => .ok q
  | none => .error (.unresolved r)

/-- append a child to the object called `q` (class `cls`) -/
def addKid (cls : String) (q : QName) (k : Kid QName) : List (Top QName) → Option (List (Top QName))
  | [] => none
  | o :: os =>
    if o.name = q then
      if o.cls = cls then some ({ o with kids := o.kids ++ [k] } :: os) else none
    else (addKid cls q k os).map (o :: ·)

def step (std : Env) (c : Ctx) (S : Schema) : Stmt → Except Err Schema
  | .createModule m =>
    if (envOf std S).hasModule m then .ok S
    else if m.length > 1 && !(envOf std S).hasModule m.dropLast then .error (.noModule m.dropLast)
    else .ok { S with modules := S.modules ++ [m] }
  | .create cls name fields =>
    match classname c name with
    | .error e => .error e
    | .ok q =>
      if !(envOf std S).hasModule q.mod then .error (.noModule q.mod)
      else if (envOf std S).has q then .error (.exists_ q)
      else
        let S' : Schema := { S with objs := S.objs ++ [{ cls := cls, name := q, fields := [], kids := [] }] }
        match travE (fieldMapE (resolveE (envOf std S') c)) fields with
        | .error e => .error e
        | .ok fs => .ok { S with objs := S.objs ++ [{ cls := cls, name := q, fields := fs, kids := [] }] }
  | .alterAdd cls name kid =>
    match classname c name with
    | .error e => .error e
    | .ok q =>
      match kid.mapE (resolveE (envOf std S) c) with
      | .error e => .error e
      | .ok k =>
        match addKid cls q k S.objs with
        | none => .error (.noObject q)
        | some objs => .ok { S with objs := objs }

def execStmts (std : Env) (c : Ctx) : Schema → List Stmt → Except Err Schema
  | S, [] => .ok S
  | S, s :: ss =>
    match step std c S s with
    | .error e => .error e
    | .ok S' => execStmts std c S' ss

/-! ### SDL -/

structure SDecl where
  cls : String
  name : String
  fields : Fields Ref
  kids : List (Kid Ref)
deriving DecidableEq, Repr

/-- `module m { decl… }` blocks -/
abbrev SDLDoc := List (ModName × List SDecl)

def declOf (tbl : FieldTable) (o : Top QName) : SDecl :=
  { cls := o.cls, name := o.name.name,
    fields := (filterFields tbl o.cls o.fields).map (fieldMap QName.toRef),
    kids := o.kids.map fun k => (k.printed tbl).map QName.toRef }

/-- one block per module of the schema, in `S.modules` order; no dependency order -/
def describeSDLDoc (tbl : FieldTable) (S : Schema) : SDLDoc :=
  S.modules.map fun m => (m, (S.objs.filter (·.name.mod = m)).map (declOf tbl))

def defaultMod : ModName := ["default"]

/-- `apply_sdl`: the document's modules (`default` is always initialised) -/
def dedupMods : List ModName → List ModName
  | [] => []
  | m :: ms => m :: (dedupMods ms).filter (· != m)

def sdlModules (d : SDLDoc) : List ModName :=
  let ms := dedupMods (d.map (·.1))
  if ms.contains defaultMod then ms else defaultMod :: ms

def sdlDeclNames (d : SDLDoc) : List QName :=
  d.flatMap fun (m, ds) => ds.map fun x => ⟨m, x.name⟩

/-- resolve one declaration: its name is qualified by the block; a reference
    goes through the tracer rule with `modaliases = {None: block module}`; the
    result must be a declared object or something the standard library has. -/
def resolveDecl (std : Env) (objects : List QName) (localMods : List ModName) (m : ModName)
    (x : SDecl) : Except Err (Top QName) :=
  let f : Bool → Ref → Except Err QName := fun _ r =>
    let q := resolveTracer std objects localMods { cur := some m } m false r
    if objects.contains q then .ok q
    else match resolveRef std {} q.toRef with
      | some q' => .ok q'
      | none => .error (.unresolved r)
  match travE (fieldMapE f) x.fields with
  | .error err => .error err
  | .ok fs =>
    match travE (Kid.mapE f) x.kids with
    | .error err => .error err
    | .ok ks => .ok { cls := x.cls, name := ⟨m, x.name⟩, fields := fs, kids := ks }

def resolveBlock (std : Env) (objects : List QName) (localMods : List ModName)
    (b : ModName × List SDecl) : Except Err (List (Top QName)) :=
  travE (resolveDecl std objects localMods b.1) b.2

def flattenE {α : Type} : List (Except Err (List α)) → Except Err (List α)
  | [] => .ok []
  | .error e :: _ => .error e
  | .ok l :: rest => match flattenE rest with
    | .error e => .error e
    | .ok r => .ok (l ++ r)

/-- the schema the document declares (names resolved, not yet ordered/applied) -/
def sdlTarget (std : Env) (d : SDLDoc) : Except Err Schema :=
  let mods := sdlModules d
  match flattenE (d.map (resolveBlock std (sdlDeclNames d) mods)) with
  | .error err => .error err
  | .ok objs => .ok { modules := mods, objs := objs }

def emptyCtx : Ctx := {}

/-- `apply_sdl`: target, `sdl_to_ddl` ordering, apply with `modaliases = {}` -/
def applySDL (tbl : FieldTable) (std : Env) (d : SDLDoc) : Except Err Schema :=
  match sdlTarget std d with
  | .error e => .error e
  | .ok S0 =>
    match describeStmts tbl S0 with
    | .error e => .error e
    | .ok ss => execStmts std emptyCtx {} ss

/-- `START MIGRATION TO {doc}; POPULATE MIGRATION; COMMIT MIGRATION` in a
    session with context `c` on a std-only database: the target is computed
    by `apply_sdl` (no session context), the migration DDL (diff std → target,
    i.e. the target's DDL description) is applied under `c`. -/
def migrateSDL (tbl : FieldTable) (std : Env) (d : SDLDoc) (c : Ctx) : Except Err Schema :=
  match applySDL tbl std d with
  | .error e => .error e
  | .ok T =>
    match describeStmts tbl T with
    | .error e => .error e
    | .ok ss => execStmts std c {} ss

/-! ## 3. Tokens -/

inductive Tok where
  | kw (s : String)
  | id (s : String)
  | str (s : String)
  | dcolon | lbrace | rbrace | semi | lparen | rparen | assign
deriving DecidableEq, Repr

abbrev Text := List Tok

def printMod : ModName → Text
  | [] => []
  | [c] => [.id c]
  | c :: cs => .id c :: .dcolon :: printMod cs

def printRef (r : Ref) : Text :=
  match r.mod with
  | none => [.id r.name]
  | some [] => [.id r.name]
  | some m => printMod m ++ [.dcolon, .id r.name]

def printAtom : Atom Ref → Text
  | .sym s => [.str s]
  | .name r => printRef r
  | .tname r => .kw "ref" :: printRef r

def printField (f : String × List (Atom Ref)) : Text :=
  [.kw "set", .id f.1, .assign, .lparen] ++ f.2.flatMap printAtom ++ [.rparen, .semi]

def printHead (h : Head Ref) : Text :=
  [.kw "create", .id h.cls] ++ printAtom h.name ++ [.lbrace] ++ h.fields.flatMap printField

def printItem : Item Ref → Text
  | .enter h => printHead h
  | .leave => [.rbrace, .semi]

def printKid (k : Kid Ref) : Text :=
  printHead k.head ++ k.body.flatMap printItem ++ [.rbrace, .semi]

def printStmt : Stmt → Text
  | .createModule m =>
    [.kw "create", .kw "module"] ++ printMod m ++ [.kw "if", .kw "not", .kw "exists", .semi]
  | .create cls name fields =>
    [.kw "create", .id cls] ++ printRef name ++ [.lbrace] ++ fields.flatMap printField ++ [.rbrace, .semi]
  | .alterAdd cls name kid =>
    [.kw "alter", .id cls] ++ printRef name ++ [.lbrace] ++ printKid kid ++ [.rbrace, .semi]

def printStmts (ss : List Stmt) : Text := ss.flatMap printStmt

def printDecl (x : SDecl) : Text :=
  [.kw "decl", .id x.cls, .str x.name, .lbrace] ++ x.fields.flatMap printField
    ++ x.kids.flatMap printKid ++ [.rbrace, .semi]

def printBlock (b : ModName × List SDecl) : Text :=
  [.kw "module"] ++ printMod b.1 ++ [.lbrace] ++ b.2.flatMap printDecl ++ [.rbrace, .semi]

def printSDL (d : SDLDoc) : Text := d.flatMap printBlock

/-! ### parser: recursive descent, every function returns the rest -/

/-- `id (:: id)*` → components -/
def parseIdents : Nat → Text → Option (List String × Text)
  | 0, _ => none
  | fuel + 1, .id c :: .dcolon :: rest =>
    match parseIdents fuel rest with
    | some (cs, rest') => some (c :: cs, rest')
    | none => none
  | _ + 1, .id c :: rest => some ([c], rest)
  | _ + 1, _ => none

def refOfIdents (cs : List String) : Option Ref :=
  match cs.getLast? with
  | none => none
  | some n => some { mod := if cs.length = 1 then none else some cs.dropLast, name := n }

def parseRef (t : Text) : Option (Ref × Text) :=
  match parseIdents (t.length + 1) t with
  | some (cs, rest) => (refOfIdents cs).map (·, rest)
  | none => none

def parseAtom : Text → Option (Atom Ref × Text)
  | .str s :: rest => some (.sym s, rest)
  | .kw "ref" :: rest => (parseRef rest).map fun (r, rest') => (.tname r, rest')
  | t => (parseRef t).map fun (r, rest) => (.name r, rest)

/-- atoms up to `)` -/
def parseAtoms : Nat → Text → Option (List (Atom Ref) × Text)
  | 0, _ => none
  | _ + 1, .rparen :: rest => some ([], rest)
  | fuel + 1, t =>
    match parseAtom t with
    | none => none
    | some (a, rest) =>
      match parseAtoms fuel rest with
      | none => none
      | some (as, rest') => some (a :: as, rest')

/-- `set f := ( atoms ) ;`* -/
def parseFields : Nat → Text → Option (Fields Ref × Text)
  | 0, _ => none
  | fuel + 1, .kw "set" :: .id f :: .assign :: .lparen :: rest =>
    match parseAtoms (rest.length + 1) rest with
    | some (as, .semi :: rest') =>
      match parseFields fuel rest' with
      | some (fs, rest'') => some ((f, as) :: fs, rest'')
      | none => none
    | _ => none
  | _ + 1, t => some ([], t)

/-- `create cls name { fields` -/
def parseHead : Text → Option (Head Ref × Text)
  | .kw "create" :: .id cls :: rest =>
    match parseAtom rest with
    | some (n, .lbrace :: rest') =>
      match parseFields (rest'.length + 1) rest' with
      | some (fs, rest'') => some ({ cls := cls, name := n, fields := fs }, rest'')
      | none => none
    | _ => none
  | _ => none

/-- items of a kid body up to the `} ;` that closes the kid (depth 0) -/
def parseBody : Nat → Nat → Text → Option (List (Item Ref) × Text)
  | 0, _, _ => none
  | fuel + 1, depth, .rbrace :: .semi :: rest =>
    match depth with
    | 0 => some ([], rest)
    | d + 1 =>
      match parseBody fuel d rest with
      | some (is, rest') => some (.leave :: is, rest')
      | none => none
  | fuel + 1, depth, t =>
    match parseHead t with
    | none => none
    | some (h, rest) =>
      match parseBody fuel (depth + 1) rest with
      | some (is, rest') => some (.enter h :: is, rest')
      | none => none

def parseKid (t : Text) : Option (Kid Ref × Text) :=
  match parseHead t with
  | none => none
  | some (h, rest) =>
    match parseBody (rest.length + 1) 0 rest with
    | some (b, rest') => some ({ head := h, body := b }, rest')
    | none => none

def parseStmt : Text → Option (Stmt × Text)
  | .kw "create" :: .kw "module" :: rest =>
    match parseIdents (rest.length + 1) rest with
    | some (m, .kw "if" :: .kw "not" :: .kw "exists" :: .semi :: rest') => some (.createModule m, rest')
    | _ => none
  | .kw "create" :: .id cls :: rest =>
    match parseRef rest with
    | some (n, .lbrace :: rest') =>
      match parseFields (rest'.length + 1) rest' with
      | some (fs, .rbrace :: .semi :: rest'') => some (.create cls n fs, rest'')
      | _ => none
    | _ => none
  | .kw "alter" :: .id cls :: rest =>
    match parseRef rest with
    | some (n, .lbrace :: rest') =>
      match parseKid rest' with
      | some (k, .rbrace :: .semi :: rest'') => some (.alterAdd cls n k, rest'')
      | _ => none
    | _ => none
  | _ => none

def parseStmts : Nat → Text → Option (List Stmt)
  | _, [] => some []
  | 0, _ => none
  | fuel + 1, t =>
    match parseStmt t with
    | none => none
    | some (s, rest) => (parseStmts fuel rest).map (s :: ·)

def parseKids : Nat → Text → Option (List (Kid Ref) × Text)
  | 0, _ => none
  | fuel + 1, .kw "create" :: rest =>
    match parseKid (.kw "create" :: rest) with
    | none => none
    | some (k, rest') =>
      match parseKids fuel rest' with
      | some (ks, rest'') => some (k :: ks, rest'')
      | none => none
  | _ + 1, t => some ([], t)

def parseDecls : Nat → Text → Option (List SDecl × Text)
  | 0, _ => none
  | fuel + 1, .kw "decl" :: .id cls :: .str n :: .lbrace :: rest =>
    match parseFields (rest.length + 1) rest with
    | none => none
    | some (fs, rest') =>
      match parseKids (rest'.length + 1) rest' with
      | some (ks, .rbrace :: .semi :: rest'') =>
        match parseDecls fuel rest'' with
        | some (ds, r) => some ({ cls := cls, name := n, fields := fs, kids := ks } :: ds, r)
        | none => none
      | _ => none
  | _ + 1, t => some ([], t)

def parseSDL : Nat → Text → Option SDLDoc
  | _, [] => some []
  | 0, _ => none
  | fuel + 1, .kw "module" :: rest =>
    match parseIdents (rest.length + 1) rest with
    | some (m, .lbrace :: rest') =>
      match parseDecls (rest'.length + 1) rest' with
      | some (ds, .rbrace :: .semi :: rest'') => (parseSDL fuel rest'').map ((m, ds) :: ·)
      | _ => none
    | _ => none
  | _ + 1, _ => none

/-! ## the functions the property is about -/

/-- `ddl_text_from_schema` -/
def describeDDL (tbl : FieldTable) (S : Schema) : Except Err Text :=
  match describeStmts tbl S with
  | .error e => .error e
  | .ok ss => .ok (printStmts ss)

/-- `sdl_text_from_schema` -/
def describeSDL (tbl : FieldTable) (S : Schema) : Text := printSDL (describeSDLDoc tbl S)

/-- apply DDL text to a std-only database in a session with context `c` -/
def loadDDL (std : Env) (t : Text) (c : Ctx) : Except Err Schema :=
  match parseStmts (t.length + 1) t with
  | none => .error .parse
  | some ss => execStmts std c {} ss

/-- migrate a std-only database to SDL text in a session with context `c` -/
def loadSDL (tbl : FieldTable) (std : Env) (t : Text) (c : Ctx) : Except Err Schema :=
  match parseSDL (t.length + 1) t with
  | none => .error .parse
  | some d => migrateSDL tbl std d c

end EdbVerif.Describe
