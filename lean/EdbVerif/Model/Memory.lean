/-
Model of `edb/ir/statypes.py::ConfigMemory` (C19): `__init__` on a string,
`to_str`.  The stored value is an `Int` because `ConfigMemory(int)` stores any
Python int unchecked (negative values included).

Domain: ASCII strings (`\d` also matches non-ASCII digits in Python).
Core Lean only.
-/
import EdbVerif.Model.Duration
namespace EdbVerif.Memory
open EdbVerif.Duration (isDigit digitsToNat natDigits intDigits)

def KiB : Nat := 1024
def MiB : Nat := 1024 * 1024
def GiB : Nat := 1024 * 1024 * 1024
def TiB : Nat := 1024 * 1024 * 1024 * 1024
def PiB : Nat := 1024 * 1024 * 1024 * 1024 * 1024

def unitMult (u : List Char) : Option Nat :=
  if u = "B".toList then some 1
  else if u = "KiB".toList then some KiB
  else if u = "MiB".toList then some MiB
  else if u = "GiB".toList then some GiB
  else if u = "TiB".toList then some TiB
  else if u = "PiB".toList then some PiB
  else none

/-- `$` without MULTILINE also matches before one final newline. -/
def stripFinalNl (s : List Char) : List Char :=
  match s.reverse with
  | '\n' :: r => r.reverse
  | _ => s

/-- `ConfigMemory(text)`; `none` = `InvalidValueError`. -/
def parseMemory (s : List Char) : Option Nat :=
  if s = ['0'] then some 0 else
  let ds := s.takeWhile isDigit
  if ds.isEmpty then none else
  let rest := s.dropWhile isDigit
  match unitMult rest with
  | some m => some (digitsToNat ds * m)
  | none =>
    match unitMult (stripFinalNl rest) with
    | some m => some (digitsToNat ds * m)
    | none => none

/-- `ConfigMemory.to_str` (Python `%`/`//` are only reached for `v ≥ unit > 0`). -/
def memToStr (v : Int) : List Char :=
  let n := v.toNat
  if v ≥ PiB ∧ n % PiB = 0 then natDigits (n / PiB) ++ "PiB".toList
  else if v ≥ TiB ∧ n % TiB = 0 then natDigits (n / TiB) ++ "TiB".toList
  else if v ≥ GiB ∧ n % GiB = 0 then natDigits (n / GiB) ++ "GiB".toList
  else if v ≥ MiB ∧ n % MiB = 0 then natDigits (n / MiB) ++ "MiB".toList
  else if v ≥ KiB ∧ n % KiB = 0 then natDigits (n / KiB) ++ "KiB".toList
  else intDigits v ++ ['B']

end EdbVerif.Memory
