/-
Model of the access-policy read rewrite (C07):

* `edb/edgeql/compiler/policies.py::get_rewrite_filter`  → `rewriteFilter`
* `edb/edgeql/compiler/policies.py::has_own_policies`    → `hasOwn`
* `edb/edgeql/compiler/policies.py::try_type_rewrite`    → `entry`
  (one call = one entry of `env.type_rewrites`, keyed by `(type, skip_subtypes)`)
* `edb/pgsql/compiler/relctx.py::range_for_material_objtype` (how a key is
  read: through its rewrite if it has one, else the table / inheritance view
  directly) → `evalKey`.

The schema is given the way the real functions *read* it: every type carries
its stored `bases`, stored (strict) `ancestors`, `abstract` flag and its stored
access policies (own and inherited; an inherited policy object records the
subjects of its `bases`, which is what `has_own_policies(skip_from=…)` looks
at).  `children`/`descendants` are reverse look-ups, as in
`schema.get_children/get_descendants`.  The invariants tying those stored
fields together are spelled out in `Model/PolicySpec.lean` (`WF`) and are
checked on every real schema by the harness.

A policy condition is an opaque predicate: `CondId`, interpreted by a
valuation (`CondId → Bool` per object).

Core Lean only (no Mathlib): this file is loaded by the line-protocol driver.
-/
namespace EdbVerif.Policy

abbrev TypeId := Nat
abbrev CondId := Nat

/-- `qltypes.AccessKind` -/
inductive Kind where
  | select | updateRead | updateWrite | delete | insert
deriving DecidableEq, Repr

/-- What an `AccessPolicy` says (identical on the declaring type and on every
    type that inherits it). -/
structure Pol where
  name  : Nat
  allow : Bool            -- `action == Allow`
  kinds : List Kind       -- `access_kinds`
  cond  : CondId          -- `condition AND expr`, opaque
deriving DecidableEq, Repr

/-- One `AccessPolicy` object as stored on a type: the policy and the subjects
    of its `bases` (empty for a policy declared on the type itself). -/
structure PolRef where
  pol      : Pol
  subjects : List TypeId
deriving DecidableEq, Repr

structure TypeDecl where
  id        : TypeId
  bases     : List TypeId
  ancestors : List TypeId      -- stored strict ancestors
  abstract  : Bool
  material  : Bool             -- `is_material_object_type`: false for the view types of aliases and
                               -- computed globals, which are children/descendants of their base too
  pols      : List PolRef      -- `get_access_policies(schema)`, in its order
deriving DecidableEq, Repr

abbrev Schema := List TypeDecl

def find (sch : Schema) (t : TypeId) : Option TypeDecl := sch.find? (·.id == t)

def polRefs (sch : Schema) (t : TypeId) : List PolRef :=
  match find sch t with | some d => d.pols | none => []

/-- the policies in force on a type -/
def polsOf (sch : Schema) (t : TypeId) : List Pol := (polRefs sch t).map (·.pol)

def isAbstract (sch : Schema) (t : TypeId) : Bool :=
  match find sch t with | some d => d.abstract | none => false

def isMaterial (sch : Schema) (t : TypeId) : Bool :=
  match find sch t with | some d => d.material | none => false

def ancestorsOf (sch : Schema) (t : TypeId) : List TypeId :=
  match find sch t with | some d => d.ancestors | none => []

/-- `stype.children(schema)`: referrers through `bases` -/
def children (sch : Schema) (t : TypeId) : List TypeId :=
  (sch.filter (fun d => d.bases.contains t)).map (·.id)

/-- `stype.descendants(schema)`: referrers through `ancestors` (strict) -/
def descendants (sch : Schema) (t : TypeId) : List TypeId :=
  (sch.filter (fun d => d.ancestors.contains t)).map (·.id)

/-! ### The boolean formula built by `get_rewrite_filter` -/

inductive BExpr where
  | const (b : Bool)
  | cond  (c : CondId)                -- anchor of a compiled policy
  | or    (a b : BExpr)
  | and   (a b : BExpr)
  | not   (a : BExpr)
  | bogus                             -- `.id ?= <uuid>{}`: never true
deriving DecidableEq, Repr

def denote (ρ : CondId → Bool) : BExpr → Bool
  | .const b => b
  | .cond c  => ρ c
  | .or a b  => denote ρ a || denote ρ b
  | .and a b => denote ρ a && denote ρ b
  | .not a   => !denote ρ a
  | .bogus   => false

/-- `astutils.extend_binop(None, *exprs, op='OR')` on a non-empty list. -/
def orChain (e : BExpr) (es : List BExpr) : BExpr := es.foldl .or e

def applies (mode : Kind) (p : Pol) : Bool := p.kinds.contains mode

/-- allow part: `extend_binop(None, *allow, op='OR')`, or the constant `false`
    when no allow policy applies -/
def allowPart : List BExpr → BExpr
  | [] => .const false
  | a :: as => orChain a as

/-- `filter AND NOT (OR of denies)` when some deny policy applies -/
def denyPart (f : BExpr) : List BExpr → BExpr
  | [] => f
  | d :: ds => .and f (.not (orChain d ds))

/-- `get_rewrite_filter(stype, mode=…)` given `pols = get_access_policies(stype)`;
    `none` = "no filter" (the function returns `None`). -/
def rewriteFilter (mode : Kind) (pols : List Pol) : Option BExpr :=
  if pols.isEmpty then none else
  let ps    := pols.filter (applies mode)
  let allow := (ps.filter (·.allow)).map (fun p => BExpr.cond p.cond)
  let deny  := (ps.filter (fun p => !p.allow)).map (fun p => BExpr.cond p.cond)
  let f := denyPart (allowPart allow) deny
  some (if mode = .select then BExpr.or f .bogus else f)

/-- The decision the filter is meant to implement, for one object whose
    conditions evaluate as `ρ`: some applicable allow holds and no applicable
    deny holds.  (Only meaningful when the type has policies at all.) -/
def decision (mode : Kind) (pols : List Pol) (ρ : CondId → Bool) : Bool :=
  (pols.any fun p => applies mode p && p.allow && ρ p.cond) &&
  !(pols.any fun p => applies mode p && !p.allow && ρ p.cond)

/-! ### `has_own_policies` and `try_type_rewrite` -/

/-- `has_own_policies(stype=c, skip_from=s)`; the recursion goes to children,
    `fuel` bounds its depth (`sch.length` always suffices, see
    `Props/C07.lean`). -/
def hasOwn (sch : Schema) : Nat → TypeId → TypeId → Bool
  | 0, _, _ => false
  | n + 1, c, s =>
    (polRefs sch c).any (fun p => !p.subjects.contains s) ||
    (children sch c).any (fun g => hasOwn sch n g c)

/-- key of `type_rewrites`: `(stype, skip_subtypes)` -/
structure Key where
  ty   : TypeId
  skip : Bool
deriving DecidableEq, Repr

/-- What `try_type_rewrite` stores for a key. -/
inductive Entry where
  | none                         -- `None`: the relation is read as it is
  | filter (f : BExpr)           -- `select <relation of the key> filter f`
  | union (parts : List Key)     -- union of references to other keys
deriving DecidableEq, Repr

def dedup : List Nat → List Nat
  | [] => []
  | x :: xs => x :: (dedup xs).filter (· != x)

def childrenHavePolicies (sch : Schema) (k : Key) : Bool :=
  !k.skip && (children sch k.ty).any (fun c => hasOwn sch sch.length c k.ty)

/-- `[x for child in children for x in child.descendants()]` -/
def allDescs (sch : Schema) (t : TypeId) : List TypeId :=
  (children sch t).flatMap (descendants sch)

def hasDup : List Nat → Bool
  | [] => false
  | x :: xs => xs.contains x || hasDup xs

def childrenOverlap (sch : Schema) (k : Key) : Bool :=
  childrenHavePolicies sch k && hasDup (allDescs sch k.ty)

/-- `try_type_rewrite(stype, skip_subtypes)`: the entry stored for the key. -/
def entry (sch : Schema) (k : Key) : Entry :=
  let chp  := childrenHavePolicies sch k
  let pols := polsOf sch k.ty
  if pols.isEmpty && !chp then .none else
  if !chp then
    match rewriteFilter .select pols with
    | some f => .filter f
    | none   => .none
  else
    let own : List Key := if isAbstract sch k.ty then [] else [⟨k.ty, true⟩]
    let rest : List Key :=
      if childrenOverlap sch k then (dedup (allDescs sch k.ty)).map (fun d => ⟨d, true⟩)
      else (children sch k.ty).map (fun c => ⟨c, false⟩)
    .union (own ++ rest.filter (fun k' => isMaterial sch k'.ty))

/-! ### Reading a key -/

structure Obj where
  id : Nat
  ty : TypeId            -- concrete type
deriving DecidableEq, Repr

abbrev DB := List Obj

/-- objects stored in the relation of a key: the type's own table, or the
    inheritance view (the type and all its descendants) -/
def inScope (sch : Schema) (k : Key) (o : Obj) : Bool :=
  o.ty == k.ty || (!k.skip && (ancestorsOf sch o.ty).contains k.ty)

/-- What reading the key yields (a bag, as a list).  A key without rewrite is
    read raw; a filter keeps the objects of the key's own relation that satisfy
    the formula; a union concatenates what the referenced keys yield (each
    through its own rewrite).  `fuel` bounds the reference depth
    (`sch.length + 1` always suffices). -/
def evalKey (sch : Schema) (holds : CondId → Obj → Bool) (db : DB) : Nat → Key → List Obj
  | 0, _ => []
  | n + 1, k =>
    match entry sch k with
    | .none     => db.filter (inScope sch k)
    | .filter f => db.filter (fun o => inScope sch k o && denote (fun c => holds c o) f)
    | .union ks => ks.flatMap (fun k' => evalKey sch holds db n k')

/-- `select T` with policies in force -/
def selectType (sch : Schema) (holds : CondId → Obj → Bool) (db : DB) (t : TypeId) : List Obj :=
  evalKey sch holds db (sch.length + 1) ⟨t, false⟩

/-- The decision for one object: a type without any policy is unrestricted,
    otherwise the select-kind policies of the object's concrete type decide. -/
def visible (sch : Schema) (holds : CondId → Obj → Bool) (o : Obj) : Bool :=
  let pols := polsOf sch o.ty
  pols.isEmpty || decision .select pols (fun c => holds c o)

end EdbVerif.Policy
