/-
Model of the backend storage layout and of the storage DDL emitted for schema
changes (C05).

* `storageInfo` / `hasTableV` transcribe `edb/pgsql/types.py::
  get_pointer_storage_info` / `has_table` on the attributes those functions
  look at (`PView`).
* `layout : Schema → Catalog` is the set of tables and columns the query
  compiler will address for a schema (object tables, link / multi-property
  tables, pointer columns), names are id-based (`common.get_backend_name`).
* `emit : Schema → DDL → Option (Schema × List Op)` transcribes the decisions of
  `edb/pgsql/delta.py` (`CreateObjectType`, `DeleteObjectType`, `_create_link`,
  `_delete_link`, `_create_property`, `_delete_property`,
  `_alter_pointer_cardinality`, computed↔stored in `AlterLink/AlterProperty.
  _alter_innards`): which `CreateTable / DropTable / AlterTableAddColumn /
  AlterTableDropColumn` operations (with their `TableExists` / `ColumnExists`
  conditions) are produced for one elementary schema change.
* `exec` is the backend: it fails where PostgreSQL would (creating an existing
  table, dropping a missing column, …).

The model follows the code, including three behaviours that break the property
(see `Props/C05.lean`, `*_counterexample`).

Core Lean only: this file is loaded by the line-protocol driver.
-/
namespace EdbVerif.Storage

/-! ### Level 1: the decision functions of `pgsql/types.py` -/

/-- what `pointer.get_source(schema)` is -/
inductive SrcKind where
  | object   -- an ObjectType
  | link     -- a Link (the pointer is a link property)
  | scalar   -- a ScalarType (pseudo `__type__` link)
  | none_    -- no source: non-concrete (abstract) pointer
deriving Repr, DecidableEq

/-- the short-name classes `get_pointer_storage_info` distinguishes -/
inductive VName where
  | id | dunder | source | target | plain
deriving Repr, DecidableEq

/-- The attributes of a pointer that `get_pointer_storage_info` and `has_table`
    read.  `linkSingle` / `linkUserProps` are the attributes of the owning link
    (only read for the `@target` link property, which is normalised to the
    link itself). -/
structure PView where
  srcKind : SrcKind
  isLink : Bool              -- `Link` (else `Property`)
  name : VName
  single : Bool              -- `pointer.singular(schema)`
  userProps : Bool           -- `pointer.has_user_defined_properties(schema)`
  computed : Bool            -- `pointer.is_pure_computable(schema)`
  srcHasTable : Bool         -- `has_table(source)` (object source)
  linkSingle : Bool := true
  linkUserProps : Bool := false
  linkName : VName := .plain
deriving Repr, DecidableEq

inductive TableRef where
  | none      -- `table_name = None`
  | source    -- backend name of the pointer's source
  | self      -- backend name of the pointer itself
deriving Repr, DecidableEq

inductive ColRef where
  | none | shortname | byId | source | target
deriving Repr, DecidableEq

structure Info where
  table : TableRef
  isLinkTable : Bool          -- `table_type == 'link'` (else `'ObjectType'`)
  col : ColRef
deriving Repr, DecidableEq

/-- `_source_table_info`: column named by short name for `id` / `__…`, by id otherwise -/
def sourceCol (n : VName) : ColRef :=
  match n with
  | .id | .dunder => .shortname
  | _ => .byId

/-- the non-link-property branch of `get_pointer_storage_info` -/
def storagePlain (srcKind : SrcKind) (name : VName) (single userProps linkBias : Bool) : Option Info :=
  if srcKind = .scalar then some ⟨.none, false, .none⟩
  else if single && !linkBias then some ⟨.source, false, sourceCol name⟩        -- _pointer_storable_in_source
  else if !single || userProps then some ⟨.self, true, .target⟩                 -- _pointer_storable_in_pointer
  else none

/-- `get_pointer_storage_info(pointer, schema=…, link_bias=…)` (the
    `TupleIndirectionLink` arm, an IR-only pseudo pointer, is not modelled). -/
def storageInfo (v : PView) (linkBias : Bool) : Option Info :=
  if v.srcKind = .link then
    if v.name = .target then
      -- "Normalize link@target to link": the owning link, an object-level pointer
      storagePlain .object v.linkName v.linkSingle v.linkUserProps linkBias
    else
      some ⟨.source, true, if v.name = .source then .source else .byId⟩
  else storagePlain v.srcKind v.name v.single v.userProps linkBias

/-- `has_table(obj, schema)` for a pointer -/
def hasTableV (v : PView) : Bool :=
  if v.computed then false
  else if v.srcKind = .none_ then v.isLink           -- non-concrete: links only (`std::link` is not a user object)
  else if v.srcKind = .link then !v.single           -- link property
  else if !v.srcHasTable then false
  else match storagePlain v.srcKind v.name v.single v.userProps true with
    | some i => i.isLinkTable
    | none => false

/-! ### Names in the backend catalog -/

inductive TName where
  | obj (id : Nat)     -- `edgedbpub."<object type id>"`
  | ptr (id : Nat)     -- `edgedbpub."<pointer id>"`
deriving Repr, DecidableEq

inductive CName where
  | id
  | dunder (n : Nat)    -- a column named by a `__…` short name (0 = `__type__`)
  | source
  | target
  | col (id : Nat)      -- a column named by a pointer id
deriving Repr, DecidableEq

/-! ### Schema abstraction -/

/-- pointer short names: only the class matters for storage, the number stands
    for the actual string (renames change it) -/
inductive PName where
  | id
  | type_                 -- `__type__`
  | dunder (n : Nat)      -- any other name starting with `__`
  | plain (n : Nat)
deriving Repr, DecidableEq

inductive Kind where
  | link | prop
deriving Repr, DecidableEq

/-- link property short names.  The built-in `source` / `target` of a link are implicit in
    the model; a USER property can only carry one of these names on an abstract link
    without concrete descendants (the schema accepts it there), and the storage code
    special-cases the NAME, not the identity. -/
inductive LName where
  | source | target
  | other (n : Nat)
deriving Repr, DecidableEq

/-- a user link property (the built-in `source` / `target` are implicit) -/
structure LProp where
  id : Nat
  name : LName
  computed : Bool
deriving Repr, DecidableEq

/-- the column of a link property in the link table: `get_pointer_storage_info`, `is_lprop` arm
    (`'source'` by name, otherwise by id) -/
def LProp.col (lp : LProp) : CName :=
  match lp.name with
  | .source => .source
  | _ => .col lp.id

/-- `propname in {'source', 'target'}`: `_create_property` adds no column for these names on a link -/
def LProp.implicitName (lp : LProp) : Bool :=
  match lp.name with
  | .other _ => false
  | _ => true

/-- a link or property of an object type (`src = some t`) or an abstract one (`src = none`) -/
structure Ptr where
  id : Nat
  src : Option Nat
  kind : Kind
  name : PName
  single : Bool
  required : Bool
  computed : Bool
  lprops : List LProp
deriving Repr, DecidableEq

structure TypeDecl where
  id : Nat
  name : Nat
  abstract : Bool
  bases : List Nat
deriving Repr, DecidableEq

structure Schema where
  types : List TypeDecl := []
  ptrs : List Ptr := []
deriving Repr, DecidableEq

def Schema.typeIds (s : Schema) : List Nat := s.types.map (·.id)
def Schema.ptrIds (s : Schema) : List Nat := s.ptrs.map (·.id)
def Schema.findPtr (s : Schema) (i : Nat) : Option Ptr := s.ptrs.find? (fun p => p.id == i)
def Schema.updPtr (s : Schema) (i : Nat) (f : Ptr → Ptr) : Schema :=
  { s with ptrs := s.ptrs.map (fun q => if q.id = i then f q else q) }
def Schema.updType (s : Schema) (t : Nat) (f : TypeDecl → TypeDecl) : Schema :=
  { s with types := s.types.map (fun d => if d.id = t then f d else d) }
/-- is the name taken among the pointers with the same source -/
def Schema.nameUsed (s : Schema) (src : Option Nat) (nm : PName) : Bool :=
  s.ptrs.any (fun q => q.src == src && q.name == nm)

/-! ### Catalog -/

structure Catalog where
  tables : List TName := []
  cols : List (TName × CName) := []
deriving Repr, DecidableEq

/-- same tables, same columns -/
def Catalog.Equiv (a b : Catalog) : Prop :=
  (∀ t, t ∈ a.tables ↔ t ∈ b.tables) ∧ (∀ x, x ∈ a.cols ↔ x ∈ b.cols)

/-! ### Layout: what the query compiler addresses -/

/-- `_source_table_info`'s column name -/
def colOf (nm : PName) (id : Nat) : CName :=
  match nm with
  | .id => .id
  | .type_ => .dunder 0
  | .dunder n => .dunder (n + 1)
  | .plain _ => .col id

def PName.view : PName → VName
  | .id => .id
  | .type_ => .dunder
  | .dunder _ => .dunder
  | .plain _ => .plain

/-- `has_user_defined_properties`: a stored, non-special link property exists -/
def Ptr.userProps (p : Ptr) : Bool := p.lprops.any (fun lp => !lp.computed)

/-- the level-1 view of an object-level pointer (every user object type has a table) -/
def Ptr.view (p : Ptr) : PView :=
  { srcKind := if p.src.isSome then .object else .none_, isLink := p.kind == .link,
    name := p.name.view, single := p.single, userProps := p.userProps,
    computed := p.computed, srcHasTable := true }

/-- `has_table(ptr)` -/
def Ptr.hasTable (p : Ptr) : Bool :=
  !p.computed &&
    (match p.src with
     | none => p.kind == .link
     | some _ => !p.single || p.userProps)

/-- the column of a stored single pointer in its source's table
    (`__type__` is never stored: `_create_link` returns before adding it) -/
def Ptr.srcCol (p : Ptr) : Option (TName × CName) :=
  match p.src with
  | some t => if !p.computed && p.single && p.name != .type_ then some (.obj t, colOf p.name p.id) else none
  | none => none

def Ptr.lpropCols (p : Ptr) : List CName :=
  (p.lprops.filter (fun lp => !lp.computed)).map LProp.col

def ptrTables (p : Ptr) : List TName := if p.hasTable then [.ptr p.id] else []

def ptrCols (p : Ptr) : List (TName × CName) :=
  p.srcCol.toList ++
    (if p.hasTable then
      (.ptr p.id, .source) :: (.ptr p.id, .target) :: p.lpropCols.map (fun c => (TName.ptr p.id, c))
     else [])

def layout (s : Schema) : Catalog :=
  { tables := s.types.map (fun d => .obj d.id) ++ s.ptrs.flatMap ptrTables,
    cols := s.ptrs.flatMap ptrCols }

/-! ### Backend operations -/

inductive Op where
  | createTable (t : TName) (cols : List CName) (ifNotExists : Bool)
  | dropTable (t : TName) (ifExists : Bool)
  | addCol (t : TName) (c : CName) (ifNotExists : Bool)
  | dropCol (t : TName) (c : CName)
deriving Repr, DecidableEq

/-- one operation on the backend; `none` = PostgreSQL raises -/
def exec (c : Catalog) : Op → Option Catalog
  | .createTable t cs ine =>
    if t ∈ c.tables then (if ine then some c else none)
    else some { tables := t :: c.tables, cols := cs.map (fun x => (t, x)) ++ c.cols }
  | .dropTable t ie =>
    if t ∈ c.tables then
      some { tables := c.tables.filter (fun u => u ≠ t), cols := c.cols.filter (fun x => x.1 ≠ t) }
    else (if ie then some c else none)
  | .addCol t x ine =>
    if (t, x) ∈ c.cols then (if ine then some c else none)
    else if t ∈ c.tables then some { c with cols := (t, x) :: c.cols }
    else none
  | .dropCol t x =>
    if (t, x) ∈ c.cols then some { c with cols := c.cols.filter (fun y => y ≠ (t, x)) }
    else none

def execAll (c : Catalog) : List Op → Option Catalog
  | [] => some c
  | o :: os => match exec c o with
    | some c' => execAll c' os
    | none => none

/-! ### DDL alphabet and the emitted operations -/

inductive DDL where
  | createType (t name : Nat) (abstract : Bool)
  | dropType (t : Nat)
  | renameType (t name : Nat)
  | setAbstract (t : Nat) (b : Bool)
  | setBases (t : Nat) (bs : List Nat)
  | createPtr (p : Ptr)                       -- without link properties (they are added one by one)
  | dropPtr (i : Nat)
  | renamePtr (i : Nat) (nm : PName)
  | setSingle (i : Nat) (b : Bool)            -- single ↔ multi
  | setRequired (i : Nat) (b : Bool)
  | setExpr (i : Nat) (single : Bool)         -- stored → computed (cardinality inferred from the expression)
  | resetExpr (i : Nat)                       -- computed → stored
  | addLProp (i : Nat) (lp : LProp)
  | dropLProp (i lp : Nat)
  | renameLProp (i lp : Nat) (name : LName)
  | setLPropComputed (i lp : Nat) (b : Bool)
deriving Repr, DecidableEq

def linkTableCols : List CName := [.source, .target]

def Ptr.mapLProp (q : Ptr) (lpid : Nat) (f : LProp → LProp) : Ptr :=
  { q with lprops := q.lprops.map (fun l => if l.id = lpid then f l else l) }

/-- ops of `_create_link` / `_create_property` for a pointer as it is in the new schema -/
def createOps (p : Ptr) : List Op :=
  (if p.hasTable then [Op.createTable (.ptr p.id) linkTableCols true] else []) ++
  (match p.srcCol with
   | some (t, c) => [Op.addCol t c false]
   | none => [])

/-- `DropTable` of a pointer table: links use `conditions=[TableExists]`, properties do not -/
def dropPtrTable (p : Ptr) : Op := .dropTable (.ptr p.id) (p.kind == .link)

/-- `_create_property` on a link source: the link table is created (unconditionally) when the
    link did not have one, then the column is added — unless the property is NAMED
    `source` / `target` (`skip`) -/
def lpropStoreOps (p p' : Ptr) (col : CName) (skip : Bool) : List Op :=
  if p'.hasTable then
    (if !p.hasTable then [Op.createTable (.ptr p.id) linkTableCols false] else []) ++
      (if skip then [] else [Op.addCol (.ptr p.id) col false])
  else []

/-- `_delete_property` on a link source -/
def lpropUnstoreOps (p p' : Ptr) (col : CName) : List Op :=
  if p'.hasTable then [Op.dropCol (.ptr p.id) col]
  else if p.hasTable then [Op.dropTable (.ptr p.id) false]
  else []

/-- One elementary schema change: the new schema and the storage operations the
    pgsql delta emits for it; `none` = not applicable (rejected). -/
def emit (s : Schema) : DDL → Option (Schema × List Op)
  | .createType t name ab =>
    if t ∈ s.typeIds then none
    else some ({ s with types := s.types ++ [⟨t, name, ab, []⟩] }, [.createTable (.obj t) [] false])
  | .dropType t =>
    if t ∈ s.typeIds then
      some ({ types := s.types.filter (fun d => d.id ≠ t), ptrs := s.ptrs.filter (fun p => p.src ≠ some t) },
            ((s.ptrs.filter (fun p => p.src = some t)).filter (·.hasTable)).map dropPtrTable
              ++ [.dropTable (.obj t) false])
    else none
  | .renameType t name =>
    if t ∈ s.typeIds then some (s.updType t (fun d => { d with name := name }), []) else none
  | .setAbstract t b =>
    if t ∈ s.typeIds then some (s.updType t (fun d => { d with abstract := b }), []) else none
  | .setBases t bs =>
    if t ∈ s.typeIds then some (s.updType t (fun d => { d with bases := bs }), []) else none
  | .createPtr p =>
    if p.id ∈ s.ptrIds || s.nameUsed p.src p.name || !p.lprops.isEmpty then none
    else if (match p.src with | some t => !(t ∈ s.typeIds) | none => !p.single) then none
    else some ({ s with ptrs := s.ptrs ++ [p] }, createOps p)
  | .dropPtr i =>
    match s.findPtr i with
    | none => none
    | some p =>
      some ({ s with ptrs := s.ptrs.filter (fun q => q.id ≠ i) },
            (match p.srcCol with
             | some (t, c) => [Op.dropCol t c]
             | none => []) ++ (if p.hasTable then [dropPtrTable p] else []))
  | .renamePtr i nm =>
    match s.findPtr i with
    | none => none
    | some p =>
      -- `__type__` is a keyword: it can neither be renamed nor be the target of a rename
      if s.nameUsed p.src nm || p.name == .type_ || nm == .type_ then none
      else some (s.updPtr i (fun q => { q with name := nm }), [])
  | .setSingle i b =>
    match s.findPtr i with
    | none => none
    | some p =>
      match p.src with
      | none => none
      | some t =>
        let p' := { p with single := b }
        let s' := s.updPtr i (fun q => { q with single := b })
        if p.name = .type_ then none
        else if p.single = b || p.computed then some (s', [])
        else if b then
          -- multi → single: `_alter_pointer_cardinality`, "moving from pointer table to source table"
          some (s', [Op.addCol (.obj t) (colOf p.name p.id) true] ++
                    (if !p'.hasTable then [Op.dropTable (.ptr p.id) true] else []))
        else
          -- single → multi: "moving from source table to pointer table"
          some (s', (if p'.hasTable then [Op.createTable (.ptr p.id) linkTableCols true] else []) ++
                    [Op.dropCol (.obj t) (colOf p.name p.id)])
  | .setRequired i b =>
    match s.findPtr i with
    | none => none
    | some _ => some (s.updPtr i (fun q => { q with required := b }), [])
  | .setExpr i single' =>
    match s.findPtr i with
    | none => none
    | some p =>
      match p.src with
      | none => none
      | some t =>
        if p.computed || p.name == .type_ then none
        else
          let s' := s.updPtr i (fun q => { q with computed := true, single := single' })
          match p.kind with
          | .link =>
            -- `_delete_link(link, schema, orig_schema)`: storage info of the ORIGINAL schema
            some (s', (match p.srcCol with
                       | some (t, c) => [Op.dropCol t c]
                       | none => []) ++ (if p.hasTable then [dropPtrTable p] else []))
          | .prop =>
            -- `_delete_property(prop, …, schema, orig_schema)`: storage info of the NEW schema
            some (s', (if single' then [Op.dropCol (.obj t) (colOf p.name p.id)] else []) ++
                      (if p.hasTable then [dropPtrTable p] else []))
  | .resetExpr i =>
    match s.findPtr i with
    | none => none
    | some p =>
      match p.src with
      | none => none
      | some _ =>
        if !p.computed || p.name == .type_ then none
        else
          -- `_create_link` / `_create_property` on the now stored pointer; the link table is
          -- created with `source`, `target` only
          some (s.updPtr i (fun q => { q with computed := false }), createOps { p with computed := false })
  | .addLProp i lp =>
    match s.findPtr i with
    | none => none
    | some p =>
      if p.kind != .link || lp.id ∈ p.lprops.map (·.id) then none
      else
        let p' := { p with lprops := p.lprops ++ [lp] }
        some (s.updPtr i (fun q => { q with lprops := q.lprops ++ [lp] }),
              if lp.computed then [] else lpropStoreOps p p' lp.col lp.implicitName)
  | .dropLProp i lpid =>
    match s.findPtr i with
    | none => none
    | some p =>
      match p.lprops.find? (fun lp => lp.id == lpid) with
      | none => none
      | some lp =>
        let p' := { p with lprops := p.lprops.filter (fun l => l.id ≠ lpid) }
        some (s.updPtr i (fun q => { q with lprops := q.lprops.filter (fun l => l.id ≠ lpid) }),
              if lp.computed then [] else lpropUnstoreOps p p' lp.col)
  | .renameLProp i lpid name =>
    match s.findPtr i with
    | none => none
    | some p =>
      if lpid ∈ p.lprops.map (·.id) then
        some (s.updPtr i (fun q => q.mapLProp lpid (fun l => { l with name := name })), [])
      else none
  | .setLPropComputed i lpid b =>
    match s.findPtr i with
    | none => none
    | some p =>
      match p.lprops.find? (fun lp => lp.id == lpid) with
      | none => none
      | some lp =>
        let upd := fun (q : Ptr) => q.mapLProp lpid (fun l => { l with computed := b })
        let s' := s.updPtr i upd
        if lp.computed = b then some (s', [])
        else if b then some (s', lpropUnstoreOps p (upd p) lp.col)
        else some (s', lpropStoreOps p (upd p) lp.col lp.implicitName)

/-! ### The machine -/

structure State where
  schema : Schema := {}
  catalog : Catalog := {}
deriving Repr, DecidableEq

inductive Err where
  | rejected      -- the schema layer does not accept the command
  | backend       -- an emitted operation fails on the backend
deriving Repr, DecidableEq

def stepDDL (st : State) (d : DDL) : Except Err State :=
  match emit st.schema d with
  | none => .error .rejected
  | some (s', ops) =>
    match execAll st.catalog ops with
    | none => .error .backend
    | some c' => .ok ⟨s', c'⟩

def run (st : State) : List DDL → Except Err State
  | [] => .ok st
  | d :: ds => match stepDDL st d with
    | .ok st' => run st' ds
    | .error e => .error e

/-- the link property `lpid` of pointer `i` (if any) is not named `source` / `target` -/
def Schema.lpropPlain (s : Schema) (i lpid : Nat) : Bool :=
  match s.findPtr i with
  | some p => (p.lprops.filter (fun l => l.id == lpid)).all (fun l => !l.implicitName)
  | none => true

/-- The four guards under which the property holds (each excludes one behaviour
    of the real code that breaks it):
    * a rename keeps the column key (no plain ↔ `__…` renames);
    * a property made computed keeps its cardinality;
    * a link made stored again has no stored link properties;
    * no user link property is named `source` / `target` (only an abstract link can get one). -/
def safeStep (s : Schema) : DDL → Bool
  | .renamePtr i nm =>
    match s.findPtr i with
    | some p => colOf p.name p.id == colOf nm p.id
    | none => true
  | .setExpr i single' =>
    match s.findPtr i with
    | some p => p.kind == .link || p.single == single'
    | none => true
  | .resetExpr i =>
    match s.findPtr i with
    | some p => !p.userProps
    | none => true
  | .addLProp _ lp => !lp.implicitName
  | .renameLProp i lpid nm =>
    (match nm with | .other _ => true | _ => false) && s.lpropPlain i lpid
  | .dropLProp i lpid => s.lpropPlain i lpid
  | .setLPropComputed i lpid _ => s.lpropPlain i lpid
  | _ => true

def safeRun (st : State) : List DDL → Bool
  | [] => true
  | d :: ds => safeStep st.schema d &&
    (match stepDDL st d with
     | .ok st' => safeRun st' ds
     | .error _ => true)

end EdbVerif.Storage
