/-
C12 — model of the type-level machinery of the EdgeQL compiler.

* `castDistS`    — `edb/schema/casts.py::_is_reachable / get_implicit_cast_distance`
* `commonS`      — `edb/schema/casts.py::find_common_castable_type` (set valued: every result
                   the real function can return under SOME iteration order of its `set`s)
* `castDist`, `implCastable`, `commonType`
                 — `Type.get_implicit_cast_distance / implicitly_castable_to /
                   find_common_implicitly_castable_type` of `ScalarType`, `Tuple`, `Array`,
                   `ObjectType` (flat object schema) in `edb/schema/{types,scalars,objtypes}.py`
* `argDist`, `bindCand`, `findCallable`
                 — `edb/edgeql/compiler/polyres.py::_get_cast_distance / try_bind_call_args /
                   find_callable` for positional, default-free parameters
* `resolveOp`, `resolveFn`
                 — the selection logic of `func.py::compile_operator / compile_FunctionCall`
                   (derived operators, tuple/array special case with `validate_recursive_operator`,
                   abstract filter, exactly-one rule)

The tables (`Scalar`, `implicitEdges`, `ancestors`, `overloads`, …) are GENERATED from the real
std schema on every run (`EdbVerif/Gen/Types.lean`).  Core Lean only.
-/
import EdbVerif.Gen.Types

namespace EdbVerif.Types
open EdbVerif.Gen.Types

/-! ## Concrete types -/

/-- Scalar types: the generated std scalars, user-defined scalars and enums.
    `derived chain s` is a user scalar: `chain` = its own id followed by the ids of its user-defined
    ancestors (`scalar type posint extending myint` is `derived [posint, myint] int64`), `s` its
    topmost concrete base (`get_topmost_concrete_base`).  An enum is its own concrete base. -/
inductive Sc where
  | base (s : Scalar)
  | derived (chain : List Nat) (s : Scalar)
  | enum (n : Nat)
  deriving DecidableEq, Repr, Inhabited

/-- `get_topmost_concrete_base` when it is a std scalar (`none` for an enum: it is its own base) -/
def Sc.top : Sc → Option Scalar
  | .base s => some s
  | .derived _ s => some s
  | .enum _ => none

/-- Concrete (non-polymorphic) types of the calculus.  Tuples are unnamed; `obj n` is the
    n-th object type of a flat (inheritance-free) user schema. -/
inductive Ty where
  | scalar (s : Sc)
  | obj (n : Nat)
  | tuple (ts : List Ty)
  | array (t : Ty)
  deriving Repr, Inhabited

mutual
def Ty.beq : Ty → Ty → Bool
  | .scalar a, .scalar b => a == b
  | .obj a, .obj b => a == b
  | .tuple as, .tuple bs => Ty.beqL as bs
  | .array a, .array b => Ty.beq a b
  | _, _ => false
def Ty.beqL : List Ty → List Ty → Bool
  | [], [] => true
  | a :: as, b :: bs => Ty.beq a b && Ty.beqL as bs
  | _, _ => false
end

instance : BEq Ty := ⟨Ty.beq⟩

def Ty.isTuple : Ty → Bool
  | .tuple _ => true
  | _ => false

def Ty.isArray : Ty → Bool
  | .array _ => true
  | _ => false

/-! ## Scalars: the implicit-cast graph -/

/-- sources of the implicit casts into `t` (`schema.get_casts_to_type(t, implicit=True)`) -/
def preds (t : Scalar) : List Scalar :=
  implicitEdges.filterMap fun e => if e.2 = t then some e.1 else none

/-- targets of the implicit casts out of `s`, duplicates removed (the real code builds a `set`) -/
def succs (s : Scalar) : List Scalar :=
  (implicitEdges.filterMap fun e => if e.1 = s then some e.2 else none).eraseDups

def minOpt : List (Option Nat) → Option Nat
  | [] => none
  | none :: r => minOpt r
  | some a :: r => match minOpt r with
    | none => some a
    | some b => some (min a b)

/-- `_is_reachable(source, target)` with the accumulated distance factored out: length of the
    shortest implicit-cast path.  `fuel` bounds the recursion depth (the real function has no
    bound and does not terminate on a cyclic cast graph; `Gen` tables are checked acyclic). -/
def reach : Nat → Scalar → Scalar → Option Nat
  | 0, s, t => if s = t then some 0 else none
  | fuel + 1, s, t =>
    if s = t then some 0
    else if (preds t).contains s then some 1
    else minOpt ((preds t).map fun p => (reach fuel s p).map (· + 1))

def scalarFuel : Nat := Scalar.all.length

/-- `casts.get_implicit_cast_distance` (`none` = −1) -/
def castDistS (a b : Scalar) : Option Nat := reach scalarFuel a b

def castableS (a b : Scalar) : Bool := (castDistS a b).isSome

/-- The loop of `find_common_castable_type`, all iteration orders at once.  When `target` has
    several outgoing casts the real code returns the first non-`None` recursive result in the
    iteration order of a `set`; the possible results are therefore the union over the
    successors. -/
def climb : Nat → Scalar → Scalar → List Scalar
  | 0, _, _ => []
  | fuel + 1, src, tgt =>
    match succs tgt with
    | [] => []
    | [t] => if castableS src t then [t] else climb fuel src t
    | ts => (ts.flatMap fun t =>
              if castableS t src then [src]
              else if castableS src t then [t]
              else climb fuel src t).eraseDups

/-- every value `find_common_castable_type(schema, a, b)` may return (`[]` = `None`) -/
def commonS (a b : Scalar) : List Scalar :=
  if castableS b a then [a]
  else if castableS a b then [b]
  else climb scalarFuel a b

/-- `ScalarType.find_common_implicitly_castable_type` (with the table order as set order) -/
def commonScalar (a b : Scalar) : Option Scalar := (commonS a b).head?

/-! ## Scalars with user-defined derivations

`ScalarType.get_implicit_cast_distance / implicitly_castable_to /
find_common_implicitly_castable_type` all work on the topmost concrete bases of the two scalars:
a derived scalar is interchangeable with its base for implicit casts, and the common type of two
scalars with the same concrete base is THAT BASE (`if left == right: return schema, left`) — also
when the two scalars are the same derived scalar. -/

def castDistSc (a b : Sc) : Option Nat :=
  match a.top, b.top with
  | some x, some y => castDistS x y
  | none, none => if a = b then some 0 else none
  | _, _ => none

def castableSc (a b : Sc) : Bool := (castDistSc a b).isSome

def commonSc (a b : Sc) : Option Sc :=
  match a.top, b.top with
  | some x, some y => (commonScalar x y).map .base
  | none, none => if a = b then some a else none
  | _, _ => none

/-- `get_ancestors` restricted to abstract scalars -/
def Sc.absAnc : Sc → List Abs
  | .base s => ancestors s
  | .derived _ s => ancestors s
  | .enum _ => [.anyenum, .anyscalar]

/-- number of user-defined / concrete ancestors in front of the abstract ones -/
def Sc.depth : Sc → Nat
  | .base _ => 0
  | .derived c _ => c.length
  | .enum _ => 0

/-! ## Types: distance, castability, common type -/

mutual
/-- `Type.get_implicit_cast_distance` (`none` = −1).  Object types inherit the default −1;
    the subclass test is made by the caller (`argDist`). -/
def castDist : Ty → Ty → Option Nat
  | .scalar a, .scalar b => castDistSc a b
  | .tuple as, .tuple bs => castDistL as bs
  | .array a, .array b => castDist a b
  | _, _ => none
def castDistL : List Ty → List Ty → Option Nat
  | [], [] => some 0
  | a :: as, b :: bs =>
    match castDist a b, castDistL as bs with
    | some d, some r => some (d + r)
    | _, _ => none
  | _, _ => none
end

mutual
/-- `Type.implicitly_castable_to` -/
def implCastable : Ty → Ty → Bool
  | .scalar a, .scalar b => castableSc a b
  | .obj a, .obj b => a == b
  | .tuple as, .tuple bs => implCastableL as bs
  | .array a, .array b => implCastable a b
  | _, _ => false
def implCastableL : List Ty → List Ty → Bool
  | [], [] => true
  | a :: as, b :: bs => implCastable a b && implCastableL as bs
  | _, _ => false
end

mutual
/-- `Type.find_common_implicitly_castable_type`.  Tuples and arrays return `self` when the two
    types are equal (`if self == other: return self`); scalars have no such shortcut. -/
def commonType : Ty → Ty → Option Ty
  | .scalar a, .scalar b => (commonSc a b).map .scalar
  | .obj a, .obj b => if a == b then some (.obj a) else none
  | .tuple as, .tuple bs =>
    if Ty.beqL as bs then some (.tuple as) else (commonTypeL as bs).map .tuple
  | .array a, .array b =>
    if Ty.beq a b then some (.array a) else (commonType a b).map .array
  | _, _ => none
def commonTypeL : List Ty → List Ty → Option (List Ty)
  | [], [] => some []
  | a :: as, b :: bs =>
    match commonType a b, commonTypeL as bs with
    | some c, some cs => some (c :: cs)
    | _, _ => none
  | _, _ => none
end

/-! ## Polymorphic signatures -/

mutual
def isPoly : PTy → Bool
  | .abs _ => true
  | .anytype => true
  | .anytuple => true
  | .anyobject => true
  | .array e => isPoly e
  | .tuple es => isPolyL es
  | _ => false
def isPolyL : List PTy → Bool
  | [] => false
  | e :: es => isPoly e || isPolyL es
end

mutual
/-- the concrete type denoted by a non-polymorphic signature type -/
def concrete : PTy → Option Ty
  | .scalar s => some (.scalar (.base s))
  | .array e => (concrete e).map .array
  | .tuple es => (concreteL es).map .tuple
  | _ => none
def concreteL : List PTy → Option (List Ty)
  | [] => some []
  | e :: es =>
    match concrete e, concreteL es with
    | some t, some ts => some (t :: ts)
    | _, _ => none
end

def isSubAbs (s : Sc) (a : Abs) : Bool := s.absAnc.contains a

/-- `arg.test_polymorphic(param)` for a polymorphic `param` -/
def testPoly : Ty → PTy → Bool
  | _, .anytype => true
  | .obj _, .anyobject => true
  | .scalar s, .abs a => isSubAbs s a
  | .tuple _, .anytuple => true
  | .array e, .array p => testPoly e p
  | _, _ => false

/-- `param.resolve_polymorphic(arg)` -/
def resolvePoly : PTy → Ty → Option Ty
  | .anytype, t => some t
  | .anytuple, .tuple ts => some (.tuple ts)
  | .anyobject, .obj n => some (.obj n)
  | .abs _, .scalar s => some (.scalar s)
  | .array p, .array e => if isPoly p then resolvePoly p e else none
  | _, _ => none

mutual
/-- `ptype.to_nonpolymorphic(base)` for polymorphic `ptype`, the type itself otherwise
    (`none`: the real code raises) -/
def inst (base : Ty) : PTy → Option Ty
  | .anytype => some base
  | .anytuple => some base
  | .anyobject => some base
  | .abs a => match base with
    | .scalar s => if isSubAbs s a then some base else none
    | _ => none
  | .array e =>
    if isPoly e then (if base.isArray then none else some (.array base))
    else (concrete e).map .array
  | .tuple es => (instL base es).map .tuple
  | .scalar s => some (.scalar (.base s))
  | .baseObject => none
  | .unsupported => none
def instL (base : Ty) : List PTy → Option (List Ty)
  | [] => some []
  | e :: es =>
    match inst base e, instL base es with
    | some t, some ts => some (t :: ts)
    | _, _ => none
end

/-- `arg.issubclass(param)` for a non-polymorphic `param` -/
def subclassOf (arg : Ty) (p : PTy) : Bool :=
  match arg, p with
  | .obj _, .baseObject => true
  | .scalar s, .scalar q => s.top == some q
  | _, _ => match concrete p with
    | some t => arg == t
    | none => false

def maxTypeDistance : Nat := 1000000000

/-- `_get_cast_distance`: distance and the updated `resolved_poly_base_type`; `none` = −1 -/
def argDist (abstract : Bool) (base : Option Ty) (arg : Ty) (p : PTy) : Option (Nat × Option Ty) :=
  if isPoly p then
    if testPoly arg p then
      match resolvePoly p arg with
      | none => none
      | some r =>
        let d := if abstract then maxTypeDistance else 0
        match base with
        | none => some (d, some r)
        | some b =>
          if b == r then some (d, some b)
          else match commonType b r with
            | some ct => some (d, some ct)
            | none => none
    else none
  else if subclassOf arg p then some (0, base)
  else match concrete p with
    | some t => (castDist arg t).map fun d => (d, base)
    | none => none

/-- binding of the positional arguments, left to right -/
def bindArgs (abstract : Bool) : Option Ty → List Ty → List PTy → Option (Nat × Option Ty)
  | base, [], [] => some (0, base)
  | base, a :: as, p :: ps =>
    match argDist abstract base a p with
    | none => none
    | some (d, base') =>
      match bindArgs abstract base' as ps with
      | none => none
      | some (r, base'') => some (d + r, base'')
  | _, _, _ => none

/-- position (1-based) of the first element of `l` that is in `m`; −1 when there is none -/
def firstCommon (l m : List Abs) : Int :=
  match l.findIdx? (fun a => m.contains a) with
  | some i => (i : Int) + 1
  | none => -1

mutual
/-- `valtype.get_common_parent_type_distance(paramtype)` -/
def typeDist : Ty → PTy → Int
  | .scalar _, .anytype => maxTypeDistance
  | .scalar s, .scalar s' =>
    if s = .base s' then 0
    else if s.top = some s' then s.depth
    else
      let k := firstCommon s.absAnc (ancestors s')
      if k < 0 then -1 else s.depth + k
  | .scalar s, .abs a =>
    let k := firstCommon s.absAnc (a :: absAncestors a)
    if k < 0 then -1 else s.depth + k
  | .obj _, .anytype => maxTypeDistance
  | .obj _, .baseObject => 2
  | .array _, .anytype => 1
  | .array e, .array p => typeDist e p
  | .tuple _, .anytype => 1
  | .tuple ts, .tuple ps => typeDistL ts ps
  | _, _ => -1
def typeDistL : List Ty → List PTy → Int
  | t :: ts, p :: ps =>
    let d := typeDist t p
    let r := typeDistL ts ps
    if d < 0 || r < 0 then -1 else d + r
  | _, _ => 0
end

/-- a successfully bound overload (`polyres.BoundCall`) -/
structure Bound where
  cand : Callable
  dist : Nat
  ret : Ty
  ptys : List Ty         -- parameter types after `to_nonpolymorphic` (arguments are cast to these)
  tdist : Int            -- Σ get_common_parent_type_distance, used by the tie rule
  deriving Repr, Inhabited

def sumInt : List Int → Int
  | [] => 0
  | x :: xs => x + sumInt xs

/-- the types the arguments are cast to by `finalize_args`: the parameter types after
    `to_nonpolymorphic`; an object argument of a `BaseObject` parameter stays as it is -/
def instArgs (base : Ty) : List Ty → List PTy → Option (List Ty)
  | [], [] => some []
  | a :: as, p :: ps =>
    let t? := match p with
      | .baseObject => some a
      | _ => inst base p
    match t?, instArgs base as ps with
    | some t, some ts => some (t :: ts)
    | _, _ => none
  | _, _ => none

/-- `try_bind_call_args` for positional default-free parameters -/
def bindCand (c : Callable) (args : List Ty) : Option Bound :=
  let ps := c.params.map (·.2)
  match bindArgs c.abstract none args ps with
  | none => none
  | some (d, base) =>
    let b := base.getD (.tuple [])
    let ret? := if isPoly c.ret then (match base with
                                       | some b => inst b c.ret
                                       | none => none)
                else concrete c.ret
    match ret?, instArgs b args ps with
    | some r, some ptys =>
      some { cand := c, dist := d, ret := r, ptys := ptys,
             tdist := sumInt ((args.zip ps).map fun ap => typeDist ap.1 ap.2) }
    | _, _ => none

/-- keep the elements with the minimal key, in order (`matched` / `remaining` loops) -/
def keepMin {α} (key : α → Int) : List α → List α
  | [] => []
  | x :: xs =>
    let r := keepMin key xs
    match r with
    | [] => [x]
    | y :: _ =>
      if key x < key y then [x]
      else if key x = key y then x :: r
      else r

/-- `polyres.find_callable` -/
def findCallable (cands : List Callable) (args : List Ty) : List Bound :=
  let bound := cands.filterMap (bindCand · args)
  let m := keepMin (fun b => (b.dist : Int)) bound
  if m.length ≤ 1 then m else keepMin (·.tdist) m

mutual
/-- `func.validate_recursive_operator` -/
def validateRec (opers : List Callable) : Ty → Ty → List Bound
  | .tuple ls, .tuple rs => validateRecL opers ls rs []
  | .array l, .array r => validateRec opers l r
  | l, r => findCallable opers [l, r]
def validateRecL (opers : List Callable) : List Ty → List Ty → List Bound → List Bound
  | l :: ls, r :: rs, _ =>
    let m := validateRec opers l r
    if m.length != 1 then m else validateRecL opers ls rs m
  | _, _, acc => acc
end

def pIsTuple : PTy → Bool
  | .tuple _ => true
  | .anytuple => true
  | _ => false

def pIsArray : PTy → Bool
  | .array _ => true
  | _ => false

/-- outcome of a resolution -/
inductive Res where
  | ok (b : Bound)
  | noMatch
  | ambiguous (n : Nat)
  deriving Repr, Inhabited

def pick : List Bound → Res
  | [] => .noMatch
  | [b] => .ok b
  | l => .ambiguous l.length

/-- the candidate-selection part of `compile_operator` -/
def matchOp (opers : List Callable) (args : List Ty) : List Bound :=
  let special : Option (List Bound) :=
    match args with
    | [a, b] =>
      let coll :=
        if a.isTuple && b.isTuple then opers.filter fun o => o.params.all fun p => pIsTuple p.2
        else if a.isArray && b.isArray then opers.filter fun o => o.params.all fun p => pIsArray p.2
        else []
      match coll with
      | [] => none
      | c :: _ =>
        let matched := findCallable coll args
        if c.recursive then
          let sub := validateRec opers a b
          if sub.length != 1 then some sub else some matched
        else some matched
    | _ => none
  let matched := match special with
    | some m => m
    | none => findCallable opers args
  matched.filter fun b => !b.cand.abstract

def operOverloads (f : Fn) : List Callable :=
  match derivOf f with
  | some o => overloads o
  | none => overloads f

/-- `compile_operator`: which overload an operator call resolves to -/
def resolveOp (f : Fn) (args : List Ty) : Res := pick (matchOp (operOverloads f) args)

/-- `compile_FunctionCall`: which overload a function call resolves to -/
def resolveFn (f : Fn) (args : List Ty) : Res := pick (findCallable (overloads f) args)

def isFunction (f : Fn) : Bool :=
  match overloads f with
  | c :: _ => c.kind == "function"
  | [] => false

def resolve (f : Fn) (args : List Ty) : Res :=
  if isFunction f then resolveFn f args else resolveOp f args

def Res.ret? : Res → Option Ty
  | .ok b => some b.ret
  | _ => none

end EdbVerif.Types
