/-
Model of `edb/common/topological.py::sort_ex` (C20, reused by C11/C02).

The graph is given in *iteration order* (Python dict order for the keys, set
iteration order for the four edge sets): the real function's result depends on
it, so it is part of the input.  Keys are `Nat`.

Core Lean only (no Mathlib): this file is also loaded by the line-protocol
driver.
-/
namespace EdbVerif.Topo

/-- One `DepGraphEntry`, edge sets in iteration order.  `merge = none` models
    `merge is None`. -/
structure Entry where
  key   : Nat
  weak  : List Nat := []
  merge : List Nat := []
  deps  : List Nat := []
  ctrl  : List Nat := []
deriving Repr, DecidableEq

abbrev Graph := List Entry

def Graph.keys (g : Graph) : List Nat := g.map (·.key)

def Graph.has (g : Graph) (k : Nat) : Bool := g.keys.contains k

/-- `OrderedSet` insertion of a sequence: first occurrence wins. -/
def dedup : List Nat → List Nat
  | [] => []
  | x :: xs => x :: (dedup xs).filter (· != x)

/-- Filter to keys present in the graph (what the `if dep in graph` arms do). -/
def present (g : Graph) (l : List Nat) : List Nat := l.filter g.has

/-- `weak_adj[item]` -/
def weakAdjOf (g : Graph) (e : Entry) : List Nat := dedup (present g e.weak)
/-- `adj[item]`: merge first, then deps, one `OrderedSet`. -/
def adjOf (g : Graph) (e : Entry) : List Nat := dedup (present g (e.merge ++ e.deps))
/-- `loop_control[item]` -/
def ctrlOf (g : Graph) (e : Entry) : List Nat := dedup (present g e.ctrl)

def lookup (g : Graph) (k : Nat) : Option Entry := g.find? (·.key == k)

def weakAdj (g : Graph) (k : Nat) : List Nat :=
  match lookup g k with | some e => weakAdjOf g e | none => []
def adj (g : Graph) (k : Nat) : List Nat :=
  match lookup g k with | some e => adjOf g e | none => []
def ctrl (g : Graph) (k : Nat) : List Nat :=
  match lookup g k with | some e => ctrlOf g e | none => []

/-- First unresolved reference in the order the real loop meets them:
    per item: weak_deps, merge, deps, loop_control. Returns (dep, item). -/
def firstUnresolved (g : Graph) : Option (Nat × Nat) :=
  g.findSome? fun e =>
    ((e.weak ++ e.merge ++ e.deps ++ e.ctrl).find? (fun d => !g.has d)).map (fun d => (d, e.key))

/-- The mutable state shared by all `visit` frames. `visited` is a set in the
    code (only membership is used); `order` is the output list. -/
structure St where
  visited : List Nat := []
  order   : List Nat := []
deriving Repr, DecidableEq

/-- A raised `CycleError`: `item` and `path` as the real exception carries them. -/
structure Cyc where
  item : Nat
  path : List Nat
deriving Repr, DecidableEq

abbrev Res := St × Option Cyc

/-- One `for n in …: visit(n, …)` loop: stops at the first error that is not
    swallowed. `swallow` is the weak loop's `len(visiting_weak) == 0` test. -/
def loop (f : Nat → St → Res) (swallow : Bool) : List Nat → St → Res
  | [], st => (st, none)
  | n :: ns, st =>
    match f n st with
    | (st', none) => loop f swallow ns st'
    | (st', some c) => if swallow then loop f swallow ns st' else (st', some c)

/--
`visit(item, for_control, weak_link)`.

* `visiting` is the ordered `visiting` set (the DFS stack, oldest first),
* `w` is `len(visiting_weak)` on entry,
* fuel bounds the recursion depth; `sortEx` supplies `keys.length + 1`, which
  is never exhausted because `visiting` is duplicate-free and ⊆ keys
  (see `Lemmas/Topo`).  Running out of fuel returns the state unchanged with
  no error – the theorems never rely on that branch.
-/
def visit (g : Graph) : Nat → List Nat → Nat → Nat → Bool → Bool → St → Res
  | 0, _, _, _, _, _, st => (st, none)
  | fuel + 1, visiting, w, item, forControl, weakLink, st =>
    if visiting.contains item then
      (st, some ⟨item, visiting.filter (· != item)⟩)
    else if st.visited.contains item then
      (st, none)
    else
      let visiting' := visiting ++ [item]
      let wcur := if weakLink then w + 1 else w
      -- weak loop
      let r1 := loop (fun n s => visit g fuel visiting' wcur n false true s)
                  (wcur == 0) (weakAdj g item) st
      let r2 : Res := match r1 with
        | (s, some c) => (s, some c)
        | (s, none) => loop (fun n s => visit g fuel visiting' wcur n false weakLink s)
                          false (adj g item) s
      let r3 : Res := match r2 with
        | (s, some c) => (s, some c)
        | (s, none) => loop (fun n s => visit g fuel visiting' wcur n true weakLink s)
                          false (ctrl g item) s
      match r3 with
      | (s, none) =>
        if forControl then (s, none)
        else ({ visited := item :: s.visited, order := s.order ++ [item] }, none)
      | (s, some c) =>
        if wcur == 1 then (s, none) else (s, some c)

inductive Outcome where
  | ok (order : List Nat)
  | cycle (item : Nat) (path : List Nat)
  | unresolved (dep : Nat) (item : Nat)
deriving Repr, DecidableEq

/-- The top-level `for key in graph: visit(key)`. -/
def topLoop (g : Graph) (fuel : Nat) : List Nat → St → Res
  | [], st => (st, none)
  | k :: ks, st =>
    match visit g fuel [] 0 k false false st with
    | (st', none) => topLoop g fuel ks st'
    | (st', some c) => (st', some c)

def sortEx (g : Graph) (allowUnresolved : Bool) : Outcome :=
  match (if allowUnresolved then none else firstUnresolved g) with
  | some (d, i) => .unresolved d i
  | none =>
    match topLoop g (g.length + 1) g.keys {} with
    | (st, none) => .ok st.order
    | (_, some c) => .cycle c.item c.path

end EdbVerif.Topo
