/-
C08 — vocabulary needed to STATE the theorems: the syntactic "contains a DML node" predicate
(independent of the compiler's traversal `record`), the capability each statement kind is
expected to carry (the property statement), well-formed function environments.
Core Lean only.
-/
import EdbVerif.Model.Caps

namespace EdbVerif.Caps
open EdbVerif.Gen.Caps

/-- `f` is Modifying (its declared or inferred volatility) and satisfies `g` -/
def fnFlag (g : FnDecl → Bool) (fe : FnEnv) (f : Nat) : Bool :=
  match fe[f]? with
  | some d => d.modifying && g d
  | none => false

mutual
/-- `q` syntactically contains an INSERT / UPDATE / DELETE node, or a call of a Modifying function
satisfying `g`, at any depth, in any position -/
def containsG (g : FnDecl → Bool) (fe : FnEnv) : Q → Bool
  | .lit _ => false
  | .var _ => false
  | .objs _ => false
  | .op args => containsGL g fe args
  | .call f args => containsGL g fe args || fnFlag g fe f
  | .ifElse c t e => containsG g fe c || (containsG g fe t || containsG g fe e)
  | .select subj shape filter order offlim =>
    containsG g fe subj || (containsGL g fe shape || (containsGL g fe filter
      || (containsGL g fe order || containsGL g fe offlim)))
  | .withB _ b body => containsG g fe b || containsG g fe body
  | .forQ _ iter body => containsG g fe iter || containsG g fe body
  | .insert .. => true
  | .update .. => true
  | .delete .. => true
  | .free shape => containsGL g fe shape
def containsGL (g : FnDecl → Bool) (fe : FnEnv) : QList → Bool
  | .nil => false
  | .cons q qs => containsG g fe q || containsGL g fe qs
end

/-- does calling `f` count as a mutation: its (declared or inferred) volatility is Modifying -/
def fnModifying (fe : FnEnv) (f : Nat) : Bool := fnFlag (fun _ => true) fe f

/-- calling `f` reaches a DML statement: `f` is Modifying (hence inlined) and its body, after
inlining, contains an INSERT / UPDATE / DELETE statement -/
def fnDmlStmt (fe : FnEnv) (f : Nat) : Bool := fnFlag (·.dmlStmt) fe f

/-- `q` syntactically contains an INSERT / UPDATE / DELETE node or a call of a modifying function,
at any depth, in any position: what makes the compiler attach MODIFICATIONS -/
def containsDML (fe : FnEnv) (q : Q) : Bool := containsG (fun _ => true) fe q

/-- evaluating `q` reaches an INSERT / UPDATE / DELETE statement node, in `q` itself or in the body
of a called function (transitively): what volatility inference calls Modifying -/
def containsStmt (fe : FnEnv) (q : Q) : Bool := containsG (·.dmlStmt) fe q

/-- well-formed function environment: a function that is not Modifying reaches no DML statement,
and a function that reaches no DML statement does not change the stored data -/
def FnEnv.WF (fe : FnEnv) : Prop :=
  ∀ (f : Nat) (d : FnDecl), fe[f]? = some d →
    (d.modifying = false → d.dmlStmt = false) ∧
    (d.dmlStmt = false → ∀ db vs, (d.sem db vs).1 = db)

/-- The property statement: the capability a statement kind must at least carry.
DDL for schema and migration commands, TRANSACTION for transaction control (and for migration
commands that open / close the wrapping transaction), SESSION_CONFIG for session aliases and
session-scoped configuration, PERSISTENT_CONFIG for instance / database configuration,
MODIFICATIONS for queries (also under ANALYZE) that contain DML. -/
def expectedCap : Kind → Caps
  | .migrationControl true => DDL ||| TRANSACTION
  | .migrationControl false => DDL
  | .migrationDDL => DDL
  | .migrationDescribe => NONE
  | .schemaCommand => DDL
  | .txControl => TRANSACTION
  | .sessionAlias => SESSION_CONFIG
  | .configure .Session _ => SESSION_CONFIG
  | .configure .Global false => SESSION_CONFIG
  | .configure .Global true => NONE          -- notebook protocol: SET GLOBAL deliberately unflagged
  | .configure .Instance _ => PERSISTENT_CONFIG
  | .configure .Database _ => PERSISTENT_CONFIG
  | .analyze d => if d then MODIFICATIONS else NONE
  | .administer => NONE
  | .query d => if d then MODIFICATIONS else NONE

/-- every kind (finite) -/
def Kind.all : List Kind :=
  [.migrationControl true, .migrationControl false, .migrationDDL, .migrationDescribe,
   .schemaCommand, .txControl, .sessionAlias,
   .configure .Instance true, .configure .Instance false,
   .configure .Database true, .configure .Database false,
   .configure .Session true, .configure .Session false,
   .configure .Global true, .configure .Global false,
   .analyze true, .analyze false, .administer, .query true, .query false]

/-- what the status family of a concrete statement class (from `status.get_status`) says about the
class of the dispatch chain it must be handled by -/
def familyClass : Family → Option StmtClass
  | .ddl => some .DDLCommand
  | .migration => some .MigrationCommand
  | .tx => some .Transaction
  | .session => some .SessionCommand_tuple
  | .config => some .ConfigOp
  | .query => some .QueryOrCommand
  | .describe => some .QueryOrCommand
  | .analyze => some .ExplainStmt
  | .administer => some .AdministerStmt
  | .nostatus => none

/-- the capability every statement of a status family must at least carry, whatever the conditions -/
def familyCap : Family → Caps
  | .ddl => DDL
  | .tx => TRANSACTION
  | .session => SESSION_CONFIG
  | _ => NONE

end EdbVerif.Caps
