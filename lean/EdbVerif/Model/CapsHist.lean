/-
C08 — function HISTORIES (CREATE / ALTER FUNCTION … USING / DROP): what the schema engine must
maintain for the capability flags to stay right.

`compile_FunctionCall` decides from the STORED volatility of the callee whether a call is recorded
as DML; `schema/functions.py` stores, for every function, what inference yields from the stored
volatilities of its callees at the time its body is compiled, and re-compiles the transitive
callers when a function changes (`_propagate_if_expr_refs`).  The flags are right exactly when the
stored values equal the closure over the CURRENT bodies.  Core Lean only.
-/
namespace EdbVerif.Caps.Hist

/-- a function definition, abstractly: does the body contain an INSERT/UPDATE/DELETE statement
itself, and which (earlier) functions does it call -/
structure Def where
  dml : Bool
  calls : List Nat
  deriving DecidableEq, Repr

/-- what compiling the body of `d` infers ("Modifying?") given the STORED flags `st` of the others -/
def infer (st : List Bool) (d : Def) : Bool :=
  d.dml || d.calls.any fun j => st[j]?.getD false

def step (st : List Bool) (d : Def) : List Bool := st ++ [infer st d]

/-- "writes, transitively, per the current bodies": the flags obtained by compiling the definitions
in creation order (a body only refers to functions that exist) -/
def closure (ds : List Def) : List Bool := ds.foldl step []

/-- the stored flags agree with the current definitions -/
def Consistent (ds : List Def) (st : List Bool) : Prop := st = closure ds

/-- ALTER FUNCTION k USING …: the definition at position `k` is replaced -/
def alter (ds : List Def) (k : Nat) (d : Def) : List Def := ds.set k d

/-- full propagation: `k` and everything created after it (a superset of its transitive callers;
recompiling a non-caller changes nothing) is recompiled in creation order on top of the stored
flags of the functions before `k` -/
def propagateFull (ds' : List Def) (st : List Bool) (k : Nat) : List Bool :=
  (ds'.drop k).foldl step (st.take k)

/-- one-level propagation: only `k` itself and its DIRECT callers are recompiled -/
def propagateOne (ds' : List Def) (st : List Bool) (k : Nat) : List Bool :=
  match ds'[k]? with
  | none => st
  | some d =>
    let st1 := st.set k (infer st d)
    (List.range ds'.length).foldl (fun s i =>
      match ds'[i]? with
      | some di => if di.calls.contains k then s.set i (infer s di) else s
      | none => s) st1

end EdbVerif.Caps.Hist
