/-
Specification vocabulary for C03 (what the theorems in Props/C03.lean say).
Core Lean only.
-/
import EdbVerif.Model.Describe
import EdbVerif.Model.TopoSpec

namespace EdbVerif.Describe

/-! ### when a session context leaves a module name alone -/

/-- The aliases of `c` do not touch the module name `m`: this is literally
    "`apply_module_aliases` returns `m` itself and does not flag `__current__`",
    plus `m` is a real module name (not the reserved `__std__`, not empty). -/
def ModSafe (c : Ctx) (m : ModName) : Prop :=
  m ≠ [] ∧ m ≠ ["__std__"] ∧ applyAliases c (some m) = (false, some m)

/-- every name the schema mentions (object names and references) -/
def Top.mentioned (o : Top QName) : List QName := o.name :: (o.shellNames ++ o.kidNames)

def Schema.mentioned (S : Schema) : List QName := S.objs.flatMap Top.mentioned

/-- No alias of the session shadows a module the text mentions.  Nothing is
    required of the current module `c.cur`. -/
def CtxSafe (c : Ctx) (S : Schema) : Prop := ∀ q ∈ S.mentioned, ModSafe c q.mod

/-! ### well-formed schemas -/

/-- references of the object *shells* among the user objects: `a` needs `b` -/
def ShellDep (S : Schema) (a b : QName) : Prop :=
  ∃ o ∈ S.objs, o.name = a ∧ b ∈ o.shellNames ∧ b ∈ S.names

def Head.Covered (tbl : FieldTable) (h : Head QName) : Prop :=
  ∀ f ∈ h.fields, keepField tbl h.cls f.1 = true

def Item.Covered (tbl : FieldTable) : Item QName → Prop
  | .enter h => h.Covered tbl
  | .leave => True

def Kid.Covered (tbl : FieldTable) (k : Kid QName) : Prop :=
  k.head.Covered tbl ∧ ∀ i ∈ k.body, i.Covered tbl

/-- every field that carries a value is one the printer prints -/
def Top.Covered (tbl : FieldTable) (o : Top QName) : Prop :=
  (∀ f ∈ o.fields, keepField tbl o.cls f.1 = true) ∧ ∀ k ∈ o.kids, k.Covered tbl

/-- blocks are properly nested: from depth `d` the items return to depth 0
    and never close more than was opened -/
def Bal {ν : Type} : Nat → List (Item ν) → Prop
  | d, [] => d = 0
  | d, .enter _ :: is => Bal (d + 1) is
  | 0, .leave :: _ => False
  | d + 1, .leave :: is => Bal d is

instance Bal.dec {ν : Type} : (d : Nat) → (is : List (Item ν)) → Decidable (Bal d is)
  | d, [] => inferInstanceAs (Decidable (d = 0))
  | d, .enter _ :: is => Bal.dec (d + 1) is
  | 0, .leave :: _ => isFalse (fun h => h)
  | d + 1, .leave :: is => Bal.dec d is

/-- A user schema on top of the standard library `std`. -/
structure Valid (tbl : FieldTable) (std : Env) (S : Schema) : Prop where
  /-- a finite map: names are distinct … -/
  names_nodup : S.names.Nodup
  /-- … and new w.r.t. the standard library -/
  names_fresh : ∀ q ∈ S.names, std.has q = false
  mods_nodup : S.modules.Nodup
  mods_fresh : ∀ m ∈ S.modules, std.hasModule m = false
  mods_ne : ∀ m ∈ S.modules, m ≠ []
  /-- the enclosing module of a nested module exists -/
  mods_closed : ∀ m ∈ S.modules, 1 < m.length → m.dropLast ∈ S.modules ∨ std.hasModule m.dropLast = true
  /-- user objects live in user modules -/
  obj_mods : ∀ o ∈ S.objs, o.name.mod ∈ S.modules
  /-- no dangling reference -/
  closed : ∀ o ∈ S.objs, ∀ q ∈ o.shellNames ++ o.kidNames, q ∈ S.names ∨ std.has q = true
  /-- object shells do not depend on each other cyclically (children may:
      they are created after all shells) -/
  acyclic : ¬ ∃ q, Relation.TransGen (ShellDep S) q q
  /-- every stored field is in the printed-field table -/
  covered : ∀ o ∈ S.objs, o.Covered tbl
  /-- module names are real ones (not the reserved `__std__` / `__current__::…`) -/
  mods_real : CtxSafe {} S
  /-- the pre-order encoding of every child's sub-tree is properly nested -/
  balanced : ∀ o ∈ S.objs, ∀ k ∈ o.kids, Bal 0 k.body

/-- equality of schemas as finite maps (the order of declarations is not part
    of a schema) -/
def Schema.Equiv (A B : Schema) : Prop := A.modules.Perm B.modules ∧ A.objs.Perm B.objs

end EdbVerif.Describe
