/-
Specification vocabulary for C04 (what the theorems in Props/C04.lean say).
Core Lean only.
-/
import EdbVerif.Model.Store

namespace EdbVerif.Store

/-- object `id` is in the schema with class `c` and data tuple `d` -/
def Rec (s : State) (id : Nat) (c : Cls) (d : List Val) : Prop :=
  mget s.idToType id = some c ∧ mget s.idToData id = some d

instance (s : State) (id : Nat) (c : Cls) (d : List Val) : Decidable (Rec s id c d) := by
  unfold Rec; infer_instance

/-- `_id_to_type` and `_id_to_data` have the same keys -/
def TypesAgree (s : State) : Prop :=
  ∀ id, (mget s.idToType id).isSome = (mget s.idToData id).isSome

/-- Lookups by name agree with the objects' own data, in both directions, for
    the three name indexes. -/
structure NamesAgree (s : State) : Prop where
  /-- a named object of a qualified class is found under its name -/
  name_q : ∀ id c d n, Rec s id c d → nameOf c d = some n → c.isGlobal = false →
    mget s.nameToId n = some id
  /-- a named object of a global class is found under (class, name) -/
  name_g : ∀ id c d n, Rec s id c d → nameOf c d = some n → c.isGlobal = true →
    mget s.globalNameToId (c, n) = some id
  /-- a function/operator is listed under its short name -/
  name_s : ∀ id c d n, Rec s id c d → nameOf c d = some n → c.hasSn = true →
    (c, n.short, id) ∈ s.shortNameToId
  /-- what the name index returns is a present qualified object bearing that name -/
  q_name : ∀ n id, mget s.nameToId n = some id →
    ∃ c d, Rec s id c d ∧ c.isGlobal = false ∧ nameOf c d = some n
  g_name : ∀ c n id, mget s.globalNameToId (c, n) = some id →
    ∃ d, Rec s id c d ∧ c.isGlobal = true ∧ nameOf c d = some n
  s_name : ∀ c sn id, (c, sn, id) ∈ s.shortNameToId →
    ∃ d n, Rec s id c d ∧ c.hasSn = true ∧ nameOf c d = some n ∧ n.short = sn

/-- `_refs_to` is exactly the inverse of the reference fields of the present
    objects: `src` is listed as a referrer of `tgt` under `(cls, field)` iff `src`
    is present with that class and its field holds `tgt`. -/
def RefsToExact (s : State) : Prop :=
  ∀ e : Edge, e ∈ s.refsTo ↔
    ∃ d, Rec s e.src e.cls d ∧ e.field ∈ e.cls.refIdxs ∧ e.tgt ∈ refsAt e.cls e.field d

structure Inv (s : State) : Prop where
  names : NamesAgree s
  refs : RefsToExact s
  types : TypesAgree s

/-- every reference held by a present object resolves in the same schema -/
def NoDangling (s : State) : Prop :=
  ∀ id c d f t, Rec s id c d → f ∈ c.refIdxs → t ∈ refsAt c f d → present s t = true

/-- the handle's class is the one the schema records for the id (what `get_by_id`
    returns); no condition for an id the schema does not know -/
def handleOK (s : State) (id : Nat) (c : Cls) : Bool :=
  match mget s.idToType id with
  | some c' => decide (c' = c)
  | none => true

/-- The guard under which the raw operations keep `Inv` (each conjunct is needed:
    see the counterexamples in Props/C04.lean):
    * `update_obj` / `delete` / `discard` are called with a handle whose class is the
      one the schema records, `update_obj` only on a present object and with distinct
      field names (a Python `Mapping`);
    * `delist` is excluded (it removes a name and keeps the object on purpose). -/
def rawOK (s : State) : RawOp → Bool
  | .addRaw _ _ _ => true
  | .updateObj id c ups => decide (mget s.idToType id = some c) && decide (ups.map (·.1)).Nodup
  | .setField _ _ _ => true
  | .unsetField _ _ => true
  | .delete id c => handleOK s id c
  | .discard id c => handleOK s id c
  | .delist _ => false

/-- run a raw history: an operation outside the guard is not issued, a failing
    one leaves the schema as it was -/
def runRaw (ops : List RawOp) (s : State) : State :=
  ops.foldl (fun s op => if rawOK s op then (apply s op).1 else s) s

/-- the error exits that only an inconsistent index can trigger -/
def Err.internal : Err → Bool
  | .keyError => true
  | .lookupError => true
  | _ => false

/-- the reference fields of a class are distinct (`get_object_reference_fields()` is a set) -/
def ClsOK (c : Cls) : Prop := c.refIdxs.Nodup

instance (c : Cls) : Decidable (ClsOK c) := by unfold ClsOK; infer_instance

def ClassesOK (s : State) : Prop := ∀ id c, mget s.idToType id = some c → ClsOK c

/-- the class an operation brings into the schema is well-formed -/
def opClsOK : RawOp → Prop
  | .addRaw _ c _ => ClsOK c
  | _ => True

/-- every schema value a caller has seen along a raw history (the initial one first) -/
def versions : List RawOp → State → List State
  | [], s => [s]
  | op :: ops, s => s :: versions ops (if rawOK s op then (apply s op).1 else s)

/-- `id` can be reached through none of the six indexes -/
structure Unreachable (s : State) (id : Nat) : Prop where
  data : mget s.idToData id = none
  type : mget s.idToType id = none
  name : ∀ n, mget s.nameToId n ≠ some id
  gname : ∀ k, mget s.globalNameToId k ≠ some id
  sname : ∀ c n, (c, n, id) ∉ s.shortNameToId
  as_src : ∀ e ∈ s.refsTo, e.src ≠ id
  as_tgt : ∀ e ∈ s.refsTo, e.tgt ≠ id

end EdbVerif.Store
