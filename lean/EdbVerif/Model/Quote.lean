/-
Model of the Python quoting functions (C18).

EdgeQL side (`edb/edgeql/quote.py`, `edb/edgeql/codegen.py`):
  `escapeString`, `quoteLiteral`, `dollarQuoteLiteral`, `needsQuoting`,
  `quoteIdent`, `ppStr` (= the text `visit_Constant` writes for a STRING
  constant), `ppBytes` (= `visit_BytesConstant`).  State of the code: after the
  fixes 269eaeb, 6e967b8, 1c83ec0, 878e057 (the previous behaviour is kept in
  `Model/QuoteOld.lean` for the record).
SQL side (`edb/pgsql/common.py`, used by `edb/pgsql/codegen.py` and
`edb/pgsql/dbops/base.py::encode_value`):
  `pgQuoteLiteral`, `pgQuoteELiteral`, `pgNeedsQuoting`, `pgQuoteIdent`,
  `pgQuoteBytea`.

Strings are `List Char` (code points; lone surrogates, which a Python `str` can
hold but UTF-8 cannot, are outside the model), bytes are `List UInt8`.

Unicode: the Python functions consult CPython's Unicode database (`re` `\w`,
`\d`; `str.isalnum/isdecimal/isalpha/lower`).  On ASCII the behaviour is
hard-wired here; outside ASCII it is the parameter `PyUnicode` (the driver
instantiates it with what the running interpreter answers for the characters in
play).

`dollarQuoteLiteral` is a `while` loop in Python; here it runs on fuel
`text.length + 2` and returns `none` when the fuel runs out; it never does
(`Lemmas/QuoteDollarTotal.lean`: each rejected tag occupies its own `$`
position of the text).
-/
import EdbVerif.Model.Lex
import EdbVerif.Gen.PgKeywords

namespace EdbVerif.Quote
open EdbVerif.Lex (findSub asciiLower isDigit isAsciiLetter utf8Len)

/-! ### Python's view of Unicode -/

/-- CPython's Unicode database outside ASCII.  `lower` is only consulted for
    strings that contain a non-ASCII character. -/
structure PyUnicode where
  isalnum   : Char → Bool             -- str.isalnum (per character)
  isdecimal : Char → Bool             -- str.isdecimal;  re `\d`
  isalpha   : Char → Bool             -- str.isalpha (per character)
  lower     : List Char → List Char   -- str.lower

def PyUnicode.ascii : PyUnicode := ⟨fun _ => false, fun _ => false, fun _ => false, id⟩

def pyIsAlpha (P : PyUnicode) (c : Char) : Bool :=
  if c.toNat < 128 then isAsciiLetter c else P.isalpha c

def pyIsAlnum (P : PyUnicode) (c : Char) : Bool :=
  if c.toNat < 128 then isAsciiLetter c || isDigit c else P.isalnum c

def pyIsDecimal (P : PyUnicode) (c : Char) : Bool :=
  if c.toNat < 128 then isDigit c else P.isdecimal c

/-- re `\w` (sre: `Py_UNICODE_ISALNUM(ch) || ch == '_'`) -/
def pyIsWord (P : PyUnicode) (c : Char) : Bool := pyIsAlnum P c || c = '_'

/-- re `[^\W\d]` -/
def pyIsWordStart (P : PyUnicode) (c : Char) : Bool := pyIsWord P c && !pyIsDecimal P c

def pyLower (P : PyUnicode) (s : List Char) : List Char :=
  if s.all (fun c => c.toNat < 128) then s.map asciiLower else P.lower s

/-! ### hexadecimal output (`%02x`, `{:x}`, `b2a_hex`, repr) -/

def hexDigit (n : Nat) : Char :=
  if n < 10 then Char.ofNat (48 + n) else Char.ofNat (87 + n)

def hex2 (n : Nat) : List Char := [hexDigit (n / 16 % 16), hexDigit (n % 16)]
def hex4 (n : Nat) : List Char :=
  [hexDigit (n / 4096 % 16), hexDigit (n / 256 % 16), hexDigit (n / 16 % 16), hexDigit (n % 16)]
def hex8 (n : Nat) : List Char := hex4 (n / 65536 % 65536) ++ hex4 (n % 65536)

/-- `'{:x}'.format(n)[::-1]`: the hex digits of `n`, least significant first. -/
def revHexAux : Nat → Nat → List Char
  | 0, n => [hexDigit (n % 16)]
  | f + 1, n => if n < 16 then [hexDigit n] else hexDigit (n % 16) :: revHexAux f (n / 16)

def revHex (n : Nat) : List Char := revHexAux n n

/-! ### `edb/edgeql/quote.py` -/

/-- `str.replace(c, rep)` for a single-character pattern -/
def replaceChar (c : Char) (rep : List Char) (s : List Char) : List Char :=
  s.flatMap (fun x => if x = c then rep else [x])

/-- `_re_unprintable`:
    `[\u0000-\u0007\u000B\u000E-\u001F\u007F-\u009F\u202A-\u202E\u2066-\u2069]` -/
def isUnprintableRE (c : Char) : Bool :=
  let n := c.toNat
  n ≤ 7 || n = 0xB || (0xE ≤ n && n ≤ 0x1F) || (0x7F ≤ n && n ≤ 0x9F) ||
  (0x202A ≤ n && n ≤ 0x202E) || (0x2066 ≤ n && n ≤ 0x2069)

/-- `_escape_unprintable`: `\xNN` below 0x80, `\uNNNN` otherwise -/
def escapeUnprintable (c : Char) : List Char :=
  if c.toNat < 0x80 then '\\' :: 'x' :: hex2 c.toNat else '\\' :: 'u' :: hex4 c.toNat

/-- `escape_string`, replacement after replacement as in the source, then
    `_re_unprintable.sub(_escape_unprintable, result)` -/
def escapeString (s : List Char) : List Char :=
  let r := replaceChar '\\' ['\\', '\\'] s
  let r := replaceChar '\'' ['\\', '\''] r
  let r := replaceChar (Char.ofNat 8) ['\\', 'b'] r
  let r := replaceChar (Char.ofNat 12) ['\\', 'f'] r
  let r := replaceChar '\n' ['\\', 'n'] r
  let r := replaceChar '\r' ['\\', 'r'] r
  let r := replaceChar '\t' ['\\', 't'] r
  r.flatMap (fun c => if isUnprintableRE c then escapeUnprintable c else [c])

/-- `quote_literal` -/
def quoteLiteral (s : List Char) : List Char := '\'' :: escapeString s ++ ['\'']

/-- `sub in text` -/
def contains (sub text : List Char) : Bool := (findSub sub text).isSome

/-- `'${:x}$'.format(qq)[::-1]` -/
def tagOf (qq : Nat) : List Char := '$' :: revHex qq ++ ['$']

/-- the `while quote in text + quote[:-1]` loop of `dollar_quote_literal` -/
def dollarLoop (text : List Char) : Nat → List Char → Nat → Option (List Char)
  | 0, _, _ => none
  | f + 1, quote, qq =>
    if contains quote (text ++ quote.dropLast) then
      let qq1 := if qq % 16 < 10 then qq + (10 - qq % 16) else qq
      dollarLoop text f (tagOf qq1) (qq1 + 1)
    else some quote

/-- the delimiter `dollar_quote_literal` settles on -/
def dollarTag (text : List Char) : Option (List Char) :=
  dollarLoop text (text.length + 2) ['$', '$'] 0

/-- `dollar_quote_literal` -/
def dollarQuoteLiteral (text : List Char) : Option (List Char) :=
  (dollarTag text).map (fun q => q ++ text ++ q)

open EdbVerif.Gen in
/-- membership in `keywords.by_type[RESERVED_KEYWORD]` of
    `edb/edgeql/parser/grammar/keywords.py`: the dict is filled with the
    unreserved, then the reserved (future ∪ current), then the partial-reserved
    keywords, later entries replacing earlier ones. -/
def isReservedKw (s : List Char) : Bool :=
  (Keywords.futureReserved.contains s || Keywords.currentReserved.contains s) &&
  !Keywords.partialReserved.contains s

/-- `_re_ident.fullmatch` -/
def matchIdent (P : PyUnicode) : List Char → Bool
  | [] => false
  | c :: cs => pyIsWordStart P c && cs.all (pyIsWord P)

/-- `([1-9][0-9]{0,18} | 0)` full match: ASCII digits, at most 19 of them (fits in 64 bits) -/
def matchNum : List Char → Bool
  | [] => false
  | c :: cs => (c = '0' && cs.isEmpty) ||
      (49 ≤ c.toNat && c.toNat ≤ 57 && cs.all isDigit && decide (cs.length ≤ 18))

/-- `'::' in string` -/
def hasNamespaceSep (s : List Char) : Bool := EdbVerif.Lex.hasNamespaceSep s

/-- `'__type__'`, `'__std__'` -/
def dunderType : List Char := ['_', '_', 't', 'y', 'p', 'e', '_', '_']
def dunderStd : List Char := ['_', '_', 's', 't', 'd', '_', '_']

/-- `needs_quoting(string, allow_reserved, allow_num)` -/
def needsQuoting (P : PyUnicode) (s : List Char) (allowReserved allowNum : Bool) : Bool :=
  if s.isEmpty || s.head? = some '@' || hasNamespaceSep s then false
  else
    let isalnum := (matchIdent P s || (allowNum && matchNum s)) &&
      (match s with
       | [] => false
       | c :: _ => c = '_' || pyIsAlpha P c || pyIsDecimal P c)
    let l := pyLower P s
    let isReserved := l ≠ dunderType && l ≠ dunderStd && isReservedKw l
    !isalnum || (!allowReserved && isReserved)

/-- `_quote_ident` -/
def quoteIdentRaw (s : List Char) : List Char := '`' :: replaceChar '`' ['`', '`'] s ++ ['`']

/-- `quote_ident(string, force=…, allow_reserved=…, allow_num=…)` -/
def quoteIdent (P : PyUnicode) (s : List Char) (force allowReserved allowNum : Bool) : List Char :=
  if force || needsQuoting P s allowReserved allowNum then quoteIdentRaw s else s

/-! ### `edb/edgeql/codegen.py` -/

/-- `param_to_str`: after `$` the lexer continues a bare name only over ASCII
    digits, `_` and alphabetic characters; anything else forces back-quotes -/
def paramToStr (P : PyUnicode) (s : List Char) : List Char :=
  let force := !s.isEmpty && !s.all (fun c => c = '_' || pyIsAlpha P c || isDigit c)
  '$' :: quoteIdent P s force true true


/-- `_NON_PRINTABLE_RE`:
    `[\u0000-\u0008\u000B\u000C\u000E-\u001F\u007F\u0080-\u009F\n\u202A-\u202E\u2066-\u2069]` -/
def isNonPrintableRE (c : Char) : Bool :=
  let n := c.toNat
  n ≤ 8 || n = 0xB || n = 0xC || (0xE ≤ n && n ≤ 0x1F) || n = 0x7F || (0x80 ≤ n && n ≤ 0x9F) || n = 10 ||
  (0x202A ≤ n && n ≤ 0x202E) || (0x2066 ≤ n && n ≤ 0x2069)

/-- `visit_Constant` for `ConstantKind.STRING`: `for d in ("'", '"', '$$'): if d not in
    value + d[:-1]` (the suffix is empty for the one-character quotes, `$` for `$$`) -/
def ppStr (s : List Char) : Option (List Char) :=
  if s.any isNonPrintableRE then some (quoteLiteral s)
  else if !s.contains '\'' then
    (if s.contains '\\' then some ('r' :: '\'' :: s ++ ['\'']) else some ('\'' :: s ++ ['\'']))
  else if !s.contains '"' then
    (if s.contains '\\' then some ('r' :: '"' :: s ++ ['"']) else some ('"' :: s ++ ['"']))
  else if !contains ['$', '$'] (s ++ ['$']) then some ('$' :: '$' :: s ++ ['$', '$'])
  else dollarQuoteLiteral s

/-- `_bytes_escape` applied where `_BYTES_ESCAPE_RE` = `rb'[\\\'\x00-\x1f\x7e-\xff]'` matches
    (backslash, quote, 0x00–0x1f, 0x7e–0xff): `_ESCAPES` for `\\ ' TAB LF`, `\xNN` otherwise -/
def escByte (b : UInt8) : List Char :=
  let n := b.toNat
  if n = 92 then ['\\', '\\']
  else if n = 39 then ['\\', '\'']
  else if n = 9 then ['\\', 't']
  else if n = 10 then ['\\', 'n']
  else if n ≤ 0x1f ∨ 0x7e ≤ n then '\\' :: 'x' :: hex2 n
  else [Char.ofNat n]

/-- `visit_BytesConstant` -/
def ppBytes (b : List UInt8) : List Char := 'b' :: '\'' :: b.flatMap escByte ++ ['\'']

/-! ### `edb/pgsql/common.py` -/

/-- `quote_literal` -/
def pgQuoteLiteral (s : List Char) : List Char := '\'' :: replaceChar '\'' ['\'', '\''] s ++ ['\'']

/-- `escape_sq` of `quote_e_literal`: `re.split(r"(\n|\\\\|\\')", s)` keeps the
    separators (newline, two backslashes, backslash-quote) untouched and
    replaces `'` by `\'` in the pieces between them; scanning left to right
    this is exactly the following. -/
def eEscape : List Char → List Char
  | [] => []
  | [c] => if c = '\'' then ['\\', '\''] else [c]
  | c :: d :: t =>
    if c = '\\' ∧ (d = '\\' ∨ d = '\'') then c :: d :: eEscape t
    else if c = '\'' then '\\' :: '\'' :: eEscape (d :: t)
    else c :: eEscape (d :: t)

/-- `quote_e_literal` -/
def pgQuoteELiteral (s : List Char) : List Char := 'E' :: '\'' :: eEscape s ++ ['\'']

open EdbVerif.Gen in
/-- `needs_quoting(string, column)` of `edb/pgsql/common.py` -/
def pgNeedsQuoting (P : PyUnicode) (s : List Char) (column : Bool) : Bool :=
  let isalnum := match s with
    | [] => false
    | c :: _ => !pyIsDecimal P c && s.all (fun x => pyIsAlnum P (if x = '_' then 'a' else x))
  let l := pyLower P s
  !isalnum || PgKeywords.reserved.contains l || PgKeywords.typeFuncName.contains l ||
  (column && PgKeywords.colName.contains l) || l ≠ s

/-- `_quote_ident` -/
def pgQuoteIdentRaw (s : List Char) : List Char := '"' :: replaceChar '"' ['"', '"'] s ++ ['"']

/-- `quote_ident(ident, force=…, column=…)` for a `str` -/
def pgQuoteIdent (P : PyUnicode) (s : List Char) (force column : Bool) : List Char :=
  if pgNeedsQuoting P s column || force then pgQuoteIdentRaw s else s

/-- `::bytea` -/
def byteaCast : List Char := [':', ':', 'b', 'y', 't', 'e', 'a']

/-- `quote_bytea_literal` -/
def pgQuoteBytea (b : List UInt8) : List Char :=
  if b.isEmpty then '\'' :: '\'' :: byteaCast
  else '\'' :: '\\' :: 'x' :: b.flatMap (fun x => hex2 x.toNat) ++ '\'' :: byteaCast

/-! ### long names: `edgedb_name_to_pg_name` -/

/-- `s_def.MAX_NAME_LENGTH` = 63 - MAX_TENANT_ID_LENGTH (10) - 1 - 1 -/
def maxNameLength : Nat := 51

/-- `name[-k:]` for `k > 0` -/
def lastN (k : Nat) (l : List Char) : List Char := l.drop (l.length - k)

/-- `_edgedb_name_to_pg_name(name, prefix_length)`; `hashed` is
    `base64(md5(name)).rstrip('=')` (22 characters), computed outside the model.
    The slice `name[-(MAX - prefix_length - 1 - len(hashed)):]` is written out for
    the three signs of its bound (a zero bound gives the WHOLE name, a negative
    one drops a prefix — only reachable with `prefix_length ≥ 28`, which no
    caller in the repository uses). -/
def pgNameHashed (hashed name : List Char) (pl : Nat) : List Char :=
  let a := pl + 1 + hashed.length
  name.take pl ++ hashed ++ [':'] ++
    (if a < maxNameLength then lastN (maxNameLength - a) name else name.drop (a - maxNameLength))

/-- `edgedb_name_to_pg_name(name, prefix_length)`; `none` = `ValueError`.
    `len(name)` counts code points. -/
def edgedbNameToPgName (hash : List Char → List Char) (name : List Char) (pl : Nat) :
    Option (List Char) :=
  if maxNameLength ≤ pl then none
  else if name.length ≤ maxNameLength - pl then some name
  else some (pgNameHashed (hash name) name pl)

/-! ### dbops: dollar tags chosen against the body, `COMMENT ON` splices -/

/-- `str(n)` for a natural number: decimal digits, least significant first -/
def revDecAux : Nat → Nat → List Char
  | 0, n => [Char.ofNat (48 + n % 10)]
  | f + 1, n => if n < 10 then [Char.ofNat (48 + n)] else Char.ofNat (48 + n % 10) :: revDecAux f (n / 10)

def decStr (n : Nat) : List Char := (revDecAux n n).reverse

/-- `PLTopBlock.to_string`: `$__$`, then `$__1$`, `$__2$`, … -/
def doTagOf (n : Nat) : List Char :=
  '$' :: '_' :: '_' :: (if n = 0 then [] else decStr n) ++ ['$']

/-- `CreateFunction.code`: `$____funcbody____$`, then `$____funcbody1____$`, … -/
def funcTagOf (n : Nat) : List Char :=
  '$' :: ['_', '_', '_', '_', 'f', 'u', 'n', 'c', 'b', 'o', 'd', 'y'] ++
    (if n = 0 then [] else decStr n) ++ ['_', '_', '_', '_'] ++ ['$']

/-- `tag, n = …, 0; while tag in body + tag[:-1]: n += 1; tag = …` on fuel -/
def tagLoop (tg : Nat → List Char) (body : List Char) : Nat → Nat → Option (List Char)
  | 0, _ => none
  | f + 1, n =>
    if contains (tg n) (body ++ (tg n).dropLast) then tagLoop tg body f (n + 1) else some (tg n)

/-- the tag of the `DO` block around `body` (fuel never exhausted: `Lemmas/QuotePgTags.lean`) -/
def doTag (body : List Char) : Option (List Char) := tagLoop doTagOf body (body.length + 2) 0
/-- the tag around a function text -/
def funcTag (body : List Char) : Option (List Char) := tagLoop funcTagOf body (body.length + 2) 0

/-- `DBObject.get_id_in_literal` followed by the splice of `SetMetadata`:
    `'COMMENT ON {object_type} {object_id} IS '` -/
def commentOnStr (objType objId : List Char) : List Char :=
  '\'' :: ("COMMENT ON ".toList ++ objType ++ [' '] ++ replaceChar '\'' ['\'', '\''] objId ++ " IS ".toList) ++ ['\'']

end EdbVerif.Quote
