/-
C01 — token vocabulary of the EdgeQL expression core (self-contained; the string / bytes /
identifier *lexing* theorems are C18's `Model/Lex.lean` — here a literal token simply carries
its decoded value, which is what the real tokenizer reports as the token's value).

`Tok` abstracts a token of `edb/edgeql-parser/src/tokenizer.rs` to (class, payload):
  * `p x`     punctuation / operator token; `x : P` is named after the grammar terminal
              (`tokens.py`: T_PLUS ↦ `.plus`, T_LANGBRACKET ↦ `.langbracket`, …)
  * `kw k`    keyword (case-insensitive in the source)                   (Kind::Keyword)
  * `id s`    identifier, payload = the name (back-quotes removed)       (Kind::Ident)
  * `lit k s` literal of kind `k`; numbers: source text, strings: value (Kind::IntConst, Str, …)
  * `param s` query parameter `$s`                                       (Kind::Parameter)
The fixed vocabulary is an enumeration (not strings) so that the parser model is plain
constructor matching.  Core Lean only.
-/
namespace EdbVerif.QLLex

/-- punctuation / operator terminals (names = grammar terminal names, lower-cased) -/
inductive P
  | dot | dotbw | lbracket | rbracket | lparen | rparen | lbrace | rbrace | doublecolon
  | doublestar | doubleqmark | colon | semicolon | comma | plus | doubleplus | minus | star
  | slash | doubleslash | percent | circumflex | at | assign | addassign | remassign | arrow
  | langbracket | rangbracket | equals | amper | pipe | distinctfrom | greatereq | lesseq
  | notdistinctfrom | noteq
  deriving DecidableEq, Repr

/-- keywords the expression core looks at; every other keyword is `other` -/
inductive Kw
  | not | and | or | like | ilike | in | is | if | then | else | union | except | intersect
  | exists | distinct | detached | true | false
  | other (s : String)
  deriving DecidableEq, Repr

inductive LitKind | int | float | bigint | decimal | str | bytes
  deriving DecidableEq, Repr

inductive Tok
  | p (x : P)
  | kw (k : Kw)
  | id (s : String)
  | lit (k : LitKind) (s : String)
  | param (s : String)
  deriving DecidableEq, Repr

def P.table : List (String × P) := [
  ("dot", .dot), ("dotbw", .dotbw), ("lbracket", .lbracket), ("rbracket", .rbracket),
  ("lparen", .lparen), ("rparen", .rparen), ("lbrace", .lbrace), ("rbrace", .rbrace),
  ("doublecolon", .doublecolon), ("doublestar", .doublestar), ("doubleqmark", .doubleqmark),
  ("colon", .colon), ("semicolon", .semicolon), ("comma", .comma), ("plus", .plus),
  ("doubleplus", .doubleplus), ("minus", .minus), ("star", .star), ("slash", .slash),
  ("doubleslash", .doubleslash), ("percent", .percent), ("circumflex", .circumflex), ("at", .at),
  ("assign", .assign), ("addassign", .addassign), ("remassign", .remassign), ("arrow", .arrow),
  ("langbracket", .langbracket), ("rangbracket", .rangbracket), ("equals", .equals),
  ("amper", .amper), ("pipe", .pipe), ("distinctfrom", .distinctfrom), ("greatereq", .greatereq),
  ("lesseq", .lesseq), ("notdistinctfrom", .notdistinctfrom), ("noteq", .noteq)]

def P.ofName (s : String) : Option P := (P.table.find? (·.1 == s)).map (·.2)
def P.name (x : P) : String := ((P.table.find? (·.2 == x)).map (·.1)).getD "?"

def Kw.table : List (String × Kw) := [
  ("NOT", .not), ("AND", .and), ("OR", .or), ("LIKE", .like), ("ILIKE", .ilike), ("IN", .in),
  ("IS", .is), ("IF", .if), ("THEN", .then), ("ELSE", .else), ("UNION", .union),
  ("EXCEPT", .except), ("INTERSECT", .intersect), ("EXISTS", .exists), ("DISTINCT", .distinct),
  ("DETACHED", .detached), ("TRUE", .true), ("FALSE", .false)]

def Kw.ofName (s : String) : Kw := ((Kw.table.find? (·.1 == s)).map (·.2)).getD (.other s)
def Kw.name : Kw → String
  | .other s => s
  | k => ((Kw.table.find? (·.2 == k)).map (·.1)).getD "?"

def LitKind.tag : LitKind → String
  | .int => "i" | .float => "f" | .bigint => "n" | .decimal => "d" | .str => "s" | .bytes => "b"

def LitKind.ofTag : String → Option LitKind
  | "i" => some .int | "f" => some .float | "n" => some .bigint | "d" => some .decimal
  | "s" => some .str | "b" => some .bytes | _ => none

def LitKind.isNum : LitKind → Bool
  | .int | .float | .bigint | .decimal => true
  | _ => false

end EdbVerif.QLLex
