/-
Model of `edb/server/config` (C19): `ops.Operation.apply` with `coerce_value`,
`coerce_single_value`, `coerce_object_set`, `_check_object_set_uniqueness`,
`types.CompositeConfigType.from_pyvalue / to_json_value / __eq__`,
`ops.value_to_json_value / value_from_json_value / to_json / from_json /
to_edgeql`, `config.lookup`, and the three-scope dispatch that
`dbview.apply_config_ops` performs (session / database / instance map).

What is abstracted (see notes/C19.md):
* `immutables.Map` is an association list in insertion order; `frozenset` is a
  duplicate-free list in insertion order (Python's hash order is not modelled:
  the harness sorts, and passes the real order in where it shows up in text);
* no nested object fields; type inheritance is a chain of ancestors (name + fields); `secret` and
  `protected` are always false; the GLOBAL scope is not modelled;
* `json.dumps / json.loads` are not modelled: "JSON" is the tree `JV`;
* input values are JSON-like trees (`JV`): no floats, bytes, tuples;
* a few ill-typed corners return `Err.outOfDomain` – the driver answers
  `bad-op` on them and the harness never generates them.

Core Lean only: loaded by `Driver/C19.lean`.
-/
import EdbVerif.Model.Duration
import EdbVerif.Model.Memory
namespace EdbVerif.Config
open EdbVerif

/-- `qltypes.ConfigScope` without GLOBAL. -/
inductive Scope where
  | session | database | instance
deriving DecidableEq, Repr

/-- `str(scope)` -/
def Scope.name : Scope → String
  | .session => "SESSION" | .database => "DATABASE" | .instance => "INSTANCE"
/-- `ConfigScope.to_edgeql` -/
def Scope.toEdgeQL : Scope → String
  | .session => "SESSION" | .database => "CURRENT BRANCH" | .instance => "INSTANCE"
/-- the default `source` in `Operation._set_value` -/
def Scope.source : Scope → String
  | .session => "session" | .database => "database" | .instance => "system override"
def Scope.ofName (s : String) : Option Scope :=
  if s = "SESSION" then some .session else if s = "DATABASE" then some .database
  else if s = "INSTANCE" then some .instance else none

/-- exception classes raised by the modelled functions -/
inductive Err where
  | configuration | invalidValue | numericOutOfRange | constraintViolation
  | internalServer | keyError | typeError | attributeError | valueError
  | runtimeError | notSerializable | outOfDomain
deriving DecidableEq, Repr

def Err.name : Err → String
  | .configuration => "ConfigurationError" | .invalidValue => "InvalidValueError"
  | .numericOutOfRange => "NumericOutOfRangeError"
  | .constraintViolation => "ConstraintViolationError"
  | .internalServer => "InternalServerError" | .keyError => "KeyError"
  | .typeError => "TypeError" | .attributeError => "AttributeError"
  | .valueError => "ValueError" | .runtimeError => "RuntimeError"
  | .notSerializable => "TypeError"      -- raised by json.dumps, after the dict has been built
  | .outOfDomain => "bad-op"

/-- JSON-like input / output values (`Operation.value`, `json.loads` results). -/
inductive JV where
  | null | bool (b : Bool) | int (i : Int) | str (s : String)
  | list (l : List JV) | obj (kvs : List (String × JV))
deriving Inhabited

/-- Python atoms stored in the configuration. `enum/dur/mem` are the
    `statypes.EnumScalarType / Duration / ConfigMemory` instances. -/
inductive Scalar where
  | none | bool (b : Bool) | int (i : Int) | str (s : String)
  | enum (s : String) | dur (us : Int) | mem (n : Int)
deriving DecidableEq, Repr

/-- Python `==` on atoms: `True == 1`. -/
def Scalar.norm : Scalar → Scalar
  | .bool b => .int (if b then 1 else 0)
  | s => s
def Scalar.pyEq (a b : Scalar) : Bool := a.norm == b.norm

/-- scalar setting / field types -/
inductive STy where
  | bool | int | str | enum (vals : List String) (ql : String) | dur | mem
deriving DecidableEq, Repr

/-- field annotation: a scalar type or `frozenset[T]` -/
inductive FTy where
  | sc (t : STy) | set (t : STy)
deriving DecidableEq, Repr

inductive FVal where
  | sc (s : Scalar) | set (l : List Scalar)
deriving DecidableEq, Repr

/-- `CompositeTypeSpecField`; `default = none` is `MISSING`. -/
structure Field where
  name : String
  ty : FTy
  unique : Bool := false
  default : Option FVal := none
deriving DecidableEq, Repr

/-- name and fields of one type of the hierarchy -/
structure TBase where
  name : String
  fields : List Field
deriving DecidableEq, Repr

/-- `ConfigTypeSpec`: own name and fields (a subtype's `fields` contain the
    inherited ones, as `object_type_to_spec` builds them) and the chain of
    `parent`s, nearest first.  (`children` is only used for registration.) -/
structure TSpec where
  name : String
  fields : List Field
  ancestors : List TBase := []
deriving DecidableEq, Repr

/-- `CompositeConfigType` instance: `_tspec` and the attributes in field order. -/
structure Obj where
  tspec : TSpec
  vals : List (String × FVal)
deriving DecidableEq, Repr

inductive Val where
  | sc (s : Scalar) | set (l : List Scalar) | obj (o : Obj) | objs (l : List Obj)
deriving DecidableEq, Repr

inductive Ty where
  | sc (t : STy) | obj (t : TSpec)
deriving DecidableEq, Repr

structure Setting where
  name : String
  ty : Ty
  setOf : Bool := false
  default : Val
deriving DecidableEq, Repr

/-- `FlatSpec`: the settings and `_types_by_name` (every object type of a
    setting with all its descendants, in registration order) -/
structure Spec where
  settings : List Setting
  types : List TSpec := []
deriving Repr

/-- `spec[name]` (dict built by comprehension: the last setting with a name wins). -/
def Spec.get (sp : Spec) (n : String) : Option Setting :=
  sp.settings.reverse.find? (·.name == n)

/-- `spec.get_type_by_name` : `none` = `KeyError`. -/
def Spec.getType (sp : Spec) (n : String) : Option TSpec :=
  sp.types.reverse.find? (·.name == n)

/-- `SettingValue` (the `secret` flag is constantly false here). -/
structure SV where
  name : String
  value : Val
  source : String
  scope : Scope
deriving DecidableEq, Repr

/-- `immutables.Map[str, SettingValue]` -/
abbrev SMap := List (String × SV)

def SMap.get (m : SMap) (k : String) : Option SV :=
  match m with
  | [] => none
  | (k', v) :: r => if k' == k then some v else SMap.get r k

def SMap.set (m : SMap) (k : String) (v : SV) : SMap :=
  match m with
  | [] => [(k, v)]
  | (k', v') :: r => if k' == k then (k, v) :: r else (k', v') :: SMap.set r k v

def SMap.delete (m : SMap) (k : String) : SMap :=
  match m with
  | [] => []
  | (k', v') :: r => if k' == k then r else (k', v') :: SMap.delete r k

/-! ### frozenset helpers -/

def memPy (x : Scalar) (l : List Scalar) : Bool := l.any (·.pyEq x)

/-- `frozenset(iterable)` : first occurrence wins. -/
def dedupPy : List Scalar → List Scalar → List Scalar
  | acc, [] => acc.reverse
  | acc, x :: r => if memPy x acc then dedupPy acc r else dedupPy (x :: acc) r

def mkSet (l : List Scalar) : List Scalar := dedupPy [] l

def FVal.pyEq : FVal → FVal → Bool
  | .sc a, .sc b => a.pyEq b
  | .set a, .set b => a.all (memPy · b) && b.all (memPy · a)
  | _, _ => false

def Obj.getattr (o : Obj) (k : String) : Option FVal := (o.vals.find? (·.1 == k)).map (·.2)

/-- is field `k` declared unique in this type of the chain? -/
def fieldUniqueIn (fields : List Field) (k : String) : Bool :=
  match fields.find? (·.name == k) with
  | some f => f.unique
  | none => false

/-- the `while typ:` loop of `get_field_unique_site` over the remaining chain:
    every type on which the field is unique overwrites `site` -/
def siteWalk (k : String) : List TBase → Option String → Option String
  | [], site => site
  | b :: r, site => siteWalk k r (if fieldUniqueIn b.fields k then some b.name else site)

/-- `CompositeTypeSpec.get_field_unique_site(name)` (its `.name`): the top-most
    type of the chain self, parent, grand-parent, … on which the field is unique -/
def TSpec.uniqueSite (t : TSpec) (k : String) : Option String :=
  siteWalk k ({ name := t.name, fields := t.fields } :: t.ancestors) none

/-- `_compare_keys` -/
def TSpec.compareKeys (t : TSpec) : List String := (t.fields.filter (·.unique)).map (·.name)

def optPyEq : Option FVal → Option FVal → Bool
  | some a, some b => a.pyEq b
  | none, none => true
  | _, _ => false

/-- `CompositeConfigType.__eq__` -/
def Obj.pyEq (a b : Obj) : Bool :=
  a.tspec == b.tspec &&
    a.tspec.compareKeys.all fun k => optPyEq (a.getattr k) (b.getattr k)

/-! ### scalar coercion -/

/-- `isinstance(value, T)` for `T` in bool/int/str (JSON values are never
    instances of Duration / ConfigMemory / EnumScalarType). -/
def instOf : STy → JV → Option Scalar
  | .bool, .bool b => some (.bool b)
  | .int, .int i => some (.int i)
  | .int, .bool b => some (.bool b)
  | .str, .str s => some (.str s)
  | _, _ => none

/-- the first test of `coerce_single_value`: `isinstance(value, setting.type)` and not a
    bool given for a non-bool type (bool is a subclass of int, but std::bool is no std::int64) -/
def instOfSetting : STy → JV → Option Scalar
  | .bool, .bool b => some (.bool b)
  | .int, .int i => some (.int i)
  | .str, .str s => some (.str s)
  | _, _ => none

def durErr : Duration.DErr → Err
  | .invalid => .invalidValue | .range => .numericOutOfRange

/-- `Duration(text)` -/
def mkDuration (s : String) : Except Err Scalar :=
  match Duration.usFromPgText s.toList with
  | .ok v => .ok (.dur v)
  | .error e => .error (durErr e)

/-- `Duration.from_iso8601(text)` -/
def mkDurationIso (s : String) : Except Err Scalar :=
  match Duration.parseIso s.toList with
  | some v => .ok (.dur v)
  | none => .error .invalidValue

/-- `ConfigMemory(str | int)` -/
def mkMemory : JV → Except Err Scalar
  | .str s => match Memory.parseMemory s.toList with
    | some n => .ok (.mem n) | none => .error .invalidValue
  | .int i => .ok (.mem i)
  | .bool _ => .error .outOfDomain       -- ConfigMemory(True): not modelled
  | _ => .error .valueError

/-- `EnumScalarType(str)` -/
def mkEnum (vals : List String) (s : String) : Except Err Scalar :=
  if vals.contains s then .ok (.enum s) else .error .invalidValue

/-- `coerce_single_value` -/
def coerceSingle (t : STy) (v : JV) : Except Err Scalar :=
  match instOfSetting t v with
  | some s => .ok s
  | none =>
    match t, v with
    | .dur, .str s => mkDuration s
    | .mem, .str s => mkMemory (.str s)
    | .mem, .int i => mkMemory (.int i)
    | .mem, .bool b => mkMemory (.bool b)
    | .enum vals _, .str s => mkEnum vals s
    | _, _ => .error .configuration

/-- `typeutils.is_container(v)` and the items iteration yields
    (a dict iterates over its keys). -/
def containerItems : JV → Option (List JV)
  | .list l => some l
  | .obj kvs => some (kvs.map fun kv => .str kv.1)
  | _ => none

/-- `all(isinstance(v, T) for v in items)` with the converted items -/
def mapO {α β : Type} (f : α → Option β) : List α → Option (List β)
  | [] => some []
  | x :: r => match f x with
    | none => none
    | some y => match mapO f r with
      | none => none
      | some ys => some (y :: ys)

/-- map with the first error winning (generator consumed left to right) -/
def mapE {α β : Type} (f : α → Except Err β) : List α → Except Err (List β)
  | [] => .ok []
  | x :: r => match f x with
    | .error e => .error e
    | .ok y => match mapE f r with
      | .error e => .error e
      | .ok ys => .ok (y :: ys)

def MAX_CONFIG_SET_SIZE : Nat := 128

/-! ### objects: `CompositeConfigType.from_pyvalue` -/

/-- one `(fieldname, value)` of the input dict, `value` not None, field known -/
def coerceField (f : Field) (v : JV) : Except Err FVal :=
  match f.ty with
  | .set t =>
    match instOf t v with
    | some s => .ok (.set [s])
    | none =>
      match containerItems v with
      | some items =>
        match mapO (instOf t) items with     -- all(isinstance(v, eltype) ...)
        | some ss => .ok (.set (mkSet ss))
        | none => .error .configuration
      | none => .error .configuration
  | .sc .dur =>
    match v with
    | .str s => (mkDurationIso s).map .sc
    | _ => .error .configuration
  | .sc .mem =>
    match v with
    | .str s => (mkMemory (.str s)).map .sc
    | .int i => (mkMemory (.int i)).map .sc
    | .bool b => (mkMemory (.bool b)).map .sc
    | _ => .error .configuration
  | .sc (.enum _ _) =>
    -- `typing_inspect.is_generic_type` is true for EnumScalarType subclasses, so the
    -- frozenset/list branch is taken and rejects the annotation; the enum branch
    -- further down in the real function is dead code
    .error .runtimeError
  | .sc t =>
    match instOf t v with
    | some s => .ok (.sc s)
    | none => .error .configuration

/-- the `for fieldname, value in data.items()` loop: returns `items` (in input
    order) and whether unknown non-null keys were seen. -/
def collectItems (t : TSpec) : List (String × JV) → Except Err (List (String × FVal) × Bool)
  | [] => .ok ([], false)
  | (k, v) :: r =>
    match t.fields.find? (·.name == k) with
    | none =>
      match collectItems t r with
      | .error e => .error e
      | .ok (items, inv) => .ok (items, inv || (match v with | .null => false | _ => true))
    | some f =>
      match v with
      | .null => collectItems t r
      | _ =>
        match coerceField f v with
        | .error e => .error e
        | .ok fv =>
          match collectItems t r with
          | .error e => .error e
          | .ok (items, inv) => .ok ((k, fv) :: items, inv)

def lookupItem (items : List (String × FVal)) (k : String) : Option FVal :=
  (items.find? (·.1 == k)).map (·.2)

/-- missing-required check + `cls(tspec, **items)`; attributes in field order. -/
def buildVals (allowMissing : Bool) (items : List (String × FVal)) :
    List Field → Except Err (List (String × FVal))
  | [] => .ok []
  | f :: r =>
    let v : Except Err FVal :=
      match lookupItem items f.name with
      | some fv => .ok fv
      | none =>
        match f.default with
        | some d => .ok d
        | none => if allowMissing then .ok (.sc .none) else .error .configuration
    match v with
    | .error e => .error e
    | .ok fv => match buildVals allowMissing items r with
      | .error e => .error e
      | .ok vs => .ok ((f.name, fv) :: vs)

/-- `tname = data.pop('_tname', None); if tname is not None: tspec = spec.get_type_by_name(tname)` -/
def resolveType (sp : Spec) (t : TSpec) (kvs : List (String × JV)) : Except Err TSpec :=
  let tn : Option JV := (kvs.find? (·.1 == "_tname")).map (·.2)
  match tn with
  | none => .ok t
  | some .null => .ok t
  | some (.str s) => match sp.getType s with
    | some t' => .ok t' | none => .error .keyError
  | some _ => .error .outOfDomain

/-- the body of `from_pyvalue` once the type is known: field loop, unknown-key
    check, missing-required check, construction -/
def buildObj (t : TSpec) (allowMissing : Bool) (kvs : List (String × JV)) : Except Err Obj :=
  match collectItems t kvs with
  | .error e => .error e
  | .ok (items, inv) =>
    if inv then .error .configuration else
    match buildVals allowMissing items t.fields with
    | .error e => .error e
    | .ok vs => .ok { tspec := t, vals := vs }

/-- `CompositeConfigType.from_pyvalue(data, tspec=…, spec=…, allow_missing=…)`;
    `ok none` is the `return None` of the allow_missing branch. -/
def fromPyValue (sp : Spec) (t : TSpec) (allowMissing : Bool) (data : JV) :
    Except Err (Option Obj) :=
  match data with
  | .null => if allowMissing then .ok none else .error .configuration
  | .obj kvs =>
    match resolveType sp t kvs with
    | .error e => .error e
    | .ok t' =>
      match buildObj t' allowMissing (kvs.filter (·.1 != "_tname")) with
      | .error e => .error e
      | .ok o => .ok (some o)
  | _ => .error .configuration

/-! ### `_check_object_set_uniqueness` -/

/-- `exclusive_keys`: (type name, field name, value) triples seen so far -/
abbrev Excl := List (String × String × FVal)

def exclHas (ex : Excl) (tn fn : String) (v : FVal) : Bool :=
  ex.any fun e => e.1 == tn && e.2.1 == fn && e.2.2.pyEq v

/-- what the exclusivity loop records for field `k` of an object:
    `(site.name, k, value)` when the value is not `None` and the field is
    exclusive on some type up the hierarchy (`site` = the top-most such type) -/
def Obj.exclEntry (o : Obj) (k : String) : Option (String × String × FVal) :=
  match o.getattr k with
  | none | some (.sc .none) => none                        -- getattr(..., None) is None
  | some v =>
    match o.tspec.uniqueSite k with
    | none => none
    | some site => some (site, k, v)

/-- the inner `for name in tspec.fields` loop for one object: each entry is
    recorded under `(site.name, name)` and must not have been seen there. -/
def exclStep (o : Obj) : List String → Excl → Except Err Excl
  | [], ex => .ok ex
  | k :: r, ex =>
    match o.exclEntry k with
    | none => exclStep o r ex
    | some e =>
      if exclHas ex e.1 e.2.1 e.2.2 then .error .constraintViolation
      else exclStep o r (e :: ex)

/-- one iteration of the outer loop -/
def uniqStep (acc : List Obj × Excl) (o : Obj) : Except Err (List Obj × Excl) :=
  match exclStep o (o.tspec.fields.map (·.name)) acc.2 with
  | .error e => .error e
  | .ok ex =>
    if acc.1.any (·.pyEq o) then .error .constraintViolation
    else .ok (acc.1 ++ [o], ex)

/-- `_check_object_set_uniqueness` over a lazily produced sequence: each
    element is produced (may fail) and then checked, left to right. -/
def checkUniqueFrom (produce : α → Except Err Obj) :
    List α → List Obj × Excl → Except Err (List Obj)
  | [], acc => if acc.1.length > MAX_CONFIG_SET_SIZE then .error .configuration else .ok acc.1
  | x :: r, acc =>
    match produce x with
    | .error e => .error e
    | .ok o => match uniqStep acc o with
      | .error e => .error e
      | .ok acc' => checkUniqueFrom produce r acc'

def checkUnique (l : List Obj) : Except Err (List Obj) :=
  checkUniqueFrom (fun o => .ok o) l ([], [])

/-- `from_pyvalue(jv, spec=spec, tspec=t)` with `allow_missing=False`: always an object -/
def objOfJson (sp : Spec) (t : TSpec) (jv : JV) : Except Err Obj :=
  match fromPyValue sp t false jv with
  | .error e => .error e
  | .ok (some o) => .ok o
  | .ok none => .error .outOfDomain      -- unreachable: allow_missing = False

/-- what `len(values)` / iteration see for `coerce_object_set` -/
def sizedItems : JV → Option (List JV)
  | .list l => some l
  | .obj kvs => some (kvs.map fun kv => .str kv.1)
  | .str s => some (s.toList.map fun c => .str (String.singleton c))
  | _ => none

/-- `coerce_object_set` (inside the `try … except (ValueError, TypeError)`) -/
def coerceObjectSet (sp : Spec) (t : TSpec) (setOf : Bool) (v : JV) : Except Err (List Obj) :=
  match sizedItems v with
  | none => .error .configuration            -- len() TypeError, re-raised as ConfigurationError
  | some items =>
    if !setOf && items.length > 1 then .error .constraintViolation else
    checkUniqueFrom (objOfJson sp t) items ([], [])

/-! ### operations -/

inductive OpCode where
  | set | reset | add | rem
deriving DecidableEq, Repr

structure Op where
  code : OpCode
  scope : Scope
  name : String
  value : JV

/-- `Operation.coerce_value` -/
def coerceValue (sp : Spec) (s : Setting) (code : OpCode) (v : JV) (allowMissing : Bool) :
    Except Err Val :=
  match s.ty with
  | .obj t =>
    if code = .set then (coerceObjectSet sp t s.setOf v).map .objs
    else match fromPyValue sp t allowMissing v with
      | .error e => .error e
      | .ok (some o) => .ok (.obj o)
      | .ok none => .ok (.sc .none)
  | .sc t =>
    if s.setOf then
      match v, allowMissing with
      | .null, true => .ok (.sc .none)
      | _, _ =>
        match containerItems v with
        | none => .error .configuration
        | some items =>
          match mapE (coerceSingle t) items with
          | .error e => .error e
          | .ok ss =>
            let st := mkSet ss
            if st.length > MAX_CONFIG_SET_SIZE then .error .configuration else .ok (.set st)
    else
      match coerceSingle t v with
      | .ok x => .ok (.sc x)
      | .error .configuration =>
        match v, allowMissing with
        | .null, true => .ok (.sc .none)
        | _, _ => .error .configuration
      | .error e => .error e

/-- `set_value` via `Operation._set_value` with `source=None` -/
def setValue (m : SMap) (name : String) (v : Val) (scope : Scope) : SMap :=
  m.set name { name := name, value := v, source := scope.source, scope := scope }

/-- `exist_setting.value if exist_setting is not None else setting.default` -/
def existValue (m : SMap) (name : String) (s : Setting) : Val :=
  match m.get name with
  | some sv => sv.value
  | none => s.default

/-- the CONFIG_ADD arm (after coercion) -/
def addValue (m : SMap) (s : Setting) (name : String) (scope : Scope) (value : Val) : Except Err SMap :=
  match s.ty with
  | .sc _ => .error .internalServer
  | .obj _ =>
    match existValue m name s, value with
    | .objs l, .obj o =>
      match checkUnique (l ++ [o]) with
      | .error e => .error e
      | .ok l' => .ok (setValue m name (.objs l') scope)
    | .objs _, _ => .error .outOfDomain      -- unreachable: ADD coerces to an object
    | .set _, _ => .error .outOfDomain
    | _, _ => .error .typeError              -- list(None) / list(<object>)

/-- `new_value = exist_value - {value}`, stored – unless there is no entry at
    this scope and nothing was removed: then the storage is returned unchanged
    (an empty entry would mask the value of a less specific scope). -/
def remStore (m : SMap) (name : String) (scope : Scope) (l l' : List Obj) : SMap :=
  if (m.get name).isNone && l' == l then m else setValue m name (.objs l') scope

/-- the CONFIG_REM arm (after coercion) -/
def remValue (m : SMap) (s : Setting) (name : String) (scope : Scope) (value : Val) : Except Err SMap :=
  match s.ty with
  | .sc _ => .error .internalServer
  | .obj _ =>
    match existValue m name s, value with
    | .objs l, .obj o => .ok (remStore m name scope l (l.filter fun x => !x.pyEq o))
    | .objs l, .sc .none => .ok (remStore m name scope l l)
    | .objs _, _ => .error .outOfDomain
    | .set _, _ => .error .outOfDomain
    | _, _ => .error .typeError              -- None - {…} / <object> - {…}

/-- the four arms of `Operation.apply` once the value has been coerced -/
def applyCoerced (m : SMap) (s : Setting) (op : Op) (value : Val) : Except Err SMap :=
  match op.code with
  | .set => .ok (setValue m op.name value op.scope)
  | .reset => .ok (m.delete op.name)
  | .add => addValue m s op.name op.scope value
  | .rem => remValue m s op.name op.scope value

/-- `allow_missing` -/
def OpCode.allowMissing : OpCode → Bool
  | .rem | .reset => true
  | _ => false

/-- `Operation.apply(spec, storage)` -/
def apply (sp : Spec) (m : SMap) (op : Op) : Except Err SMap :=
  match sp.get op.name with
  | none => .error .configuration
  | some s =>
    match coerceValue sp s op.code op.value op.code.allowMissing with
    | .error e => .error e
    | .ok value => applyCoerced m s op value

/-! ### the three configuration layers -/

structure State where
  sess : SMap := []
  db : SMap := []
  inst : SMap := []
deriving Repr

def State.map (st : State) : Scope → SMap
  | .session => st.sess | .database => st.db | .instance => st.inst

def State.setMap (st : State) (sc : Scope) (m : SMap) : State :=
  match sc with
  | .session => { st with sess := m }
  | .database => { st with db := m }
  | .instance => { st with inst := m }

/-- apply one operation to the layer its scope names; an exception leaves
    every layer as it was -/
def step (sp : Spec) (st : State) (op : Op) : State × Option Err :=
  match apply sp (st.map op.scope) op with
  | .ok m' => (st.setMap op.scope m', none)
  | .error e => (st, some e)

def run (sp : Spec) : State → List Op → State
  | st, [] => st
  | st, op :: r => run sp (step sp st op).1 r

/-- `config.lookup(name, *configs, spec=spec, allow_unrecognized=…)`.
    `ok none` = the `return None` of `allow_unrecognized`. -/
def lookup (sp : Spec) (name : String) (configs : List SMap) (allowUnrecognized : Bool := false) :
    Except Err (Option Val) :=
  match sp.get name with
  | none => if allowUnrecognized then .ok none else .error .configuration
  | some s =>
    match configs.findSome? (·.get name) with
    | some sv => .ok (some sv.value)
    | none => .ok (some s.default)

/-- the effective value as the server reads it: session, then database, then instance -/
def effective (sp : Spec) (st : State) (name : String) : Except Err (Option Val) :=
  lookup sp name [st.sess, st.db, st.inst]

/-! ### JSON value codec -/

/-- a raw atom handed to `json.dumps` -/
def rawToJson : Scalar → Except Err JV
  | .none => .ok .null
  | .bool b => .ok (.bool b)
  | .int i => .ok (.int i)
  | .str s => .ok (.str s)
  | _ => .error .notSerializable    -- json.dumps: not JSON serializable

/-- `value.to_json()` on Duration / ConfigMemory / EnumScalarType instances -/
def scalarToJson : Scalar → Except Err JV
  | .dur us => .ok (.str (String.ofList (Duration.toIso us)))
  | .mem n => .ok (.str (String.ofList (Memory.memToStr n)))
  | .enum s => .ok (.str s)
  | .none => .ok .null
  | _ => .error .attributeError

def STy.isScalarType : STy → Bool
  | .dur | .mem | .enum _ _ => true
  | _ => false

def Obj.fieldToJson (o : Obj) (f : Field) : Except Err (String × JV) :=
  match o.getattr f.name with
  | none => .error .attributeError
  | some v =>
    match f.ty, v with
    | .sc (.enum _ _), .sc .none => .ok (f.name, .list [])   -- the `is_generic_type` branch again
    | .sc (.enum _ _), _ => .error .typeError                -- list(<enum instance>)
    | .set _, .sc .none => .ok (f.name, .list [])
    | .set _, .set l => (mapE rawToJson l).map fun js => (f.name, .list js)
    | .set _, _ => .error .outOfDomain
    | .sc t, .sc s =>
      if t.isScalarType then (scalarToJson s).map fun j => (f.name, j)
      else (rawToJson s).map fun j => (f.name, j)
    | .sc _, .set _ => .error .outOfDomain

/-- `CompositeConfigType.to_json_value()` -/
def Obj.toJson (o : Obj) : Except Err JV :=
  match mapE o.fieldToJson o.tspec.fields with
  | .error e => .error e
  | .ok kvs => .ok (.obj (("_tname", .str o.tspec.name) :: kvs))

/-- `value_to_json_value(setting, value)` (including the `json.dumps` failure
    on non-serialisable atoms) -/
def valueToJson (s : Setting) (v : Val) : Except Err JV :=
  match s.ty, s.setOf, v with
  | .obj _, true, .objs l => (mapE Obj.toJson l).map .list
  | .obj _, true, _ => .error .outOfDomain
  | .sc _, true, .set l => (mapE rawToJson l).map .list
  | .sc _, true, _ => .error .outOfDomain
  | .obj _, false, .sc .none => .ok (.list [])
  | .obj _, false, .obj o => o.toJson.map fun j => .list [j]
  | .obj _, false, _ => .error .attributeError      -- frozenset has no to_json_value
  | .sc t, false, .sc x =>
    if t.isScalarType then scalarToJson x else rawToJson x
  | .sc _, false, _ => .error .outOfDomain

/-- atoms `frozenset(value)` / raw assignment accept from JSON -/
def atomOfJson : JV → Except Err Scalar
  | .null => .ok .none
  | .bool b => .ok (.bool b)
  | .int i => .ok (.int i)
  | .str s => .ok (.str s)
  | _ => .error .typeError          -- unhashable list / dict

/-- `value_from_json_value(spec, setting, value)` -/
def valueFromJson (sp : Spec) (s : Setting) (j : JV) : Except Err Val :=
  match s.ty, s.setOf with
  | .obj t, true =>
    match sizedItems j with
    | none => .error .typeError
    | some items =>
      match mapE (objOfJson sp t) items with
      | .error e => .error e
      | .ok os => .ok (.objs (os.foldl (fun acc o => if acc.any (·.pyEq o) then acc else acc ++ [o]) []))
  | .sc _, true =>
    match sizedItems j with
    | none => .error .typeError
    | some items => (mapE atomOfJson items).map fun ss => .set (mkSet ss)
  | .obj t, false =>
    match j with
    | .null => .ok (.sc .none)
    | .list [] => .ok (.sc .none)
    | .list [x] =>
      match fromPyValue sp t false x with
      | .error e => .error e
      | .ok (some o) => .ok (.obj o)
      | .ok none => .error .outOfDomain
    | .list _ => .error .configuration
    | _ => .error .outOfDomain
  | .sc .dur, false =>
    match j with
    | .str x => (mkDurationIso x).map .sc
    | _ => .error .typeError
  | .sc .mem, false => (mkMemory j).map .sc
  | .sc (.enum vals _), false =>
    match j with
    | .str x => (mkEnum vals x).map .sc
    | _ => .error .outOfDomain
  | .sc _, false =>
    match atomOfJson j with
    | .ok x => .ok (.sc x)
    | .error _ => .error .outOfDomain

/-- one entry of the dict built by `to_json_obj` -/
def toJsonEntry (sp : Spec) (kv : String × SV) : Except Err (String × JV) :=
  match sp.get kv.1 with
  | none => .error .keyError
  | some s =>
    match valueToJson s kv.2.value with
    | .error e => .error e
    | .ok j => .ok (kv.1, JV.obj [("name", .str kv.1), ("source", .str kv.2.source),
                                   ("scope", .str kv.2.scope.name), ("value", j)])

/-- the first error raised while `to_json_obj` builds the dict (i.e. not by `json.dumps`) -/
def firstBuildError (sp : Spec) (m : SMap) : Option Err :=
  m.findSome? fun kv =>
    match toJsonEntry sp kv with
    | .error e => if e = .notSerializable then none else some e
    | .ok _ => none

/-- `to_json_obj` / `to_json` up to `json.dumps`: the dict as a `JV` tree.
    `json.dumps` runs after the whole dict has been built, so its TypeError
    loses against a build-time error of any entry. -/
def toJson (sp : Spec) (m : SMap) : Except Err JV :=
  match mapE (toJsonEntry sp) m with
  | .ok es => .ok (.obj es)
  | .error .notSerializable =>
    match firstBuildError sp m with
    | some e => .error e
    | none => .error .notSerializable
  | .error e => .error e

def jget (kvs : List (String × JV)) (k : String) : Option JV := (kvs.find? (·.1 == k)).map (·.2)

/-- the loop body of `from_json` for one `(key, value)` pair -/
def entryFromJson (sp : Spec) (key : String) (s : Setting) (e : JV) : Except Err SV :=
  match e with
  | .obj kvs =>
    match jget kvs "value" with
    | none => .error .keyError
    | some jv =>
      match valueFromJson sp s jv with
      | .error e => .error e
      | .ok v =>
        match jget kvs "source" with
        | none => .error .keyError
        | some (.str src) =>
          match jget kvs "scope" with
          | none => .error .keyError
          | some (.str sc) =>
            match Scope.ofName sc with
            | some scope => .ok { name := key, value := v, source := src, scope := scope }
            | none => if sc = "GLOBAL" then .error .outOfDomain else .error .valueError
          | some _ => .error .valueError
        | some _ => .error .outOfDomain
  | _ => .error .typeError

def fromJsonEntries (sp : Spec) : List (String × JV) → SMap → Except Err SMap
  | [], m => .ok m
  | (k, e) :: r, m =>
    match sp.get k with
    | none => fromJsonEntries sp r m
    | some s =>
      match entryFromJson sp k s e with
      | .error err => .error err
      | .ok sv => fromJsonEntries sp r (m.set k sv)

/-- `from_json(spec, js)` after `json.loads` -/
def fromJson (sp : Spec) (j : JV) : Except Err SMap :=
  match j with
  | .obj kvs => fromJsonEntries sp kvs []
  | _ => .error .configuration

/-! ### `to_edgeql` -/

/-- strings whose EdgeQL literal is `'` ++ s ++ `'` (the quoting rules proper
    belong to C18/C01) -/
def safeChar (c : Char) : Bool :=
  Duration.isAlpha c || Duration.isDigit c || c == ' ' || c == '_' || c == '.' || c == '/' ||
  c == ':' || c == '-'

def quoteStr (s : String) : Except Err String :=
  if s.toList.all safeChar then .ok ("'" ++ s ++ "'") else .error .outOfDomain

def MIN_INT64 : Int := -9223372036854775808
def MAX_INT64 : Int := 9223372036854775807

/-- `const_ast_from_python` + `generate_source` on an atom -/
def constText : Scalar → Except Err String
  | .str s => quoteStr s
  | .bool b => .ok (if b then "true" else "false")
  | .int i =>
    if MIN_INT64 ≤ i ∧ i ≤ MAX_INT64 then .ok (String.ofList (Duration.intDigits i))
    else .error .valueError
  | .dur us => .ok ("<__std__::duration>'" ++ String.ofList (Duration.toIso us) ++ "'")
  | .enum s => (quoteStr s).map fun q => "<enum>" ++ q     -- placeholder, see `constTextTy`
  | .mem n => .ok ("<cfg::memory>'" ++ String.ofList (Memory.memToStr n) ++ "'")
  | .none => .ok "{}"

/-- enum constants print their EdgeQL type name, which lives in the type -/
def constTextTy (t : STy) (x : Scalar) : Except Err String :=
  match x, t with
  | .enum s, .enum _ ql => (quoteStr s).map fun q => "<" ++ ql ++ ">" ++ q
  | .enum _, _ => .error .outOfDomain
  | _, _ => constText x

def setText (t : STy) (l : List Scalar) : Except Err String :=
  (mapE (constTextTy t) l).map fun ts => "{" ++ ", ".intercalate ts ++ "}"

def FTy.elt : FTy → STy
  | .sc t => t | .set t => t

def Obj.fieldText (o : Obj) (f : Field) : Except Err String :=
  match o.getattr f.name with
  | none => .error .attributeError
  | some (.sc x) => (constTextTy f.ty.elt x).map fun t => "        " ++ f.name ++ " := " ++ t
  | some (.set l) => (setText f.ty.elt l).map fun t => "        " ++ f.name ++ " := " ++ t

/-- the pretty-printed `insert` statement for one object -/
def Obj.insertText (o : Obj) : Except Err String :=
  (mapE o.fieldText o.tspec.fields).map fun fs =>
    "insert\n    " ++ o.tspec.name ++ "\n    {\n" ++ ",\n".intercalate fs ++ "\n    }"

def entryEdgeQL (sp : Spec) (kv : String × SV) : Except Err (List String) :=
  match sp.get kv.1 with
  | none => .ok []
  | some s =>
    let sv := kv.2
    match s.ty with
    | .obj _ =>
      let values : Except Err (List Obj) :=
        if s.setOf then
          match sv.value with
          | .objs l => .ok l
          | _ => .error .outOfDomain
        else
          match sv.value with
          | .obj o => .ok [o]
          | _ => .error .attributeError       -- None._tspec / frozenset._tspec
      match values with
      | .error e => .error e
      | .ok os =>
        (mapE Obj.insertText os).map fun ts =>
          ts.map fun t => "CONFIGURE " ++ sv.scope.toEdgeQL ++ "\n" ++ t ++ ";"
    | .sc t =>
      let txt : Except Err String :=
        match sv.value with
        | .sc x => constTextTy t x
        | .set l => setText t l
        | _ => .error .outOfDomain
      txt.map fun v => ["CONFIGURE " ++ sv.scope.toEdgeQL ++ " SET " ++ kv.1 ++ " := " ++ v ++ ";"]

/-- `to_edgeql(spec, storage, with_secrets)`: the statements (joined with
    newlines by the real function) -/
def toEdgeQL (sp : Spec) (m : SMap) : Except Err (List String) :=
  (mapE (entryEdgeQL sp) m).map List.flatten

end EdbVerif.Config
